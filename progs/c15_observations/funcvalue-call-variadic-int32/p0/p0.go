package p0

import (
	"fmt"
	"reflect"
	"strconv"
	"unsafe"
	"Zmod/sub/g"
	"Zmod/sub/w"
)

var _ = fmt.Sprint
var _ = reflect.TypeOf
var _ = strconv.Itoa
var _ unsafe.Pointer
var _ g.Box[int]
var _ = w.P

type T0_ struct{}

type T1 complex64

func (r *T1) Cplx(c complex128) complex64 {
	if r == nil {
		return 0
	}
	return complex64(c) + complex(float32(0), 1)
}

func (r *T1) Format(f fmt.State, c rune) {
	if r == nil {
		fmt.Fprint(f, "nilT1")
		return
	}
	w_, wok := f.Width()
	p_, pok := f.Precision()
	fmt.Fprintf(f, "T1{%c w=%d/%t p=%d/%t +%t -%t #%t sp%t 0%t n=%d}", c, w_, wok, p_, pok, f.Flag('+'), f.Flag('-'), f.Flag('#'), f.Flag(' '), f.Flag('0'), 0)
}

func (r *T1) String() string {
	if r == nil {
		return "nilT1"
	}
	return "T1.String#" + strconv.Itoa(0)
}

func (r *T1) With(s string, n ...int8) string {
	if r == nil {
		return "nil"
	}
	t := 0
	for _, x := range n {
		t += int(x)
	}
	return s + ":" + strconv.Itoa(t+len(n)*100+0)
}

type T2 T1

func (r T2) Format(f fmt.State, c rune) {
	w_, wok := f.Width()
	p_, pok := f.Precision()
	fmt.Fprintf(f, "T2{%c w=%d/%t p=%d/%t +%t -%t #%t sp%t 0%t n=%d}", c, w_, wok, p_, pok, f.Flag('+'), f.Flag('-'), f.Flag('#'), f.Flag(' '), f.Flag('0'), 0)
}

func (r T2) Get() int {
	return 103 + 0
}

func (r T2) Sum(xs ...int) int {
	s := len(xs) * 1000
	for _, x := range xs {
		s += x
	}
	return s + 0
}

func (r T2) Two() (int, string) {
	return 105 + 0, "T2"
}

type T3 uintptr

type T4 chan<- g.List[T1]

func (r T4) Add(a int, b int) int {
	return a*2 + b + len(r)
}

func (r *T4) Cplx(c complex128) complex64 {
	if r == nil {
		return 0
	}
	return complex64(c) + complex(float32(len((*r))), 1)
}

func (r *T4) GoString() string {
	if r == nil {
		return "(*p0.T4)(nil)"
	}
	return "p0.MkT4(" + strconv.Itoa(len((*r))) + ")"
}

func (r T4) String() string {
	return "T4.String#" + strconv.Itoa(len(r))
}

func (r T4) Sum(xs ...int) int {
	s := len(xs) * 1000
	for _, x := range xs {
		s += x
	}
	return s + len(r)
}

func (r T4) Two() (int, string) {
	return 109 + len(r), "T4"
}

type T5 int

func (r T5) String() string {
	return "T5.String#" + strconv.Itoa(int(r))
}

func (r T5) With(s string, n ...int8) string {
	t := 0
	for _, x := range n {
		t += int(x)
	}
	return s + ":" + strconv.Itoa(t+len(n)*100+int(r))
}

type T6 struct { F0 T4; f1 func(int8, T1) (T3, T2); F2 g.M[float64, T5]; T3 }

func (r *T6) Cplx(c complex128) complex64 {
	if r == nil {
		return 0
	}
	return complex64(c) + complex(float32(0), 1)
}

func (r *T6) Self() *T6 {
	return r
}

func (r *T6) Set(x int) {
	if r == nil {
		return
	}
	_ = x
}

func (r T6) String() string {
	return "T6.String#" + strconv.Itoa(0)
}

func (r T6) Wide(a int8, b float64, c string, d uint16, e bool) (float64, bool) {
	return float64(a) + b*2 + float64(len(c)) + float64(d) + float64(0), !e
}

type T7 struct { F0 *T4 `xml:"n" json:"-"` }

type T8 uint8

func (r *T8) Add(a int, b int) int {
	if r == nil {
		return -1
	}
	return a*2 + b + int((*r))
}

func (r *T8) Cplx(c complex128) complex64 {
	if r == nil {
		return 0
	}
	return complex64(c) + complex(float32(int((*r))), 1)
}

func (r *T8) String() string {
	if r == nil {
		return "nilT8"
	}
	return "T8.String#" + strconv.Itoa(int((*r)))
}

func (r *T8) Wide(a int8, b float64, c string, d uint16, e bool) (float64, bool) {
	if r == nil {
		return 0, false
	}
	return float64(a) + b*2 + float64(len(c)) + float64(d) + float64(int((*r))), !e
}

type T9 complex64

func (r *T9) Cplx(c complex128) complex64 {
	if r == nil {
		return 0
	}
	return complex64(c) + complex(float32(0), 1)
}

func (r *T9) GoString() string {
	if r == nil {
		return "(*p0.T9)(nil)"
	}
	return "p0.MkT9(" + strconv.Itoa(0) + ")"
}

func (r *T9) With(s string, n ...int8) string {
	if r == nil {
		return "nil"
	}
	t := 0
	for _, x := range n {
		t += int(x)
	}
	return s + ":" + strconv.Itoa(t+len(n)*100+0)
}

type T10 map[int16]T10

type T11 uint

func (r *T11) Cplx(c complex128) complex64 {
	if r == nil {
		return 0
	}
	return complex64(c) + complex(float32(int((*r))), 1)
}

func (r T11) String() string {
	return "T11.String#" + strconv.Itoa(int(r))
}

func (r T11) Wide(a int8, b float64, c string, d uint16, e bool) (float64, bool) {
	return float64(a) + b*2 + float64(len(c)) + float64(d) + float64(int(r)), !e
}

type T12 struct { T5; g.Box[complex64]; f2 uint8; F3 uint8 }

func (r *T12) Cplx(c complex128) complex64 {
	if r == nil {
		return 0
	}
	return complex64(c) + complex(float32(int(r.f2)), 1)
}

type T13 struct { F0 T11; T6 }

func (r *T13) Format(f fmt.State, c rune) {
	if r == nil {
		fmt.Fprint(f, "nilT13")
		return
	}
	w_, wok := f.Width()
	p_, pok := f.Precision()
	fmt.Fprintf(f, "T13{%c w=%d/%t p=%d/%t +%t -%t #%t sp%t 0%t n=%d}", c, w_, wok, p_, pok, f.Flag('+'), f.Flag('-'), f.Flag('#'), f.Flag(' '), f.Flag('0'), 0)
}

func (r *T13) Name() string {
	if r == nil {
		return "nilT13"
	}
	return "T13.Name#" + strconv.Itoa(0)
}

func (r T13) Sum(xs ...int) int {
	s := len(xs) * 1000
	for _, x := range xs {
		s += x
	}
	return s + 0
}

func (r *T13) With(s string, n ...int8) string {
	if r == nil {
		return "nil"
	}
	t := 0
	for _, x := range n {
		t += int(x)
	}
	return s + ":" + strconv.Itoa(t+len(n)*100+0)
}

type T14 struct { f0 []float64; F1 T6 }

func (r *T14) GoString() string {
	if r == nil {
		return "(*p0.T14)(nil)"
	}
	return "p0.MkT14(" + strconv.Itoa(0) + ")"
}

type T15 int

func (r *T15) Add(a int, b int) int {
	if r == nil {
		return -1
	}
	return a*2 + b + int((*r))
}

func (r *T15) Get() int {
	if r == nil {
		return -1
	}
	return 116 + int((*r))
}

func (r *T15) Name() string {
	if r == nil {
		return "nilT15"
	}
	return "T15.Name#" + strconv.Itoa(int((*r)))
}

func (r *T15) unexp() {
}

type T16 []T16

func (r T16) GoString() string {
	return "p0.MkT16(" + strconv.Itoa(len(r)) + ")"
}

func (r T16) Self() T16 {
	return r
}

func (r *T16) Set(x int) {
	if r == nil {
		return
	}
	_ = x
}

type T17 struct { F0 struct { F0 uint8 }; T7; T5; T9 }

func (r T17) Add(a int, b int) int {
	return a*2 + b + 0
}

func (r *T17) Error() string {
	if r == nil {
		return "nilT17"
	}
	return "T17.Error#" + strconv.Itoa(0)
}

func (r *T17) Set(x int) {
	if r == nil {
		return
	}
	_ = x
}

func (r *T17) String() string {
	if r == nil {
		return "nilT17"
	}
	return "T17.String#" + strconv.Itoa(0)
}

func (r T17) Sum(xs ...int) int {
	s := len(xs) * 1000
	for _, x := range xs {
		s += x
	}
	return s + 0
}

func (r T17) Two() (int, string) {
	return 122 + 0, "T17"
}

type T18 g.Pair[T3, T5]

type T19 struct { F0 float32; F1 func(...T7) int16; F2 []struct { F0 T4; F1 T11 } }

func (r *T19) Add(a int, b int) int {
	if r == nil {
		return -1
	}
	return a*2 + b + 0
}

func (r *T19) Cplx(c complex128) complex64 {
	if r == nil {
		return 0
	}
	return complex64(c) + complex(float32(0), 1)
}

func (r *T19) Get() int {
	if r == nil {
		return -1
	}
	return 121 + 0
}

func (r *T19) GoString() string {
	if r == nil {
		return "(*p0.T19)(nil)"
	}
	return "p0.MkT19(" + strconv.Itoa(0) + ")"
}

func (r *T19) Set(x int) {
	if r == nil {
		return
	}
	_ = x
}

func (r *T19) unexp() {
}

type T20 bool

func (r T20) Get() int {
	return 120 + 0
}

func (r T20) GoString() string {
	return "p0.MkT20(" + strconv.Itoa(0) + ")"
}

func (r *T20) With(s string, n ...int8) string {
	if r == nil {
		return "nil"
	}
	t := 0
	for _, x := range n {
		t += int(x)
	}
	return s + ":" + strconv.Itoa(t+len(n)*100+0)
}

type T21 struct { F0 struct{} `k:"x y"`; T15; T10 `json:"a"` }

func (r T21) Cplx(c complex128) complex64 {
	return complex64(c) + complex(float32(0), 1)
}

func (r T21) Error() string {
	return "T21.Error#" + strconv.Itoa(0)
}

func (r T21) Format(f fmt.State, c rune) {
	w_, wok := f.Width()
	p_, pok := f.Precision()
	fmt.Fprintf(f, "T21{%c w=%d/%t p=%d/%t +%t -%t #%t sp%t 0%t n=%d}", c, w_, wok, p_, pok, f.Flag('+'), f.Flag('-'), f.Flag('#'), f.Flag(' '), f.Flag('0'), 0)
}

func (r T21) Sum(xs ...int) int {
	s := len(xs) * 1000
	for _, x := range xs {
		s += x
	}
	return s + 0
}

type T22 T7

func (r T22) Name() string {
	return "T22.Name#" + strconv.Itoa(0)
}

func (r *T22) String() string {
	if r == nil {
		return "nilT22"
	}
	return "T22.String#" + strconv.Itoa(0)
}

func (r T22) Sum(xs ...int) int {
	s := len(xs) * 1000
	for _, x := range xs {
		s += x
	}
	return s + 0
}

func (r T22) Two() (int, string) {
	return 125 + 0, "T22"
}

func (r T22) With(s string, n ...int8) string {
	t := 0
	for _, x := range n {
		t += int(x)
	}
	return s + ":" + strconv.Itoa(t+len(n)*100+0)
}

type T23 struct { F0 interface{}; f1 *T23 }

type T24 struct { *T19; *T23; F2 chan<- struct { f0 T11 }; T20 }

func (r T24) Cplx(c complex128) complex64 {
	return complex64(c) + complex(float32(0), 1)
}

func MkT1(k int) T1 {
	switch k {
	case 1:
		return T1(complex(0.0, 1.0))
	case 2:
		return T1(complex(-2.5, -0.5))
	case 3:
		return T1(complex(0.0, 0.0))
	case 4:
		return T1(complex(0.0, 1.0))
	}
	return T1(complex(0.0, 0.0))
}

func MkT2(k int) T2 {
	switch k {
	case 1:
		return T2(MkT1(1))
	case 2:
		return T2(MkT1(2))
	case 3:
		return T2(MkT1(3))
	case 4:
		return T2(MkT1(4))
	}
	return T2(MkT1(0))
}

func MkT3(k int) T3 {
	switch k {
	case 1:
		return T3(8589934593)
	case 2:
		return T3(1000)
	case 3:
		return T3(8589934592)
	case 4:
		return T3(8589934593)
	}
	return T3(8589934592)
}

func MkT4(k int) T4 {
	switch k {
	case 1:
		return (T4)(nil)
	case 2:
		return (T4)(nil)
	case 3:
		return (T4)(make(chan g.List[T1], 0))
	case 4:
		return (T4)(make(chan g.List[T1], 0))
	}
	return (T4)(nil)
}

func MkT5(k int) T5 {
	switch k {
	case 1:
		return T5(-1073741823)
	case 2:
		return T5(99)
	case 3:
		return T5(-30000)
	case 4:
		return T5(-29999)
	}
	return T5(-1073741824)
}

func MkT6(k int) T6 {
	switch k {
	case 1:
		return T6{F0: MkT4(0), f1: (func(int8, T1) (T3, T2))(nil), F2: g.M[float64, T5]{float64(1.5): MkT5(0)}, T3: MkT3(0)}
	case 2:
		return T6{F0: MkT4(0), f1: (func(int8, T1) (T3, T2))(nil), F2: g.M[float64, T5]{}, T3: MkT3(2)}
	case 3:
		return T6{F0: MkT4(3), f1: (func(int8, T1) (T3, T2))(func(a0 int8, a1 T1) (T3, T2) { return MkT3(0), MkT2(0) }), F2: g.M[float64, T5](nil), T3: MkT3(3)}
	case 4:
		return T6{F0: MkT4(3), f1: (func(int8, T1) (T3, T2))(func(a0 int8, a1 T1) (T3, T2) { return MkT3(0), MkT2(0) }), F2: g.M[float64, T5](nil), T3: MkT3(4)}
	}
	return T6{F0: MkT4(0), f1: (func(int8, T1) (T3, T2))(nil), F2: g.M[float64, T5]{float64(1.5): MkT5(2)}, T3: MkT3(0)}
}

func MkT7(k int) T7 {
	switch k {
	case 1:
		return T7{F0: (*T4)(nil)}
	case 2:
		return T7{F0: (*T4)(nil)}
	case 3:
		return T7{F0: (*T4)(nil)}
	case 4:
		return T7{F0: (*T4)(nil)}
	}
	return T7{F0: (*T4)(nil)}
}

func MkT8(k int) T8 {
	switch k {
	case 1:
		return T8(66)
	case 2:
		return T8(0)
	case 3:
		return T8(0)
	case 4:
		return T8(1)
	}
	return T8(65)
}

func MkT9(k int) T9 {
	switch k {
	case 1:
		return T9(complex(0.0, 0.5))
	case 2:
		return T9(complex(0.0, -0.5))
	case 3:
		return T9(complex(0.5, -0.5))
	case 4:
		return T9(complex(0.5, 0.5))
	}
	return T9(complex(0.0, -0.5))
}

func MkT10(k int) T10 {
	switch k {
	case 1:
		return T10(nil)
	case 2:
		return T10{int16(1): *new(T10), int16(2): *new(T10)}
	case 3:
		return T10{int16(1): *new(T10), int16(2): *new(T10)}
	case 4:
		return T10{int16(1): *new(T10), int16(2): *new(T10)}
	}
	return T10(nil)
}

func MkT11(k int) T11 {
	switch k {
	case 1:
		return T11(1001)
	case 2:
		return T11(42)
	case 3:
		return T11(8589934592)
	case 4:
		return T11(8589934593)
	}
	return T11(1000)
}

func MkT12(k int) T12 {
	switch k {
	case 1:
		return T12{T5: MkT5(0), Box: g.MkBox[complex64](complex64(complex(-2.5, 3.25)), 1001), f2: uint8(1), F3: uint8(1)}
	case 2:
		return T12{T5: MkT5(0), Box: g.MkBox[complex64](complex64(complex(0.0, 3.25)), 1), f2: uint8(42), F3: uint8(1)}
	case 3:
		return T12{T5: MkT5(3), Box: g.MkBox[complex64](complex64(complex(-2.5, -0.5)), 1000), f2: uint8(65), F3: uint8(200)}
	case 4:
		return T12{T5: MkT5(3), Box: g.MkBox[complex64](complex64(complex(-2.5, -0.5)), 1000), f2: uint8(65), F3: uint8(201)}
	}
	return T12{T5: MkT5(0), Box: g.MkBox[complex64](complex64(complex(-2.5, 3.25)), 1000), f2: uint8(1), F3: uint8(1)}
}

func MkT13(k int) T13 {
	switch k {
	case 1:
		return T13{F0: MkT11(1), T6: MkT6(2)}
	case 2:
		return T13{F0: MkT11(2), T6: MkT6(0)}
	case 3:
		return T13{F0: MkT11(3), T6: MkT6(3)}
	case 4:
		return T13{F0: MkT11(3), T6: MkT6(4)}
	}
	return T13{F0: MkT11(0), T6: MkT6(2)}
}

func MkT14(k int) T14 {
	switch k {
	case 1:
		return T14{f0: []float64{float64(3.75), float64(0.25)}, F1: MkT6(1)}
	case 2:
		return T14{f0: []float64{}, F1: MkT6(0)}
	case 3:
		return T14{f0: []float64{float64(1.0), float64(3.75)}, F1: MkT6(3)}
	case 4:
		return T14{f0: []float64{float64(1.0), float64(4.25)}, F1: MkT6(3)}
	}
	return T14{f0: []float64{float64(3.75), float64(0.25)}, F1: MkT6(0)}
}

func MkT15(k int) T15 {
	switch k {
	case 1:
		return T15(8)
	case 2:
		return T15(128512)
	case 3:
		return T15(-30000)
	case 4:
		return T15(-29999)
	}
	return T15(7)
}

func MkT16(k int) T16 {
	switch k {
	case 1:
		return T16{*new(T16), *new(T16)}
	case 2:
		return T16{*new(T16), *new(T16)}
	case 3:
		return T16{*new(T16), *new(T16), *new(T16)}
	case 4:
		return T16{*new(T16), *new(T16), *new(T16)}
	}
	return T16{*new(T16), *new(T16)}
}

func MkT17(k int) T17 {
	switch k {
	case 1:
		return T17{F0: struct { F0 uint8 }{F0: uint8(7)}, T7: MkT7(0), T5: MkT5(0), T9: MkT9(0)}
	case 2:
		return T17{F0: struct { F0 uint8 }{F0: uint8(254)}, T7: MkT7(0), T5: MkT5(0), T9: MkT9(2)}
	case 3:
		return T17{F0: struct { F0 uint8 }{F0: uint8(65)}, T7: MkT7(3), T5: MkT5(3), T9: MkT9(3)}
	case 4:
		return T17{F0: struct { F0 uint8 }{F0: uint8(66)}, T7: MkT7(3), T5: MkT5(3), T9: MkT9(3)}
	}
	return T17{F0: struct { F0 uint8 }{F0: uint8(7)}, T7: MkT7(0), T5: MkT5(0), T9: MkT9(2)}
}

func MkT18(k int) T18 {
	switch k {
	case 1:
		return T18(g.MkPair[T3, T5](MkT3(1), MkT5(0)))
	case 2:
		return T18(g.MkPair[T3, T5](MkT3(0), MkT5(0)))
	case 3:
		return T18(g.MkPair[T3, T5](MkT3(3), MkT5(3)))
	case 4:
		return T18(g.MkPair[T3, T5](MkT3(4), MkT5(3)))
	}
	return T18(g.MkPair[T3, T5](MkT3(0), MkT5(0)))
}

func MkT19(k int) T19 {
	switch k {
	case 1:
		return T19{F0: float32(1.0), F1: (func(...T7) int16)(nil), F2: []struct { F0 T4; F1 T11 }{struct { F0 T4; F1 T11 }{F0: MkT4(0), F1: MkT11(0)}, struct { F0 T4; F1 T11 }{F0: MkT4(0), F1: MkT11(0)}}}
	case 2:
		return T19{F0: float32(100.5), F1: (func(...T7) int16)(nil), F2: []struct { F0 T4; F1 T11 }{struct { F0 T4; F1 T11 }{F0: MkT4(0), F1: MkT11(0)}, struct { F0 T4; F1 T11 }{F0: MkT4(2), F1: MkT11(0)}, struct { F0 T4; F1 T11 }{F0: MkT4(0), F1: MkT11(0)}}}
	case 3:
		return T19{F0: float32(0.0), F1: (func(...T7) int16)(func(a0 ...T7) int16 { return int16(7) }), F2: []struct { F0 T4; F1 T11 }{struct { F0 T4; F1 T11 }{F0: MkT4(3), F1: MkT11(3)}}}
	case 4:
		return T19{F0: float32(0.5), F1: (func(...T7) int16)(func(a0 ...T7) int16 { return int16(7) }), F2: []struct { F0 T4; F1 T11 }{struct { F0 T4; F1 T11 }{F0: MkT4(3), F1: MkT11(3)}}}
	}
	return T19{F0: float32(1.0), F1: (func(...T7) int16)(nil), F2: []struct { F0 T4; F1 T11 }{struct { F0 T4; F1 T11 }{F0: MkT4(0), F1: MkT11(0)}, struct { F0 T4; F1 T11 }{F0: MkT4(0), F1: MkT11(2)}}}
}

func MkT20(k int) T20 {
	switch k {
	case 1:
		return T20(false)
	case 2:
		return T20(false)
	case 3:
		return T20(false)
	case 4:
		return T20(true)
	}
	return T20(true)
}

func MkT21(k int) T21 {
	switch k {
	case 1:
		return T21{F0: struct{}{}, T15: MkT15(1), T10: MkT10(0)}
	case 2:
		return T21{F0: struct{}{}, T15: MkT15(0), T10: MkT10(0)}
	case 3:
		return T21{F0: struct{}{}, T15: MkT15(3), T10: MkT10(3)}
	case 4:
		return T21{F0: struct{}{}, T15: MkT15(4), T10: MkT10(3)}
	}
	return T21{F0: struct{}{}, T15: MkT15(0), T10: MkT10(0)}
}

func MkT22(k int) T22 {
	switch k {
	case 1:
		return T22(MkT7(1))
	case 2:
		return T22(MkT7(2))
	case 3:
		return T22(MkT7(3))
	case 4:
		return T22(MkT7(4))
	}
	return T22(MkT7(0))
}

func MkT23(k int) T23 {
	switch k {
	case 1:
		return T23{F0: interface{}(MkT6(1)), f1: (*T23)(nil)}
	case 2:
		return T23{F0: interface{}(nil), f1: (*T23)(nil)}
	case 3:
		return T23{F0: interface{}(nil), f1: (*T23)(nil)}
	case 4:
		return T23{F0: interface{}(nil), f1: (*T23)(nil)}
	}
	return T23{F0: interface{}(MkT6(0)), f1: (*T23)(nil)}
}

func MkT24(k int) T24 {
	switch k {
	case 1:
		return T24{T19: (*T19)(nil), T23: (*T23)(nil), F2: (chan<- struct { f0 T11 })(nil), T20: MkT20(0)}
	case 2:
		return T24{T19: (*T19)(nil), T23: (*T23)(nil), F2: (chan<- struct { f0 T11 })(nil), T20: MkT20(2)}
	case 3:
		return T24{T19: w.Ptr(MkT19(3)), T23: w.Ptr(MkT23(3)), F2: (chan<- struct { f0 T11 })(make(chan struct { f0 T11 }, 0)), T20: MkT20(3)}
	case 4:
		return T24{T19: w.Ptr(MkT19(3)), T23: w.Ptr(MkT23(3)), F2: (chan<- struct { f0 T11 })(make(chan struct { f0 T11 }, 0)), T20: MkT20(4)}
	}
	return T24{T19: (*T19)(nil), T23: (*T23)(nil), F2: (chan<- struct { f0 T11 })(nil), T20: MkT20(2)}
}

func U0() {
	w.Header("0", "N/pppp(complex64)")
	rt := reflect.TypeOf((*T1)(nil)).Elem()
	w.Try("type", func() { w.Type(rt) })
	partners := []reflect.Type{reflect.TypeOf((*T2)(nil)).Elem()}
	w.Try("matrix", func() { w.Matrix(rt, partners) })
	w.Try("same", func() {
		w.Same("ptr", reflect.TypeOf((**T1)(nil)).Elem(), reflect.PointerTo(rt))
		w.Same("slice", reflect.TypeOf((*[]T1)(nil)).Elem(), reflect.SliceOf(rt))
		w.Same("array", reflect.TypeOf((*[3]T1)(nil)).Elem(), reflect.ArrayOf(3, rt))
		w.Same("chan", reflect.TypeOf((*<-chan T1)(nil)).Elem(), reflect.ChanOf(reflect.RecvDir, rt))
		w.Same("map", reflect.TypeOf((*map[string]T1)(nil)).Elem(), reflect.MapOf(reflect.TypeOf(""), rt))
		w.Same("func", reflect.TypeOf((*func(T1, ...T1) *T1)(nil)).Elem(), reflect.FuncOf([]reflect.Type{rt, reflect.SliceOf(rt)}, []reflect.Type{reflect.PointerTo(rt)}, true))
	})
	var x T1 = MkT1(0)
	var y T1 = MkT1(1)
	var z T1 = MkT1(0)
	var d T1 = MkT1(3)
	var e T1 = MkT1(4)
	w.Value("x", &x)
	w.Value("d", &d)
	w.Deep("xy", &x, &y)
	w.Deep("xz", &x, &z)
	w.Deep("de", &d, &e)
	w.Try("conv", func() { w.Conv("x", &x, partners) })
	w.Fmt("x", &x)
	w.Fmt("z", &z)
	w.ZeroFmt("t", rt)
	w.TypeCalls("d", &d)
	w.Calls("d", &d)
	_, _, _ = y, z, e
}

func U1() {
	w.Header("1", "N/vvvv(N/pppp(complex64))")
	rt := reflect.TypeOf((*T2)(nil)).Elem()
	w.Try("type", func() { w.Type(rt) })
	partners := []reflect.Type{reflect.TypeOf((*T1)(nil)).Elem(), reflect.TypeOf((*T1)(nil)).Elem(), reflect.TypeOf((*T1)(nil)).Elem(), reflect.TypeOf((*T1)(nil)).Elem()}
	w.Try("matrix", func() { w.Matrix(rt, partners) })
	w.Try("same", func() {
		w.Same("ptr", reflect.TypeOf((**T2)(nil)).Elem(), reflect.PointerTo(rt))
		w.Same("slice", reflect.TypeOf((*[]T2)(nil)).Elem(), reflect.SliceOf(rt))
		w.Same("array", reflect.TypeOf((*[3]T2)(nil)).Elem(), reflect.ArrayOf(3, rt))
		w.Same("chan", reflect.TypeOf((*<-chan T2)(nil)).Elem(), reflect.ChanOf(reflect.RecvDir, rt))
		w.Same("map", reflect.TypeOf((*map[string]T2)(nil)).Elem(), reflect.MapOf(reflect.TypeOf(""), rt))
		w.Same("func", reflect.TypeOf((*func(T2, ...T2) *T2)(nil)).Elem(), reflect.FuncOf([]reflect.Type{rt, reflect.SliceOf(rt)}, []reflect.Type{reflect.PointerTo(rt)}, true))
	})
	var x T2 = MkT2(0)
	var y T2 = MkT2(1)
	var z T2 = MkT2(0)
	var d T2 = MkT2(3)
	var e T2 = MkT2(4)
	w.Value("x", &x)
	w.Value("d", &d)
	w.Deep("xy", &x, &y)
	w.Deep("xz", &x, &z)
	w.Deep("de", &d, &e)
	w.Try("conv", func() { w.Conv("x", &x, partners) })
	w.Fmt("x", &x)
	w.Fmt("z", &z)
	w.ZeroFmt("t", rt)
	w.TypeCalls("d", &d)
	w.Calls("d", &d)
	_, _, _ = y, z, e
}

func U2() {
	w.Header("2", "N(uintptr)")
	rt := reflect.TypeOf((*T3)(nil)).Elem()
	w.Try("type", func() { w.Type(rt) })
	partners := []reflect.Type{reflect.TypeOf((*T2)(nil)).Elem(), reflect.TypeOf((*T1)(nil)).Elem(), reflect.TypeOf((*T2)(nil)).Elem()}
	w.Try("matrix", func() { w.Matrix(rt, partners) })
	w.Try("same", func() {
		w.Same("ptr", reflect.TypeOf((**T3)(nil)).Elem(), reflect.PointerTo(rt))
		w.Same("slice", reflect.TypeOf((*[]T3)(nil)).Elem(), reflect.SliceOf(rt))
		w.Same("array", reflect.TypeOf((*[3]T3)(nil)).Elem(), reflect.ArrayOf(3, rt))
		w.Same("chan", reflect.TypeOf((*<-chan T3)(nil)).Elem(), reflect.ChanOf(reflect.RecvDir, rt))
		w.Same("map", reflect.TypeOf((*map[string]T3)(nil)).Elem(), reflect.MapOf(reflect.TypeOf(""), rt))
		w.Same("func", reflect.TypeOf((*func(T3, ...T3) *T3)(nil)).Elem(), reflect.FuncOf([]reflect.Type{rt, reflect.SliceOf(rt)}, []reflect.Type{reflect.PointerTo(rt)}, true))
	})
	var x T3 = MkT3(0)
	var y T3 = MkT3(1)
	var z T3 = MkT3(0)
	var d T3 = MkT3(3)
	var e T3 = MkT3(4)
	w.Value("x", &x)
	w.Value("d", &d)
	w.Deep("xy", &x, &y)
	w.Deep("xz", &x, &z)
	w.Deep("de", &d, &e)
	w.Try("conv", func() { w.Conv("x", &x, partners) })
	w.Fmt("x", &x)
	w.Fmt("z", &z)
	w.ZeroFmt("t", rt)
	w.TypeCalls("d", &d)
	w.Calls("d", &d)
	_, _, _ = y, z, e
}

func U3() {
	w.Header("3", "N/ppvvvv(chan<-g.List[N])")
	rt := reflect.TypeOf((*T4)(nil)).Elem()
	w.Try("type", func() { w.Type(rt) })
	partners := []reflect.Type{reflect.TypeOf((*T2)(nil)).Elem(), reflect.TypeOf((*T2)(nil)).Elem(), reflect.TypeOf((*T2)(nil)).Elem()}
	w.Try("matrix", func() { w.Matrix(rt, partners) })
	w.Try("same", func() {
		w.Same("ptr", reflect.TypeOf((**T4)(nil)).Elem(), reflect.PointerTo(rt))
		w.Same("slice", reflect.TypeOf((*[]T4)(nil)).Elem(), reflect.SliceOf(rt))
		w.Same("array", reflect.TypeOf((*[3]T4)(nil)).Elem(), reflect.ArrayOf(3, rt))
		w.Same("chan", reflect.TypeOf((*<-chan T4)(nil)).Elem(), reflect.ChanOf(reflect.RecvDir, rt))
		w.Same("map", reflect.TypeOf((*map[string]T4)(nil)).Elem(), reflect.MapOf(reflect.TypeOf(""), rt))
		w.Same("func", reflect.TypeOf((*func(T4, ...T4) *T4)(nil)).Elem(), reflect.FuncOf([]reflect.Type{rt, reflect.SliceOf(rt)}, []reflect.Type{reflect.PointerTo(rt)}, true))
	})
	var x T4 = MkT4(0)
	var y T4 = MkT4(0)
	var z T4 = MkT4(0)
	var d T4 = MkT4(3)
	var e T4 = MkT4(3)
	w.Value("x", &x)
	w.Value("d", &d)
	w.Deep("xy", &x, &y)
	w.Deep("xz", &x, &z)
	w.Deep("de", &d, &e)
	w.Try("conv", func() { w.Conv("x", &x, partners) })
	w.Fmt("x", &x)
	w.Fmt("z", &z)
	w.ZeroFmt("t", rt)
	w.TypeCalls("d", &d)
	w.Calls("d", &d)
	_, _, _ = y, z, e
}

func U4() {
	w.Header("4", "N/vv(int)")
	rt := reflect.TypeOf((*T5)(nil)).Elem()
	w.Try("type", func() { w.Type(rt) })
	partners := []reflect.Type{reflect.TypeOf((*T1)(nil)).Elem(), reflect.TypeOf((*T1)(nil)).Elem(), reflect.TypeOf((*T4)(nil)).Elem()}
	w.Try("matrix", func() { w.Matrix(rt, partners) })
	w.Try("same", func() {
		w.Same("ptr", reflect.TypeOf((**T5)(nil)).Elem(), reflect.PointerTo(rt))
		w.Same("slice", reflect.TypeOf((*[]T5)(nil)).Elem(), reflect.SliceOf(rt))
		w.Same("array", reflect.TypeOf((*[3]T5)(nil)).Elem(), reflect.ArrayOf(3, rt))
		w.Same("chan", reflect.TypeOf((*<-chan T5)(nil)).Elem(), reflect.ChanOf(reflect.RecvDir, rt))
		w.Same("map", reflect.TypeOf((*map[string]T5)(nil)).Elem(), reflect.MapOf(reflect.TypeOf(""), rt))
		w.Same("func", reflect.TypeOf((*func(T5, ...T5) *T5)(nil)).Elem(), reflect.FuncOf([]reflect.Type{rt, reflect.SliceOf(rt)}, []reflect.Type{reflect.PointerTo(rt)}, true))
	})
	var x T5 = MkT5(0)
	var y T5 = MkT5(1)
	var z T5 = MkT5(0)
	var d T5 = MkT5(3)
	var e T5 = MkT5(4)
	w.Value("x", &x)
	w.Value("d", &d)
	w.Deep("xy", &x, &y)
	w.Deep("xz", &x, &z)
	w.Deep("de", &d, &e)
	w.Try("conv", func() { w.Conv("x", &x, partners) })
	w.Fmt("x", &x)
	w.Fmt("z", &z)
	w.ZeroFmt("t", rt)
	w.TypeCalls("d", &d)
	w.Calls("d", &d)
	_, _, _ = y, z, e
}

func U5() {
	w.Header("5", "N/pppvv(struct{N/ppvvvv(chan<-G);u:func(int8,N)(N,N);g.M[float64,N];E:N(uintptr)})")
	rt := reflect.TypeOf((*T6)(nil)).Elem()
	w.Try("type", func() { w.Type(rt) })
	partners := []reflect.Type{reflect.TypeOf((*T4)(nil)).Elem(), reflect.TypeOf((*T4)(nil)).Elem(), reflect.TypeOf((*T3)(nil)).Elem()}
	w.Try("matrix", func() { w.Matrix(rt, partners) })
	w.Try("same", func() {
		w.Same("ptr", reflect.TypeOf((**T6)(nil)).Elem(), reflect.PointerTo(rt))
		w.Same("slice", reflect.TypeOf((*[]T6)(nil)).Elem(), reflect.SliceOf(rt))
		w.Same("array", reflect.TypeOf((*[3]T6)(nil)).Elem(), reflect.ArrayOf(3, rt))
		w.Same("chan", reflect.TypeOf((*<-chan T6)(nil)).Elem(), reflect.ChanOf(reflect.RecvDir, rt))
		w.Same("map", reflect.TypeOf((*map[string]T6)(nil)).Elem(), reflect.MapOf(reflect.TypeOf(""), rt))
		w.Same("func", reflect.TypeOf((*func(T6, ...T6) *T6)(nil)).Elem(), reflect.FuncOf([]reflect.Type{rt, reflect.SliceOf(rt)}, []reflect.Type{reflect.PointerTo(rt)}, true))
	})
	var x T6 = MkT6(0)
	var y T6 = MkT6(1)
	var z T6 = MkT6(0)
	var d T6 = MkT6(3)
	var e T6 = MkT6(4)
	w.Value("x", &x)
	w.Value("d", &d)
	w.Deep("xy", &x, &y)
	w.Deep("xz", &x, &z)
	w.Deep("de", &d, &e)
	w.Try("conv", func() { w.Conv("x", &x, partners) })
	w.Fmt("x", &x)
	w.Fmt("z", &z)
	w.ZeroFmt("t", rt)
	w.TypeCalls("d", &d)
	w.Calls("d", &d)
	_, _, _ = y, z, e
}

func U6() {
	w.Header("6", "N(struct{*N`})")
	rt := reflect.TypeOf((*T7)(nil)).Elem()
	w.Try("type", func() { w.Type(rt) })
	partners := []reflect.Type{reflect.TypeOf((*T22)(nil)).Elem(), reflect.TypeOf((*T1)(nil)).Elem(), reflect.TypeOf((*T3)(nil)).Elem(), reflect.TypeOf((*T2)(nil)).Elem()}
	w.Try("matrix", func() { w.Matrix(rt, partners) })
	w.Try("same", func() {
		w.Same("ptr", reflect.TypeOf((**T7)(nil)).Elem(), reflect.PointerTo(rt))
		w.Same("slice", reflect.TypeOf((*[]T7)(nil)).Elem(), reflect.SliceOf(rt))
		w.Same("array", reflect.TypeOf((*[3]T7)(nil)).Elem(), reflect.ArrayOf(3, rt))
		w.Same("chan", reflect.TypeOf((*<-chan T7)(nil)).Elem(), reflect.ChanOf(reflect.RecvDir, rt))
		w.Same("map", reflect.TypeOf((*map[string]T7)(nil)).Elem(), reflect.MapOf(reflect.TypeOf(""), rt))
		w.Same("func", reflect.TypeOf((*func(T7, ...T7) *T7)(nil)).Elem(), reflect.FuncOf([]reflect.Type{rt, reflect.SliceOf(rt)}, []reflect.Type{reflect.PointerTo(rt)}, true))
	})
	var x T7 = MkT7(0)
	var y T7 = MkT7(0)
	var z T7 = MkT7(0)
	var d T7 = MkT7(3)
	var e T7 = MkT7(3)
	w.Value("x", &x)
	w.Value("d", &d)
	w.Deep("xy", &x, &y)
	w.Deep("xz", &x, &z)
	w.Deep("de", &d, &e)
	w.Try("conv", func() { w.Conv("x", &x, partners) })
	w.P("F skipped: nil pointers or interfaces on the path of a promoted fmt method")
	w.TypeCalls("d", &d)
	w.Calls("d", &d)
	_, _, _ = y, z, e
}

func U7() {
	w.Header("7", "N/pppp(uint8)")
	rt := reflect.TypeOf((*T8)(nil)).Elem()
	w.Try("type", func() { w.Type(rt) })
	partners := []reflect.Type{reflect.TypeOf((*T4)(nil)).Elem(), reflect.TypeOf((*T3)(nil)).Elem(), reflect.TypeOf((*T7)(nil)).Elem()}
	w.Try("matrix", func() { w.Matrix(rt, partners) })
	w.Try("same", func() {
		w.Same("ptr", reflect.TypeOf((**T8)(nil)).Elem(), reflect.PointerTo(rt))
		w.Same("slice", reflect.TypeOf((*[]T8)(nil)).Elem(), reflect.SliceOf(rt))
		w.Same("array", reflect.TypeOf((*[3]T8)(nil)).Elem(), reflect.ArrayOf(3, rt))
		w.Same("chan", reflect.TypeOf((*<-chan T8)(nil)).Elem(), reflect.ChanOf(reflect.RecvDir, rt))
		w.Same("map", reflect.TypeOf((*map[string]T8)(nil)).Elem(), reflect.MapOf(reflect.TypeOf(""), rt))
		w.Same("func", reflect.TypeOf((*func(T8, ...T8) *T8)(nil)).Elem(), reflect.FuncOf([]reflect.Type{rt, reflect.SliceOf(rt)}, []reflect.Type{reflect.PointerTo(rt)}, true))
	})
	var x T8 = MkT8(0)
	var y T8 = MkT8(1)
	var z T8 = MkT8(2)
	var d T8 = MkT8(3)
	var e T8 = MkT8(4)
	w.Value("x", &x)
	w.Value("d", &d)
	w.Deep("xy", &x, &y)
	w.Deep("xz", &x, &z)
	w.Deep("de", &d, &e)
	w.Try("conv", func() { w.Conv("x", &x, partners) })
	w.Fmt("x", &x)
	w.Fmt("z", &z)
	w.ZeroFmt("t", rt)
	w.TypeCalls("d", &d)
	w.Calls("d", &d)
	_, _, _ = y, z, e
}

func U8() {
	w.Header("8", "N/ppp(complex64)")
	rt := reflect.TypeOf((*T9)(nil)).Elem()
	w.Try("type", func() { w.Type(rt) })
	partners := []reflect.Type{reflect.TypeOf((*T7)(nil)).Elem(), reflect.TypeOf((*T8)(nil)).Elem(), reflect.TypeOf((*T6)(nil)).Elem()}
	w.Try("matrix", func() { w.Matrix(rt, partners) })
	w.Try("same", func() {
		w.Same("ptr", reflect.TypeOf((**T9)(nil)).Elem(), reflect.PointerTo(rt))
		w.Same("slice", reflect.TypeOf((*[]T9)(nil)).Elem(), reflect.SliceOf(rt))
		w.Same("array", reflect.TypeOf((*[3]T9)(nil)).Elem(), reflect.ArrayOf(3, rt))
		w.Same("chan", reflect.TypeOf((*<-chan T9)(nil)).Elem(), reflect.ChanOf(reflect.RecvDir, rt))
		w.Same("map", reflect.TypeOf((*map[string]T9)(nil)).Elem(), reflect.MapOf(reflect.TypeOf(""), rt))
		w.Same("func", reflect.TypeOf((*func(T9, ...T9) *T9)(nil)).Elem(), reflect.FuncOf([]reflect.Type{rt, reflect.SliceOf(rt)}, []reflect.Type{reflect.PointerTo(rt)}, true))
	})
	var x T9 = MkT9(2)
	var y T9 = MkT9(0)
	var z T9 = MkT9(0)
	var d T9 = MkT9(3)
	var e T9 = MkT9(4)
	w.Value("x", &x)
	w.Value("d", &d)
	w.Deep("xy", &x, &y)
	w.Deep("xz", &x, &z)
	w.Deep("de", &d, &e)
	w.Try("conv", func() { w.Conv("x", &x, partners) })
	w.Fmt("x", &x)
	w.Fmt("z", &z)
	w.ZeroFmt("t", rt)
	w.TypeCalls("d", &d)
	w.Calls("d", &d)
	_, _, _ = y, z, e
}

func U9() {
	w.Header("9", "N(map[int16]N(map[int16]N))")
	rt := reflect.TypeOf((*T10)(nil)).Elem()
	w.Try("type", func() { w.Type(rt) })
	partners := []reflect.Type{reflect.TypeOf((*T6)(nil)).Elem(), reflect.TypeOf((*T8)(nil)).Elem(), reflect.TypeOf((*T8)(nil)).Elem()}
	w.Try("matrix", func() { w.Matrix(rt, partners) })
	w.Try("same", func() {
		w.Same("ptr", reflect.TypeOf((**T10)(nil)).Elem(), reflect.PointerTo(rt))
		w.Same("slice", reflect.TypeOf((*[]T10)(nil)).Elem(), reflect.SliceOf(rt))
		w.Same("array", reflect.TypeOf((*[3]T10)(nil)).Elem(), reflect.ArrayOf(3, rt))
		w.Same("chan", reflect.TypeOf((*<-chan T10)(nil)).Elem(), reflect.ChanOf(reflect.RecvDir, rt))
		w.Same("map", reflect.TypeOf((*map[string]T10)(nil)).Elem(), reflect.MapOf(reflect.TypeOf(""), rt))
		w.Same("func", reflect.TypeOf((*func(T10, ...T10) *T10)(nil)).Elem(), reflect.FuncOf([]reflect.Type{rt, reflect.SliceOf(rt)}, []reflect.Type{reflect.PointerTo(rt)}, true))
	})
	var x T10 = MkT10(0)
	var y T10 = MkT10(0)
	var z T10 = MkT10(0)
	var d T10 = MkT10(3)
	var e T10 = MkT10(3)
	w.Value("x", &x)
	w.Value("d", &d)
	w.Deep("xy", &x, &y)
	w.Deep("xz", &x, &z)
	w.Deep("de", &d, &e)
	w.Try("conv", func() { w.Conv("x", &x, partners) })
	w.Fmt("x", &x)
	w.Fmt("z", &z)
	w.ZeroFmt("t", rt)
	w.TypeCalls("d", &d)
	w.Calls("d", &d)
	_, _, _ = y, z, e
}

func U10() {
	w.Header("10", "N/pvv(uint)")
	rt := reflect.TypeOf((*T11)(nil)).Elem()
	w.Try("type", func() { w.Type(rt) })
	partners := []reflect.Type{reflect.TypeOf((*T5)(nil)).Elem(), reflect.TypeOf((*T4)(nil)).Elem(), reflect.TypeOf((*T4)(nil)).Elem()}
	w.Try("matrix", func() { w.Matrix(rt, partners) })
	w.Try("same", func() {
		w.Same("ptr", reflect.TypeOf((**T11)(nil)).Elem(), reflect.PointerTo(rt))
		w.Same("slice", reflect.TypeOf((*[]T11)(nil)).Elem(), reflect.SliceOf(rt))
		w.Same("array", reflect.TypeOf((*[3]T11)(nil)).Elem(), reflect.ArrayOf(3, rt))
		w.Same("chan", reflect.TypeOf((*<-chan T11)(nil)).Elem(), reflect.ChanOf(reflect.RecvDir, rt))
		w.Same("map", reflect.TypeOf((*map[string]T11)(nil)).Elem(), reflect.MapOf(reflect.TypeOf(""), rt))
		w.Same("func", reflect.TypeOf((*func(T11, ...T11) *T11)(nil)).Elem(), reflect.FuncOf([]reflect.Type{rt, reflect.SliceOf(rt)}, []reflect.Type{reflect.PointerTo(rt)}, true))
	})
	var x T11 = MkT11(0)
	var y T11 = MkT11(1)
	var z T11 = MkT11(0)
	var d T11 = MkT11(3)
	var e T11 = MkT11(4)
	w.Value("x", &x)
	w.Value("d", &d)
	w.Deep("xy", &x, &y)
	w.Deep("xz", &x, &z)
	w.Deep("de", &d, &e)
	w.Try("conv", func() { w.Conv("x", &x, partners) })
	w.Fmt("x", &x)
	w.Fmt("z", &z)
	w.ZeroFmt("t", rt)
	w.TypeCalls("d", &d)
	w.Calls("d", &d)
	_, _, _ = y, z, e
}

func U11() {
	w.Header("11", "N/p(struct{E:N/vv(int);E:g.Box[complex64];u:uint8;uint8})")
	rt := reflect.TypeOf((*T12)(nil)).Elem()
	w.Try("type", func() { w.Type(rt) })
	partners := []reflect.Type{reflect.TypeOf((*T10)(nil)).Elem(), reflect.TypeOf((*T4)(nil)).Elem(), reflect.TypeOf((*T8)(nil)).Elem()}
	w.Try("matrix", func() { w.Matrix(rt, partners) })
	w.Try("same", func() {
		w.Same("ptr", reflect.TypeOf((**T12)(nil)).Elem(), reflect.PointerTo(rt))
		w.Same("slice", reflect.TypeOf((*[]T12)(nil)).Elem(), reflect.SliceOf(rt))
		w.Same("array", reflect.TypeOf((*[3]T12)(nil)).Elem(), reflect.ArrayOf(3, rt))
		w.Same("chan", reflect.TypeOf((*<-chan T12)(nil)).Elem(), reflect.ChanOf(reflect.RecvDir, rt))
		w.Same("map", reflect.TypeOf((*map[string]T12)(nil)).Elem(), reflect.MapOf(reflect.TypeOf(""), rt))
		w.Same("func", reflect.TypeOf((*func(T12, ...T12) *T12)(nil)).Elem(), reflect.FuncOf([]reflect.Type{rt, reflect.SliceOf(rt)}, []reflect.Type{reflect.PointerTo(rt)}, true))
	})
	var x T12 = MkT12(0)
	var y T12 = MkT12(1)
	var z T12 = MkT12(0)
	var d T12 = MkT12(3)
	var e T12 = MkT12(4)
	w.Value("x", &x)
	w.Value("d", &d)
	w.Deep("xy", &x, &y)
	w.Deep("xz", &x, &z)
	w.Deep("de", &d, &e)
	w.Try("conv", func() { w.Conv("x", &x, partners) })
	w.Fmt("x", &x)
	w.Fmt("z", &z)
	w.ZeroFmt("t", rt)
	w.TypeCalls("d", &d)
	w.Calls("d", &d)
	_, _, _ = y, z, e
}

func U12() {
	w.Header("12", "N/pppv(struct{N/pvv(uint);E:N/pppvv(struct{N;u:func;G;E:N})})")
	rt := reflect.TypeOf((*T13)(nil)).Elem()
	w.Try("type", func() { w.Type(rt) })
	partners := []reflect.Type{reflect.TypeOf((*T4)(nil)).Elem(), reflect.TypeOf((*T9)(nil)).Elem(), reflect.TypeOf((*T9)(nil)).Elem()}
	w.Try("matrix", func() { w.Matrix(rt, partners) })
	w.Try("same", func() {
		w.Same("ptr", reflect.TypeOf((**T13)(nil)).Elem(), reflect.PointerTo(rt))
		w.Same("slice", reflect.TypeOf((*[]T13)(nil)).Elem(), reflect.SliceOf(rt))
		w.Same("array", reflect.TypeOf((*[3]T13)(nil)).Elem(), reflect.ArrayOf(3, rt))
		w.Same("chan", reflect.TypeOf((*<-chan T13)(nil)).Elem(), reflect.ChanOf(reflect.RecvDir, rt))
		w.Same("map", reflect.TypeOf((*map[string]T13)(nil)).Elem(), reflect.MapOf(reflect.TypeOf(""), rt))
		w.Same("func", reflect.TypeOf((*func(T13, ...T13) *T13)(nil)).Elem(), reflect.FuncOf([]reflect.Type{rt, reflect.SliceOf(rt)}, []reflect.Type{reflect.PointerTo(rt)}, true))
	})
	var x T13 = MkT13(0)
	var y T13 = MkT13(1)
	var z T13 = MkT13(0)
	var d T13 = MkT13(3)
	var e T13 = MkT13(4)
	w.Value("x", &x)
	w.Value("d", &d)
	w.Deep("xy", &x, &y)
	w.Deep("xz", &x, &z)
	w.Deep("de", &d, &e)
	w.Try("conv", func() { w.Conv("x", &x, partners) })
	w.Fmt("x", &x)
	w.Fmt("z", &z)
	w.ZeroFmt("t", rt)
	w.TypeCalls("d", &d)
	w.Calls("d", &d)
	_, _, _ = y, z, e
}

func U13() {
	w.Header("13", "N/p(struct{u:[]float64;N/pppvv(struct{N;u:func;G;E:N})})")
	rt := reflect.TypeOf((*T14)(nil)).Elem()
	w.Try("type", func() { w.Type(rt) })
	partners := []reflect.Type{reflect.TypeOf((*T11)(nil)).Elem(), reflect.TypeOf((*T7)(nil)).Elem(), reflect.TypeOf((*T3)(nil)).Elem()}
	w.Try("matrix", func() { w.Matrix(rt, partners) })
	w.Try("same", func() {
		w.Same("ptr", reflect.TypeOf((**T14)(nil)).Elem(), reflect.PointerTo(rt))
		w.Same("slice", reflect.TypeOf((*[]T14)(nil)).Elem(), reflect.SliceOf(rt))
		w.Same("array", reflect.TypeOf((*[3]T14)(nil)).Elem(), reflect.ArrayOf(3, rt))
		w.Same("chan", reflect.TypeOf((*<-chan T14)(nil)).Elem(), reflect.ChanOf(reflect.RecvDir, rt))
		w.Same("map", reflect.TypeOf((*map[string]T14)(nil)).Elem(), reflect.MapOf(reflect.TypeOf(""), rt))
		w.Same("func", reflect.TypeOf((*func(T14, ...T14) *T14)(nil)).Elem(), reflect.FuncOf([]reflect.Type{rt, reflect.SliceOf(rt)}, []reflect.Type{reflect.PointerTo(rt)}, true))
	})
	var x T14 = MkT14(0)
	var y T14 = MkT14(1)
	var z T14 = MkT14(0)
	var d T14 = MkT14(3)
	var e T14 = MkT14(4)
	w.Value("x", &x)
	w.Value("d", &d)
	w.Deep("xy", &x, &y)
	w.Deep("xz", &x, &z)
	w.Deep("de", &d, &e)
	w.Try("conv", func() { w.Conv("x", &x, partners) })
	w.Fmt("x", &x)
	w.Fmt("z", &z)
	w.ZeroFmt("t", rt)
	w.TypeCalls("d", &d)
	w.Calls("d", &d)
	_, _, _ = y, z, e
}

func U14() {
	w.Header("14", "N/ppppu(int)")
	rt := reflect.TypeOf((*T15)(nil)).Elem()
	w.Try("type", func() { w.Type(rt) })
	partners := []reflect.Type{reflect.TypeOf((*T3)(nil)).Elem(), reflect.TypeOf((*T12)(nil)).Elem(), reflect.TypeOf((*T13)(nil)).Elem()}
	w.Try("matrix", func() { w.Matrix(rt, partners) })
	w.Try("same", func() {
		w.Same("ptr", reflect.TypeOf((**T15)(nil)).Elem(), reflect.PointerTo(rt))
		w.Same("slice", reflect.TypeOf((*[]T15)(nil)).Elem(), reflect.SliceOf(rt))
		w.Same("array", reflect.TypeOf((*[3]T15)(nil)).Elem(), reflect.ArrayOf(3, rt))
		w.Same("chan", reflect.TypeOf((*<-chan T15)(nil)).Elem(), reflect.ChanOf(reflect.RecvDir, rt))
		w.Same("map", reflect.TypeOf((*map[string]T15)(nil)).Elem(), reflect.MapOf(reflect.TypeOf(""), rt))
		w.Same("func", reflect.TypeOf((*func(T15, ...T15) *T15)(nil)).Elem(), reflect.FuncOf([]reflect.Type{rt, reflect.SliceOf(rt)}, []reflect.Type{reflect.PointerTo(rt)}, true))
	})
	var x T15 = MkT15(0)
	var y T15 = MkT15(1)
	var z T15 = MkT15(2)
	var d T15 = MkT15(3)
	var e T15 = MkT15(4)
	w.Value("x", &x)
	w.Value("d", &d)
	w.Deep("xy", &x, &y)
	w.Deep("xz", &x, &z)
	w.Deep("de", &d, &e)
	w.Try("conv", func() { w.Conv("x", &x, partners) })
	w.Fmt("x", &x)
	w.Fmt("z", &z)
	w.ZeroFmt("t", rt)
	w.TypeCalls("d", &d)
	w.Calls("d", &d)
	_, _, _ = y, z, e
}

func U15() {
	w.Header("15", "N/pvv([]N/pvv([]N))")
	rt := reflect.TypeOf((*T16)(nil)).Elem()
	w.Try("type", func() { w.Type(rt) })
	partners := []reflect.Type{reflect.TypeOf((*T13)(nil)).Elem(), reflect.TypeOf((*T9)(nil)).Elem(), reflect.TypeOf((*T5)(nil)).Elem()}
	w.Try("matrix", func() { w.Matrix(rt, partners) })
	w.Try("same", func() {
		w.Same("ptr", reflect.TypeOf((**T16)(nil)).Elem(), reflect.PointerTo(rt))
		w.Same("slice", reflect.TypeOf((*[]T16)(nil)).Elem(), reflect.SliceOf(rt))
		w.Same("array", reflect.TypeOf((*[3]T16)(nil)).Elem(), reflect.ArrayOf(3, rt))
		w.Same("chan", reflect.TypeOf((*<-chan T16)(nil)).Elem(), reflect.ChanOf(reflect.RecvDir, rt))
		w.Same("map", reflect.TypeOf((*map[string]T16)(nil)).Elem(), reflect.MapOf(reflect.TypeOf(""), rt))
		w.Same("func", reflect.TypeOf((*func(T16, ...T16) *T16)(nil)).Elem(), reflect.FuncOf([]reflect.Type{rt, reflect.SliceOf(rt)}, []reflect.Type{reflect.PointerTo(rt)}, true))
	})
	var x T16 = MkT16(2)
	var y T16 = MkT16(2)
	var z T16 = MkT16(2)
	var d T16 = MkT16(3)
	var e T16 = MkT16(3)
	w.Value("x", &x)
	w.Value("d", &d)
	w.Deep("xy", &x, &y)
	w.Deep("xz", &x, &z)
	w.Deep("de", &d, &e)
	w.Try("conv", func() { w.Conv("x", &x, partners) })
	w.Fmt("x", &x)
	w.Fmt("z", &z)
	w.ZeroFmt("t", rt)
	w.TypeCalls("d", &d)
	w.Calls("d", &d)
	_, _, _ = y, z, e
}

func U16() {
	w.Header("16", "N/pppvvv(struct{struct{uint8};E:N(struct{*N`});E:N/vv(int);E:N/ppp(complex64)})")
	rt := reflect.TypeOf((*T17)(nil)).Elem()
	w.Try("type", func() { w.Type(rt) })
	partners := []reflect.Type{reflect.TypeOf((*T7)(nil)).Elem(), reflect.TypeOf((*T15)(nil)).Elem(), reflect.TypeOf((*T11)(nil)).Elem()}
	w.Try("matrix", func() { w.Matrix(rt, partners) })
	w.Try("same", func() {
		w.Same("ptr", reflect.TypeOf((**T17)(nil)).Elem(), reflect.PointerTo(rt))
		w.Same("slice", reflect.TypeOf((*[]T17)(nil)).Elem(), reflect.SliceOf(rt))
		w.Same("array", reflect.TypeOf((*[3]T17)(nil)).Elem(), reflect.ArrayOf(3, rt))
		w.Same("chan", reflect.TypeOf((*<-chan T17)(nil)).Elem(), reflect.ChanOf(reflect.RecvDir, rt))
		w.Same("map", reflect.TypeOf((*map[string]T17)(nil)).Elem(), reflect.MapOf(reflect.TypeOf(""), rt))
		w.Same("func", reflect.TypeOf((*func(T17, ...T17) *T17)(nil)).Elem(), reflect.FuncOf([]reflect.Type{rt, reflect.SliceOf(rt)}, []reflect.Type{reflect.PointerTo(rt)}, true))
	})
	var x T17 = MkT17(2)
	var y T17 = MkT17(0)
	var z T17 = MkT17(0)
	var d T17 = MkT17(3)
	var e T17 = MkT17(4)
	w.Value("x", &x)
	w.Value("d", &d)
	w.Deep("xy", &x, &y)
	w.Deep("xz", &x, &z)
	w.Deep("de", &d, &e)
	w.Try("conv", func() { w.Conv("x", &x, partners) })
	w.P("F skipped: nil pointers or interfaces on the path of a promoted fmt method")
	w.TypeCalls("d", &d)
	w.Calls("d", &d)
	_, _, _ = y, z, e
}

func U17() {
	w.Header("17", "N(g.Pair[N(uintptr),N/vv(int)])")
	rt := reflect.TypeOf((*T18)(nil)).Elem()
	w.Try("type", func() { w.Type(rt) })
	partners := []reflect.Type{reflect.TypeOf((*T1)(nil)).Elem(), reflect.TypeOf((*T7)(nil)).Elem(), reflect.TypeOf((*T16)(nil)).Elem()}
	w.Try("matrix", func() { w.Matrix(rt, partners) })
	w.Try("same", func() {
		w.Same("ptr", reflect.TypeOf((**T18)(nil)).Elem(), reflect.PointerTo(rt))
		w.Same("slice", reflect.TypeOf((*[]T18)(nil)).Elem(), reflect.SliceOf(rt))
		w.Same("array", reflect.TypeOf((*[3]T18)(nil)).Elem(), reflect.ArrayOf(3, rt))
		w.Same("chan", reflect.TypeOf((*<-chan T18)(nil)).Elem(), reflect.ChanOf(reflect.RecvDir, rt))
		w.Same("map", reflect.TypeOf((*map[string]T18)(nil)).Elem(), reflect.MapOf(reflect.TypeOf(""), rt))
		w.Same("func", reflect.TypeOf((*func(T18, ...T18) *T18)(nil)).Elem(), reflect.FuncOf([]reflect.Type{rt, reflect.SliceOf(rt)}, []reflect.Type{reflect.PointerTo(rt)}, true))
	})
	var x T18 = MkT18(0)
	var y T18 = MkT18(1)
	var z T18 = MkT18(0)
	var d T18 = MkT18(3)
	var e T18 = MkT18(4)
	w.Value("x", &x)
	w.Value("d", &d)
	w.Deep("xy", &x, &y)
	w.Deep("xz", &x, &z)
	w.Deep("de", &d, &e)
	w.Try("conv", func() { w.Conv("x", &x, partners) })
	w.Fmt("x", &x)
	w.Fmt("z", &z)
	w.ZeroFmt("t", rt)
	w.TypeCalls("d", &d)
	w.Calls("d", &d)
	_, _, _ = y, z, e
}

func U18() {
	w.Header("18", "N/ppppppu(struct{float32;func([]N...)(int16);[]struct{N;N}})")
	rt := reflect.TypeOf((*T19)(nil)).Elem()
	w.Try("type", func() { w.Type(rt) })
	partners := []reflect.Type{reflect.TypeOf((*T17)(nil)).Elem(), reflect.TypeOf((*T4)(nil)).Elem(), reflect.TypeOf((*T18)(nil)).Elem()}
	w.Try("matrix", func() { w.Matrix(rt, partners) })
	w.Try("same", func() {
		w.Same("ptr", reflect.TypeOf((**T19)(nil)).Elem(), reflect.PointerTo(rt))
		w.Same("slice", reflect.TypeOf((*[]T19)(nil)).Elem(), reflect.SliceOf(rt))
		w.Same("array", reflect.TypeOf((*[3]T19)(nil)).Elem(), reflect.ArrayOf(3, rt))
		w.Same("chan", reflect.TypeOf((*<-chan T19)(nil)).Elem(), reflect.ChanOf(reflect.RecvDir, rt))
		w.Same("map", reflect.TypeOf((*map[string]T19)(nil)).Elem(), reflect.MapOf(reflect.TypeOf(""), rt))
		w.Same("func", reflect.TypeOf((*func(T19, ...T19) *T19)(nil)).Elem(), reflect.FuncOf([]reflect.Type{rt, reflect.SliceOf(rt)}, []reflect.Type{reflect.PointerTo(rt)}, true))
	})
	var x T19 = MkT19(0)
	var y T19 = MkT19(1)
	var z T19 = MkT19(0)
	var d T19 = MkT19(3)
	var e T19 = MkT19(4)
	w.Value("x", &x)
	w.Value("d", &d)
	w.Deep("xy", &x, &y)
	w.Deep("xz", &x, &z)
	w.Deep("de", &d, &e)
	w.Try("conv", func() { w.Conv("x", &x, partners) })
	w.Fmt("x", &x)
	w.Fmt("z", &z)
	w.ZeroFmt("t", rt)
	w.TypeCalls("d", &d)
	w.Calls("d", &d)
	_, _, _ = y, z, e
}

func U19() {
	w.Header("19", "N/pvv(bool)")
	rt := reflect.TypeOf((*T20)(nil)).Elem()
	w.Try("type", func() { w.Type(rt) })
	partners := []reflect.Type{reflect.TypeOf((*T8)(nil)).Elem(), reflect.TypeOf((*T17)(nil)).Elem(), reflect.TypeOf((*T9)(nil)).Elem()}
	w.Try("matrix", func() { w.Matrix(rt, partners) })
	w.Try("same", func() {
		w.Same("ptr", reflect.TypeOf((**T20)(nil)).Elem(), reflect.PointerTo(rt))
		w.Same("slice", reflect.TypeOf((*[]T20)(nil)).Elem(), reflect.SliceOf(rt))
		w.Same("array", reflect.TypeOf((*[3]T20)(nil)).Elem(), reflect.ArrayOf(3, rt))
		w.Same("chan", reflect.TypeOf((*<-chan T20)(nil)).Elem(), reflect.ChanOf(reflect.RecvDir, rt))
		w.Same("map", reflect.TypeOf((*map[string]T20)(nil)).Elem(), reflect.MapOf(reflect.TypeOf(""), rt))
		w.Same("func", reflect.TypeOf((*func(T20, ...T20) *T20)(nil)).Elem(), reflect.FuncOf([]reflect.Type{rt, reflect.SliceOf(rt)}, []reflect.Type{reflect.PointerTo(rt)}, true))
	})
	var x T20 = MkT20(0)
	var y T20 = MkT20(1)
	var z T20 = MkT20(2)
	var d T20 = MkT20(3)
	var e T20 = MkT20(4)
	w.Value("x", &x)
	w.Value("d", &d)
	w.Deep("xy", &x, &y)
	w.Deep("xz", &x, &z)
	w.Deep("de", &d, &e)
	w.Try("conv", func() { w.Conv("x", &x, partners) })
	w.Fmt("x", &x)
	w.Fmt("z", &z)
	w.ZeroFmt("t", rt)
	w.TypeCalls("d", &d)
	w.Calls("d", &d)
	_, _, _ = y, z, e
}

func U20() {
	w.Header("20", "N/vvvv(struct{struct{}`;E:N/ppppu(int);E:N(map[int16]N)`})")
	rt := reflect.TypeOf((*T21)(nil)).Elem()
	w.Try("type", func() { w.Type(rt) })
	partners := []reflect.Type{reflect.TypeOf((*T1)(nil)).Elem(), reflect.TypeOf((*T9)(nil)).Elem(), reflect.TypeOf((*T6)(nil)).Elem()}
	w.Try("matrix", func() { w.Matrix(rt, partners) })
	w.Try("same", func() {
		w.Same("ptr", reflect.TypeOf((**T21)(nil)).Elem(), reflect.PointerTo(rt))
		w.Same("slice", reflect.TypeOf((*[]T21)(nil)).Elem(), reflect.SliceOf(rt))
		w.Same("array", reflect.TypeOf((*[3]T21)(nil)).Elem(), reflect.ArrayOf(3, rt))
		w.Same("chan", reflect.TypeOf((*<-chan T21)(nil)).Elem(), reflect.ChanOf(reflect.RecvDir, rt))
		w.Same("map", reflect.TypeOf((*map[string]T21)(nil)).Elem(), reflect.MapOf(reflect.TypeOf(""), rt))
		w.Same("func", reflect.TypeOf((*func(T21, ...T21) *T21)(nil)).Elem(), reflect.FuncOf([]reflect.Type{rt, reflect.SliceOf(rt)}, []reflect.Type{reflect.PointerTo(rt)}, true))
	})
	var x T21 = MkT21(2)
	var y T21 = MkT21(0)
	var z T21 = MkT21(0)
	var d T21 = MkT21(3)
	var e T21 = MkT21(4)
	w.Value("x", &x)
	w.Value("d", &d)
	w.Deep("xy", &x, &y)
	w.Deep("xz", &x, &z)
	w.Deep("de", &d, &e)
	w.Try("conv", func() { w.Conv("x", &x, partners) })
	w.Fmt("x", &x)
	w.Fmt("z", &z)
	w.ZeroFmt("t", rt)
	w.TypeCalls("d", &d)
	w.Calls("d", &d)
	_, _, _ = y, z, e
}

func U21() {
	w.Header("21", "N/pvvvv(N(struct{*N`}))")
	rt := reflect.TypeOf((*T22)(nil)).Elem()
	w.Try("type", func() { w.Type(rt) })
	partners := []reflect.Type{reflect.TypeOf((*T7)(nil)).Elem(), reflect.TypeOf((*T9)(nil)).Elem(), reflect.TypeOf((*T8)(nil)).Elem(), reflect.TypeOf((*T19)(nil)).Elem()}
	w.Try("matrix", func() { w.Matrix(rt, partners) })
	w.Try("same", func() {
		w.Same("ptr", reflect.TypeOf((**T22)(nil)).Elem(), reflect.PointerTo(rt))
		w.Same("slice", reflect.TypeOf((*[]T22)(nil)).Elem(), reflect.SliceOf(rt))
		w.Same("array", reflect.TypeOf((*[3]T22)(nil)).Elem(), reflect.ArrayOf(3, rt))
		w.Same("chan", reflect.TypeOf((*<-chan T22)(nil)).Elem(), reflect.ChanOf(reflect.RecvDir, rt))
		w.Same("map", reflect.TypeOf((*map[string]T22)(nil)).Elem(), reflect.MapOf(reflect.TypeOf(""), rt))
		w.Same("func", reflect.TypeOf((*func(T22, ...T22) *T22)(nil)).Elem(), reflect.FuncOf([]reflect.Type{rt, reflect.SliceOf(rt)}, []reflect.Type{reflect.PointerTo(rt)}, true))
	})
	var x T22 = MkT22(0)
	var y T22 = MkT22(0)
	var z T22 = MkT22(0)
	var d T22 = MkT22(3)
	var e T22 = MkT22(3)
	w.Value("x", &x)
	w.Value("d", &d)
	w.Deep("xy", &x, &y)
	w.Deep("xz", &x, &z)
	w.Deep("de", &d, &e)
	w.Try("conv", func() { w.Conv("x", &x, partners) })
	w.P("F skipped: nil pointers or interfaces on the path of a promoted fmt method")
	w.TypeCalls("d", &d)
	w.Calls("d", &d)
	_, _, _ = y, z, e
}

func U22() {
	w.Header("22", "N(struct{interface{0};u:*N})")
	rt := reflect.TypeOf((*T23)(nil)).Elem()
	w.Try("type", func() { w.Type(rt) })
	partners := []reflect.Type{reflect.TypeOf((*T1)(nil)).Elem(), reflect.TypeOf((*T6)(nil)).Elem(), reflect.TypeOf((*T11)(nil)).Elem()}
	w.Try("matrix", func() { w.Matrix(rt, partners) })
	w.Try("same", func() {
		w.Same("ptr", reflect.TypeOf((**T23)(nil)).Elem(), reflect.PointerTo(rt))
		w.Same("slice", reflect.TypeOf((*[]T23)(nil)).Elem(), reflect.SliceOf(rt))
		w.Same("array", reflect.TypeOf((*[3]T23)(nil)).Elem(), reflect.ArrayOf(3, rt))
		w.Same("chan", reflect.TypeOf((*<-chan T23)(nil)).Elem(), reflect.ChanOf(reflect.RecvDir, rt))
		w.Same("map", reflect.TypeOf((*map[string]T23)(nil)).Elem(), reflect.MapOf(reflect.TypeOf(""), rt))
		w.Same("func", reflect.TypeOf((*func(T23, ...T23) *T23)(nil)).Elem(), reflect.FuncOf([]reflect.Type{rt, reflect.SliceOf(rt)}, []reflect.Type{reflect.PointerTo(rt)}, true))
	})
	var x T23 = MkT23(0)
	var y T23 = MkT23(1)
	var z T23 = MkT23(2)
	var d T23 = MkT23(3)
	var e T23 = MkT23(3)
	w.Value("x", &x)
	w.Value("d", &d)
	w.Deep("xy", &x, &y)
	w.Deep("xz", &x, &z)
	w.Deep("de", &d, &e)
	w.Try("conv", func() { w.Conv("x", &x, partners) })
	w.Fmt("x", &x)
	w.Fmt("z", &z)
	w.ZeroFmt("t", rt)
	w.TypeCalls("d", &d)
	w.Calls("d", &d)
	_, _, _ = y, z, e
}

func U23() {
	w.Header("23", "N/v(struct{E:*N;E:*N;chan<-struct{u:N};E:N/pvv(bool)})")
	rt := reflect.TypeOf((*T24)(nil)).Elem()
	w.Try("type", func() { w.Type(rt) })
	partners := []reflect.Type{reflect.TypeOf((*T4)(nil)).Elem(), reflect.TypeOf((*T5)(nil)).Elem(), reflect.TypeOf((*T5)(nil)).Elem()}
	w.Try("matrix", func() { w.Matrix(rt, partners) })
	w.Try("same", func() {
		w.Same("ptr", reflect.TypeOf((**T24)(nil)).Elem(), reflect.PointerTo(rt))
		w.Same("slice", reflect.TypeOf((*[]T24)(nil)).Elem(), reflect.SliceOf(rt))
		w.Same("array", reflect.TypeOf((*[3]T24)(nil)).Elem(), reflect.ArrayOf(3, rt))
		w.Same("chan", reflect.TypeOf((*<-chan T24)(nil)).Elem(), reflect.ChanOf(reflect.RecvDir, rt))
		w.Same("map", reflect.TypeOf((*map[string]T24)(nil)).Elem(), reflect.MapOf(reflect.TypeOf(""), rt))
		w.Same("func", reflect.TypeOf((*func(T24, ...T24) *T24)(nil)).Elem(), reflect.FuncOf([]reflect.Type{rt, reflect.SliceOf(rt)}, []reflect.Type{reflect.PointerTo(rt)}, true))
	})
	var x T24 = MkT24(2)
	var y T24 = MkT24(0)
	var z T24 = MkT24(0)
	var d T24 = MkT24(3)
	var e T24 = MkT24(4)
	w.Value("x", &x)
	w.Value("d", &d)
	w.Deep("xy", &x, &y)
	w.Deep("xz", &x, &z)
	w.Deep("de", &d, &e)
	w.Try("conv", func() { w.Conv("x", &x, partners) })
	w.Fmt("x", &x)
	w.Fmt("z", &z)
	w.ZeroFmt("t", rt)
	w.TypeCalls("d", &d)
	w.Calls("d", &d)
	_, _, _ = y, z, e
}

func U72() {
	w.Header("72", "map[complex128]g.Wrap[N/pvvvv(N)]")
	rt := reflect.TypeOf((*map[complex128]g.Wrap[T22])(nil)).Elem()
	w.Try("type", func() { w.Type(rt) })
	partners := []reflect.Type{reflect.TypeOf((*T8)(nil)).Elem(), reflect.TypeOf((*T17)(nil)).Elem(), reflect.TypeOf((*T19)(nil)).Elem()}
	w.Try("matrix", func() { w.Matrix(rt, partners) })
	w.Try("same", func() {
		w.Same("ptr", reflect.TypeOf((**map[complex128]g.Wrap[T22])(nil)).Elem(), reflect.PointerTo(rt))
		w.Same("slice", reflect.TypeOf((*[]map[complex128]g.Wrap[T22])(nil)).Elem(), reflect.SliceOf(rt))
		w.Same("array", reflect.TypeOf((*[3]map[complex128]g.Wrap[T22])(nil)).Elem(), reflect.ArrayOf(3, rt))
		w.Same("chan", reflect.TypeOf((*<-chan map[complex128]g.Wrap[T22])(nil)).Elem(), reflect.ChanOf(reflect.RecvDir, rt))
		w.Same("map", reflect.TypeOf((*map[string]map[complex128]g.Wrap[T22])(nil)).Elem(), reflect.MapOf(reflect.TypeOf(""), rt))
		w.Same("func", reflect.TypeOf((*func(map[complex128]g.Wrap[T22], ...map[complex128]g.Wrap[T22]) *map[complex128]g.Wrap[T22])(nil)).Elem(), reflect.FuncOf([]reflect.Type{rt, reflect.SliceOf(rt)}, []reflect.Type{reflect.PointerTo(rt)}, true))
	})
	var x map[complex128]g.Wrap[T22] = map[complex128]g.Wrap[T22]{complex128(complex(1.0, 1.0)): g.MkWrap[T22](MkT22(0), 1048576, "q\"uote")}
	var y map[complex128]g.Wrap[T22] = map[complex128]g.Wrap[T22]{complex128(complex(1.0, 1.0)): g.MkWrap[T22](MkT22(0), 1048577, "q\"uote")}
	var z map[complex128]g.Wrap[T22] = map[complex128]g.Wrap[T22]{complex128(complex(1.0, -0.5)): g.MkWrap[T22](MkT22(2), 65, "tab\there")}
	var d map[complex128]g.Wrap[T22] = map[complex128]g.Wrap[T22]{complex128(complex(1.0, 0.0)): g.MkWrap[T22](MkT22(3), 65, "x y"), complex128(complex(2.0, -0.5)): g.MkWrap[T22](MkT22(3), 65, "\x7f"), complex128(complex(3.0, 1.0)): g.MkWrap[T22](MkT22(3), 65, "日本")}
	var e map[complex128]g.Wrap[T22] = map[complex128]g.Wrap[T22]{complex128(complex(1.0, 0.0)): g.MkWrap[T22](MkT22(3), 65, "x y"), complex128(complex(2.0, -0.5)): g.MkWrap[T22](MkT22(3), 66, "\x7f"), complex128(complex(3.0, 1.0)): g.MkWrap[T22](MkT22(3), 65, "日本")}
	w.Value("x", &x)
	w.Value("d", &d)
	w.Deep("xy", &x, &y)
	w.Deep("xz", &x, &z)
	w.Deep("de", &d, &e)
	w.Try("conv", func() { w.Conv("x", &x, partners) })
	w.P("F skipped: nil pointers or interfaces on the path of a promoted fmt method")
	w.TypeCalls("d", &d)
	w.Calls("d", &d)
	_, _, _ = y, z, e
}

func U74() {
	w.Header("74", "struct{uint;<-chanstring;N(struct{interface{0};u:*N});[]string;error}")
	rt := reflect.TypeOf((*struct { F0 uint; F1 <-chan string; F2 T23; F3 []string; F4 error })(nil)).Elem()
	w.Try("type", func() { w.Type(rt) })
	partners := []reflect.Type{reflect.TypeOf((*T17)(nil)).Elem(), reflect.TypeOf((*T3)(nil)).Elem(), reflect.TypeOf((*T21)(nil)).Elem()}
	w.Try("matrix", func() { w.Matrix(rt, partners) })
	w.Try("same", func() {
		w.Same("ptr", reflect.TypeOf((**struct { F0 uint; F1 <-chan string; F2 T23; F3 []string; F4 error })(nil)).Elem(), reflect.PointerTo(rt))
		w.Same("slice", reflect.TypeOf((*[]struct { F0 uint; F1 <-chan string; F2 T23; F3 []string; F4 error })(nil)).Elem(), reflect.SliceOf(rt))
		w.Same("array", reflect.TypeOf((*[3]struct { F0 uint; F1 <-chan string; F2 T23; F3 []string; F4 error })(nil)).Elem(), reflect.ArrayOf(3, rt))
		w.Same("chan", reflect.TypeOf((*<-chan struct { F0 uint; F1 <-chan string; F2 T23; F3 []string; F4 error })(nil)).Elem(), reflect.ChanOf(reflect.RecvDir, rt))
		w.Same("map", reflect.TypeOf((*map[string]struct { F0 uint; F1 <-chan string; F2 T23; F3 []string; F4 error })(nil)).Elem(), reflect.MapOf(reflect.TypeOf(""), rt))
		w.Same("func", reflect.TypeOf((*func(struct { F0 uint; F1 <-chan string; F2 T23; F3 []string; F4 error }, ...struct { F0 uint; F1 <-chan string; F2 T23; F3 []string; F4 error }) *struct { F0 uint; F1 <-chan string; F2 T23; F3 []string; F4 error })(nil)).Elem(), reflect.FuncOf([]reflect.Type{rt, reflect.SliceOf(rt)}, []reflect.Type{reflect.PointerTo(rt)}, true))
	})
	var x struct { F0 uint; F1 <-chan string; F2 T23; F3 []string; F4 error } = struct { F0 uint; F1 <-chan string; F2 T23; F3 []string; F4 error }{F0: uint(1000), F1: (<-chan string)(nil), F2: MkT23(2), F3: []string{string("日本"), string("x y"), string("x y")}, F4: error(w.Err{"tab\there"})}
	var y struct { F0 uint; F1 <-chan string; F2 T23; F3 []string; F4 error } = struct { F0 uint; F1 <-chan string; F2 T23; F3 []string; F4 error }{F0: uint(1000), F1: (<-chan string)(nil), F2: MkT23(2), F3: []string{string("日本"), string("x y"), string("x y")}, F4: error(w.Err{"tab\there~"})}
	var z struct { F0 uint; F1 <-chan string; F2 T23; F3 []string; F4 error } = struct { F0 uint; F1 <-chan string; F2 T23; F3 []string; F4 error }{F0: uint(254), F1: (<-chan string)(nil), F2: MkT23(2), F3: []string{string("a"), string("q\"uote"), string("")}, F4: error(w.Err{"héllo"})}
	var d struct { F0 uint; F1 <-chan string; F2 T23; F3 []string; F4 error } = struct { F0 uint; F1 <-chan string; F2 T23; F3 []string; F4 error }{F0: uint(8589934592), F1: (<-chan string)(make(chan string, 1)), F2: MkT23(3), F3: []string{string("q\"uote"), string("Z"), string("x y")}, F4: error(w.Err{"tab\there"})}
	var e struct { F0 uint; F1 <-chan string; F2 T23; F3 []string; F4 error } = struct { F0 uint; F1 <-chan string; F2 T23; F3 []string; F4 error }{F0: uint(8589934592), F1: (<-chan string)(make(chan string, 1)), F2: MkT23(3), F3: []string{string("q\"uote"), string("Z~"), string("x y")}, F4: error(w.Err{"tab\there"})}
	w.Value("x", &x)
	w.Value("d", &d)
	w.Deep("xy", &x, &y)
	w.Deep("xz", &x, &z)
	w.Deep("de", &d, &e)
	w.Try("conv", func() { w.Conv("x", &x, partners) })
	w.Fmt("x", &x)
	w.Fmt("z", &z)
	w.ZeroFmt("t", rt)
	w.TypeCalls("d", &d)
	w.Calls("d", &d)
	_, _, _ = y, z, e
}

func U78() {
	w.Header("78", "*N/pvv(bool)")
	rt := reflect.TypeOf((**T20)(nil)).Elem()
	w.Try("type", func() { w.Type(rt) })
	partners := []reflect.Type{reflect.TypeOf((*T14)(nil)).Elem(), reflect.TypeOf((*struct { F0 uint; F1 <-chan string; F2 T23; F3 []string; F4 error })(nil)).Elem(), reflect.TypeOf((*T16)(nil)).Elem()}
	w.Try("matrix", func() { w.Matrix(rt, partners) })
	w.Try("same", func() {
		w.Same("slice", reflect.TypeOf((*[]*T20)(nil)).Elem(), reflect.SliceOf(rt))
		w.Same("array", reflect.TypeOf((*[3]*T20)(nil)).Elem(), reflect.ArrayOf(3, rt))
		w.Same("chan", reflect.TypeOf((*<-chan *T20)(nil)).Elem(), reflect.ChanOf(reflect.RecvDir, rt))
		w.Same("map", reflect.TypeOf((*map[string]*T20)(nil)).Elem(), reflect.MapOf(reflect.TypeOf(""), rt))
	})
	var x *T20 = (*T20)(nil)
	var y *T20 = (*T20)(nil)
	var z *T20 = (*T20)(nil)
	var d *T20 = w.Ptr(MkT20(3))
	var e *T20 = w.Ptr(MkT20(4))
	w.Value("x", &x)
	w.Value("d", &d)
	w.Deep("xy", &x, &y)
	w.Deep("xz", &x, &z)
	w.Deep("de", &d, &e)
	w.Try("conv", func() { w.Conv("x", &x, partners) })
	w.P("F skipped: nil pointers or interfaces on the path of a promoted fmt method")
	w.TypeCalls("d", &d)
	w.Calls("d", &d)
	_, _, _ = y, z, e
}

func U81() {
	w.Header("81", "func([]float64...)(interface{0},uint8)")
	rt := reflect.TypeOf((*func(...float64) (interface{}, uint8))(nil)).Elem()
	w.Try("type", func() { w.Type(rt) })
	partners := []reflect.Type{reflect.TypeOf((*T19)(nil)).Elem(), reflect.TypeOf((*T21)(nil)).Elem(), reflect.TypeOf((*T18)(nil)).Elem()}
	w.Try("matrix", func() { w.Matrix(rt, partners) })
	w.Try("same", func() {
		w.Same("slice", reflect.TypeOf((*[]func(...float64) (interface{}, uint8))(nil)).Elem(), reflect.SliceOf(rt))
		w.Same("array", reflect.TypeOf((*[3]func(...float64) (interface{}, uint8))(nil)).Elem(), reflect.ArrayOf(3, rt))
		w.Same("chan", reflect.TypeOf((*<-chan func(...float64) (interface{}, uint8))(nil)).Elem(), reflect.ChanOf(reflect.RecvDir, rt))
		w.Same("map", reflect.TypeOf((*map[string]func(...float64) (interface{}, uint8))(nil)).Elem(), reflect.MapOf(reflect.TypeOf(""), rt))
	})
	var x func(...float64) (interface{}, uint8) = (func(...float64) (interface{}, uint8))(nil)
	var y func(...float64) (interface{}, uint8) = (func(...float64) (interface{}, uint8))(nil)
	var z func(...float64) (interface{}, uint8) = (func(...float64) (interface{}, uint8))(nil)
	var d func(...float64) (interface{}, uint8) = (func(...float64) (interface{}, uint8))(func(a0 ...float64) (interface{}, uint8) { return interface{}(nil), uint8(42) })
	var e func(...float64) (interface{}, uint8) = (func(...float64) (interface{}, uint8))(func(a0 ...float64) (interface{}, uint8) { return interface{}(nil), uint8(42) })
	w.Value("x", &x)
	w.Value("d", &d)
	w.Deep("xy", &x, &y)
	w.Deep("xz", &x, &z)
	w.Deep("de", &d, &e)
	w.Try("conv", func() { w.Conv("x", &x, partners) })
	w.Fmt("x", &x)
	w.Fmt("z", &z)
	w.ZeroFmt("t", rt)
	w.TypeCalls("d", &d)
	w.Calls("d", &d)
	_, _, _ = y, z, e
}

func U83() {
	w.Header("83", "struct{E:u:string;*int32}")
	rt := reflect.TypeOf((*struct { string; F1 *int32 })(nil)).Elem()
	w.Try("type", func() { w.Type(rt) })
	partners := []reflect.Type{reflect.TypeOf((*struct { F0 uint; F1 <-chan string; F2 T23; F3 []string; F4 error })(nil)).Elem(), reflect.TypeOf((*T8)(nil)).Elem(), reflect.TypeOf((*map[complex128]g.Wrap[T22])(nil)).Elem()}
	w.Try("matrix", func() { w.Matrix(rt, partners) })
	w.Try("same", func() {
		w.Same("ptr", reflect.TypeOf((**struct { string; F1 *int32 })(nil)).Elem(), reflect.PointerTo(rt))
		w.Same("slice", reflect.TypeOf((*[]struct { string; F1 *int32 })(nil)).Elem(), reflect.SliceOf(rt))
		w.Same("array", reflect.TypeOf((*[3]struct { string; F1 *int32 })(nil)).Elem(), reflect.ArrayOf(3, rt))
		w.Same("chan", reflect.TypeOf((*<-chan struct { string; F1 *int32 })(nil)).Elem(), reflect.ChanOf(reflect.RecvDir, rt))
		w.Same("map", reflect.TypeOf((*map[string]struct { string; F1 *int32 })(nil)).Elem(), reflect.MapOf(reflect.TypeOf(""), rt))
		w.Same("func", reflect.TypeOf((*func(struct { string; F1 *int32 }, ...struct { string; F1 *int32 }) *struct { string; F1 *int32 })(nil)).Elem(), reflect.FuncOf([]reflect.Type{rt, reflect.SliceOf(rt)}, []reflect.Type{reflect.PointerTo(rt)}, true))
	})
	var x struct { string; F1 *int32 } = struct { string; F1 *int32 }{string: string(""), F1: (*int32)(nil)}
	var y struct { string; F1 *int32 } = struct { string; F1 *int32 }{string: string("~"), F1: (*int32)(nil)}
	var z struct { string; F1 *int32 } = struct { string; F1 *int32 }{string: string("Z"), F1: (*int32)(nil)}
	var d struct { string; F1 *int32 } = struct { string; F1 *int32 }{string: string("日本"), F1: (*int32)(nil)}
	var e struct { string; F1 *int32 } = struct { string; F1 *int32 }{string: string("日本~"), F1: (*int32)(nil)}
	w.Value("x", &x)
	w.Value("d", &d)
	w.Deep("xy", &x, &y)
	w.Deep("xz", &x, &z)
	w.Deep("de", &d, &e)
	w.Try("conv", func() { w.Conv("x", &x, partners) })
	w.Fmt("x", &x)
	w.Fmt("z", &z)
	w.ZeroFmt("t", rt)
	w.TypeCalls("d", &d)
	w.Calls("d", &d)
	_, _, _ = y, z, e
}

func U89() {
	w.Header("89", "[]map[int16]chanuint8")
	rt := reflect.TypeOf((*[]map[int16]chan uint8)(nil)).Elem()
	w.Try("type", func() { w.Type(rt) })
	partners := []reflect.Type{reflect.TypeOf((*T3)(nil)).Elem(), reflect.TypeOf((*T15)(nil)).Elem(), reflect.TypeOf((*T19)(nil)).Elem()}
	w.Try("matrix", func() { w.Matrix(rt, partners) })
	w.Try("same", func() {
		w.Same("ptr", reflect.TypeOf((**[]map[int16]chan uint8)(nil)).Elem(), reflect.PointerTo(rt))
		w.Same("slice", reflect.TypeOf((*[][]map[int16]chan uint8)(nil)).Elem(), reflect.SliceOf(rt))
		w.Same("array", reflect.TypeOf((*[3][]map[int16]chan uint8)(nil)).Elem(), reflect.ArrayOf(3, rt))
		w.Same("chan", reflect.TypeOf((*<-chan []map[int16]chan uint8)(nil)).Elem(), reflect.ChanOf(reflect.RecvDir, rt))
		w.Same("map", reflect.TypeOf((*map[string][]map[int16]chan uint8)(nil)).Elem(), reflect.MapOf(reflect.TypeOf(""), rt))
		w.Same("func", reflect.TypeOf((*func([]map[int16]chan uint8, ...[]map[int16]chan uint8) *[]map[int16]chan uint8)(nil)).Elem(), reflect.FuncOf([]reflect.Type{rt, reflect.SliceOf(rt)}, []reflect.Type{reflect.PointerTo(rt)}, true))
	})
	var x []map[int16]chan uint8 = []map[int16]chan uint8{map[int16]chan uint8{int16(1): (chan uint8)(nil), int16(2): (chan uint8)(nil)}, map[int16]chan uint8{int16(1): (chan uint8)(nil), int16(2): (chan uint8)(nil)}, map[int16]chan uint8{}}
	var y []map[int16]chan uint8 = []map[int16]chan uint8{map[int16]chan uint8{int16(1): (chan uint8)(nil), int16(2): (chan uint8)(nil)}, map[int16]chan uint8{int16(1): (chan uint8)(nil), int16(2): (chan uint8)(nil)}, map[int16]chan uint8{}}
	var z []map[int16]chan uint8 = []map[int16]chan uint8{map[int16]chan uint8{int16(1): (chan uint8)(nil), int16(2): (chan uint8)(nil), int16(3): (chan uint8)(nil)}, map[int16]chan uint8{int16(1): (chan uint8)(nil), int16(2): (chan uint8)(nil)}, map[int16]chan uint8{}}
	var d []map[int16]chan uint8 = []map[int16]chan uint8{map[int16]chan uint8{}, map[int16]chan uint8{int16(1): (chan uint8)(make(chan uint8, 0))}}
	var e []map[int16]chan uint8 = []map[int16]chan uint8{map[int16]chan uint8{}, map[int16]chan uint8{int16(1): (chan uint8)(make(chan uint8, 0))}}
	w.Value("x", &x)
	w.Value("d", &d)
	w.Deep("xy", &x, &y)
	w.Deep("xz", &x, &z)
	w.Deep("de", &d, &e)
	w.Try("conv", func() { w.Conv("x", &x, partners) })
	w.Fmt("x", &x)
	w.Fmt("z", &z)
	w.ZeroFmt("t", rt)
	w.TypeCalls("d", &d)
	w.Calls("d", &d)
	_, _, _ = y, z, e
}

func U93() {
	w.Header("93", "map[uint64]*N(uintptr)")
	rt := reflect.TypeOf((*map[uint64]*T3)(nil)).Elem()
	w.Try("type", func() { w.Type(rt) })
	partners := []reflect.Type{reflect.TypeOf((*func(...float64) (interface{}, uint8))(nil)).Elem(), reflect.TypeOf((*[]map[int16]chan uint8)(nil)).Elem(), reflect.TypeOf((*T10)(nil)).Elem()}
	w.Try("matrix", func() { w.Matrix(rt, partners) })
	w.Try("same", func() {
		w.Same("ptr", reflect.TypeOf((**map[uint64]*T3)(nil)).Elem(), reflect.PointerTo(rt))
		w.Same("slice", reflect.TypeOf((*[]map[uint64]*T3)(nil)).Elem(), reflect.SliceOf(rt))
		w.Same("array", reflect.TypeOf((*[3]map[uint64]*T3)(nil)).Elem(), reflect.ArrayOf(3, rt))
		w.Same("chan", reflect.TypeOf((*<-chan map[uint64]*T3)(nil)).Elem(), reflect.ChanOf(reflect.RecvDir, rt))
		w.Same("map", reflect.TypeOf((*map[string]map[uint64]*T3)(nil)).Elem(), reflect.MapOf(reflect.TypeOf(""), rt))
		w.Same("func", reflect.TypeOf((*func(map[uint64]*T3, ...map[uint64]*T3) *map[uint64]*T3)(nil)).Elem(), reflect.FuncOf([]reflect.Type{rt, reflect.SliceOf(rt)}, []reflect.Type{reflect.PointerTo(rt)}, true))
	})
	var x map[uint64]*T3 = map[uint64]*T3(nil)
	var y map[uint64]*T3 = map[uint64]*T3(nil)
	var z map[uint64]*T3 = map[uint64]*T3{uint64(1): (*T3)(nil), uint64(2): (*T3)(nil)}
	var d map[uint64]*T3 = map[uint64]*T3{uint64(1): (*T3)(nil), uint64(2): w.Ptr(MkT3(3)), uint64(3): (*T3)(nil)}
	var e map[uint64]*T3 = map[uint64]*T3{uint64(1): (*T3)(nil), uint64(2): w.Ptr(MkT3(4)), uint64(3): (*T3)(nil)}
	w.Value("x", &x)
	w.Value("d", &d)
	w.Deep("xy", &x, &y)
	w.Deep("xz", &x, &z)
	w.Deep("de", &d, &e)
	w.Try("conv", func() { w.Conv("x", &x, partners) })
	w.Fmt("x", &x)
	w.Fmt("z", &z)
	w.ZeroFmt("t", rt)
	w.TypeCalls("d", &d)
	w.Calls("d", &d)
	_, _, _ = y, z, e
}

func U98() {
	w.Header("98", "interface{0}")
	rt := reflect.TypeOf((*interface{})(nil)).Elem()
	w.Try("type", func() { w.Type(rt) })
	partners := []reflect.Type{reflect.TypeOf((*func(...float64) (interface{}, uint8))(nil)).Elem(), reflect.TypeOf((*T5)(nil)).Elem(), reflect.TypeOf((*[]map[int16]chan uint8)(nil)).Elem()}
	w.Try("matrix", func() { w.Matrix(rt, partners) })
	w.Try("same", func() {
		w.Same("ptr", reflect.TypeOf((**interface{})(nil)).Elem(), reflect.PointerTo(rt))
		w.Same("slice", reflect.TypeOf((*[]interface{})(nil)).Elem(), reflect.SliceOf(rt))
		w.Same("array", reflect.TypeOf((*[3]interface{})(nil)).Elem(), reflect.ArrayOf(3, rt))
		w.Same("chan", reflect.TypeOf((*<-chan interface{})(nil)).Elem(), reflect.ChanOf(reflect.RecvDir, rt))
		w.Same("map", reflect.TypeOf((*map[string]interface{})(nil)).Elem(), reflect.MapOf(reflect.TypeOf(""), rt))
		w.Same("func", reflect.TypeOf((*func(interface{}, ...interface{}) *interface{})(nil)).Elem(), reflect.FuncOf([]reflect.Type{rt, reflect.SliceOf(rt)}, []reflect.Type{reflect.PointerTo(rt)}, true))
	})
	var x interface{} = interface{}(MkT15(0))
	var y interface{} = interface{}(MkT15(1))
	var z interface{} = interface{}(MkT9(0))
	var d interface{} = interface{}(MkT19(3))
	var e interface{} = interface{}(MkT19(4))
	w.Value("x", &x)
	w.Value("d", &d)
	w.Deep("xy", &x, &y)
	w.Deep("xz", &x, &z)
	w.Deep("de", &d, &e)
	w.Try("conv", func() { w.Conv("x", &x, partners) })
	w.Fmt("x", &x)
	w.Fmt("z", &z)
	w.ZeroFmt("t", rt)
	w.TypeCalls("d", &d)
	w.Calls("d", &d)
	_, _, _ = y, z, e
}

func U100() {
	w.Header("100", "func()()")
	rt := reflect.TypeOf((*func())(nil)).Elem()
	w.Try("type", func() { w.Type(rt) })
	partners := []reflect.Type{reflect.TypeOf((*[]map[int16]chan uint8)(nil)).Elem(), reflect.TypeOf((*T3)(nil)).Elem(), reflect.TypeOf((*T6)(nil)).Elem()}
	w.Try("matrix", func() { w.Matrix(rt, partners) })
	w.Try("same", func() {
		w.Same("slice", reflect.TypeOf((*[]func())(nil)).Elem(), reflect.SliceOf(rt))
		w.Same("array", reflect.TypeOf((*[3]func())(nil)).Elem(), reflect.ArrayOf(3, rt))
		w.Same("chan", reflect.TypeOf((*<-chan func())(nil)).Elem(), reflect.ChanOf(reflect.RecvDir, rt))
		w.Same("map", reflect.TypeOf((*map[string]func())(nil)).Elem(), reflect.MapOf(reflect.TypeOf(""), rt))
	})
	var x func() = (func())(nil)
	var y func() = (func())(nil)
	var z func() = (func())(nil)
	var d func() = (func())(func() {  })
	var e func() = (func())(func() {  })
	w.Value("x", &x)
	w.Value("d", &d)
	w.Deep("xy", &x, &y)
	w.Deep("xz", &x, &z)
	w.Deep("de", &d, &e)
	w.Try("conv", func() { w.Conv("x", &x, partners) })
	w.Fmt("x", &x)
	w.Fmt("z", &z)
	w.ZeroFmt("t", rt)
	w.TypeCalls("d", &d)
	w.Calls("d", &d)
	_, _, _ = y, z, e
}

func U108() {
	w.Header("108", "*interface{0}")
	rt := reflect.TypeOf((**interface{})(nil)).Elem()
	w.Try("type", func() { w.Type(rt) })
	partners := []reflect.Type{reflect.TypeOf((*map[complex128]g.Wrap[T22])(nil)).Elem(), reflect.TypeOf((*T7)(nil)).Elem(), reflect.TypeOf((*T13)(nil)).Elem()}
	w.Try("matrix", func() { w.Matrix(rt, partners) })
	w.Try("same", func() {
		w.Same("slice", reflect.TypeOf((*[]*interface{})(nil)).Elem(), reflect.SliceOf(rt))
		w.Same("array", reflect.TypeOf((*[3]*interface{})(nil)).Elem(), reflect.ArrayOf(3, rt))
		w.Same("chan", reflect.TypeOf((*<-chan *interface{})(nil)).Elem(), reflect.ChanOf(reflect.RecvDir, rt))
		w.Same("map", reflect.TypeOf((*map[string]*interface{})(nil)).Elem(), reflect.MapOf(reflect.TypeOf(""), rt))
	})
	var x *interface{} = (*interface{})(nil)
	var y *interface{} = (*interface{})(nil)
	var z *interface{} = (*interface{})(nil)
	var d *interface{} = w.Ptr(interface{}(bool(true)))
	var e *interface{} = w.Ptr(interface{}(bool(false)))
	w.Value("x", &x)
	w.Value("d", &d)
	w.Deep("xy", &x, &y)
	w.Deep("xz", &x, &z)
	w.Deep("de", &d, &e)
	w.Try("conv", func() { w.Conv("x", &x, partners) })
	w.Fmt("x", &x)
	w.Fmt("z", &z)
	w.ZeroFmt("t", rt)
	w.TypeCalls("d", &d)
	w.Calls("d", &d)
	_, _, _ = y, z, e
}

func U112() {
	w.Header("112", "map[uint8]N(uintptr)")
	rt := reflect.TypeOf((*map[uint8]T3)(nil)).Elem()
	w.Try("type", func() { w.Type(rt) })
	partners := []reflect.Type{reflect.TypeOf((*T22)(nil)).Elem(), reflect.TypeOf((*T22)(nil)).Elem(), reflect.TypeOf((*struct { string; F1 *int32 })(nil)).Elem()}
	w.Try("matrix", func() { w.Matrix(rt, partners) })
	w.Try("same", func() {
		w.Same("ptr", reflect.TypeOf((**map[uint8]T3)(nil)).Elem(), reflect.PointerTo(rt))
		w.Same("slice", reflect.TypeOf((*[]map[uint8]T3)(nil)).Elem(), reflect.SliceOf(rt))
		w.Same("array", reflect.TypeOf((*[3]map[uint8]T3)(nil)).Elem(), reflect.ArrayOf(3, rt))
		w.Same("chan", reflect.TypeOf((*<-chan map[uint8]T3)(nil)).Elem(), reflect.ChanOf(reflect.RecvDir, rt))
		w.Same("map", reflect.TypeOf((*map[string]map[uint8]T3)(nil)).Elem(), reflect.MapOf(reflect.TypeOf(""), rt))
		w.Same("func", reflect.TypeOf((*func(map[uint8]T3, ...map[uint8]T3) *map[uint8]T3)(nil)).Elem(), reflect.FuncOf([]reflect.Type{rt, reflect.SliceOf(rt)}, []reflect.Type{reflect.PointerTo(rt)}, true))
	})
	var x map[uint8]T3 = map[uint8]T3{}
	var y map[uint8]T3 = map[uint8]T3{}
	var z map[uint8]T3 = map[uint8]T3{uint8(1): MkT3(0), uint8(2): MkT3(0)}
	var d map[uint8]T3 = map[uint8]T3{uint8(1): MkT3(3), uint8(2): MkT3(3)}
	var e map[uint8]T3 = map[uint8]T3{uint8(1): MkT3(3), uint8(2): MkT3(4)}
	w.Value("x", &x)
	w.Value("d", &d)
	w.Deep("xy", &x, &y)
	w.Deep("xz", &x, &z)
	w.Deep("de", &d, &e)
	w.Try("conv", func() { w.Conv("x", &x, partners) })
	w.Fmt("x", &x)
	w.Fmt("z", &z)
	w.ZeroFmt("t", rt)
	w.TypeCalls("d", &d)
	w.Calls("d", &d)
	_, _, _ = y, z, e
}

func U113() {
	w.Header("113", "[]N/ppp(complex64)")
	rt := reflect.TypeOf((*[]T9)(nil)).Elem()
	w.Try("type", func() { w.Type(rt) })
	partners := []reflect.Type{reflect.TypeOf((*map[uint64]*T3)(nil)).Elem(), reflect.TypeOf((*T10)(nil)).Elem(), reflect.TypeOf((*T24)(nil)).Elem()}
	w.Try("matrix", func() { w.Matrix(rt, partners) })
	w.Try("same", func() {
		w.Same("ptr", reflect.TypeOf((**[]T9)(nil)).Elem(), reflect.PointerTo(rt))
		w.Same("slice", reflect.TypeOf((*[][]T9)(nil)).Elem(), reflect.SliceOf(rt))
		w.Same("array", reflect.TypeOf((*[3][]T9)(nil)).Elem(), reflect.ArrayOf(3, rt))
		w.Same("chan", reflect.TypeOf((*<-chan []T9)(nil)).Elem(), reflect.ChanOf(reflect.RecvDir, rt))
		w.Same("map", reflect.TypeOf((*map[string][]T9)(nil)).Elem(), reflect.MapOf(reflect.TypeOf(""), rt))
		w.Same("func", reflect.TypeOf((*func([]T9, ...[]T9) *[]T9)(nil)).Elem(), reflect.FuncOf([]reflect.Type{rt, reflect.SliceOf(rt)}, []reflect.Type{reflect.PointerTo(rt)}, true))
	})
	var x []T9 = []T9{MkT9(0), MkT9(0)}
	var y []T9 = []T9{MkT9(0), MkT9(1)}
	var z []T9 = []T9{MkT9(0), MkT9(2)}
	var d []T9 = []T9{}
	var e []T9 = []T9{}
	w.Value("x", &x)
	w.Value("d", &d)
	w.Deep("xy", &x, &y)
	w.Deep("xz", &x, &z)
	w.Deep("de", &d, &e)
	w.Try("conv", func() { w.Conv("x", &x, partners) })
	w.Fmt("x", &x)
	w.Fmt("z", &z)
	w.ZeroFmt("t", rt)
	w.TypeCalls("d", &d)
	w.Calls("d", &d)
	_, _, _ = y, z, e
}

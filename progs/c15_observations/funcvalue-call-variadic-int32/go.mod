module Zmod/sub

go 1.24

package p2

import (
	"fmt"
	"reflect"
	"strconv"
	"unsafe"
	"Zmod/sub/g"
	"Zmod/sub/w"
	"Zmod/sub/p0"
	"Zmod/sub/p1"
)

var _ = fmt.Sprint
var _ = reflect.TypeOf
var _ = strconv.Itoa
var _ unsafe.Pointer
var _ g.Box[int]
var _ = w.P
var _ p0.T0_
var _ p1.T0_

type T0_ struct{}

type T49 struct { f0 *map[int]p0.T7; *p0.T23 `json:"b,omitempty" k:"v1"`; F2 g.Wrap[p1.T28] }

func (r *T49) Cplx(c complex128) complex64 {
	if r == nil {
		return 0
	}
	return complex64(c) + complex(float32(0), 1)
}

func (r *T49) Error() string {
	if r == nil {
		return "nilT49"
	}
	return "T49.Error#" + strconv.Itoa(0)
}

func (r *T49) String() string {
	if r == nil {
		return "nilT49"
	}
	return "T49.String#" + strconv.Itoa(0)
}

type T50 complex64

func (r *T50) Cplx(c complex128) complex64 {
	if r == nil {
		return 0
	}
	return complex64(c) + complex(float32(0), 1)
}

func (r *T50) Error() string {
	if r == nil {
		return "nilT50"
	}
	return "T50.Error#" + strconv.Itoa(0)
}

func (r *T50) GoString() string {
	if r == nil {
		return "(*p2.T50)(nil)"
	}
	return "p2.MkT50(" + strconv.Itoa(0) + ")"
}

func (r *T50) String() string {
	if r == nil {
		return "nilT50"
	}
	return "T50.String#" + strconv.Itoa(0)
}

func (r *T50) Two() (int, string) {
	if r == nil {
		return -1, "nil"
	}
	return 104 + 0, "T50"
}

type T51 struct { F0 struct { F0 p0.T23 }; F1 func(p0.T12, bool) p1.T41; F2 p1.T42 }

func (r *T51) Format(f fmt.State, c rune) {
	if r == nil {
		fmt.Fprint(f, "nilT51")
		return
	}
	w_, wok := f.Width()
	p_, pok := f.Precision()
	fmt.Fprintf(f, "T51{%c w=%d/%t p=%d/%t +%t -%t #%t sp%t 0%t n=%d}", c, w_, wok, p_, pok, f.Flag('+'), f.Flag('-'), f.Flag('#'), f.Flag(' '), f.Flag('0'), 0)
}

func (r *T51) Wide(a int8, b float64, c string, d uint16, e bool) (float64, bool) {
	if r == nil {
		return 0, false
	}
	return float64(a) + b*2 + float64(len(c)) + float64(d) + float64(0), !e
}

func (r T51) With(s string, n ...int8) string {
	t := 0
	for _, x := range n {
		t += int(x)
	}
	return s + ":" + strconv.Itoa(t+len(n)*100+0)
}

type T52 struct { F0 float32 }

func (r T52) Add(a int, b int) int {
	return a*2 + b + 0
}

func (r T52) GoString() string {
	return "p2.MkT52(" + strconv.Itoa(0) + ")"
}

func (r T52) Wide(a int8, b float64, c string, d uint16, e bool) (float64, bool) {
	return float64(a) + b*2 + float64(len(c)) + float64(d) + float64(0), !e
}

type T53 struct { F0 func(bool, bool) int32; F1 struct { F0 bool; f1 p1.T46; F2 float32; F3 int32; f4 int16 }; *p0.T24 }

type T54 struct { F0 map[uintptr]p0.T20; f1 p1.T32 }

func (r *T54) GoString() string {
	if r == nil {
		return "(*p2.T54)(nil)"
	}
	return "p2.MkT54(" + strconv.Itoa(0) + ")"
}

func (r *T54) hid(x int) int {
	if r == nil {
		return -1
	}
	return x + 105
}

type T55 struct { F0 g.Box[p0.T16]; F1 p1.T31 `xml:"n" json:"-"` }

func (r *T55) Self() *T55 {
	return r
}

type T56 interface { With(string, ...int8) string }

type T57 g.List[int16]

type T58 map[p0.T8]T58

type T59 struct { F0 p1.T28; f1 []struct { F0 p1.T36; _ p0.T9 }; F2 *[2]p0.T24 }

type T60 struct { f0 int32 }

func (r *T60) Set(x int) {
	if r == nil {
		return
	}
	r.f0 = int32(x)
}

func (r *T60) Sum(xs ...int) int {
	if r == nil {
		return -1
	}
	s := len(xs) * 1000
	for _, x := range xs {
		s += x
	}
	return s + int(r.f0)
}

func (r *T60) Two() (int, string) {
	if r == nil {
		return -1, "nil"
	}
	return 112 + int(r.f0), "T60"
}

func (r *T60) With(s string, n ...int8) string {
	if r == nil {
		return "nil"
	}
	t := 0
	for _, x := range n {
		t += int(x)
	}
	return s + ":" + strconv.Itoa(t+len(n)*100+int(r.f0))
}

type T61 int

func (r T61) String() string {
	return "T61.String#" + strconv.Itoa(int(r))
}

func (r T61) Sum(xs ...int) int {
	s := len(xs) * 1000
	for _, x := range xs {
		s += x
	}
	return s + int(r)
}

func (r *T61) With(s string, n ...int8) string {
	if r == nil {
		return "nil"
	}
	t := 0
	for _, x := range n {
		t += int(x)
	}
	return s + ":" + strconv.Itoa(t+len(n)*100+int((*r)))
}

type T62 []int

func (r T62) Add(a int, b int) int {
	return a*2 + b + len(r)
}

func (r T62) Error() string {
	return "T62.Error#" + strconv.Itoa(len(r))
}

func (r T62) Format(f fmt.State, c rune) {
	w_, wok := f.Width()
	p_, pok := f.Precision()
	fmt.Fprintf(f, "T62{%c w=%d/%t p=%d/%t +%t -%t #%t sp%t 0%t n=%d}", c, w_, wok, p_, pok, f.Flag('+'), f.Flag('-'), f.Flag('#'), f.Flag(' '), f.Flag('0'), len(r))
}

func (r *T62) Set(x int) {
	if r == nil {
		return
	}
	_ = x
}

func (r T62) String() string {
	return "T62.String#" + strconv.Itoa(len(r))
}

func (r T62) Two() (int, string) {
	return 117 + len(r), "T62"
}

type T63 struct { f0 map[complex128]g.Pair[int16, int16] }

func (r *T63) Cplx(c complex128) complex64 {
	if r == nil {
		return 0
	}
	return complex64(c) + complex(float32(0), 1)
}

func (r T63) Name() string {
	return "T63.Name#" + strconv.Itoa(0)
}

func (r T63) String() string {
	return "T63.String#" + strconv.Itoa(0)
}

type T64 struct { g.Box[uint64]; p0.T18 `json:"a"` }

type T65 struct { f0 p1.T31; F1 *fmt.Stringer `json:"b,omitempty" k:"v1"` }

func (r *T65) Add(a int, b int) int {
	if r == nil {
		return -1
	}
	return a*2 + b + 0
}

func (r *T65) Cplx(c complex128) complex64 {
	if r == nil {
		return 0
	}
	return complex64(c) + complex(float32(0), 1)
}

func (r *T65) Error() string {
	if r == nil {
		return "nilT65"
	}
	return "T65.Error#" + strconv.Itoa(0)
}

func (r *T65) Get() int {
	if r == nil {
		return -1
	}
	return 118 + 0
}

func (r *T65) String() string {
	if r == nil {
		return "nilT65"
	}
	return "T65.String#" + strconv.Itoa(0)
}

func (r *T65) Two() (int, string) {
	if r == nil {
		return -1, "nil"
	}
	return 120 + 0, "T65"
}

func (r *T65) Wide(a int8, b float64, c string, d uint16, e bool) (float64, bool) {
	if r == nil {
		return 0, false
	}
	return float64(a) + b*2 + float64(len(c)) + float64(d) + float64(0), !e
}

type T66 g.Pair[bool, p0.T10]

func (r *T66) Self() *T66 {
	return r
}

type T67 [][2]int32

func (r *T67) String() string {
	if r == nil {
		return "nilT67"
	}
	return "T67.String#" + strconv.Itoa(len((*r)))
}

type T68 interface { String() string }

type T69 struct { F0 map[float32]p0.T4 `xml:"n" json:"-"`; f1 map[[1]p0.T11]*int8 }

func (r T69) Add(a int, b int) int {
	return a*2 + b + 0
}

func (r *T69) hid(x int) int {
	if r == nil {
		return -1
	}
	return x + 120
}

type T70 interface { fmt.Stringer; T68; Name() string }

type T71 uint16

func (r *T71) Set(x int) {
	if r == nil {
		return
	}
	*r = T71(x)
}

func (r T71) String() string {
	return "T71.String#" + strconv.Itoa(int(r))
}

func (r T71) With(s string, n ...int8) string {
	t := 0
	for _, x := range n {
		t += int(x)
	}
	return s + ":" + strconv.Itoa(t+len(n)*100+int(r))
}

type T72 interface { Add(int, int) int }

func MkT49(k int) T49 {
	switch k {
	case 1:
		return T49{f0: (*map[int]p0.T7)(nil), T23: (*p0.T23)(nil), F2: g.MkWrap[p1.T28](p1.MkT28(0), -30000, "hi~")}
	case 2:
		return T49{f0: (*map[int]p0.T7)(nil), T23: (*p0.T23)(nil), F2: g.MkWrap[p1.T28](p1.MkT28(0), 42, "Z")}
	case 3:
		return T49{f0: w.Ptr(map[int]p0.T7{int(1): p0.MkT7(3), int(2): p0.MkT7(3)}), T23: w.Ptr(p0.MkT23(3)), F2: g.MkWrap[p1.T28](p1.MkT28(3), 1048576, "\x7f")}
	case 4:
		return T49{f0: w.Ptr(map[int]p0.T7{int(1): p0.MkT7(3), int(2): p0.MkT7(3)}), T23: w.Ptr(p0.MkT23(3)), F2: g.MkWrap[p1.T28](p1.MkT28(3), 1048577, "\x7f")}
	}
	return T49{f0: (*map[int]p0.T7)(nil), T23: (*p0.T23)(nil), F2: g.MkWrap[p1.T28](p1.MkT28(0), -30000, "hi")}
}

func MkT50(k int) T50 {
	switch k {
	case 1:
		return T50(complex(0.5, 0.5))
	case 2:
		return T50(complex(0.5, 1.0))
	case 3:
		return T50(complex(1.0, -0.5))
	case 4:
		return T50(complex(1.0, 0.5))
	}
	return T50(complex(0.5, -0.5))
}

func MkT51(k int) T51 {
	switch k {
	case 1:
		return T51{F0: struct { F0 p0.T23 }{F0: p0.MkT23(1)}, F1: (func(p0.T12, bool) p1.T41)(nil), F2: p1.MkT42(2)}
	case 2:
		return T51{F0: struct { F0 p0.T23 }{F0: p0.MkT23(2)}, F1: (func(p0.T12, bool) p1.T41)(nil), F2: p1.MkT42(2)}
	case 3:
		return T51{F0: struct { F0 p0.T23 }{F0: p0.MkT23(3)}, F1: (func(p0.T12, bool) p1.T41)(func(a0 p0.T12, a1 bool) p1.T41 { return p1.MkT41(0) }), F2: p1.MkT42(3)}
	case 4:
		return T51{F0: struct { F0 p0.T23 }{F0: p0.MkT23(3)}, F1: (func(p0.T12, bool) p1.T41)(func(a0 p0.T12, a1 bool) p1.T41 { return p1.MkT41(0) }), F2: p1.MkT42(4)}
	}
	return T51{F0: struct { F0 p0.T23 }{F0: p0.MkT23(0)}, F1: (func(p0.T12, bool) p1.T41)(nil), F2: p1.MkT42(2)}
}

func MkT52(k int) T52 {
	switch k {
	case 1:
		return T52{F0: float32(-1.0)}
	case 2:
		return T52{F0: float32(100.5)}
	case 3:
		return T52{F0: float32(0.25)}
	case 4:
		return T52{F0: float32(0.75)}
	}
	return T52{F0: float32(-1.5)}
}

func MkT53(k int) T53 {
	switch k {
	case 1:
		return T53{F0: (func(bool, bool) int32)(nil), F1: struct { F0 bool; f1 p1.T46; F2 float32; F3 int32; f4 int16 }{F0: bool(true), f1: p1.MkT46(0), F2: float32(1.0), F3: int32(1), f4: int16(100)}, T24: (*p0.T24)(nil)}
	case 2:
		return T53{F0: (func(bool, bool) int32)(nil), F1: struct { F0 bool; f1 p1.T46; F2 float32; F3 int32; f4 int16 }{F0: bool(true), f1: p1.MkT46(0), F2: float32(-1.5), F3: int32(1), f4: int16(0)}, T24: (*p0.T24)(nil)}
	case 3:
		return T53{F0: (func(bool, bool) int32)(func(a0 bool, a1 bool) int32 { return int32(120) }), F1: struct { F0 bool; f1 p1.T46; F2 float32; F3 int32; f4 int16 }{F0: bool(true), f1: p1.MkT46(3), F2: float32(1.0), F3: int32(100), f4: int16(65)}, T24: w.Ptr(p0.MkT24(3))}
	case 4:
		return T53{F0: (func(bool, bool) int32)(func(a0 bool, a1 bool) int32 { return int32(120) }), F1: struct { F0 bool; f1 p1.T46; F2 float32; F3 int32; f4 int16 }{F0: bool(false), f1: p1.MkT46(3), F2: float32(1.0), F3: int32(100), f4: int16(65)}, T24: w.Ptr(p0.MkT24(3))}
	}
	return T53{F0: (func(bool, bool) int32)(nil), F1: struct { F0 bool; f1 p1.T46; F2 float32; F3 int32; f4 int16 }{F0: bool(true), f1: p1.MkT46(0), F2: float32(1.0), F3: int32(1), f4: int16(99)}, T24: (*p0.T24)(nil)}
}

func MkT54(k int) T54 {
	switch k {
	case 1:
		return T54{F0: map[uintptr]p0.T20{}, f1: p1.MkT32(1)}
	case 2:
		return T54{F0: map[uintptr]p0.T20{}, f1: p1.MkT32(0)}
	case 3:
		return T54{F0: map[uintptr]p0.T20(nil), f1: p1.MkT32(3)}
	case 4:
		return T54{F0: map[uintptr]p0.T20(nil), f1: p1.MkT32(4)}
	}
	return T54{F0: map[uintptr]p0.T20{}, f1: p1.MkT32(0)}
}

func MkT55(k int) T55 {
	switch k {
	case 1:
		return T55{F0: g.MkBox[p0.T16](p0.MkT16(0), 121), F1: p1.MkT31(2)}
	case 2:
		return T55{F0: g.MkBox[p0.T16](p0.MkT16(2), -30000), F1: p1.MkT31(0)}
	case 3:
		return T55{F0: g.MkBox[p0.T16](p0.MkT16(3), 65), F1: p1.MkT31(3)}
	case 4:
		return T55{F0: g.MkBox[p0.T16](p0.MkT16(3), 66), F1: p1.MkT31(3)}
	}
	return T55{F0: g.MkBox[p0.T16](p0.MkT16(0), 120), F1: p1.MkT31(2)}
}

func MkT56(k int) T56 {
	switch k {
	case 1:
		return T56(MkT51(0))
	case 2:
		return T56(MkT51(0))
	case 3:
		return T56(MkT51(3))
	case 4:
		return T56(MkT51(4))
	}
	return T56(MkT51(2))
}

func MkT57(k int) T57 {
	switch k {
	case 1:
		return T57(g.List[int16]{int16(65), int16(1001)})
	case 2:
		return T57(g.List[int16](nil))
	case 3:
		return T57(g.List[int16]{int16(1000), int16(100)})
	case 4:
		return T57(g.List[int16]{int16(1000), int16(101)})
	}
	return T57(g.List[int16]{int16(65), int16(1000)})
}

func MkT58(k int) T58 {
	switch k {
	case 1:
		return T58(nil)
	case 2:
		return T58{p0.T8(uint8(1)): *new(T58), p0.T8(uint8(2)): *new(T58)}
	case 3:
		return T58{p0.T8(uint8(1)): *new(T58), p0.T8(uint8(2)): *new(T58), p0.T8(uint8(3)): *new(T58)}
	case 4:
		return T58{p0.T8(uint8(1)): *new(T58), p0.T8(uint8(2)): *new(T58), p0.T8(uint8(3)): *new(T58)}
	}
	return T58(nil)
}

func MkT59(k int) T59 {
	switch k {
	case 1:
		return T59{F0: p1.MkT28(1), f1: []struct { F0 p1.T36; _ p0.T9 }{struct { F0 p1.T36; _ p0.T9 }{F0: p1.MkT36(0)}, struct { F0 p1.T36; _ p0.T9 }{F0: p1.MkT36(0)}}, F2: (*[2]p0.T24)(nil)}
	case 2:
		return T59{F0: p1.MkT28(0), f1: []struct { F0 p1.T36; _ p0.T9 }{}, F2: (*[2]p0.T24)(nil)}
	case 3:
		return T59{F0: p1.MkT28(3), f1: []struct { F0 p1.T36; _ p0.T9 }{}, F2: w.Ptr([2]p0.T24{p0.MkT24(3), p0.MkT24(3)})}
	case 4:
		return T59{F0: p1.MkT28(3), f1: []struct { F0 p1.T36; _ p0.T9 }{}, F2: w.Ptr([2]p0.T24{p0.MkT24(4), p0.MkT24(3)})}
	}
	return T59{F0: p1.MkT28(0), f1: []struct { F0 p1.T36; _ p0.T9 }{struct { F0 p1.T36; _ p0.T9 }{F0: p1.MkT36(0)}, struct { F0 p1.T36; _ p0.T9 }{F0: p1.MkT36(0)}}, F2: (*[2]p0.T24)(nil)}
}

func MkT60(k int) T60 {
	switch k {
	case 1:
		return T60{f0: int32(-29999)}
	case 2:
		return T60{f0: int32(1048576)}
	case 3:
		return T60{f0: int32(-30000)}
	case 4:
		return T60{f0: int32(-29999)}
	}
	return T60{f0: int32(-30000)}
}

func MkT61(k int) T61 {
	switch k {
	case 1:
		return T61(1048577)
	case 2:
		return T61(-30000)
	case 3:
		return T61(-100)
	case 4:
		return T61(-99)
	}
	return T61(1048576)
}

func MkT62(k int) T62 {
	switch k {
	case 1:
		return T62(nil)
	case 2:
		return T62{int(65), int(-30000)}
	case 3:
		return T62{int(0), int(-30000)}
	case 4:
		return T62{int(0), int(-29999)}
	}
	return T62(nil)
}

func MkT63(k int) T63 {
	switch k {
	case 1:
		return T63{f0: map[complex128]g.Pair[int16, int16]{complex128(complex(1.0, 3.25)): g.MkPair[int16, int16](int16(1000), int16(1000)), complex128(complex(2.0, 3.25)): g.MkPair[int16, int16](int16(-30000), int16(-99))}}
	case 2:
		return T63{f0: map[complex128]g.Pair[int16, int16]{complex128(complex(1.0, 0.0)): g.MkPair[int16, int16](int16(-1), int16(1000)), complex128(complex(2.0, 3.25)): g.MkPair[int16, int16](int16(1000), int16(65)), complex128(complex(3.0, 0.0)): g.MkPair[int16, int16](int16(100), int16(1000))}}
	case 3:
		return T63{f0: map[complex128]g.Pair[int16, int16]{complex128(complex(1.0, 1.0)): g.MkPair[int16, int16](int16(1000), int16(1000)), complex128(complex(2.0, 1.0)): g.MkPair[int16, int16](int16(-30000), int16(65)), complex128(complex(3.0, 1.0)): g.MkPair[int16, int16](int16(65), int16(1))}}
	case 4:
		return T63{f0: map[complex128]g.Pair[int16, int16]{complex128(complex(1.0, 1.0)): g.MkPair[int16, int16](int16(1000), int16(1000)), complex128(complex(2.0, 1.0)): g.MkPair[int16, int16](int16(-30000), int16(65)), complex128(complex(3.0, 1.0)): g.MkPair[int16, int16](int16(65), int16(2))}}
	}
	return T63{f0: map[complex128]g.Pair[int16, int16]{complex128(complex(1.0, 3.25)): g.MkPair[int16, int16](int16(1000), int16(1000)), complex128(complex(2.0, 3.25)): g.MkPair[int16, int16](int16(-30000), int16(-100))}}
}

func MkT64(k int) T64 {
	switch k {
	case 1:
		return T64{Box: g.MkBox[uint64](uint64(200), 128513), T18: p0.MkT18(0)}
	case 2:
		return T64{Box: g.MkBox[uint64](uint64(65534), 99), T18: p0.MkT18(0)}
	case 3:
		return T64{Box: g.MkBox[uint64](uint64(9223372036854775813), 65), T18: p0.MkT18(3)}
	case 4:
		return T64{Box: g.MkBox[uint64](uint64(9223372036854775813), 65), T18: p0.MkT18(4)}
	}
	return T64{Box: g.MkBox[uint64](uint64(200), 128512), T18: p0.MkT18(0)}
}

func MkT65(k int) T65 {
	switch k {
	case 1:
		return T65{f0: p1.MkT31(1), F1: (*fmt.Stringer)(nil)}
	case 2:
		return T65{f0: p1.MkT31(2), F1: (*fmt.Stringer)(nil)}
	case 3:
		return T65{f0: p1.MkT31(3), F1: w.Ptr(fmt.Stringer(w.Str{65}))}
	case 4:
		return T65{f0: p1.MkT31(3), F1: w.Ptr(fmt.Stringer(w.Str{66}))}
	}
	return T65{f0: p1.MkT31(0), F1: (*fmt.Stringer)(nil)}
}

func MkT66(k int) T66 {
	switch k {
	case 1:
		return T66(g.MkPair[bool, p0.T10](bool(false), p0.MkT10(2)))
	case 2:
		return T66(g.MkPair[bool, p0.T10](bool(false), p0.MkT10(2)))
	case 3:
		return T66(g.MkPair[bool, p0.T10](bool(true), p0.MkT10(3)))
	case 4:
		return T66(g.MkPair[bool, p0.T10](bool(false), p0.MkT10(3)))
	}
	return T66(g.MkPair[bool, p0.T10](bool(true), p0.MkT10(2)))
}

func MkT67(k int) T67 {
	switch k {
	case 1:
		return T67{[2]int32{int32(-30000), int32(65)}, [2]int32{int32(66), int32(99)}}
	case 2:
		return T67{}
	case 3:
		return T67{[2]int32{int32(-30000), int32(128512)}, [2]int32{int32(-30000), int32(120)}}
	case 4:
		return T67{[2]int32{int32(-30000), int32(128512)}, [2]int32{int32(-30000), int32(121)}}
	}
	return T67{[2]int32{int32(-30000), int32(65)}, [2]int32{int32(65), int32(99)}}
}

func MkT68(k int) T68 {
	switch k {
	case 1:
		return T68(MkT63(1))
	case 2:
		return T68(MkT63(0))
	case 3:
		return T68(MkT63(3))
	case 4:
		return T68(MkT63(4))
	}
	return T68(MkT63(0))
}

func MkT69(k int) T69 {
	switch k {
	case 1:
		return T69{F0: map[float32]p0.T4{float32(1.5): p0.MkT4(0), float32(2.5): p0.MkT4(2), float32(3.5): p0.MkT4(0)}, f1: map[[1]p0.T11]*int8{}}
	case 2:
		return T69{F0: map[float32]p0.T4{float32(1.5): p0.MkT4(0)}, f1: map[[1]p0.T11]*int8{[1]p0.T11{p0.T11(uint(1))}: (*int8)(nil), [1]p0.T11{p0.T11(uint(2))}: (*int8)(nil)}}
	case 3:
		return T69{F0: map[float32]p0.T4(nil), f1: map[[1]p0.T11]*int8{[1]p0.T11{p0.T11(uint(1))}: (*int8)(nil), [1]p0.T11{p0.T11(uint(2))}: w.Ptr(int8(42)), [1]p0.T11{p0.T11(uint(3))}: w.Ptr(int8(0))}}
	case 4:
		return T69{F0: map[float32]p0.T4(nil), f1: map[[1]p0.T11]*int8{[1]p0.T11{p0.T11(uint(1))}: (*int8)(nil), [1]p0.T11{p0.T11(uint(2))}: w.Ptr(int8(42)), [1]p0.T11{p0.T11(uint(3))}: w.Ptr(int8(1))}}
	}
	return T69{F0: map[float32]p0.T4{float32(1.5): p0.MkT4(0), float32(2.5): p0.MkT4(2), float32(3.5): p0.MkT4(0)}, f1: map[[1]p0.T11]*int8{}}
}

func MkT70(k int) T70 {
	switch k {
	case 1:
		return T70(MkT63(1))
	case 2:
		return T70(MkT63(2))
	case 3:
		return T70(MkT63(3))
	case 4:
		return T70(MkT63(4))
	}
	return T70(MkT63(0))
}

func MkT71(k int) T71 {
	switch k {
	case 1:
		return T71(65535)
	case 2:
		return T71(200)
	case 3:
		return T71(1000)
	case 4:
		return T71(1001)
	}
	return T71(65534)
}

func MkT72(k int) T72 {
	switch k {
	case 1:
		return T72(MkT69(0))
	case 2:
		return T72(MkT69(2))
	case 3:
		return T72(MkT69(3))
	case 4:
		return T72(MkT69(4))
	}
	return T72(MkT69(0))
}

func U48() {
	w.Header("48", "N/ppp(struct{u:*map[int]N;E:*N`;g.Wrap[N]})")
	rt := reflect.TypeOf((*T49)(nil)).Elem()
	w.Try("type", func() { w.Type(rt) })
	partners := []reflect.Type{reflect.TypeOf((*p0.T5)(nil)).Elem(), reflect.TypeOf((*p1.T29)(nil)).Elem(), reflect.TypeOf((*p0.T20)(nil)).Elem()}
	w.Try("matrix", func() { w.Matrix(rt, partners) })
	w.Try("same", func() {
		w.Same("ptr", reflect.TypeOf((**T49)(nil)).Elem(), reflect.PointerTo(rt))
		w.Same("slice", reflect.TypeOf((*[]T49)(nil)).Elem(), reflect.SliceOf(rt))
		w.Same("array", reflect.TypeOf((*[3]T49)(nil)).Elem(), reflect.ArrayOf(3, rt))
		w.Same("chan", reflect.TypeOf((*<-chan T49)(nil)).Elem(), reflect.ChanOf(reflect.RecvDir, rt))
		w.Same("map", reflect.TypeOf((*map[string]T49)(nil)).Elem(), reflect.MapOf(reflect.TypeOf(""), rt))
		w.Same("func", reflect.TypeOf((*func(T49, ...T49) *T49)(nil)).Elem(), reflect.FuncOf([]reflect.Type{rt, reflect.SliceOf(rt)}, []reflect.Type{reflect.PointerTo(rt)}, true))
	})
	var x T49 = MkT49(0)
	var y T49 = MkT49(1)
	var z T49 = MkT49(2)
	var d T49 = MkT49(3)
	var e T49 = MkT49(4)
	w.Value("x", &x)
	w.Value("d", &d)
	w.Deep("xy", &x, &y)
	w.Deep("xz", &x, &z)
	w.Deep("de", &d, &e)
	w.Try("conv", func() { w.Conv("x", &x, partners) })
	w.Fmt("x", &x)
	w.Fmt("z", &z)
	w.ZeroFmt("t", rt)
	w.TypeCalls("d", &d)
	w.Calls("d", &d)
	_, _, _ = y, z, e
}

func U49() {
	w.Header("49", "N/ppppp(complex64)")
	rt := reflect.TypeOf((*T50)(nil)).Elem()
	w.Try("type", func() { w.Type(rt) })
	partners := []reflect.Type{reflect.TypeOf((*p1.T40)(nil)).Elem(), reflect.TypeOf((*p1.T35)(nil)).Elem(), reflect.TypeOf((*p1.T47)(nil)).Elem()}
	w.Try("matrix", func() { w.Matrix(rt, partners) })
	w.Try("same", func() {
		w.Same("ptr", reflect.TypeOf((**T50)(nil)).Elem(), reflect.PointerTo(rt))
		w.Same("slice", reflect.TypeOf((*[]T50)(nil)).Elem(), reflect.SliceOf(rt))
		w.Same("array", reflect.TypeOf((*[3]T50)(nil)).Elem(), reflect.ArrayOf(3, rt))
		w.Same("chan", reflect.TypeOf((*<-chan T50)(nil)).Elem(), reflect.ChanOf(reflect.RecvDir, rt))
		w.Same("map", reflect.TypeOf((*map[string]T50)(nil)).Elem(), reflect.MapOf(reflect.TypeOf(""), rt))
		w.Same("func", reflect.TypeOf((*func(T50, ...T50) *T50)(nil)).Elem(), reflect.FuncOf([]reflect.Type{rt, reflect.SliceOf(rt)}, []reflect.Type{reflect.PointerTo(rt)}, true))
	})
	var x T50 = MkT50(2)
	var y T50 = MkT50(0)
	var z T50 = MkT50(0)
	var d T50 = MkT50(3)
	var e T50 = MkT50(4)
	w.Value("x", &x)
	w.Value("d", &d)
	w.Deep("xy", &x, &y)
	w.Deep("xz", &x, &z)
	w.Deep("de", &d, &e)
	w.Try("conv", func() { w.Conv("x", &x, partners) })
	w.Fmt("x", &x)
	w.Fmt("z", &z)
	w.ZeroFmt("t", rt)
	w.TypeCalls("d", &d)
	w.Calls("d", &d)
	_, _, _ = y, z, e
}

func U50() {
	w.Header("50", "N/ppv(struct{struct{N};func(N,bool)(N);N/pppvvv(struct{G;E:u:error;E:*G;N})})")
	rt := reflect.TypeOf((*T51)(nil)).Elem()
	w.Try("type", func() { w.Type(rt) })
	partners := []reflect.Type{reflect.TypeOf((*p0.T17)(nil)).Elem(), reflect.TypeOf((*p1.T31)(nil)).Elem(), reflect.TypeOf((*p1.T43)(nil)).Elem()}
	w.Try("matrix", func() { w.Matrix(rt, partners) })
	w.Try("same", func() {
		w.Same("ptr", reflect.TypeOf((**T51)(nil)).Elem(), reflect.PointerTo(rt))
		w.Same("slice", reflect.TypeOf((*[]T51)(nil)).Elem(), reflect.SliceOf(rt))
		w.Same("array", reflect.TypeOf((*[3]T51)(nil)).Elem(), reflect.ArrayOf(3, rt))
		w.Same("chan", reflect.TypeOf((*<-chan T51)(nil)).Elem(), reflect.ChanOf(reflect.RecvDir, rt))
		w.Same("map", reflect.TypeOf((*map[string]T51)(nil)).Elem(), reflect.MapOf(reflect.TypeOf(""), rt))
		w.Same("func", reflect.TypeOf((*func(T51, ...T51) *T51)(nil)).Elem(), reflect.FuncOf([]reflect.Type{rt, reflect.SliceOf(rt)}, []reflect.Type{reflect.PointerTo(rt)}, true))
	})
	var x T51 = MkT51(0)
	var y T51 = MkT51(1)
	var z T51 = MkT51(0)
	var d T51 = MkT51(3)
	var e T51 = MkT51(4)
	w.Value("x", &x)
	w.Value("d", &d)
	w.Deep("xy", &x, &y)
	w.Deep("xz", &x, &z)
	w.Deep("de", &d, &e)
	w.Try("conv", func() { w.Conv("x", &x, partners) })
	w.P("F skipped: nil pointers or interfaces on the path of a promoted fmt method")
	w.TypeCalls("d", &d)
	w.Calls("d", &d)
	_, _, _ = y, z, e
}

func U51() {
	w.Header("51", "N/vvv(struct{float32})")
	rt := reflect.TypeOf((*T52)(nil)).Elem()
	w.Try("type", func() { w.Type(rt) })
	partners := []reflect.Type{reflect.TypeOf((*T50)(nil)).Elem(), reflect.TypeOf((*p1.T37)(nil)).Elem(), reflect.TypeOf((*p0.T2)(nil)).Elem()}
	w.Try("matrix", func() { w.Matrix(rt, partners) })
	w.Try("same", func() {
		w.Same("ptr", reflect.TypeOf((**T52)(nil)).Elem(), reflect.PointerTo(rt))
		w.Same("slice", reflect.TypeOf((*[]T52)(nil)).Elem(), reflect.SliceOf(rt))
		w.Same("array", reflect.TypeOf((*[3]T52)(nil)).Elem(), reflect.ArrayOf(3, rt))
		w.Same("chan", reflect.TypeOf((*<-chan T52)(nil)).Elem(), reflect.ChanOf(reflect.RecvDir, rt))
		w.Same("map", reflect.TypeOf((*map[string]T52)(nil)).Elem(), reflect.MapOf(reflect.TypeOf(""), rt))
		w.Same("func", reflect.TypeOf((*func(T52, ...T52) *T52)(nil)).Elem(), reflect.FuncOf([]reflect.Type{rt, reflect.SliceOf(rt)}, []reflect.Type{reflect.PointerTo(rt)}, true))
	})
	var x T52 = MkT52(0)
	var y T52 = MkT52(1)
	var z T52 = MkT52(0)
	var d T52 = MkT52(3)
	var e T52 = MkT52(4)
	w.Value("x", &x)
	w.Value("d", &d)
	w.Deep("xy", &x, &y)
	w.Deep("xz", &x, &z)
	w.Deep("de", &d, &e)
	w.Try("conv", func() { w.Conv("x", &x, partners) })
	w.Fmt("x", &x)
	w.Fmt("z", &z)
	w.ZeroFmt("t", rt)
	w.TypeCalls("d", &d)
	w.Calls("d", &d)
	_, _, _ = y, z, e
}

func U52() {
	w.Header("52", "N(struct{func(bool,bool)(int32);struct{bool;u:N;float32;int32;u:int16};E:*N})")
	rt := reflect.TypeOf((*T53)(nil)).Elem()
	w.Try("type", func() { w.Type(rt) })
	partners := []reflect.Type{reflect.TypeOf((*p1.T27)(nil)).Elem(), reflect.TypeOf((*p1.T28)(nil)).Elem(), reflect.TypeOf((*p1.T25)(nil)).Elem()}
	w.Try("matrix", func() { w.Matrix(rt, partners) })
	w.Try("same", func() {
		w.Same("ptr", reflect.TypeOf((**T53)(nil)).Elem(), reflect.PointerTo(rt))
		w.Same("slice", reflect.TypeOf((*[]T53)(nil)).Elem(), reflect.SliceOf(rt))
		w.Same("array", reflect.TypeOf((*[3]T53)(nil)).Elem(), reflect.ArrayOf(3, rt))
		w.Same("chan", reflect.TypeOf((*<-chan T53)(nil)).Elem(), reflect.ChanOf(reflect.RecvDir, rt))
		w.Same("map", reflect.TypeOf((*map[string]T53)(nil)).Elem(), reflect.MapOf(reflect.TypeOf(""), rt))
		w.Same("func", reflect.TypeOf((*func(T53, ...T53) *T53)(nil)).Elem(), reflect.FuncOf([]reflect.Type{rt, reflect.SliceOf(rt)}, []reflect.Type{reflect.PointerTo(rt)}, true))
	})
	var x T53 = MkT53(0)
	var y T53 = MkT53(1)
	var z T53 = MkT53(0)
	var d T53 = MkT53(3)
	var e T53 = MkT53(4)
	w.Value("x", &x)
	w.Value("d", &d)
	w.Deep("xy", &x, &y)
	w.Deep("xz", &x, &z)
	w.Deep("de", &d, &e)
	w.Try("conv", func() { w.Conv("x", &x, partners) })
	w.Fmt("x", &x)
	w.Fmt("z", &z)
	w.ZeroFmt("t", rt)
	w.TypeCalls("d", &d)
	w.Calls("d", &d)
	_, _, _ = y, z, e
}

func U53() {
	w.Header("53", "N/ppu(struct{map[uintptr]N;u:N/pvvvu(struct{E:u:error})})")
	rt := reflect.TypeOf((*T54)(nil)).Elem()
	w.Try("type", func() { w.Type(rt) })
	partners := []reflect.Type{reflect.TypeOf((*p1.T32)(nil)).Elem(), reflect.TypeOf((*p1.T45)(nil)).Elem(), reflect.TypeOf((*p1.T31)(nil)).Elem()}
	w.Try("matrix", func() { w.Matrix(rt, partners) })
	w.Try("same", func() {
		w.Same("ptr", reflect.TypeOf((**T54)(nil)).Elem(), reflect.PointerTo(rt))
		w.Same("slice", reflect.TypeOf((*[]T54)(nil)).Elem(), reflect.SliceOf(rt))
		w.Same("array", reflect.TypeOf((*[3]T54)(nil)).Elem(), reflect.ArrayOf(3, rt))
		w.Same("chan", reflect.TypeOf((*<-chan T54)(nil)).Elem(), reflect.ChanOf(reflect.RecvDir, rt))
		w.Same("map", reflect.TypeOf((*map[string]T54)(nil)).Elem(), reflect.MapOf(reflect.TypeOf(""), rt))
		w.Same("func", reflect.TypeOf((*func(T54, ...T54) *T54)(nil)).Elem(), reflect.FuncOf([]reflect.Type{rt, reflect.SliceOf(rt)}, []reflect.Type{reflect.PointerTo(rt)}, true))
	})
	var x T54 = MkT54(0)
	var y T54 = MkT54(1)
	var z T54 = MkT54(2)
	var d T54 = MkT54(3)
	var e T54 = MkT54(4)
	w.Value("x", &x)
	w.Value("d", &d)
	w.Deep("xy", &x, &y)
	w.Deep("xz", &x, &z)
	w.Deep("de", &d, &e)
	w.Try("conv", func() { w.Conv("x", &x, partners) })
	w.Fmt("x", &x)
	w.Fmt("z", &z)
	w.TypeCalls("d", &d)
	w.Calls("d", &d)
	_, _, _ = y, z, e
}

func U54() {
	w.Header("54", "N/p(struct{g.Box[N];N/p(int32)`})")
	rt := reflect.TypeOf((*T55)(nil)).Elem()
	w.Try("type", func() { w.Type(rt) })
	partners := []reflect.Type{reflect.TypeOf((*p0.T6)(nil)).Elem(), reflect.TypeOf((*p1.T33)(nil)).Elem(), reflect.TypeOf((*p0.T22)(nil)).Elem()}
	w.Try("matrix", func() { w.Matrix(rt, partners) })
	w.Try("same", func() {
		w.Same("ptr", reflect.TypeOf((**T55)(nil)).Elem(), reflect.PointerTo(rt))
		w.Same("slice", reflect.TypeOf((*[]T55)(nil)).Elem(), reflect.SliceOf(rt))
		w.Same("array", reflect.TypeOf((*[3]T55)(nil)).Elem(), reflect.ArrayOf(3, rt))
		w.Same("chan", reflect.TypeOf((*<-chan T55)(nil)).Elem(), reflect.ChanOf(reflect.RecvDir, rt))
		w.Same("map", reflect.TypeOf((*map[string]T55)(nil)).Elem(), reflect.MapOf(reflect.TypeOf(""), rt))
		w.Same("func", reflect.TypeOf((*func(T55, ...T55) *T55)(nil)).Elem(), reflect.FuncOf([]reflect.Type{rt, reflect.SliceOf(rt)}, []reflect.Type{reflect.PointerTo(rt)}, true))
	})
	var x T55 = MkT55(2)
	var y T55 = MkT55(0)
	var z T55 = MkT55(0)
	var d T55 = MkT55(3)
	var e T55 = MkT55(4)
	w.Value("x", &x)
	w.Value("d", &d)
	w.Deep("xy", &x, &y)
	w.Deep("xz", &x, &z)
	w.Deep("de", &d, &e)
	w.Try("conv", func() { w.Conv("x", &x, partners) })
	w.Fmt("x", &x)
	w.Fmt("z", &z)
	w.ZeroFmt("t", rt)
	w.TypeCalls("d", &d)
	w.Calls("d", &d)
	_, _, _ = y, z, e
}

func U55() {
	w.Header("55", "N(interface{1})")
	rt := reflect.TypeOf((*T56)(nil)).Elem()
	w.Try("type", func() { w.Type(rt) })
	partners := []reflect.Type{reflect.TypeOf((*T55)(nil)).Elem(), reflect.TypeOf((*p1.T31)(nil)).Elem(), reflect.TypeOf((*p0.T9)(nil)).Elem()}
	w.Try("matrix", func() { w.Matrix(rt, partners) })
	w.Try("same", func() {
		w.Same("ptr", reflect.TypeOf((**T56)(nil)).Elem(), reflect.PointerTo(rt))
		w.Same("slice", reflect.TypeOf((*[]T56)(nil)).Elem(), reflect.SliceOf(rt))
		w.Same("array", reflect.TypeOf((*[3]T56)(nil)).Elem(), reflect.ArrayOf(3, rt))
		w.Same("chan", reflect.TypeOf((*<-chan T56)(nil)).Elem(), reflect.ChanOf(reflect.RecvDir, rt))
		w.Same("map", reflect.TypeOf((*map[string]T56)(nil)).Elem(), reflect.MapOf(reflect.TypeOf(""), rt))
		w.Same("func", reflect.TypeOf((*func(T56, ...T56) *T56)(nil)).Elem(), reflect.FuncOf([]reflect.Type{rt, reflect.SliceOf(rt)}, []reflect.Type{reflect.PointerTo(rt)}, true))
	})
	var x T56 = MkT56(0)
	var y T56 = MkT56(1)
	var z T56 = MkT56(0)
	var d T56 = MkT56(3)
	var e T56 = MkT56(4)
	w.Value("x", &x)
	w.Value("d", &d)
	w.Deep("xy", &x, &y)
	w.Deep("xz", &x, &z)
	w.Deep("de", &d, &e)
	w.Try("conv", func() { w.Conv("x", &x, partners) })
	w.P("F skipped: nil pointers or interfaces on the path of a promoted fmt method")
	w.ZeroFmt("t", rt)
	w.TypeCalls("d", &d)
	w.Calls("d", &d)
	_, _, _ = y, z, e
}

func U56() {
	w.Header("56", "N(g.List[int16])")
	rt := reflect.TypeOf((*T57)(nil)).Elem()
	w.Try("type", func() { w.Type(rt) })
	partners := []reflect.Type{reflect.TypeOf((*p0.T18)(nil)).Elem(), reflect.TypeOf((*p1.T35)(nil)).Elem(), reflect.TypeOf((*p1.T41)(nil)).Elem()}
	w.Try("matrix", func() { w.Matrix(rt, partners) })
	w.Try("same", func() {
		w.Same("ptr", reflect.TypeOf((**T57)(nil)).Elem(), reflect.PointerTo(rt))
		w.Same("slice", reflect.TypeOf((*[]T57)(nil)).Elem(), reflect.SliceOf(rt))
		w.Same("array", reflect.TypeOf((*[3]T57)(nil)).Elem(), reflect.ArrayOf(3, rt))
		w.Same("chan", reflect.TypeOf((*<-chan T57)(nil)).Elem(), reflect.ChanOf(reflect.RecvDir, rt))
		w.Same("map", reflect.TypeOf((*map[string]T57)(nil)).Elem(), reflect.MapOf(reflect.TypeOf(""), rt))
		w.Same("func", reflect.TypeOf((*func(T57, ...T57) *T57)(nil)).Elem(), reflect.FuncOf([]reflect.Type{rt, reflect.SliceOf(rt)}, []reflect.Type{reflect.PointerTo(rt)}, true))
	})
	var x T57 = MkT57(0)
	var y T57 = MkT57(1)
	var z T57 = MkT57(0)
	var d T57 = MkT57(3)
	var e T57 = MkT57(4)
	w.Value("x", &x)
	w.Value("d", &d)
	w.Deep("xy", &x, &y)
	w.Deep("xz", &x, &z)
	w.Deep("de", &d, &e)
	w.Try("conv", func() { w.Conv("x", &x, partners) })
	w.Fmt("x", &x)
	w.Fmt("z", &z)
	w.ZeroFmt("t", rt)
	w.TypeCalls("d", &d)
	w.Calls("d", &d)
	_, _, _ = y, z, e
}

func U57() {
	w.Header("57", "N(map[N/pppp(uint8)]N(map[N]N))")
	rt := reflect.TypeOf((*T58)(nil)).Elem()
	w.Try("type", func() { w.Type(rt) })
	partners := []reflect.Type{reflect.TypeOf((*p0.T14)(nil)).Elem(), reflect.TypeOf((*T51)(nil)).Elem(), reflect.TypeOf((*p0.T13)(nil)).Elem()}
	w.Try("matrix", func() { w.Matrix(rt, partners) })
	w.Try("same", func() {
		w.Same("ptr", reflect.TypeOf((**T58)(nil)).Elem(), reflect.PointerTo(rt))
		w.Same("slice", reflect.TypeOf((*[]T58)(nil)).Elem(), reflect.SliceOf(rt))
		w.Same("array", reflect.TypeOf((*[3]T58)(nil)).Elem(), reflect.ArrayOf(3, rt))
		w.Same("chan", reflect.TypeOf((*<-chan T58)(nil)).Elem(), reflect.ChanOf(reflect.RecvDir, rt))
		w.Same("map", reflect.TypeOf((*map[string]T58)(nil)).Elem(), reflect.MapOf(reflect.TypeOf(""), rt))
		w.Same("func", reflect.TypeOf((*func(T58, ...T58) *T58)(nil)).Elem(), reflect.FuncOf([]reflect.Type{rt, reflect.SliceOf(rt)}, []reflect.Type{reflect.PointerTo(rt)}, true))
	})
	var x T58 = MkT58(0)
	var y T58 = MkT58(0)
	var z T58 = MkT58(0)
	var d T58 = MkT58(3)
	var e T58 = MkT58(3)
	w.Value("x", &x)
	w.Value("d", &d)
	w.Deep("xy", &x, &y)
	w.Deep("xz", &x, &z)
	w.Deep("de", &d, &e)
	w.Try("conv", func() { w.Conv("x", &x, partners) })
	w.Fmt("x", &x)
	w.Fmt("z", &z)
	w.ZeroFmt("t", rt)
	w.TypeCalls("d", &d)
	w.Calls("d", &d)
	_, _, _ = y, z, e
}

func U58() {
	w.Header("58", "N(struct{N/vvvvvu(g.Num[int]);u:[]struct{N;u:N};*[n]N})")
	rt := reflect.TypeOf((*T59)(nil)).Elem()
	w.Try("type", func() { w.Type(rt) })
	partners := []reflect.Type{reflect.TypeOf((*p0.T20)(nil)).Elem(), reflect.TypeOf((*p0.T21)(nil)).Elem(), reflect.TypeOf((*p0.T22)(nil)).Elem()}
	w.Try("matrix", func() { w.Matrix(rt, partners) })
	w.Try("same", func() {
		w.Same("ptr", reflect.TypeOf((**T59)(nil)).Elem(), reflect.PointerTo(rt))
		w.Same("slice", reflect.TypeOf((*[]T59)(nil)).Elem(), reflect.SliceOf(rt))
		w.Same("array", reflect.TypeOf((*[3]T59)(nil)).Elem(), reflect.ArrayOf(3, rt))
		w.Same("chan", reflect.TypeOf((*<-chan T59)(nil)).Elem(), reflect.ChanOf(reflect.RecvDir, rt))
		w.Same("map", reflect.TypeOf((*map[string]T59)(nil)).Elem(), reflect.MapOf(reflect.TypeOf(""), rt))
		w.Same("func", reflect.TypeOf((*func(T59, ...T59) *T59)(nil)).Elem(), reflect.FuncOf([]reflect.Type{rt, reflect.SliceOf(rt)}, []reflect.Type{reflect.PointerTo(rt)}, true))
	})
	var x T59 = MkT59(0)
	var y T59 = MkT59(1)
	var z T59 = MkT59(0)
	var d T59 = MkT59(3)
	var e T59 = MkT59(4)
	w.Value("x", &x)
	w.Value("d", &d)
	w.Deep("xy", &x, &y)
	w.Deep("xz", &x, &z)
	w.Deep("de", &d, &e)
	w.Try("conv", func() { w.Conv("x", &x, partners) })
	w.Fmt("x", &x)
	w.Fmt("z", &z)
	w.ZeroFmt("t", rt)
	w.TypeCalls("d", &d)
	w.Calls("d", &d)
	_, _, _ = y, z, e
}

func U59() {
	w.Header("59", "N/pppp(struct{u:int32})")
	rt := reflect.TypeOf((*T60)(nil)).Elem()
	w.Try("type", func() { w.Type(rt) })
	partners := []reflect.Type{reflect.TypeOf((*T54)(nil)).Elem(), reflect.TypeOf((*p1.T26)(nil)).Elem(), reflect.TypeOf((*T51)(nil)).Elem()}
	w.Try("matrix", func() { w.Matrix(rt, partners) })
	w.Try("same", func() {
		w.Same("ptr", reflect.TypeOf((**T60)(nil)).Elem(), reflect.PointerTo(rt))
		w.Same("slice", reflect.TypeOf((*[]T60)(nil)).Elem(), reflect.SliceOf(rt))
		w.Same("array", reflect.TypeOf((*[3]T60)(nil)).Elem(), reflect.ArrayOf(3, rt))
		w.Same("chan", reflect.TypeOf((*<-chan T60)(nil)).Elem(), reflect.ChanOf(reflect.RecvDir, rt))
		w.Same("map", reflect.TypeOf((*map[string]T60)(nil)).Elem(), reflect.MapOf(reflect.TypeOf(""), rt))
		w.Same("func", reflect.TypeOf((*func(T60, ...T60) *T60)(nil)).Elem(), reflect.FuncOf([]reflect.Type{rt, reflect.SliceOf(rt)}, []reflect.Type{reflect.PointerTo(rt)}, true))
	})
	var x T60 = MkT60(0)
	var y T60 = MkT60(1)
	var z T60 = MkT60(0)
	var d T60 = MkT60(3)
	var e T60 = MkT60(4)
	w.Value("x", &x)
	w.Value("d", &d)
	w.Deep("xy", &x, &y)
	w.Deep("xz", &x, &z)
	w.Deep("de", &d, &e)
	w.Try("conv", func() { w.Conv("x", &x, partners) })
	w.Fmt("x", &x)
	w.Fmt("z", &z)
	w.ZeroFmt("t", rt)
	w.TypeCalls("d", &d)
	w.Calls("d", &d)
	_, _, _ = y, z, e
}

func U60() {
	w.Header("60", "N/pvv(int)")
	rt := reflect.TypeOf((*T61)(nil)).Elem()
	w.Try("type", func() { w.Type(rt) })
	partners := []reflect.Type{reflect.TypeOf((*T52)(nil)).Elem(), reflect.TypeOf((*T52)(nil)).Elem(), reflect.TypeOf((*p0.T1)(nil)).Elem()}
	w.Try("matrix", func() { w.Matrix(rt, partners) })
	w.Try("same", func() {
		w.Same("ptr", reflect.TypeOf((**T61)(nil)).Elem(), reflect.PointerTo(rt))
		w.Same("slice", reflect.TypeOf((*[]T61)(nil)).Elem(), reflect.SliceOf(rt))
		w.Same("array", reflect.TypeOf((*[3]T61)(nil)).Elem(), reflect.ArrayOf(3, rt))
		w.Same("chan", reflect.TypeOf((*<-chan T61)(nil)).Elem(), reflect.ChanOf(reflect.RecvDir, rt))
		w.Same("map", reflect.TypeOf((*map[string]T61)(nil)).Elem(), reflect.MapOf(reflect.TypeOf(""), rt))
		w.Same("func", reflect.TypeOf((*func(T61, ...T61) *T61)(nil)).Elem(), reflect.FuncOf([]reflect.Type{rt, reflect.SliceOf(rt)}, []reflect.Type{reflect.PointerTo(rt)}, true))
	})
	var x T61 = MkT61(0)
	var y T61 = MkT61(1)
	var z T61 = MkT61(2)
	var d T61 = MkT61(3)
	var e T61 = MkT61(4)
	w.Value("x", &x)
	w.Value("d", &d)
	w.Deep("xy", &x, &y)
	w.Deep("xz", &x, &z)
	w.Deep("de", &d, &e)
	w.Try("conv", func() { w.Conv("x", &x, partners) })
	w.Fmt("x", &x)
	w.Fmt("z", &z)
	w.ZeroFmt("t", rt)
	w.TypeCalls("d", &d)
	w.Calls("d", &d)
	_, _, _ = y, z, e
}

func U61() {
	w.Header("61", "N/pvvvvv([]int)")
	rt := reflect.TypeOf((*T62)(nil)).Elem()
	w.Try("type", func() { w.Type(rt) })
	partners := []reflect.Type{reflect.TypeOf((*p0.T10)(nil)).Elem(), reflect.TypeOf((*p0.T11)(nil)).Elem(), reflect.TypeOf((*p0.T10)(nil)).Elem()}
	w.Try("matrix", func() { w.Matrix(rt, partners) })
	w.Try("same", func() {
		w.Same("ptr", reflect.TypeOf((**T62)(nil)).Elem(), reflect.PointerTo(rt))
		w.Same("slice", reflect.TypeOf((*[]T62)(nil)).Elem(), reflect.SliceOf(rt))
		w.Same("array", reflect.TypeOf((*[3]T62)(nil)).Elem(), reflect.ArrayOf(3, rt))
		w.Same("chan", reflect.TypeOf((*<-chan T62)(nil)).Elem(), reflect.ChanOf(reflect.RecvDir, rt))
		w.Same("map", reflect.TypeOf((*map[string]T62)(nil)).Elem(), reflect.MapOf(reflect.TypeOf(""), rt))
		w.Same("func", reflect.TypeOf((*func(T62, ...T62) *T62)(nil)).Elem(), reflect.FuncOf([]reflect.Type{rt, reflect.SliceOf(rt)}, []reflect.Type{reflect.PointerTo(rt)}, true))
	})
	var x T62 = MkT62(2)
	var y T62 = MkT62(2)
	var z T62 = MkT62(0)
	var d T62 = MkT62(3)
	var e T62 = MkT62(4)
	w.Value("x", &x)
	w.Value("d", &d)
	w.Deep("xy", &x, &y)
	w.Deep("xz", &x, &z)
	w.Deep("de", &d, &e)
	w.Try("conv", func() { w.Conv("x", &x, partners) })
	w.Fmt("x", &x)
	w.Fmt("z", &z)
	w.ZeroFmt("t", rt)
	w.TypeCalls("d", &d)
	w.Calls("d", &d)
	_, _, _ = y, z, e
}

func U62() {
	w.Header("62", "N/pvv(struct{u:map[complex128]g.Pair[int16,int16]})")
	rt := reflect.TypeOf((*T63)(nil)).Elem()
	w.Try("type", func() { w.Type(rt) })
	partners := []reflect.Type{reflect.TypeOf((*p1.T32)(nil)).Elem(), reflect.TypeOf((*p0.T10)(nil)).Elem(), reflect.TypeOf((*p0.T12)(nil)).Elem()}
	w.Try("matrix", func() { w.Matrix(rt, partners) })
	w.Try("same", func() {
		w.Same("ptr", reflect.TypeOf((**T63)(nil)).Elem(), reflect.PointerTo(rt))
		w.Same("slice", reflect.TypeOf((*[]T63)(nil)).Elem(), reflect.SliceOf(rt))
		w.Same("array", reflect.TypeOf((*[3]T63)(nil)).Elem(), reflect.ArrayOf(3, rt))
		w.Same("chan", reflect.TypeOf((*<-chan T63)(nil)).Elem(), reflect.ChanOf(reflect.RecvDir, rt))
		w.Same("map", reflect.TypeOf((*map[string]T63)(nil)).Elem(), reflect.MapOf(reflect.TypeOf(""), rt))
		w.Same("func", reflect.TypeOf((*func(T63, ...T63) *T63)(nil)).Elem(), reflect.FuncOf([]reflect.Type{rt, reflect.SliceOf(rt)}, []reflect.Type{reflect.PointerTo(rt)}, true))
	})
	var x T63 = MkT63(0)
	var y T63 = MkT63(1)
	var z T63 = MkT63(0)
	var d T63 = MkT63(3)
	var e T63 = MkT63(4)
	w.Value("x", &x)
	w.Value("d", &d)
	w.Deep("xy", &x, &y)
	w.Deep("xz", &x, &z)
	w.Deep("de", &d, &e)
	w.Try("conv", func() { w.Conv("x", &x, partners) })
	w.Fmt("x", &x)
	w.Fmt("z", &z)
	w.ZeroFmt("t", rt)
	w.TypeCalls("d", &d)
	w.Calls("d", &d)
	_, _, _ = y, z, e
}

func U63() {
	w.Header("63", "N(struct{E:g.Box[uint64];E:N(g.Pair[N,N])`})")
	rt := reflect.TypeOf((*T64)(nil)).Elem()
	w.Try("type", func() { w.Type(rt) })
	partners := []reflect.Type{reflect.TypeOf((*p0.T19)(nil)).Elem(), reflect.TypeOf((*T57)(nil)).Elem(), reflect.TypeOf((*p0.T16)(nil)).Elem()}
	w.Try("matrix", func() { w.Matrix(rt, partners) })
	w.Try("same", func() {
		w.Same("ptr", reflect.TypeOf((**T64)(nil)).Elem(), reflect.PointerTo(rt))
		w.Same("slice", reflect.TypeOf((*[]T64)(nil)).Elem(), reflect.SliceOf(rt))
		w.Same("array", reflect.TypeOf((*[3]T64)(nil)).Elem(), reflect.ArrayOf(3, rt))
		w.Same("chan", reflect.TypeOf((*<-chan T64)(nil)).Elem(), reflect.ChanOf(reflect.RecvDir, rt))
		w.Same("map", reflect.TypeOf((*map[string]T64)(nil)).Elem(), reflect.MapOf(reflect.TypeOf(""), rt))
		w.Same("func", reflect.TypeOf((*func(T64, ...T64) *T64)(nil)).Elem(), reflect.FuncOf([]reflect.Type{rt, reflect.SliceOf(rt)}, []reflect.Type{reflect.PointerTo(rt)}, true))
	})
	var x T64 = MkT64(0)
	var y T64 = MkT64(1)
	var z T64 = MkT64(0)
	var d T64 = MkT64(3)
	var e T64 = MkT64(4)
	w.Value("x", &x)
	w.Value("d", &d)
	w.Deep("xy", &x, &y)
	w.Deep("xz", &x, &z)
	w.Deep("de", &d, &e)
	w.Try("conv", func() { w.Conv("x", &x, partners) })
	w.Fmt("x", &x)
	w.Fmt("z", &z)
	w.ZeroFmt("t", rt)
	w.TypeCalls("d", &d)
	w.Calls("d", &d)
	_, _, _ = y, z, e
}

func U64() {
	w.Header("64", "N/ppppppp(struct{u:N/p(int32);*fmt.Stringer`})")
	rt := reflect.TypeOf((*T65)(nil)).Elem()
	w.Try("type", func() { w.Type(rt) })
	partners := []reflect.Type{reflect.TypeOf((*T54)(nil)).Elem(), reflect.TypeOf((*T63)(nil)).Elem(), reflect.TypeOf((*p0.T9)(nil)).Elem()}
	w.Try("matrix", func() { w.Matrix(rt, partners) })
	w.Try("same", func() {
		w.Same("ptr", reflect.TypeOf((**T65)(nil)).Elem(), reflect.PointerTo(rt))
		w.Same("slice", reflect.TypeOf((*[]T65)(nil)).Elem(), reflect.SliceOf(rt))
		w.Same("array", reflect.TypeOf((*[3]T65)(nil)).Elem(), reflect.ArrayOf(3, rt))
		w.Same("chan", reflect.TypeOf((*<-chan T65)(nil)).Elem(), reflect.ChanOf(reflect.RecvDir, rt))
		w.Same("map", reflect.TypeOf((*map[string]T65)(nil)).Elem(), reflect.MapOf(reflect.TypeOf(""), rt))
		w.Same("func", reflect.TypeOf((*func(T65, ...T65) *T65)(nil)).Elem(), reflect.FuncOf([]reflect.Type{rt, reflect.SliceOf(rt)}, []reflect.Type{reflect.PointerTo(rt)}, true))
	})
	var x T65 = MkT65(0)
	var y T65 = MkT65(1)
	var z T65 = MkT65(0)
	var d T65 = MkT65(3)
	var e T65 = MkT65(4)
	w.Value("x", &x)
	w.Value("d", &d)
	w.Deep("xy", &x, &y)
	w.Deep("xz", &x, &z)
	w.Deep("de", &d, &e)
	w.Try("conv", func() { w.Conv("x", &x, partners) })
	w.Fmt("x", &x)
	w.Fmt("z", &z)
	w.ZeroFmt("t", rt)
	w.TypeCalls("d", &d)
	w.Calls("d", &d)
	_, _, _ = y, z, e
}

func U65() {
	w.Header("65", "N/p(g.Pair[bool,N(map[int16]N)])")
	rt := reflect.TypeOf((*T66)(nil)).Elem()
	w.Try("type", func() { w.Type(rt) })
	partners := []reflect.Type{reflect.TypeOf((*p1.T27)(nil)).Elem(), reflect.TypeOf((*T65)(nil)).Elem(), reflect.TypeOf((*T63)(nil)).Elem()}
	w.Try("matrix", func() { w.Matrix(rt, partners) })
	w.Try("same", func() {
		w.Same("ptr", reflect.TypeOf((**T66)(nil)).Elem(), reflect.PointerTo(rt))
		w.Same("slice", reflect.TypeOf((*[]T66)(nil)).Elem(), reflect.SliceOf(rt))
		w.Same("array", reflect.TypeOf((*[3]T66)(nil)).Elem(), reflect.ArrayOf(3, rt))
		w.Same("chan", reflect.TypeOf((*<-chan T66)(nil)).Elem(), reflect.ChanOf(reflect.RecvDir, rt))
		w.Same("map", reflect.TypeOf((*map[string]T66)(nil)).Elem(), reflect.MapOf(reflect.TypeOf(""), rt))
		w.Same("func", reflect.TypeOf((*func(T66, ...T66) *T66)(nil)).Elem(), reflect.FuncOf([]reflect.Type{rt, reflect.SliceOf(rt)}, []reflect.Type{reflect.PointerTo(rt)}, true))
	})
	var x T66 = MkT66(0)
	var y T66 = MkT66(1)
	var z T66 = MkT66(2)
	var d T66 = MkT66(3)
	var e T66 = MkT66(4)
	w.Value("x", &x)
	w.Value("d", &d)
	w.Deep("xy", &x, &y)
	w.Deep("xz", &x, &z)
	w.Deep("de", &d, &e)
	w.Try("conv", func() { w.Conv("x", &x, partners) })
	w.Fmt("x", &x)
	w.Fmt("z", &z)
	w.ZeroFmt("t", rt)
	w.TypeCalls("d", &d)
	w.Calls("d", &d)
	_, _, _ = y, z, e
}

func U66() {
	w.Header("66", "N/p([][n]int32)")
	rt := reflect.TypeOf((*T67)(nil)).Elem()
	w.Try("type", func() { w.Type(rt) })
	partners := []reflect.Type{reflect.TypeOf((*p0.T20)(nil)).Elem(), reflect.TypeOf((*p0.T5)(nil)).Elem(), reflect.TypeOf((*p1.T38)(nil)).Elem()}
	w.Try("matrix", func() { w.Matrix(rt, partners) })
	w.Try("same", func() {
		w.Same("ptr", reflect.TypeOf((**T67)(nil)).Elem(), reflect.PointerTo(rt))
		w.Same("slice", reflect.TypeOf((*[]T67)(nil)).Elem(), reflect.SliceOf(rt))
		w.Same("array", reflect.TypeOf((*[3]T67)(nil)).Elem(), reflect.ArrayOf(3, rt))
		w.Same("chan", reflect.TypeOf((*<-chan T67)(nil)).Elem(), reflect.ChanOf(reflect.RecvDir, rt))
		w.Same("map", reflect.TypeOf((*map[string]T67)(nil)).Elem(), reflect.MapOf(reflect.TypeOf(""), rt))
		w.Same("func", reflect.TypeOf((*func(T67, ...T67) *T67)(nil)).Elem(), reflect.FuncOf([]reflect.Type{rt, reflect.SliceOf(rt)}, []reflect.Type{reflect.PointerTo(rt)}, true))
	})
	var x T67 = MkT67(2)
	var y T67 = MkT67(0)
	var z T67 = MkT67(0)
	var d T67 = MkT67(3)
	var e T67 = MkT67(4)
	w.Value("x", &x)
	w.Value("d", &d)
	w.Deep("xy", &x, &y)
	w.Deep("xz", &x, &z)
	w.Deep("de", &d, &e)
	w.Try("conv", func() { w.Conv("x", &x, partners) })
	w.Fmt("x", &x)
	w.Fmt("z", &z)
	w.ZeroFmt("t", rt)
	w.TypeCalls("d", &d)
	w.Calls("d", &d)
	_, _, _ = y, z, e
}

func U67() {
	w.Header("67", "N(interface{1})")
	rt := reflect.TypeOf((*T68)(nil)).Elem()
	w.Try("type", func() { w.Type(rt) })
	partners := []reflect.Type{reflect.TypeOf((*p1.T29)(nil)).Elem(), reflect.TypeOf((*T53)(nil)).Elem(), reflect.TypeOf((*p0.T19)(nil)).Elem()}
	w.Try("matrix", func() { w.Matrix(rt, partners) })
	w.Try("same", func() {
		w.Same("ptr", reflect.TypeOf((**T68)(nil)).Elem(), reflect.PointerTo(rt))
		w.Same("slice", reflect.TypeOf((*[]T68)(nil)).Elem(), reflect.SliceOf(rt))
		w.Same("array", reflect.TypeOf((*[3]T68)(nil)).Elem(), reflect.ArrayOf(3, rt))
		w.Same("chan", reflect.TypeOf((*<-chan T68)(nil)).Elem(), reflect.ChanOf(reflect.RecvDir, rt))
		w.Same("map", reflect.TypeOf((*map[string]T68)(nil)).Elem(), reflect.MapOf(reflect.TypeOf(""), rt))
		w.Same("func", reflect.TypeOf((*func(T68, ...T68) *T68)(nil)).Elem(), reflect.FuncOf([]reflect.Type{rt, reflect.SliceOf(rt)}, []reflect.Type{reflect.PointerTo(rt)}, true))
	})
	var x T68 = MkT68(0)
	var y T68 = MkT68(1)
	var z T68 = MkT68(2)
	var d T68 = MkT68(3)
	var e T68 = MkT68(4)
	w.Value("x", &x)
	w.Value("d", &d)
	w.Deep("xy", &x, &y)
	w.Deep("xz", &x, &z)
	w.Deep("de", &d, &e)
	w.Try("conv", func() { w.Conv("x", &x, partners) })
	w.Fmt("x", &x)
	w.Fmt("z", &z)
	w.ZeroFmt("t", rt)
	w.TypeCalls("d", &d)
	w.Calls("d", &d)
	_, _, _ = y, z, e
}

func U68() {
	w.Header("68", "N/puv(struct{map[float32]N`;u:map[[n]N]*int8})")
	rt := reflect.TypeOf((*T69)(nil)).Elem()
	w.Try("type", func() { w.Type(rt) })
	partners := []reflect.Type{reflect.TypeOf((*T63)(nil)).Elem(), reflect.TypeOf((*p1.T26)(nil)).Elem(), reflect.TypeOf((*T63)(nil)).Elem()}
	w.Try("matrix", func() { w.Matrix(rt, partners) })
	w.Try("same", func() {
		w.Same("ptr", reflect.TypeOf((**T69)(nil)).Elem(), reflect.PointerTo(rt))
		w.Same("slice", reflect.TypeOf((*[]T69)(nil)).Elem(), reflect.SliceOf(rt))
		w.Same("array", reflect.TypeOf((*[3]T69)(nil)).Elem(), reflect.ArrayOf(3, rt))
		w.Same("chan", reflect.TypeOf((*<-chan T69)(nil)).Elem(), reflect.ChanOf(reflect.RecvDir, rt))
		w.Same("map", reflect.TypeOf((*map[string]T69)(nil)).Elem(), reflect.MapOf(reflect.TypeOf(""), rt))
		w.Same("func", reflect.TypeOf((*func(T69, ...T69) *T69)(nil)).Elem(), reflect.FuncOf([]reflect.Type{rt, reflect.SliceOf(rt)}, []reflect.Type{reflect.PointerTo(rt)}, true))
	})
	var x T69 = MkT69(2)
	var y T69 = MkT69(2)
	var z T69 = MkT69(0)
	var d T69 = MkT69(3)
	var e T69 = MkT69(4)
	w.Value("x", &x)
	w.Value("d", &d)
	w.Deep("xy", &x, &y)
	w.Deep("xz", &x, &z)
	w.Deep("de", &d, &e)
	w.Try("conv", func() { w.Conv("x", &x, partners) })
	w.Fmt("x", &x)
	w.Fmt("z", &z)
	w.ZeroFmt("t", rt)
	w.TypeCalls("d", &d)
	w.Calls("d", &d)
	_, _, _ = y, z, e
}

func U69() {
	w.Header("69", "N(interface{2})")
	rt := reflect.TypeOf((*T70)(nil)).Elem()
	w.Try("type", func() { w.Type(rt) })
	partners := []reflect.Type{reflect.TypeOf((*p0.T21)(nil)).Elem(), reflect.TypeOf((*p0.T8)(nil)).Elem(), reflect.TypeOf((*p0.T11)(nil)).Elem()}
	w.Try("matrix", func() { w.Matrix(rt, partners) })
	w.Try("same", func() {
		w.Same("ptr", reflect.TypeOf((**T70)(nil)).Elem(), reflect.PointerTo(rt))
		w.Same("slice", reflect.TypeOf((*[]T70)(nil)).Elem(), reflect.SliceOf(rt))
		w.Same("array", reflect.TypeOf((*[3]T70)(nil)).Elem(), reflect.ArrayOf(3, rt))
		w.Same("chan", reflect.TypeOf((*<-chan T70)(nil)).Elem(), reflect.ChanOf(reflect.RecvDir, rt))
		w.Same("map", reflect.TypeOf((*map[string]T70)(nil)).Elem(), reflect.MapOf(reflect.TypeOf(""), rt))
		w.Same("func", reflect.TypeOf((*func(T70, ...T70) *T70)(nil)).Elem(), reflect.FuncOf([]reflect.Type{rt, reflect.SliceOf(rt)}, []reflect.Type{reflect.PointerTo(rt)}, true))
	})
	var x T70 = MkT70(0)
	var y T70 = MkT70(1)
	var z T70 = MkT70(0)
	var d T70 = MkT70(3)
	var e T70 = MkT70(4)
	w.Value("x", &x)
	w.Value("d", &d)
	w.Deep("xy", &x, &y)
	w.Deep("xz", &x, &z)
	w.Deep("de", &d, &e)
	w.Try("conv", func() { w.Conv("x", &x, partners) })
	w.Fmt("x", &x)
	w.Fmt("z", &z)
	w.ZeroFmt("t", rt)
	w.TypeCalls("d", &d)
	w.Calls("d", &d)
	_, _, _ = y, z, e
}

func U70() {
	w.Header("70", "N/pvv(uint16)")
	rt := reflect.TypeOf((*T71)(nil)).Elem()
	w.Try("type", func() { w.Type(rt) })
	partners := []reflect.Type{reflect.TypeOf((*p0.T24)(nil)).Elem(), reflect.TypeOf((*p0.T20)(nil)).Elem(), reflect.TypeOf((*p0.T23)(nil)).Elem()}
	w.Try("matrix", func() { w.Matrix(rt, partners) })
	w.Try("same", func() {
		w.Same("ptr", reflect.TypeOf((**T71)(nil)).Elem(), reflect.PointerTo(rt))
		w.Same("slice", reflect.TypeOf((*[]T71)(nil)).Elem(), reflect.SliceOf(rt))
		w.Same("array", reflect.TypeOf((*[3]T71)(nil)).Elem(), reflect.ArrayOf(3, rt))
		w.Same("chan", reflect.TypeOf((*<-chan T71)(nil)).Elem(), reflect.ChanOf(reflect.RecvDir, rt))
		w.Same("map", reflect.TypeOf((*map[string]T71)(nil)).Elem(), reflect.MapOf(reflect.TypeOf(""), rt))
		w.Same("func", reflect.TypeOf((*func(T71, ...T71) *T71)(nil)).Elem(), reflect.FuncOf([]reflect.Type{rt, reflect.SliceOf(rt)}, []reflect.Type{reflect.PointerTo(rt)}, true))
	})
	var x T71 = MkT71(0)
	var y T71 = MkT71(1)
	var z T71 = MkT71(0)
	var d T71 = MkT71(3)
	var e T71 = MkT71(4)
	w.Value("x", &x)
	w.Value("d", &d)
	w.Deep("xy", &x, &y)
	w.Deep("xz", &x, &z)
	w.Deep("de", &d, &e)
	w.Try("conv", func() { w.Conv("x", &x, partners) })
	w.Fmt("x", &x)
	w.Fmt("z", &z)
	w.ZeroFmt("t", rt)
	w.TypeCalls("d", &d)
	w.Calls("d", &d)
	_, _, _ = y, z, e
}

func U71() {
	w.Header("71", "N(interface{1})")
	rt := reflect.TypeOf((*T72)(nil)).Elem()
	w.Try("type", func() { w.Type(rt) })
	partners := []reflect.Type{reflect.TypeOf((*p0.T7)(nil)).Elem(), reflect.TypeOf((*T62)(nil)).Elem(), reflect.TypeOf((*p1.T45)(nil)).Elem()}
	w.Try("matrix", func() { w.Matrix(rt, partners) })
	w.Try("same", func() {
		w.Same("ptr", reflect.TypeOf((**T72)(nil)).Elem(), reflect.PointerTo(rt))
		w.Same("slice", reflect.TypeOf((*[]T72)(nil)).Elem(), reflect.SliceOf(rt))
		w.Same("array", reflect.TypeOf((*[3]T72)(nil)).Elem(), reflect.ArrayOf(3, rt))
		w.Same("chan", reflect.TypeOf((*<-chan T72)(nil)).Elem(), reflect.ChanOf(reflect.RecvDir, rt))
		w.Same("map", reflect.TypeOf((*map[string]T72)(nil)).Elem(), reflect.MapOf(reflect.TypeOf(""), rt))
		w.Same("func", reflect.TypeOf((*func(T72, ...T72) *T72)(nil)).Elem(), reflect.FuncOf([]reflect.Type{rt, reflect.SliceOf(rt)}, []reflect.Type{reflect.PointerTo(rt)}, true))
	})
	var x T72 = MkT72(0)
	var y T72 = MkT72(0)
	var z T72 = MkT72(0)
	var d T72 = MkT72(3)
	var e T72 = MkT72(4)
	w.Value("x", &x)
	w.Value("d", &d)
	w.Deep("xy", &x, &y)
	w.Deep("xz", &x, &z)
	w.Deep("de", &d, &e)
	w.Try("conv", func() { w.Conv("x", &x, partners) })
	w.Fmt("x", &x)
	w.Fmt("z", &z)
	w.ZeroFmt("t", rt)
	w.TypeCalls("d", &d)
	w.Calls("d", &d)
	_, _, _ = y, z, e
}

func U77() {
	w.Header("77", "map[N/pvv(float64)]N/vvvv(N/pppp(complex64))")
	rt := reflect.TypeOf((*map[p1.T35]p0.T2)(nil)).Elem()
	w.Try("type", func() { w.Type(rt) })
	partners := []reflect.Type{reflect.TypeOf((*T59)(nil)).Elem(), reflect.TypeOf((*p1.T47)(nil)).Elem(), reflect.TypeOf((*T70)(nil)).Elem()}
	w.Try("matrix", func() { w.Matrix(rt, partners) })
	w.Try("same", func() {
		w.Same("ptr", reflect.TypeOf((**map[p1.T35]p0.T2)(nil)).Elem(), reflect.PointerTo(rt))
		w.Same("slice", reflect.TypeOf((*[]map[p1.T35]p0.T2)(nil)).Elem(), reflect.SliceOf(rt))
		w.Same("array", reflect.TypeOf((*[3]map[p1.T35]p0.T2)(nil)).Elem(), reflect.ArrayOf(3, rt))
		w.Same("chan", reflect.TypeOf((*<-chan map[p1.T35]p0.T2)(nil)).Elem(), reflect.ChanOf(reflect.RecvDir, rt))
		w.Same("map", reflect.TypeOf((*map[string]map[p1.T35]p0.T2)(nil)).Elem(), reflect.MapOf(reflect.TypeOf(""), rt))
		w.Same("func", reflect.TypeOf((*func(map[p1.T35]p0.T2, ...map[p1.T35]p0.T2) *map[p1.T35]p0.T2)(nil)).Elem(), reflect.FuncOf([]reflect.Type{rt, reflect.SliceOf(rt)}, []reflect.Type{reflect.PointerTo(rt)}, true))
	})
	var x map[p1.T35]p0.T2 = map[p1.T35]p0.T2{p1.T35(float64(1.5)): p0.MkT2(0), p1.T35(float64(2.5)): p0.MkT2(2)}
	var y map[p1.T35]p0.T2 = map[p1.T35]p0.T2{p1.T35(float64(1.5)): p0.MkT2(0), p1.T35(float64(2.5)): p0.MkT2(0)}
	var z map[p1.T35]p0.T2 = map[p1.T35]p0.T2{p1.T35(float64(1.5)): p0.MkT2(0), p1.T35(float64(2.5)): p0.MkT2(0), p1.T35(float64(3.5)): p0.MkT2(2)}
	var d map[p1.T35]p0.T2 = map[p1.T35]p0.T2(nil)
	var e map[p1.T35]p0.T2 = map[p1.T35]p0.T2(nil)
	w.Value("x", &x)
	w.Value("d", &d)
	w.Deep("xy", &x, &y)
	w.Deep("xz", &x, &z)
	w.Deep("de", &d, &e)
	w.Try("conv", func() { w.Conv("x", &x, partners) })
	w.Fmt("x", &x)
	w.Fmt("z", &z)
	w.ZeroFmt("t", rt)
	w.TypeCalls("d", &d)
	w.Calls("d", &d)
	_, _, _ = y, z, e
}

func U85() {
	w.Header("85", "map[complex128]struct{u:float64;E:N/pppv(struct{N;E:N});int16;int}")
	rt := reflect.TypeOf((*map[complex128]struct { f0 float64; p0.T13; F2 int16; F3 int })(nil)).Elem()
	w.Try("type", func() { w.Type(rt) })
	partners := []reflect.Type{reflect.TypeOf((*p1.T28)(nil)).Elem(), reflect.TypeOf((*T54)(nil)).Elem(), reflect.TypeOf((*map[float32][3]map[int32]int)(nil)).Elem()}
	w.Try("matrix", func() { w.Matrix(rt, partners) })
	w.Try("same", func() {
		w.Same("ptr", reflect.TypeOf((**map[complex128]struct { f0 float64; p0.T13; F2 int16; F3 int })(nil)).Elem(), reflect.PointerTo(rt))
		w.Same("slice", reflect.TypeOf((*[]map[complex128]struct { f0 float64; p0.T13; F2 int16; F3 int })(nil)).Elem(), reflect.SliceOf(rt))
		w.Same("array", reflect.TypeOf((*[3]map[complex128]struct { f0 float64; p0.T13; F2 int16; F3 int })(nil)).Elem(), reflect.ArrayOf(3, rt))
		w.Same("chan", reflect.TypeOf((*<-chan map[complex128]struct { f0 float64; p0.T13; F2 int16; F3 int })(nil)).Elem(), reflect.ChanOf(reflect.RecvDir, rt))
		w.Same("map", reflect.TypeOf((*map[string]map[complex128]struct { f0 float64; p0.T13; F2 int16; F3 int })(nil)).Elem(), reflect.MapOf(reflect.TypeOf(""), rt))
		w.Same("func", reflect.TypeOf((*func(map[complex128]struct { f0 float64; p0.T13; F2 int16; F3 int }, ...map[complex128]struct { f0 float64; p0.T13; F2 int16; F3 int }) *map[complex128]struct { f0 float64; p0.T13; F2 int16; F3 int })(nil)).Elem(), reflect.FuncOf([]reflect.Type{rt, reflect.SliceOf(rt)}, []reflect.Type{reflect.PointerTo(rt)}, true))
	})
	var x map[complex128]struct { f0 float64; p0.T13; F2 int16; F3 int } = map[complex128]struct { f0 float64; p0.T13; F2 int16; F3 int }{}
	var y map[complex128]struct { f0 float64; p0.T13; F2 int16; F3 int } = map[complex128]struct { f0 float64; p0.T13; F2 int16; F3 int }{}
	var z map[complex128]struct { f0 float64; p0.T13; F2 int16; F3 int } = map[complex128]struct { f0 float64; p0.T13; F2 int16; F3 int }{complex128(complex(1.0, 0.0)): struct { f0 float64; p0.T13; F2 int16; F3 int }{f0: float64(1000000.0), T13: p0.MkT13(0), F2: int16(-30000), F3: int(1000)}}
	var d map[complex128]struct { f0 float64; p0.T13; F2 int16; F3 int } = map[complex128]struct { f0 float64; p0.T13; F2 int16; F3 int }{complex128(complex(1.0, 3.25)): struct { f0 float64; p0.T13; F2 int16; F3 int }{f0: float64(-1.5), T13: p0.MkT13(3), F2: int16(65), F3: int(65)}, complex128(complex(2.0, 0.0)): struct { f0 float64; p0.T13; F2 int16; F3 int }{f0: float64(1.0), T13: p0.MkT13(3), F2: int16(-30000), F3: int(1000)}}
	var e map[complex128]struct { f0 float64; p0.T13; F2 int16; F3 int } = map[complex128]struct { f0 float64; p0.T13; F2 int16; F3 int }{complex128(complex(1.0, 3.25)): struct { f0 float64; p0.T13; F2 int16; F3 int }{f0: float64(-1.0), T13: p0.MkT13(3), F2: int16(65), F3: int(65)}, complex128(complex(2.0, 0.0)): struct { f0 float64; p0.T13; F2 int16; F3 int }{f0: float64(1.0), T13: p0.MkT13(3), F2: int16(-30000), F3: int(1000)}}
	w.Value("x", &x)
	w.Value("d", &d)
	w.Deep("xy", &x, &y)
	w.Deep("xz", &x, &z)
	w.Deep("de", &d, &e)
	w.Try("conv", func() { w.Conv("x", &x, partners) })
	w.Fmt("x", &x)
	w.Fmt("z", &z)
	w.ZeroFmt("t", rt)
	w.TypeCalls("d", &d)
	w.Calls("d", &d)
	_, _, _ = y, z, e
}

func U86() {
	w.Header("86", "*map[N/p(int32)][n]N")
	rt := reflect.TypeOf((**map[p1.T31][2]T62)(nil)).Elem()
	w.Try("type", func() { w.Type(rt) })
	partners := []reflect.Type{reflect.TypeOf((*p1.T39)(nil)).Elem(), reflect.TypeOf((*p1.T40)(nil)).Elem(), reflect.TypeOf((*p1.T32)(nil)).Elem()}
	w.Try("matrix", func() { w.Matrix(rt, partners) })
	w.Try("same", func() {
		w.Same("slice", reflect.TypeOf((*[]*map[p1.T31][2]T62)(nil)).Elem(), reflect.SliceOf(rt))
		w.Same("array", reflect.TypeOf((*[3]*map[p1.T31][2]T62)(nil)).Elem(), reflect.ArrayOf(3, rt))
		w.Same("chan", reflect.TypeOf((*<-chan *map[p1.T31][2]T62)(nil)).Elem(), reflect.ChanOf(reflect.RecvDir, rt))
		w.Same("map", reflect.TypeOf((*map[string]*map[p1.T31][2]T62)(nil)).Elem(), reflect.MapOf(reflect.TypeOf(""), rt))
	})
	var x *map[p1.T31][2]T62 = w.Ptr(map[p1.T31][2]T62(nil))
	var y *map[p1.T31][2]T62 = w.Ptr(map[p1.T31][2]T62(nil))
	var z *map[p1.T31][2]T62 = w.Ptr(map[p1.T31][2]T62{p1.T31(int32(1)): [2]T62{MkT62(0), MkT62(0)}, p1.T31(int32(2)): [2]T62{MkT62(0), MkT62(0)}, p1.T31(int32(3)): [2]T62{MkT62(0), MkT62(2)}})
	var d *map[p1.T31][2]T62 = w.Ptr(map[p1.T31][2]T62{})
	var e *map[p1.T31][2]T62 = w.Ptr(map[p1.T31][2]T62{})
	w.Value("x", &x)
	w.Value("d", &d)
	w.Deep("xy", &x, &y)
	w.Deep("xz", &x, &z)
	w.Deep("de", &d, &e)
	w.Try("conv", func() { w.Conv("x", &x, partners) })
	w.Fmt("x", &x)
	w.Fmt("z", &z)
	w.ZeroFmt("t", rt)
	w.TypeCalls("d", &d)
	w.Calls("d", &d)
	_, _, _ = y, z, e
}

func U87() {
	w.Header("87", "struct{map[float64]int32;u:string}")
	rt := reflect.TypeOf((*struct { F0 map[float64]int32; f1 string })(nil)).Elem()
	w.Try("type", func() { w.Type(rt) })
	partners := []reflect.Type{reflect.TypeOf((*p1.T32)(nil)).Elem(), reflect.TypeOf((*p1.T33)(nil)).Elem(), reflect.TypeOf((*p0.T11)(nil)).Elem()}
	w.Try("matrix", func() { w.Matrix(rt, partners) })
	w.Try("same", func() {
		w.Same("ptr", reflect.TypeOf((**struct { F0 map[float64]int32; f1 string })(nil)).Elem(), reflect.PointerTo(rt))
		w.Same("slice", reflect.TypeOf((*[]struct { F0 map[float64]int32; f1 string })(nil)).Elem(), reflect.SliceOf(rt))
		w.Same("array", reflect.TypeOf((*[3]struct { F0 map[float64]int32; f1 string })(nil)).Elem(), reflect.ArrayOf(3, rt))
		w.Same("chan", reflect.TypeOf((*<-chan struct { F0 map[float64]int32; f1 string })(nil)).Elem(), reflect.ChanOf(reflect.RecvDir, rt))
		w.Same("map", reflect.TypeOf((*map[string]struct { F0 map[float64]int32; f1 string })(nil)).Elem(), reflect.MapOf(reflect.TypeOf(""), rt))
		w.Same("func", reflect.TypeOf((*func(struct { F0 map[float64]int32; f1 string }, ...struct { F0 map[float64]int32; f1 string }) *struct { F0 map[float64]int32; f1 string })(nil)).Elem(), reflect.FuncOf([]reflect.Type{rt, reflect.SliceOf(rt)}, []reflect.Type{reflect.PointerTo(rt)}, true))
	})
	var x struct { F0 map[float64]int32; f1 string } = struct { F0 map[float64]int32; f1 string }{F0: map[float64]int32{float64(1.5): int32(-30000), float64(2.5): int32(99)}, f1: string("日本")}
	var y struct { F0 map[float64]int32; f1 string } = struct { F0 map[float64]int32; f1 string }{F0: map[float64]int32{float64(1.5): int32(-30000), float64(2.5): int32(99)}, f1: string("日本~")}
	var z struct { F0 map[float64]int32; f1 string } = struct { F0 map[float64]int32; f1 string }{F0: map[float64]int32{float64(1.5): int32(100), float64(2.5): int32(-100), float64(3.5): int32(-30000)}, f1: string("日本")}
	var d struct { F0 map[float64]int32; f1 string } = struct { F0 map[float64]int32; f1 string }{F0: map[float64]int32{float64(1.5): int32(1000), float64(2.5): int32(-1073741824)}, f1: string("hi")}
	var e struct { F0 map[float64]int32; f1 string } = struct { F0 map[float64]int32; f1 string }{F0: map[float64]int32{float64(1.5): int32(1000), float64(2.5): int32(-1073741824)}, f1: string("hi~")}
	w.Value("x", &x)
	w.Value("d", &d)
	w.Deep("xy", &x, &y)
	w.Deep("xz", &x, &z)
	w.Deep("de", &d, &e)
	w.Try("conv", func() { w.Conv("x", &x, partners) })
	w.Fmt("x", &x)
	w.Fmt("z", &z)
	w.ZeroFmt("t", rt)
	w.TypeCalls("d", &d)
	w.Calls("d", &d)
	_, _, _ = y, z, e
}

func U88() {
	w.Header("88", "map[uint32]int32")
	rt := reflect.TypeOf((*map[uint32]int32)(nil)).Elem()
	w.Try("type", func() { w.Type(rt) })
	partners := []reflect.Type{reflect.TypeOf((*p0.T21)(nil)).Elem(), reflect.TypeOf((*p0.T14)(nil)).Elem(), reflect.TypeOf((*p1.T30)(nil)).Elem()}
	w.Try("matrix", func() { w.Matrix(rt, partners) })
	w.Try("same", func() {
		w.Same("ptr", reflect.TypeOf((**map[uint32]int32)(nil)).Elem(), reflect.PointerTo(rt))
		w.Same("slice", reflect.TypeOf((*[]map[uint32]int32)(nil)).Elem(), reflect.SliceOf(rt))
		w.Same("array", reflect.TypeOf((*[3]map[uint32]int32)(nil)).Elem(), reflect.ArrayOf(3, rt))
		w.Same("chan", reflect.TypeOf((*<-chan map[uint32]int32)(nil)).Elem(), reflect.ChanOf(reflect.RecvDir, rt))
		w.Same("map", reflect.TypeOf((*map[string]map[uint32]int32)(nil)).Elem(), reflect.MapOf(reflect.TypeOf(""), rt))
		w.Same("func", reflect.TypeOf((*func(map[uint32]int32, ...map[uint32]int32) *map[uint32]int32)(nil)).Elem(), reflect.FuncOf([]reflect.Type{rt, reflect.SliceOf(rt)}, []reflect.Type{reflect.PointerTo(rt)}, true))
	})
	var x map[uint32]int32 = map[uint32]int32{uint32(1): int32(100), uint32(2): int32(-100), uint32(3): int32(-30000)}
	var y map[uint32]int32 = map[uint32]int32{uint32(1): int32(100), uint32(2): int32(-99), uint32(3): int32(-30000)}
	var z map[uint32]int32 = map[uint32]int32{uint32(1): int32(1000), uint32(2): int32(-1073741824)}
	var d map[uint32]int32 = map[uint32]int32{uint32(1): int32(65), uint32(2): int32(65), uint32(3): int32(1000)}
	var e map[uint32]int32 = map[uint32]int32{uint32(1): int32(65), uint32(2): int32(66), uint32(3): int32(1000)}
	w.Value("x", &x)
	w.Value("d", &d)
	w.Deep("xy", &x, &y)
	w.Deep("xz", &x, &z)
	w.Deep("de", &d, &e)
	w.Try("conv", func() { w.Conv("x", &x, partners) })
	w.Fmt("x", &x)
	w.Fmt("z", &z)
	w.ZeroFmt("t", rt)
	w.TypeCalls("d", &d)
	w.Calls("d", &d)
	_, _, _ = y, z, e
}

func U95() {
	w.Header("95", "struct{struct{u:bool;uint64};uint32;E:N/pppvv(struct{N;u:func(int8,N)(N,N);g.M[float64,N];E:N});map[int]N/vvvv(N)}")
	rt := reflect.TypeOf((*struct { F0 struct { f0 bool; F1 uint64 }; F1 uint32; p0.T6; F3 map[int]p0.T2 })(nil)).Elem()
	w.Try("type", func() { w.Type(rt) })
	partners := []reflect.Type{reflect.TypeOf((*T72)(nil)).Elem(), reflect.TypeOf((*T58)(nil)).Elem(), reflect.TypeOf((*p1.T34)(nil)).Elem()}
	w.Try("matrix", func() { w.Matrix(rt, partners) })
	w.Try("same", func() {
		w.Same("ptr", reflect.TypeOf((**struct { F0 struct { f0 bool; F1 uint64 }; F1 uint32; p0.T6; F3 map[int]p0.T2 })(nil)).Elem(), reflect.PointerTo(rt))
		w.Same("slice", reflect.TypeOf((*[]struct { F0 struct { f0 bool; F1 uint64 }; F1 uint32; p0.T6; F3 map[int]p0.T2 })(nil)).Elem(), reflect.SliceOf(rt))
		w.Same("array", reflect.TypeOf((*[3]struct { F0 struct { f0 bool; F1 uint64 }; F1 uint32; p0.T6; F3 map[int]p0.T2 })(nil)).Elem(), reflect.ArrayOf(3, rt))
		w.Same("chan", reflect.TypeOf((*<-chan struct { F0 struct { f0 bool; F1 uint64 }; F1 uint32; p0.T6; F3 map[int]p0.T2 })(nil)).Elem(), reflect.ChanOf(reflect.RecvDir, rt))
		w.Same("map", reflect.TypeOf((*map[string]struct { F0 struct { f0 bool; F1 uint64 }; F1 uint32; p0.T6; F3 map[int]p0.T2 })(nil)).Elem(), reflect.MapOf(reflect.TypeOf(""), rt))
		w.Same("func", reflect.TypeOf((*func(struct { F0 struct { f0 bool; F1 uint64 }; F1 uint32; p0.T6; F3 map[int]p0.T2 }, ...struct { F0 struct { f0 bool; F1 uint64 }; F1 uint32; p0.T6; F3 map[int]p0.T2 }) *struct { F0 struct { f0 bool; F1 uint64 }; F1 uint32; p0.T6; F3 map[int]p0.T2 })(nil)).Elem(), reflect.FuncOf([]reflect.Type{rt, reflect.SliceOf(rt)}, []reflect.Type{reflect.PointerTo(rt)}, true))
	})
	var x struct { F0 struct { f0 bool; F1 uint64 }; F1 uint32; p0.T6; F3 map[int]p0.T2 } = struct { F0 struct { f0 bool; F1 uint64 }; F1 uint32; p0.T6; F3 map[int]p0.T2 }{F0: struct { f0 bool; F1 uint64 }{f0: bool(true), F1: uint64(8589934592)}, F1: uint32(1000), T6: p0.MkT6(0), F3: map[int]p0.T2{}}
	var y struct { F0 struct { f0 bool; F1 uint64 }; F1 uint32; p0.T6; F3 map[int]p0.T2 } = struct { F0 struct { f0 bool; F1 uint64 }; F1 uint32; p0.T6; F3 map[int]p0.T2 }{F0: struct { f0 bool; F1 uint64 }{f0: bool(false), F1: uint64(8589934592)}, F1: uint32(1000), T6: p0.MkT6(0), F3: map[int]p0.T2{}}
	var z struct { F0 struct { f0 bool; F1 uint64 }; F1 uint32; p0.T6; F3 map[int]p0.T2 } = struct { F0 struct { f0 bool; F1 uint64 }; F1 uint32; p0.T6; F3 map[int]p0.T2 }{F0: struct { f0 bool; F1 uint64 }{f0: bool(false), F1: uint64(9223372036854775813)}, F1: uint32(65534), T6: p0.MkT6(2), F3: map[int]p0.T2{int(1): p0.MkT2(0), int(2): p0.MkT2(0), int(3): p0.MkT2(2)}}
	var d struct { F0 struct { f0 bool; F1 uint64 }; F1 uint32; p0.T6; F3 map[int]p0.T2 } = struct { F0 struct { f0 bool; F1 uint64 }; F1 uint32; p0.T6; F3 map[int]p0.T2 }{F0: struct { f0 bool; F1 uint64 }{f0: bool(false), F1: uint64(65534)}, F1: uint32(1000), T6: p0.MkT6(3), F3: map[int]p0.T2{int(1): p0.MkT2(3), int(2): p0.MkT2(3)}}
	var e struct { F0 struct { f0 bool; F1 uint64 }; F1 uint32; p0.T6; F3 map[int]p0.T2 } = struct { F0 struct { f0 bool; F1 uint64 }; F1 uint32; p0.T6; F3 map[int]p0.T2 }{F0: struct { f0 bool; F1 uint64 }{f0: bool(false), F1: uint64(65534)}, F1: uint32(1000), T6: p0.MkT6(3), F3: map[int]p0.T2{int(1): p0.MkT2(3), int(2): p0.MkT2(4)}}
	w.Value("x", &x)
	w.Value("d", &d)
	w.Deep("xy", &x, &y)
	w.Deep("xz", &x, &z)
	w.Deep("de", &d, &e)
	w.Try("conv", func() { w.Conv("x", &x, partners) })
	w.Fmt("x", &x)
	w.Fmt("z", &z)
	w.ZeroFmt("t", rt)
	w.TypeCalls("d", &d)
	w.Calls("d", &d)
	_, _, _ = y, z, e
}

func U99() {
	w.Header("99", "map[int16]struct{u:float64}")
	rt := reflect.TypeOf((*map[int16]struct { f0 float64 })(nil)).Elem()
	w.Try("type", func() { w.Type(rt) })
	partners := []reflect.Type{reflect.TypeOf((*T57)(nil)).Elem(), reflect.TypeOf((*p0.T8)(nil)).Elem(), reflect.TypeOf((*p0.T12)(nil)).Elem()}
	w.Try("matrix", func() { w.Matrix(rt, partners) })
	w.Try("same", func() {
		w.Same("ptr", reflect.TypeOf((**map[int16]struct { f0 float64 })(nil)).Elem(), reflect.PointerTo(rt))
		w.Same("slice", reflect.TypeOf((*[]map[int16]struct { f0 float64 })(nil)).Elem(), reflect.SliceOf(rt))
		w.Same("array", reflect.TypeOf((*[3]map[int16]struct { f0 float64 })(nil)).Elem(), reflect.ArrayOf(3, rt))
		w.Same("chan", reflect.TypeOf((*<-chan map[int16]struct { f0 float64 })(nil)).Elem(), reflect.ChanOf(reflect.RecvDir, rt))
		w.Same("map", reflect.TypeOf((*map[string]map[int16]struct { f0 float64 })(nil)).Elem(), reflect.MapOf(reflect.TypeOf(""), rt))
		w.Same("func", reflect.TypeOf((*func(map[int16]struct { f0 float64 }, ...map[int16]struct { f0 float64 }) *map[int16]struct { f0 float64 })(nil)).Elem(), reflect.FuncOf([]reflect.Type{rt, reflect.SliceOf(rt)}, []reflect.Type{reflect.PointerTo(rt)}, true))
	})
	var x map[int16]struct { f0 float64 } = map[int16]struct { f0 float64 }{int16(1): struct { f0 float64 }{f0: float64(0.25)}, int16(2): struct { f0 float64 }{f0: float64(0.0025)}, int16(3): struct { f0 float64 }{f0: float64(3.75)}}
	var y map[int16]struct { f0 float64 } = map[int16]struct { f0 float64 }{int16(1): struct { f0 float64 }{f0: float64(0.25)}, int16(2): struct { f0 float64 }{f0: float64(0.0025)}, int16(3): struct { f0 float64 }{f0: float64(4.25)}}
	var z map[int16]struct { f0 float64 } = map[int16]struct { f0 float64 }{int16(1): struct { f0 float64 }{f0: float64(123456.75)}, int16(2): struct { f0 float64 }{f0: float64(1.0)}, int16(3): struct { f0 float64 }{f0: float64(0.0)}}
	var d map[int16]struct { f0 float64 } = map[int16]struct { f0 float64 }{int16(1): struct { f0 float64 }{f0: float64(100.5)}, int16(2): struct { f0 float64 }{f0: float64(1.0)}}
	var e map[int16]struct { f0 float64 } = map[int16]struct { f0 float64 }{int16(1): struct { f0 float64 }{f0: float64(100.5)}, int16(2): struct { f0 float64 }{f0: float64(1.5)}}
	w.Value("x", &x)
	w.Value("d", &d)
	w.Deep("xy", &x, &y)
	w.Deep("xz", &x, &z)
	w.Deep("de", &d, &e)
	w.Try("conv", func() { w.Conv("x", &x, partners) })
	w.Fmt("x", &x)
	w.Fmt("z", &z)
	w.ZeroFmt("t", rt)
	w.TypeCalls("d", &d)
	w.Calls("d", &d)
	_, _, _ = y, z, e
}

func U106() {
	w.Header("106", "struct{}")
	rt := reflect.TypeOf((*struct{})(nil)).Elem()
	w.Try("type", func() { w.Type(rt) })
	partners := []reflect.Type{reflect.TypeOf((*struct { F0 *int8; p0.T2; p0.T7 })(nil)).Elem(), reflect.TypeOf((*p0.T15)(nil)).Elem(), reflect.TypeOf((*fmt.Stringer)(nil)).Elem()}
	w.Try("matrix", func() { w.Matrix(rt, partners) })
	w.Try("same", func() {
		w.Same("ptr", reflect.TypeOf((**struct{})(nil)).Elem(), reflect.PointerTo(rt))
		w.Same("slice", reflect.TypeOf((*[]struct{})(nil)).Elem(), reflect.SliceOf(rt))
		w.Same("array", reflect.TypeOf((*[3]struct{})(nil)).Elem(), reflect.ArrayOf(3, rt))
		w.Same("chan", reflect.TypeOf((*<-chan struct{})(nil)).Elem(), reflect.ChanOf(reflect.RecvDir, rt))
		w.Same("map", reflect.TypeOf((*map[string]struct{})(nil)).Elem(), reflect.MapOf(reflect.TypeOf(""), rt))
		w.Same("func", reflect.TypeOf((*func(struct{}, ...struct{}) *struct{})(nil)).Elem(), reflect.FuncOf([]reflect.Type{rt, reflect.SliceOf(rt)}, []reflect.Type{reflect.PointerTo(rt)}, true))
	})
	var x struct{} = struct{}{}
	var y struct{} = struct{}{}
	var z struct{} = struct{}{}
	var d struct{} = struct{}{}
	var e struct{} = struct{}{}
	w.Value("x", &x)
	w.Value("d", &d)
	w.Deep("xy", &x, &y)
	w.Deep("xz", &x, &z)
	w.Deep("de", &d, &e)
	w.Try("conv", func() { w.Conv("x", &x, partners) })
	w.Fmt("x", &x)
	w.Fmt("z", &z)
	w.ZeroFmt("t", rt)
	w.TypeCalls("d", &d)
	w.Calls("d", &d)
	_, _, _ = y, z, e
}

func U107() {
	w.Header("107", "chan<-chanint64")
	rt := reflect.TypeOf((*chan<- chan int64)(nil)).Elem()
	w.Try("type", func() { w.Type(rt) })
	partners := []reflect.Type{reflect.TypeOf((*T65)(nil)).Elem(), reflect.TypeOf((*p1.T44)(nil)).Elem(), reflect.TypeOf((*T58)(nil)).Elem()}
	w.Try("matrix", func() { w.Matrix(rt, partners) })
	w.Try("same", func() {
		w.Same("ptr", reflect.TypeOf((**chan<- chan int64)(nil)).Elem(), reflect.PointerTo(rt))
		w.Same("slice", reflect.TypeOf((*[]chan<- chan int64)(nil)).Elem(), reflect.SliceOf(rt))
		w.Same("array", reflect.TypeOf((*[3]chan<- chan int64)(nil)).Elem(), reflect.ArrayOf(3, rt))
		w.Same("chan", reflect.TypeOf((*<-chan chan<- chan int64)(nil)).Elem(), reflect.ChanOf(reflect.RecvDir, rt))
		w.Same("map", reflect.TypeOf((*map[string]chan<- chan int64)(nil)).Elem(), reflect.MapOf(reflect.TypeOf(""), rt))
		w.Same("func", reflect.TypeOf((*func(chan<- chan int64, ...chan<- chan int64) *chan<- chan int64)(nil)).Elem(), reflect.FuncOf([]reflect.Type{rt, reflect.SliceOf(rt)}, []reflect.Type{reflect.PointerTo(rt)}, true))
	})
	var x chan<- chan int64 = (chan<- chan int64)(nil)
	var y chan<- chan int64 = (chan<- chan int64)(nil)
	var z chan<- chan int64 = (chan<- chan int64)(nil)
	var d chan<- chan int64 = (chan<- chan int64)(make(chan chan int64, 1))
	var e chan<- chan int64 = (chan<- chan int64)(make(chan chan int64, 1))
	w.Value("x", &x)
	w.Value("d", &d)
	w.Deep("xy", &x, &y)
	w.Deep("xz", &x, &z)
	w.Deep("de", &d, &e)
	w.Try("conv", func() { w.Conv("x", &x, partners) })
	w.Fmt("x", &x)
	w.Fmt("z", &z)
	w.ZeroFmt("t", rt)
	w.TypeCalls("d", &d)
	w.Calls("d", &d)
	_, _, _ = y, z, e
}

// Package g holds the fixed generic types instantiated by the generated packages of check C15.
package g

import "strconv"

type Box[T any] struct {
	V T
	n int
}

func MkBox[T any](v T, n int) Box[T] { return Box[T]{V: v, n: n} }
func (b Box[T]) Get() T             { return b.V }
func (b *Box[T]) Put(v T) {
	if b != nil {
		b.V = v
	}
}
func (b Box[T]) Count() int { return b.n }

type Pair[K comparable, V any] struct {
	Key K `k:"key" json:"key,omitempty"`
	Val V `k:"val"`
}

func MkPair[K comparable, V any](k K, v V) Pair[K, V] { return Pair[K, V]{k, v} }
func (p Pair[K, V]) Swap() (V, K)                     { return p.Val, p.Key }
func (p *Pair[K, V]) Name() string {
	if p == nil {
		return "nilpair"
	}
	return "pair"
}

type List[T any] []T

func (l List[T]) Len() int { return len(l) }
func (l *List[T]) Push(v T) {
	if l != nil {
		*l = append(*l, v)
	}
}

type Tree[T any] struct {
	L, R *Tree[T]
	X    T
}

func (t *Tree[T]) Depth() int {
	if t == nil {
		return 0
	}
	return 1 + max(t.L.Depth(), t.R.Depth())
}

type M[K comparable, V any] map[K]V

func (m M[K, V]) Size() int { return len(m) }

type Fn[T any] func(T) T

type Num[T ~int | ~int8 | ~uint16 | ~float64] struct{ X T }

func (n Num[T]) Label() string { return "num" + strconv.Itoa(int(n.X)) }

type Wrap[T any] struct {
	Box[T]
	Tag string `w:"t"`
}

func MkWrap[T any](v T, n int, tag string) Wrap[T] { return Wrap[T]{Box[T]{v, n}, tag} }

type Getter[T any] interface{ Get() T }

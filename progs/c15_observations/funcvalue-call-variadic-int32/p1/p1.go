package p1

import (
	"fmt"
	"reflect"
	"strconv"
	"unsafe"
	"Zmod/sub/g"
	"Zmod/sub/w"
	"Zmod/sub/p0"
)

var _ = fmt.Sprint
var _ = reflect.TypeOf
var _ = strconv.Itoa
var _ unsafe.Pointer
var _ g.Box[int]
var _ = w.P
var _ p0.T0_

type T0_ struct{}

type T25 int8

func (r *T25) GoString() string {
	if r == nil {
		return "(*p1.T25)(nil)"
	}
	return "p1.MkT25(" + strconv.Itoa(int((*r))) + ")"
}

type T26 struct { F0 [][]p0.T24 }

type T27 struct { p0.T24; g.List[p0.T13]; g.Wrap[p0.T2]; *p0.T1; f4 p0.T7 }

func (r *T27) Self() *T27 {
	return r
}

type T28 g.Num[int]

func (r T28) Get() int {
	return 128 + 0
}

func (r T28) GoString() string {
	return "p1.MkT28(" + strconv.Itoa(0) + ")"
}

func (r T28) Name() string {
	return "T28.Name#" + strconv.Itoa(0)
}

func (r T28) Self() T28 {
	return r
}

func (r T28) unexp() {
}

type T29 struct { f0 map[uint]p0.T20 }

type T30 []T30

func (r *T30) Format(f fmt.State, c rune) {
	if r == nil {
		fmt.Fprint(f, "nilT30")
		return
	}
	w_, wok := f.Width()
	p_, pok := f.Precision()
	fmt.Fprintf(f, "T30{%c w=%d/%t p=%d/%t +%t -%t #%t sp%t 0%t n=%d}", c, w_, wok, p_, pok, f.Flag('+'), f.Flag('-'), f.Flag('#'), f.Flag(' '), f.Flag('0'), len((*r)))
}

func (r *T30) Name() string {
	if r == nil {
		return "nilT30"
	}
	return "T30.Name#" + strconv.Itoa(len((*r)))
}

func (r *T30) String() string {
	if r == nil {
		return "nilT30"
	}
	return "T30.String#" + strconv.Itoa(len((*r)))
}

func (r *T30) Sum(xs ...int) int {
	if r == nil {
		return -1
	}
	s := len(xs) * 1000
	for _, x := range xs {
		s += x
	}
	return s + len((*r))
}

type T31 int32

func (r *T31) Format(f fmt.State, c rune) {
	if r == nil {
		fmt.Fprint(f, "nilT31")
		return
	}
	w_, wok := f.Width()
	p_, pok := f.Precision()
	fmt.Fprintf(f, "T31{%c w=%d/%t p=%d/%t +%t -%t #%t sp%t 0%t n=%d}", c, w_, wok, p_, pok, f.Flag('+'), f.Flag('-'), f.Flag('#'), f.Flag(' '), f.Flag('0'), int((*r)))
}

type T32 struct { error }

func (r *T32) Cplx(c complex128) complex64 {
	if r == nil {
		return 0
	}
	return complex64(c) + complex(float32(0), 1)
}

func (r T32) Name() string {
	return "T32.Name#" + strconv.Itoa(0)
}

func (r T32) Sum(xs ...int) int {
	s := len(xs) * 1000
	for _, x := range xs {
		s += x
	}
	return s + 0
}

func (r T32) hid(x int) int {
	return x + 135
}

type T33 []p0.T9

type T34 struct { F0 p0.T14; f1 map[float64]p0.T11 }

func (r *T34) Cplx(c complex128) complex64 {
	if r == nil {
		return 0
	}
	return complex64(c) + complex(float32(0), 1)
}

func (r T34) Name() string {
	return "T34.Name#" + strconv.Itoa(0)
}

func (r T34) String() string {
	return "T34.String#" + strconv.Itoa(0)
}

func (r T34) Wide(a int8, b float64, c string, d uint16, e bool) (float64, bool) {
	return float64(a) + b*2 + float64(len(c)) + float64(d) + float64(0), !e
}

func (r T34) hid(x int) int {
	return x + 138
}

type T35 float64

func (r *T35) GoString() string {
	if r == nil {
		return "(*p1.T35)(nil)"
	}
	return "p1.MkT35(" + strconv.Itoa(int((*r))) + ")"
}

func (r T35) Two() (int, string) {
	return 136 + int(r), "T35"
}

func (r T35) Wide(a int8, b float64, c string, d uint16, e bool) (float64, bool) {
	return float64(a) + b*2 + float64(len(c)) + float64(d) + float64(int(r)), !e
}

type T36 struct{}

type T37 <-chan T25

func (r *T37) Self() *T37 {
	return r
}

func (r *T37) Sum(xs ...int) int {
	if r == nil {
		return -1
	}
	s := len(xs) * 1000
	for _, x := range xs {
		s += x
	}
	return s + len((*r))
}

func (r *T37) Wide(a int8, b float64, c string, d uint16, e bool) (float64, bool) {
	if r == nil {
		return 0, false
	}
	return float64(a) + b*2 + float64(len(c)) + float64(d) + float64(len((*r))), !e
}

type T38 map[int16]T38

func (r T38) GoString() string {
	return "p1.MkT38(" + strconv.Itoa(len(r)) + ")"
}

type T39 chan interface{}

func (r T39) Cplx(c complex128) complex64 {
	return complex64(c) + complex(float32(len(r)), 1)
}

func (r T39) With(s string, n ...int8) string {
	t := 0
	for _, x := range n {
		t += int(x)
	}
	return s + ":" + strconv.Itoa(t+len(n)*100+len(r))
}

func (r T39) unexp() {
}

type T40 chan interface{}

func (r T40) Format(f fmt.State, c rune) {
	w_, wok := f.Width()
	p_, pok := f.Precision()
	fmt.Fprintf(f, "T40{%c w=%d/%t p=%d/%t +%t -%t #%t sp%t 0%t n=%d}", c, w_, wok, p_, pok, f.Flag('+'), f.Flag('-'), f.Flag('#'), f.Flag(' '), f.Flag('0'), len(r))
}

func (r T40) Wide(a int8, b float64, c string, d uint16, e bool) (float64, bool) {
	return float64(a) + b*2 + float64(len(c)) + float64(d) + float64(len(r)), !e
}

type T41 struct { T28; F1 p0.T14; F2 p0.T10; *g.Box[int]; F4 []p0.T5 }

func (r *T41) Name() string {
	if r == nil {
		return "nilT41"
	}
	return "T41.Name#" + strconv.Itoa(0)
}

func (r T41) String() string {
	return "T41.String#" + strconv.Itoa(0)
}

type T42 struct { F0 g.Wrap[p0.T22]; error; *g.List[p0.T24]; F4 p0.T20 }

func (r T42) Error() string {
	return "T42.Error#" + strconv.Itoa(0)
}

func (r *T42) Format(f fmt.State, c rune) {
	if r == nil {
		fmt.Fprint(f, "nilT42")
		return
	}
	w_, wok := f.Width()
	p_, pok := f.Precision()
	fmt.Fprintf(f, "T42{%c w=%d/%t p=%d/%t +%t -%t #%t sp%t 0%t n=%d}", c, w_, wok, p_, pok, f.Flag('+'), f.Flag('-'), f.Flag('#'), f.Flag(' '), f.Flag('0'), 0)
}

func (r *T42) Set(x int) {
	if r == nil {
		return
	}
	_ = x
}

func (r T42) String() string {
	return "T42.String#" + strconv.Itoa(0)
}

func (r T42) Two() (int, string) {
	return 146 + 0, "T42"
}

func (r *T42) Wide(a int8, b float64, c string, d uint16, e bool) (float64, bool) {
	if r == nil {
		return 0, false
	}
	return float64(a) + b*2 + float64(len(c)) + float64(d) + float64(0), !e
}

type T43 struct { F0 p0.T5; *p0.T8; T34; F3 chan *int8; F4 <-chan T33 }

func (r T43) Get() int {
	return 143 + 0
}

func (r *T43) GoString() string {
	if r == nil {
		return "(*p1.T43)(nil)"
	}
	return "p1.MkT43(" + strconv.Itoa(0) + ")"
}

func (r T43) Name() string {
	return "T43.Name#" + strconv.Itoa(0)
}

func (r T43) Self() T43 {
	return r
}

func (r *T43) String() string {
	if r == nil {
		return "nilT43"
	}
	return "T43.String#" + strconv.Itoa(0)
}

func (r T43) hid(x int) int {
	return x + 148
}

type T44 struct { g.Box[p0.T18]; F1 func(T42) p0.T12; F2 <-chan struct { F0 uint16; F1 T42 }; p0.T4; F4 *struct { F0 int } }

type T45 struct { f0 T26; f1 T41; F2 int; F3 struct { F0 p0.T12; F1 T33; F2 bool; f3 p0.T24 } }

func (r *T45) GoString() string {
	if r == nil {
		return "(*p1.T45)(nil)"
	}
	return "p1.MkT45(" + strconv.Itoa(int(r.F2)) + ")"
}

func (r *T45) Two() (int, string) {
	if r == nil {
		return -1, "nil"
	}
	return 146 + int(r.F2), "T45"
}

func (r T45) Wide(a int8, b float64, c string, d uint16, e bool) (float64, bool) {
	return float64(a) + b*2 + float64(len(c)) + float64(d) + float64(int(r.F2)), !e
}

func (r *T45) With(s string, n ...int8) string {
	if r == nil {
		return "nil"
	}
	t := 0
	for _, x := range n {
		t += int(x)
	}
	return s + ":" + strconv.Itoa(t+len(n)*100+int(r.F2))
}

type T46 []T46

func (r *T46) Get() int {
	if r == nil {
		return -1
	}
	return 146 + len((*r))
}

func (r *T46) Self() *T46 {
	return r
}

type T47 struct { F0 <-chan *int32; f1 T29; F2 struct { F0 bool }; F3 chan []int32 }

type T48 map[int32]T48

func (r *T48) String() string {
	if r == nil {
		return "nilT48"
	}
	return "T48.String#" + strconv.Itoa(len((*r)))
}

func (r *T48) Sum(xs ...int) int {
	if r == nil {
		return -1
	}
	s := len(xs) * 1000
	for _, x := range xs {
		s += x
	}
	return s + len((*r))
}

func (r *T48) Two() (int, string) {
	if r == nil {
		return -1, "nil"
	}
	return 150 + len((*r)), "T48"
}

func (r *T48) unexp() {
}

func MkT25(k int) T25 {
	switch k {
	case 1:
		return T25(2)
	case 2:
		return T25(-100)
	case 3:
		return T25(7)
	case 4:
		return T25(8)
	}
	return T25(1)
}

func MkT26(k int) T26 {
	switch k {
	case 1:
		return T26{F0: [][]p0.T24{[]p0.T24{p0.MkT24(2), p0.MkT24(1)}, []p0.T24{}, []p0.T24(nil)}}
	case 2:
		return T26{F0: [][]p0.T24{[]p0.T24{p0.MkT24(0), p0.MkT24(0), p0.MkT24(2)}}}
	case 3:
		return T26{F0: [][]p0.T24{[]p0.T24(nil), []p0.T24{}}}
	case 4:
		return T26{F0: [][]p0.T24{[]p0.T24(nil), []p0.T24{}}}
	}
	return T26{F0: [][]p0.T24{[]p0.T24{p0.MkT24(2), p0.MkT24(0)}, []p0.T24{}, []p0.T24(nil)}}
}

func MkT27(k int) T27 {
	switch k {
	case 1:
		return T27{T24: p0.MkT24(2), List: g.List[p0.T13]{p0.MkT13(0)}, Wrap: g.MkWrap[p0.T2](p0.MkT2(0), 128512, "hi~"), T1: (*p0.T1)(nil), f4: p0.MkT7(0)}
	case 2:
		return T27{T24: p0.MkT24(0), List: g.List[p0.T13]{p0.MkT13(2), p0.MkT13(0), p0.MkT13(0)}, Wrap: g.MkWrap[p0.T2](p0.MkT2(2), 65, "日本"), T1: (*p0.T1)(nil), f4: p0.MkT7(0)}
	case 3:
		return T27{T24: p0.MkT24(3), List: g.List[p0.T13]{p0.MkT13(3)}, Wrap: g.MkWrap[p0.T2](p0.MkT2(3), -1, "Z"), T1: w.Ptr(p0.MkT1(3)), f4: p0.MkT7(3)}
	case 4:
		return T27{T24: p0.MkT24(3), List: g.List[p0.T13]{p0.MkT13(4)}, Wrap: g.MkWrap[p0.T2](p0.MkT2(3), -1, "Z"), T1: w.Ptr(p0.MkT1(3)), f4: p0.MkT7(3)}
	}
	return T27{T24: p0.MkT24(2), List: g.List[p0.T13]{p0.MkT13(0)}, Wrap: g.MkWrap[p0.T2](p0.MkT2(0), 128512, "hi"), T1: (*p0.T1)(nil), f4: p0.MkT7(0)}
}

func MkT28(k int) T28 {
	switch k {
	case 1:
		return T28(g.Num[int]{X: int(-29999)})
	case 2:
		return T28(g.Num[int]{X: int(-100)})
	case 3:
		return T28(g.Num[int]{X: int(99)})
	case 4:
		return T28(g.Num[int]{X: int(100)})
	}
	return T28(g.Num[int]{X: int(-30000)})
}

func MkT29(k int) T29 {
	switch k {
	case 1:
		return T29{f0: map[uint]p0.T20{uint(1): p0.MkT20(2), uint(2): p0.MkT20(1)}}
	case 2:
		return T29{f0: map[uint]p0.T20{uint(1): p0.MkT20(0), uint(2): p0.MkT20(0)}}
	case 3:
		return T29{f0: map[uint]p0.T20{uint(1): p0.MkT20(3), uint(2): p0.MkT20(3), uint(3): p0.MkT20(3)}}
	case 4:
		return T29{f0: map[uint]p0.T20{uint(1): p0.MkT20(3), uint(2): p0.MkT20(3), uint(3): p0.MkT20(4)}}
	}
	return T29{f0: map[uint]p0.T20{uint(1): p0.MkT20(2), uint(2): p0.MkT20(0)}}
}

func MkT30(k int) T30 {
	switch k {
	case 1:
		return T30{*new(T30), *new(T30)}
	case 2:
		return T30{*new(T30), *new(T30), *new(T30)}
	case 3:
		return T30{}
	case 4:
		return T30{}
	}
	return T30{*new(T30), *new(T30)}
}

func MkT31(k int) T31 {
	switch k {
	case 1:
		return T31(100)
	case 2:
		return T31(-100)
	case 3:
		return T31(65)
	case 4:
		return T31(66)
	}
	return T31(99)
}

func MkT32(k int) T32 {
	switch k {
	case 1:
		return T32{error: error(w.Err{"q\"uote~"})}
	case 2:
		return T32{error: error(w.Err{"日本"})}
	case 3:
		return T32{error: error(w.Err{"tab\there"})}
	case 4:
		return T32{error: error(w.Err{"tab\there~"})}
	}
	return T32{error: error(w.Err{"q\"uote"})}
}

func MkT33(k int) T33 {
	switch k {
	case 1:
		return T33{}
	case 2:
		return T33{}
	case 3:
		return T33{}
	case 4:
		return T33{}
	}
	return T33{}
}

func MkT34(k int) T34 {
	switch k {
	case 1:
		return T34{F0: p0.MkT14(1), f1: map[float64]p0.T11{float64(1.5): p0.MkT11(0), float64(2.5): p0.MkT11(0)}}
	case 2:
		return T34{F0: p0.MkT14(0), f1: map[float64]p0.T11(nil)}
	case 3:
		return T34{F0: p0.MkT14(3), f1: map[float64]p0.T11{}}
	case 4:
		return T34{F0: p0.MkT14(4), f1: map[float64]p0.T11{}}
	}
	return T34{F0: p0.MkT14(0), f1: map[float64]p0.T11{float64(1.5): p0.MkT11(0), float64(2.5): p0.MkT11(0)}}
}

func MkT35(k int) T35 {
	switch k {
	case 1:
		return T35(123457.25)
	case 2:
		return T35(0.25)
	case 3:
		return T35(123456.75)
	case 4:
		return T35(123457.25)
	}
	return T35(123456.75)
}

func MkT36(k int) T36 {
	switch k {
	case 1:
		return T36{}
	case 2:
		return T36{}
	case 3:
		return T36{}
	case 4:
		return T36{}
	}
	return T36{}
}

func MkT37(k int) T37 {
	switch k {
	case 1:
		return (T37)(nil)
	case 2:
		return (T37)(nil)
	case 3:
		return (T37)(nil)
	case 4:
		return (T37)(nil)
	}
	return (T37)(nil)
}

func MkT38(k int) T38 {
	switch k {
	case 1:
		return T38{int16(1): *new(T38), int16(2): *new(T38)}
	case 2:
		return T38(nil)
	case 3:
		return T38{int16(1): *new(T38), int16(2): *new(T38)}
	case 4:
		return T38{int16(1): *new(T38), int16(2): *new(T38)}
	}
	return T38{int16(1): *new(T38), int16(2): *new(T38)}
}

func MkT39(k int) T39 {
	switch k {
	case 1:
		return (T39)(nil)
	case 2:
		return (T39)(nil)
	case 3:
		return (T39)(make(chan interface{}, 1))
	case 4:
		return (T39)(make(chan interface{}, 1))
	}
	return (T39)(nil)
}

func MkT40(k int) T40 {
	switch k {
	case 1:
		return (T40)(nil)
	case 2:
		return (T40)(nil)
	case 3:
		return (T40)(nil)
	case 4:
		return (T40)(nil)
	}
	return (T40)(nil)
}

func MkT41(k int) T41 {
	switch k {
	case 1:
		return T41{T28: MkT28(0), F1: p0.MkT14(1), F2: p0.MkT10(0), Box: (*g.Box[int])(nil), F4: []p0.T5{}}
	case 2:
		return T41{T28: MkT28(2), F1: p0.MkT14(2), F2: p0.MkT10(2), Box: (*g.Box[int])(nil), F4: []p0.T5{p0.MkT5(2), p0.MkT5(2)}}
	case 3:
		return T41{T28: MkT28(3), F1: p0.MkT14(3), F2: p0.MkT10(3), Box: w.Ptr(g.MkBox[int](int(99), -100)), F4: []p0.T5(nil)}
	case 4:
		return T41{T28: MkT28(3), F1: p0.MkT14(3), F2: p0.MkT10(3), Box: w.Ptr(g.MkBox[int](int(99), -99)), F4: []p0.T5(nil)}
	}
	return T41{T28: MkT28(0), F1: p0.MkT14(0), F2: p0.MkT10(0), Box: (*g.Box[int])(nil), F4: []p0.T5{}}
}

func MkT42(k int) T42 {
	switch k {
	case 1:
		return T42{F0: g.MkWrap[p0.T22](p0.MkT22(2), 7, "日本"), error: error(w.Err{"日本"}), List: (*g.List[p0.T24])(nil), F4: p0.MkT20(0)}
	case 2:
		return T42{F0: g.MkWrap[p0.T22](p0.MkT22(0), 1000, "tab\there"), error: error(w.Err{"hi"}), List: (*g.List[p0.T24])(nil), F4: p0.MkT20(0)}
	case 3:
		return T42{F0: g.MkWrap[p0.T22](p0.MkT22(3), 65, ""), error: error(w.Err{"\x7f"}), List: w.Ptr(g.List[p0.T24]{p0.MkT24(3), p0.MkT24(3)}), F4: p0.MkT20(3)}
	case 4:
		return T42{F0: g.MkWrap[p0.T22](p0.MkT22(3), 65, ""), error: error(w.Err{"\x7f"}), List: w.Ptr(g.List[p0.T24]{p0.MkT24(3), p0.MkT24(3)}), F4: p0.MkT20(4)}
	}
	return T42{F0: g.MkWrap[p0.T22](p0.MkT22(2), 7, "日本"), error: error(w.Err{"日本"}), List: (*g.List[p0.T24])(nil), F4: p0.MkT20(2)}
}

func MkT43(k int) T43 {
	switch k {
	case 1:
		return T43{F0: p0.MkT5(0), T8: (*p0.T8)(nil), T34: MkT34(1), F3: (chan *int8)(nil), F4: (<-chan T33)(nil)}
	case 2:
		return T43{F0: p0.MkT5(0), T8: (*p0.T8)(nil), T34: MkT34(2), F3: (chan *int8)(nil), F4: (<-chan T33)(nil)}
	case 3:
		return T43{F0: p0.MkT5(3), T8: w.Ptr(p0.MkT8(3)), T34: MkT34(3), F3: (chan *int8)(make(chan *int8, 1)), F4: (<-chan T33)(make(chan T33, 1))}
	case 4:
		return T43{F0: p0.MkT5(3), T8: w.Ptr(p0.MkT8(3)), T34: MkT34(4), F3: (chan *int8)(make(chan *int8, 1)), F4: (<-chan T33)(make(chan T33, 1))}
	}
	return T43{F0: p0.MkT5(0), T8: (*p0.T8)(nil), T34: MkT34(0), F3: (chan *int8)(nil), F4: (<-chan T33)(nil)}
}

func MkT44(k int) T44 {
	switch k {
	case 1:
		return T44{Box: g.MkBox[p0.T18](p0.MkT18(1), 65), F1: (func(T42) p0.T12)(nil), F2: (<-chan struct { F0 uint16; F1 T42 })(nil), T4: p0.MkT4(2), F4: (*struct { F0 int })(nil)}
	case 2:
		return T44{Box: g.MkBox[p0.T18](p0.MkT18(2), -30000), F1: (func(T42) p0.T12)(nil), F2: (<-chan struct { F0 uint16; F1 T42 })(nil), T4: p0.MkT4(0), F4: (*struct { F0 int })(nil)}
	case 3:
		return T44{Box: g.MkBox[p0.T18](p0.MkT18(3), 128512), F1: (func(T42) p0.T12)(nil), F2: (<-chan struct { F0 uint16; F1 T42 })(nil), T4: p0.MkT4(3), F4: w.Ptr(struct { F0 int }{F0: int(-1073741824)})}
	case 4:
		return T44{Box: g.MkBox[p0.T18](p0.MkT18(3), 128513), F1: (func(T42) p0.T12)(nil), F2: (<-chan struct { F0 uint16; F1 T42 })(nil), T4: p0.MkT4(3), F4: w.Ptr(struct { F0 int }{F0: int(-1073741824)})}
	}
	return T44{Box: g.MkBox[p0.T18](p0.MkT18(0), 65), F1: (func(T42) p0.T12)(nil), F2: (<-chan struct { F0 uint16; F1 T42 })(nil), T4: p0.MkT4(2), F4: (*struct { F0 int })(nil)}
}

func MkT45(k int) T45 {
	switch k {
	case 1:
		return T45{f0: MkT26(2), f1: MkT41(0), F2: int(-30000), F3: struct { F0 p0.T12; F1 T33; F2 bool; f3 p0.T24 }{F0: p0.MkT12(0), F1: MkT33(0), F2: bool(false), f3: p0.MkT24(1)}}
	case 2:
		return T45{f0: MkT26(2), f1: MkT41(0), F2: int(1048576), F3: struct { F0 p0.T12; F1 T33; F2 bool; f3 p0.T24 }{F0: p0.MkT12(0), F1: MkT33(0), F2: bool(false), f3: p0.MkT24(0)}}
	case 3:
		return T45{f0: MkT26(3), f1: MkT41(3), F2: int(1000), F3: struct { F0 p0.T12; F1 T33; F2 bool; f3 p0.T24 }{F0: p0.MkT12(3), F1: MkT33(3), F2: bool(false), f3: p0.MkT24(3)}}
	case 4:
		return T45{f0: MkT26(3), f1: MkT41(4), F2: int(1000), F3: struct { F0 p0.T12; F1 T33; F2 bool; f3 p0.T24 }{F0: p0.MkT12(3), F1: MkT33(3), F2: bool(false), f3: p0.MkT24(3)}}
	}
	return T45{f0: MkT26(2), f1: MkT41(0), F2: int(-30000), F3: struct { F0 p0.T12; F1 T33; F2 bool; f3 p0.T24 }{F0: p0.MkT12(0), F1: MkT33(0), F2: bool(false), f3: p0.MkT24(0)}}
}

func MkT46(k int) T46 {
	switch k {
	case 1:
		return T46{*new(T46), *new(T46), *new(T46)}
	case 2:
		return T46{*new(T46), *new(T46), *new(T46)}
	case 3:
		return T46{*new(T46), *new(T46)}
	case 4:
		return T46{*new(T46), *new(T46)}
	}
	return T46{*new(T46), *new(T46), *new(T46)}
}

func MkT47(k int) T47 {
	switch k {
	case 1:
		return T47{F0: (<-chan *int32)(nil), f1: MkT29(1), F2: struct { F0 bool }{F0: bool(false)}, F3: (chan []int32)(nil)}
	case 2:
		return T47{F0: (<-chan *int32)(nil), f1: MkT29(0), F2: struct { F0 bool }{F0: bool(true)}, F3: (chan []int32)(nil)}
	case 3:
		return T47{F0: (<-chan *int32)(make(chan *int32, 3)), f1: MkT29(3), F2: struct { F0 bool }{F0: bool(true)}, F3: (chan []int32)(make(chan []int32, 3))}
	case 4:
		return T47{F0: (<-chan *int32)(make(chan *int32, 3)), f1: MkT29(3), F2: struct { F0 bool }{F0: bool(false)}, F3: (chan []int32)(make(chan []int32, 3))}
	}
	return T47{F0: (<-chan *int32)(nil), f1: MkT29(0), F2: struct { F0 bool }{F0: bool(false)}, F3: (chan []int32)(nil)}
}

func MkT48(k int) T48 {
	switch k {
	case 1:
		return T48{int32(1): *new(T48), int32(2): *new(T48)}
	case 2:
		return T48{int32(1): *new(T48), int32(2): *new(T48)}
	case 3:
		return T48{int32(1): *new(T48), int32(2): *new(T48)}
	case 4:
		return T48{int32(1): *new(T48), int32(2): *new(T48)}
	}
	return T48{int32(1): *new(T48), int32(2): *new(T48)}
}

func U24() {
	w.Header("24", "N/p(int8)")
	rt := reflect.TypeOf((*T25)(nil)).Elem()
	w.Try("type", func() { w.Type(rt) })
	partners := []reflect.Type{reflect.TypeOf((*p0.T14)(nil)).Elem(), reflect.TypeOf((*p0.T6)(nil)).Elem(), reflect.TypeOf((*p0.T10)(nil)).Elem()}
	w.Try("matrix", func() { w.Matrix(rt, partners) })
	w.Try("same", func() {
		w.Same("ptr", reflect.TypeOf((**T25)(nil)).Elem(), reflect.PointerTo(rt))
		w.Same("slice", reflect.TypeOf((*[]T25)(nil)).Elem(), reflect.SliceOf(rt))
		w.Same("array", reflect.TypeOf((*[3]T25)(nil)).Elem(), reflect.ArrayOf(3, rt))
		w.Same("chan", reflect.TypeOf((*<-chan T25)(nil)).Elem(), reflect.ChanOf(reflect.RecvDir, rt))
		w.Same("map", reflect.TypeOf((*map[string]T25)(nil)).Elem(), reflect.MapOf(reflect.TypeOf(""), rt))
		w.Same("func", reflect.TypeOf((*func(T25, ...T25) *T25)(nil)).Elem(), reflect.FuncOf([]reflect.Type{rt, reflect.SliceOf(rt)}, []reflect.Type{reflect.PointerTo(rt)}, true))
	})
	var x T25 = MkT25(0)
	var y T25 = MkT25(1)
	var z T25 = MkT25(2)
	var d T25 = MkT25(3)
	var e T25 = MkT25(4)
	w.Value("x", &x)
	w.Value("d", &d)
	w.Deep("xy", &x, &y)
	w.Deep("xz", &x, &z)
	w.Deep("de", &d, &e)
	w.Try("conv", func() { w.Conv("x", &x, partners) })
	w.Fmt("x", &x)
	w.Fmt("z", &z)
	w.ZeroFmt("t", rt)
	w.TypeCalls("d", &d)
	w.Calls("d", &d)
	_, _, _ = y, z, e
}

func U25() {
	w.Header("25", "N(struct{[][]N})")
	rt := reflect.TypeOf((*T26)(nil)).Elem()
	w.Try("type", func() { w.Type(rt) })
	partners := []reflect.Type{reflect.TypeOf((*p0.T3)(nil)).Elem(), reflect.TypeOf((*p0.T18)(nil)).Elem(), reflect.TypeOf((*p0.T18)(nil)).Elem()}
	w.Try("matrix", func() { w.Matrix(rt, partners) })
	w.Try("same", func() {
		w.Same("ptr", reflect.TypeOf((**T26)(nil)).Elem(), reflect.PointerTo(rt))
		w.Same("slice", reflect.TypeOf((*[]T26)(nil)).Elem(), reflect.SliceOf(rt))
		w.Same("array", reflect.TypeOf((*[3]T26)(nil)).Elem(), reflect.ArrayOf(3, rt))
		w.Same("chan", reflect.TypeOf((*<-chan T26)(nil)).Elem(), reflect.ChanOf(reflect.RecvDir, rt))
		w.Same("map", reflect.TypeOf((*map[string]T26)(nil)).Elem(), reflect.MapOf(reflect.TypeOf(""), rt))
		w.Same("func", reflect.TypeOf((*func(T26, ...T26) *T26)(nil)).Elem(), reflect.FuncOf([]reflect.Type{rt, reflect.SliceOf(rt)}, []reflect.Type{reflect.PointerTo(rt)}, true))
	})
	var x T26 = MkT26(2)
	var y T26 = MkT26(0)
	var z T26 = MkT26(0)
	var d T26 = MkT26(3)
	var e T26 = MkT26(3)
	w.Value("x", &x)
	w.Value("d", &d)
	w.Deep("xy", &x, &y)
	w.Deep("xz", &x, &z)
	w.Deep("de", &d, &e)
	w.Try("conv", func() { w.Conv("x", &x, partners) })
	w.Fmt("x", &x)
	w.Fmt("z", &z)
	w.ZeroFmt("t", rt)
	w.TypeCalls("d", &d)
	w.Calls("d", &d)
	_, _, _ = y, z, e
}

func U26() {
	w.Header("26", "N/p(struct{E:N/v(struct{E:*N;E:*N;chan<-struct;E:N});E:g.List[N];E:g.Wrap[N];E:*N;u:N(struct{*N`})})")
	rt := reflect.TypeOf((*T27)(nil)).Elem()
	w.Try("type", func() { w.Type(rt) })
	partners := []reflect.Type{reflect.TypeOf((*T25)(nil)).Elem(), reflect.TypeOf((*p0.T1)(nil)).Elem(), reflect.TypeOf((*p0.T15)(nil)).Elem()}
	w.Try("matrix", func() { w.Matrix(rt, partners) })
	w.Try("same", func() {
		w.Same("ptr", reflect.TypeOf((**T27)(nil)).Elem(), reflect.PointerTo(rt))
		w.Same("slice", reflect.TypeOf((*[]T27)(nil)).Elem(), reflect.SliceOf(rt))
		w.Same("array", reflect.TypeOf((*[3]T27)(nil)).Elem(), reflect.ArrayOf(3, rt))
		w.Same("chan", reflect.TypeOf((*<-chan T27)(nil)).Elem(), reflect.ChanOf(reflect.RecvDir, rt))
		w.Same("map", reflect.TypeOf((*map[string]T27)(nil)).Elem(), reflect.MapOf(reflect.TypeOf(""), rt))
		w.Same("func", reflect.TypeOf((*func(T27, ...T27) *T27)(nil)).Elem(), reflect.FuncOf([]reflect.Type{rt, reflect.SliceOf(rt)}, []reflect.Type{reflect.PointerTo(rt)}, true))
	})
	var x T27 = MkT27(0)
	var y T27 = MkT27(1)
	var z T27 = MkT27(0)
	var d T27 = MkT27(3)
	var e T27 = MkT27(4)
	w.Value("x", &x)
	w.Value("d", &d)
	w.Deep("xy", &x, &y)
	w.Deep("xz", &x, &z)
	w.Deep("de", &d, &e)
	w.Try("conv", func() { w.Conv("x", &x, partners) })
	w.P("F skipped: nil pointers or interfaces on the path of a promoted fmt method")
	w.TypeCalls("d", &d)
	w.Calls("d", &d)
	_, _, _ = y, z, e
}

func U27() {
	w.Header("27", "N/vvvvvu(g.Num[int])")
	rt := reflect.TypeOf((*T28)(nil)).Elem()
	w.Try("type", func() { w.Type(rt) })
	partners := []reflect.Type{reflect.TypeOf((*p0.T19)(nil)).Elem(), reflect.TypeOf((*p0.T8)(nil)).Elem(), reflect.TypeOf((*p0.T22)(nil)).Elem()}
	w.Try("matrix", func() { w.Matrix(rt, partners) })
	w.Try("same", func() {
		w.Same("ptr", reflect.TypeOf((**T28)(nil)).Elem(), reflect.PointerTo(rt))
		w.Same("slice", reflect.TypeOf((*[]T28)(nil)).Elem(), reflect.SliceOf(rt))
		w.Same("array", reflect.TypeOf((*[3]T28)(nil)).Elem(), reflect.ArrayOf(3, rt))
		w.Same("chan", reflect.TypeOf((*<-chan T28)(nil)).Elem(), reflect.ChanOf(reflect.RecvDir, rt))
		w.Same("map", reflect.TypeOf((*map[string]T28)(nil)).Elem(), reflect.MapOf(reflect.TypeOf(""), rt))
		w.Same("func", reflect.TypeOf((*func(T28, ...T28) *T28)(nil)).Elem(), reflect.FuncOf([]reflect.Type{rt, reflect.SliceOf(rt)}, []reflect.Type{reflect.PointerTo(rt)}, true))
	})
	var x T28 = MkT28(0)
	var y T28 = MkT28(1)
	var z T28 = MkT28(0)
	var d T28 = MkT28(3)
	var e T28 = MkT28(4)
	w.Value("x", &x)
	w.Value("d", &d)
	w.Deep("xy", &x, &y)
	w.Deep("xz", &x, &z)
	w.Deep("de", &d, &e)
	w.Try("conv", func() { w.Conv("x", &x, partners) })
	w.Fmt("x", &x)
	w.Fmt("z", &z)
	w.ZeroFmt("t", rt)
	w.TypeCalls("d", &d)
	w.Calls("d", &d)
	_, _, _ = y, z, e
}

func U28() {
	w.Header("28", "N(struct{u:map[uint]N})")
	rt := reflect.TypeOf((*T29)(nil)).Elem()
	w.Try("type", func() { w.Type(rt) })
	partners := []reflect.Type{reflect.TypeOf((*p0.T15)(nil)).Elem(), reflect.TypeOf((*p0.T14)(nil)).Elem(), reflect.TypeOf((*p0.T3)(nil)).Elem()}
	w.Try("matrix", func() { w.Matrix(rt, partners) })
	w.Try("same", func() {
		w.Same("ptr", reflect.TypeOf((**T29)(nil)).Elem(), reflect.PointerTo(rt))
		w.Same("slice", reflect.TypeOf((*[]T29)(nil)).Elem(), reflect.SliceOf(rt))
		w.Same("array", reflect.TypeOf((*[3]T29)(nil)).Elem(), reflect.ArrayOf(3, rt))
		w.Same("chan", reflect.TypeOf((*<-chan T29)(nil)).Elem(), reflect.ChanOf(reflect.RecvDir, rt))
		w.Same("map", reflect.TypeOf((*map[string]T29)(nil)).Elem(), reflect.MapOf(reflect.TypeOf(""), rt))
		w.Same("func", reflect.TypeOf((*func(T29, ...T29) *T29)(nil)).Elem(), reflect.FuncOf([]reflect.Type{rt, reflect.SliceOf(rt)}, []reflect.Type{reflect.PointerTo(rt)}, true))
	})
	var x T29 = MkT29(0)
	var y T29 = MkT29(1)
	var z T29 = MkT29(0)
	var d T29 = MkT29(3)
	var e T29 = MkT29(4)
	w.Value("x", &x)
	w.Value("d", &d)
	w.Deep("xy", &x, &y)
	w.Deep("xz", &x, &z)
	w.Deep("de", &d, &e)
	w.Try("conv", func() { w.Conv("x", &x, partners) })
	w.Fmt("x", &x)
	w.Fmt("z", &z)
	w.ZeroFmt("t", rt)
	w.TypeCalls("d", &d)
	w.Calls("d", &d)
	_, _, _ = y, z, e
}

func U29() {
	w.Header("29", "N/pppp([]N/pppp([]N))")
	rt := reflect.TypeOf((*T30)(nil)).Elem()
	w.Try("type", func() { w.Type(rt) })
	partners := []reflect.Type{reflect.TypeOf((*p0.T9)(nil)).Elem(), reflect.TypeOf((*T25)(nil)).Elem(), reflect.TypeOf((*p0.T22)(nil)).Elem()}
	w.Try("matrix", func() { w.Matrix(rt, partners) })
	w.Try("same", func() {
		w.Same("ptr", reflect.TypeOf((**T30)(nil)).Elem(), reflect.PointerTo(rt))
		w.Same("slice", reflect.TypeOf((*[]T30)(nil)).Elem(), reflect.SliceOf(rt))
		w.Same("array", reflect.TypeOf((*[3]T30)(nil)).Elem(), reflect.ArrayOf(3, rt))
		w.Same("chan", reflect.TypeOf((*<-chan T30)(nil)).Elem(), reflect.ChanOf(reflect.RecvDir, rt))
		w.Same("map", reflect.TypeOf((*map[string]T30)(nil)).Elem(), reflect.MapOf(reflect.TypeOf(""), rt))
		w.Same("func", reflect.TypeOf((*func(T30, ...T30) *T30)(nil)).Elem(), reflect.FuncOf([]reflect.Type{rt, reflect.SliceOf(rt)}, []reflect.Type{reflect.PointerTo(rt)}, true))
	})
	var x T30 = MkT30(0)
	var y T30 = MkT30(0)
	var z T30 = MkT30(0)
	var d T30 = MkT30(3)
	var e T30 = MkT30(3)
	w.Value("x", &x)
	w.Value("d", &d)
	w.Deep("xy", &x, &y)
	w.Deep("xz", &x, &z)
	w.Deep("de", &d, &e)
	w.Try("conv", func() { w.Conv("x", &x, partners) })
	w.Fmt("x", &x)
	w.Fmt("z", &z)
	w.ZeroFmt("t", rt)
	w.TypeCalls("d", &d)
	w.Calls("d", &d)
	_, _, _ = y, z, e
}

func U30() {
	w.Header("30", "N/p(int32)")
	rt := reflect.TypeOf((*T31)(nil)).Elem()
	w.Try("type", func() { w.Type(rt) })
	partners := []reflect.Type{reflect.TypeOf((*p0.T1)(nil)).Elem(), reflect.TypeOf((*p0.T16)(nil)).Elem(), reflect.TypeOf((*p0.T24)(nil)).Elem()}
	w.Try("matrix", func() { w.Matrix(rt, partners) })
	w.Try("same", func() {
		w.Same("ptr", reflect.TypeOf((**T31)(nil)).Elem(), reflect.PointerTo(rt))
		w.Same("slice", reflect.TypeOf((*[]T31)(nil)).Elem(), reflect.SliceOf(rt))
		w.Same("array", reflect.TypeOf((*[3]T31)(nil)).Elem(), reflect.ArrayOf(3, rt))
		w.Same("chan", reflect.TypeOf((*<-chan T31)(nil)).Elem(), reflect.ChanOf(reflect.RecvDir, rt))
		w.Same("map", reflect.TypeOf((*map[string]T31)(nil)).Elem(), reflect.MapOf(reflect.TypeOf(""), rt))
		w.Same("func", reflect.TypeOf((*func(T31, ...T31) *T31)(nil)).Elem(), reflect.FuncOf([]reflect.Type{rt, reflect.SliceOf(rt)}, []reflect.Type{reflect.PointerTo(rt)}, true))
	})
	var x T31 = MkT31(0)
	var y T31 = MkT31(1)
	var z T31 = MkT31(2)
	var d T31 = MkT31(3)
	var e T31 = MkT31(4)
	w.Value("x", &x)
	w.Value("d", &d)
	w.Deep("xy", &x, &y)
	w.Deep("xz", &x, &z)
	w.Deep("de", &d, &e)
	w.Try("conv", func() { w.Conv("x", &x, partners) })
	w.Fmt("x", &x)
	w.Fmt("z", &z)
	w.ZeroFmt("t", rt)
	w.TypeCalls("d", &d)
	w.Calls("d", &d)
	_, _, _ = y, z, e
}

func U31() {
	w.Header("31", "N/pvvvu(struct{E:u:error})")
	rt := reflect.TypeOf((*T32)(nil)).Elem()
	w.Try("type", func() { w.Type(rt) })
	partners := []reflect.Type{reflect.TypeOf((*p0.T12)(nil)).Elem(), reflect.TypeOf((*p0.T18)(nil)).Elem(), reflect.TypeOf((*p0.T10)(nil)).Elem()}
	w.Try("matrix", func() { w.Matrix(rt, partners) })
	w.Try("same", func() {
		w.Same("ptr", reflect.TypeOf((**T32)(nil)).Elem(), reflect.PointerTo(rt))
		w.Same("slice", reflect.TypeOf((*[]T32)(nil)).Elem(), reflect.SliceOf(rt))
		w.Same("array", reflect.TypeOf((*[3]T32)(nil)).Elem(), reflect.ArrayOf(3, rt))
		w.Same("chan", reflect.TypeOf((*<-chan T32)(nil)).Elem(), reflect.ChanOf(reflect.RecvDir, rt))
		w.Same("map", reflect.TypeOf((*map[string]T32)(nil)).Elem(), reflect.MapOf(reflect.TypeOf(""), rt))
		w.Same("func", reflect.TypeOf((*func(T32, ...T32) *T32)(nil)).Elem(), reflect.FuncOf([]reflect.Type{rt, reflect.SliceOf(rt)}, []reflect.Type{reflect.PointerTo(rt)}, true))
	})
	var x T32 = MkT32(2)
	var y T32 = MkT32(0)
	var z T32 = MkT32(0)
	var d T32 = MkT32(3)
	var e T32 = MkT32(4)
	w.Value("x", &x)
	w.Value("d", &d)
	w.Deep("xy", &x, &y)
	w.Deep("xz", &x, &z)
	w.Deep("de", &d, &e)
	w.Try("conv", func() { w.Conv("x", &x, partners) })
	w.Fmt("x", &x)
	w.Fmt("z", &z)
	w.TypeCalls("d", &d)
	w.Calls("d", &d)
	_, _, _ = y, z, e
}

func U32() {
	w.Header("32", "N([]N/ppp(complex64))")
	rt := reflect.TypeOf((*T33)(nil)).Elem()
	w.Try("type", func() { w.Type(rt) })
	partners := []reflect.Type{reflect.TypeOf((*p0.T15)(nil)).Elem(), reflect.TypeOf((*p0.T16)(nil)).Elem(), reflect.TypeOf((*p0.T7)(nil)).Elem()}
	w.Try("matrix", func() { w.Matrix(rt, partners) })
	w.Try("same", func() {
		w.Same("ptr", reflect.TypeOf((**T33)(nil)).Elem(), reflect.PointerTo(rt))
		w.Same("slice", reflect.TypeOf((*[]T33)(nil)).Elem(), reflect.SliceOf(rt))
		w.Same("array", reflect.TypeOf((*[3]T33)(nil)).Elem(), reflect.ArrayOf(3, rt))
		w.Same("chan", reflect.TypeOf((*<-chan T33)(nil)).Elem(), reflect.ChanOf(reflect.RecvDir, rt))
		w.Same("map", reflect.TypeOf((*map[string]T33)(nil)).Elem(), reflect.MapOf(reflect.TypeOf(""), rt))
		w.Same("func", reflect.TypeOf((*func(T33, ...T33) *T33)(nil)).Elem(), reflect.FuncOf([]reflect.Type{rt, reflect.SliceOf(rt)}, []reflect.Type{reflect.PointerTo(rt)}, true))
	})
	var x T33 = MkT33(0)
	var y T33 = MkT33(0)
	var z T33 = MkT33(0)
	var d T33 = MkT33(3)
	var e T33 = MkT33(3)
	w.Value("x", &x)
	w.Value("d", &d)
	w.Deep("xy", &x, &y)
	w.Deep("xz", &x, &z)
	w.Deep("de", &d, &e)
	w.Try("conv", func() { w.Conv("x", &x, partners) })
	w.Fmt("x", &x)
	w.Fmt("z", &z)
	w.ZeroFmt("t", rt)
	w.TypeCalls("d", &d)
	w.Calls("d", &d)
	_, _, _ = y, z, e
}

func U33() {
	w.Header("33", "N/pvvvvu(struct{N/p(struct{u:[]float64;N});u:map[float64]N})")
	rt := reflect.TypeOf((*T34)(nil)).Elem()
	w.Try("type", func() { w.Type(rt) })
	partners := []reflect.Type{reflect.TypeOf((*p0.T23)(nil)).Elem(), reflect.TypeOf((*p0.T20)(nil)).Elem(), reflect.TypeOf((*T31)(nil)).Elem()}
	w.Try("matrix", func() { w.Matrix(rt, partners) })
	w.Try("same", func() {
		w.Same("ptr", reflect.TypeOf((**T34)(nil)).Elem(), reflect.PointerTo(rt))
		w.Same("slice", reflect.TypeOf((*[]T34)(nil)).Elem(), reflect.SliceOf(rt))
		w.Same("array", reflect.TypeOf((*[3]T34)(nil)).Elem(), reflect.ArrayOf(3, rt))
		w.Same("chan", reflect.TypeOf((*<-chan T34)(nil)).Elem(), reflect.ChanOf(reflect.RecvDir, rt))
		w.Same("map", reflect.TypeOf((*map[string]T34)(nil)).Elem(), reflect.MapOf(reflect.TypeOf(""), rt))
		w.Same("func", reflect.TypeOf((*func(T34, ...T34) *T34)(nil)).Elem(), reflect.FuncOf([]reflect.Type{rt, reflect.SliceOf(rt)}, []reflect.Type{reflect.PointerTo(rt)}, true))
	})
	var x T34 = MkT34(0)
	var y T34 = MkT34(1)
	var z T34 = MkT34(2)
	var d T34 = MkT34(3)
	var e T34 = MkT34(4)
	w.Value("x", &x)
	w.Value("d", &d)
	w.Deep("xy", &x, &y)
	w.Deep("xz", &x, &z)
	w.Deep("de", &d, &e)
	w.Try("conv", func() { w.Conv("x", &x, partners) })
	w.Fmt("x", &x)
	w.Fmt("z", &z)
	w.ZeroFmt("t", rt)
	w.TypeCalls("d", &d)
	w.Calls("d", &d)
	_, _, _ = y, z, e
}

func U34() {
	w.Header("34", "N/pvv(float64)")
	rt := reflect.TypeOf((*T35)(nil)).Elem()
	w.Try("type", func() { w.Type(rt) })
	partners := []reflect.Type{reflect.TypeOf((*p0.T22)(nil)).Elem(), reflect.TypeOf((*p0.T8)(nil)).Elem(), reflect.TypeOf((*p0.T7)(nil)).Elem()}
	w.Try("matrix", func() { w.Matrix(rt, partners) })
	w.Try("same", func() {
		w.Same("ptr", reflect.TypeOf((**T35)(nil)).Elem(), reflect.PointerTo(rt))
		w.Same("slice", reflect.TypeOf((*[]T35)(nil)).Elem(), reflect.SliceOf(rt))
		w.Same("array", reflect.TypeOf((*[3]T35)(nil)).Elem(), reflect.ArrayOf(3, rt))
		w.Same("chan", reflect.TypeOf((*<-chan T35)(nil)).Elem(), reflect.ChanOf(reflect.RecvDir, rt))
		w.Same("map", reflect.TypeOf((*map[string]T35)(nil)).Elem(), reflect.MapOf(reflect.TypeOf(""), rt))
		w.Same("func", reflect.TypeOf((*func(T35, ...T35) *T35)(nil)).Elem(), reflect.FuncOf([]reflect.Type{rt, reflect.SliceOf(rt)}, []reflect.Type{reflect.PointerTo(rt)}, true))
	})
	var x T35 = MkT35(2)
	var y T35 = MkT35(0)
	var z T35 = MkT35(0)
	var d T35 = MkT35(3)
	var e T35 = MkT35(4)
	w.Value("x", &x)
	w.Value("d", &d)
	w.Deep("xy", &x, &y)
	w.Deep("xz", &x, &z)
	w.Deep("de", &d, &e)
	w.Try("conv", func() { w.Conv("x", &x, partners) })
	w.Fmt("x", &x)
	w.Fmt("z", &z)
	w.ZeroFmt("t", rt)
	w.TypeCalls("d", &d)
	w.Calls("d", &d)
	_, _, _ = y, z, e
}

func U35() {
	w.Header("35", "N(struct{})")
	rt := reflect.TypeOf((*T36)(nil)).Elem()
	w.Try("type", func() { w.Type(rt) })
	partners := []reflect.Type{reflect.TypeOf((*p0.T14)(nil)).Elem(), reflect.TypeOf((*p0.T16)(nil)).Elem(), reflect.TypeOf((*p0.T8)(nil)).Elem()}
	w.Try("matrix", func() { w.Matrix(rt, partners) })
	w.Try("same", func() {
		w.Same("ptr", reflect.TypeOf((**T36)(nil)).Elem(), reflect.PointerTo(rt))
		w.Same("slice", reflect.TypeOf((*[]T36)(nil)).Elem(), reflect.SliceOf(rt))
		w.Same("array", reflect.TypeOf((*[3]T36)(nil)).Elem(), reflect.ArrayOf(3, rt))
		w.Same("chan", reflect.TypeOf((*<-chan T36)(nil)).Elem(), reflect.ChanOf(reflect.RecvDir, rt))
		w.Same("map", reflect.TypeOf((*map[string]T36)(nil)).Elem(), reflect.MapOf(reflect.TypeOf(""), rt))
		w.Same("func", reflect.TypeOf((*func(T36, ...T36) *T36)(nil)).Elem(), reflect.FuncOf([]reflect.Type{rt, reflect.SliceOf(rt)}, []reflect.Type{reflect.PointerTo(rt)}, true))
	})
	var x T36 = MkT36(0)
	var y T36 = MkT36(0)
	var z T36 = MkT36(2)
	var d T36 = MkT36(3)
	var e T36 = MkT36(3)
	w.Value("x", &x)
	w.Value("d", &d)
	w.Deep("xy", &x, &y)
	w.Deep("xz", &x, &z)
	w.Deep("de", &d, &e)
	w.Try("conv", func() { w.Conv("x", &x, partners) })
	w.Fmt("x", &x)
	w.Fmt("z", &z)
	w.ZeroFmt("t", rt)
	w.TypeCalls("d", &d)
	w.Calls("d", &d)
	_, _, _ = y, z, e
}

func U36() {
	w.Header("36", "N/ppp(<-chanN/p(int8))")
	rt := reflect.TypeOf((*T37)(nil)).Elem()
	w.Try("type", func() { w.Type(rt) })
	partners := []reflect.Type{reflect.TypeOf((*p0.T21)(nil)).Elem(), reflect.TypeOf((*T28)(nil)).Elem(), reflect.TypeOf((*p0.T12)(nil)).Elem()}
	w.Try("matrix", func() { w.Matrix(rt, partners) })
	w.Try("same", func() {
		w.Same("ptr", reflect.TypeOf((**T37)(nil)).Elem(), reflect.PointerTo(rt))
		w.Same("slice", reflect.TypeOf((*[]T37)(nil)).Elem(), reflect.SliceOf(rt))
		w.Same("array", reflect.TypeOf((*[3]T37)(nil)).Elem(), reflect.ArrayOf(3, rt))
		w.Same("chan", reflect.TypeOf((*<-chan T37)(nil)).Elem(), reflect.ChanOf(reflect.RecvDir, rt))
		w.Same("map", reflect.TypeOf((*map[string]T37)(nil)).Elem(), reflect.MapOf(reflect.TypeOf(""), rt))
		w.Same("func", reflect.TypeOf((*func(T37, ...T37) *T37)(nil)).Elem(), reflect.FuncOf([]reflect.Type{rt, reflect.SliceOf(rt)}, []reflect.Type{reflect.PointerTo(rt)}, true))
	})
	var x T37 = MkT37(2)
	var y T37 = MkT37(2)
	var z T37 = MkT37(0)
	var d T37 = MkT37(3)
	var e T37 = MkT37(3)
	w.Value("x", &x)
	w.Value("d", &d)
	w.Deep("xy", &x, &y)
	w.Deep("xz", &x, &z)
	w.Deep("de", &d, &e)
	w.Try("conv", func() { w.Conv("x", &x, partners) })
	w.Fmt("x", &x)
	w.Fmt("z", &z)
	w.ZeroFmt("t", rt)
	w.TypeCalls("d", &d)
	w.Calls("d", &d)
	_, _, _ = y, z, e
}

func U37() {
	w.Header("37", "N/v(map[int16]N/v(map[int16]N))")
	rt := reflect.TypeOf((*T38)(nil)).Elem()
	w.Try("type", func() { w.Type(rt) })
	partners := []reflect.Type{reflect.TypeOf((*p0.T7)(nil)).Elem(), reflect.TypeOf((*p0.T14)(nil)).Elem(), reflect.TypeOf((*T27)(nil)).Elem()}
	w.Try("matrix", func() { w.Matrix(rt, partners) })
	w.Try("same", func() {
		w.Same("ptr", reflect.TypeOf((**T38)(nil)).Elem(), reflect.PointerTo(rt))
		w.Same("slice", reflect.TypeOf((*[]T38)(nil)).Elem(), reflect.SliceOf(rt))
		w.Same("array", reflect.TypeOf((*[3]T38)(nil)).Elem(), reflect.ArrayOf(3, rt))
		w.Same("chan", reflect.TypeOf((*<-chan T38)(nil)).Elem(), reflect.ChanOf(reflect.RecvDir, rt))
		w.Same("map", reflect.TypeOf((*map[string]T38)(nil)).Elem(), reflect.MapOf(reflect.TypeOf(""), rt))
		w.Same("func", reflect.TypeOf((*func(T38, ...T38) *T38)(nil)).Elem(), reflect.FuncOf([]reflect.Type{rt, reflect.SliceOf(rt)}, []reflect.Type{reflect.PointerTo(rt)}, true))
	})
	var x T38 = MkT38(0)
	var y T38 = MkT38(0)
	var z T38 = MkT38(0)
	var d T38 = MkT38(3)
	var e T38 = MkT38(3)
	w.Value("x", &x)
	w.Value("d", &d)
	w.Deep("xy", &x, &y)
	w.Deep("xz", &x, &z)
	w.Deep("de", &d, &e)
	w.Try("conv", func() { w.Conv("x", &x, partners) })
	w.Fmt("x", &x)
	w.Fmt("z", &z)
	w.ZeroFmt("t", rt)
	w.TypeCalls("d", &d)
	w.Calls("d", &d)
	_, _, _ = y, z, e
}

func U38() {
	w.Header("38", "N/vvvu(chaninterface{0})")
	rt := reflect.TypeOf((*T39)(nil)).Elem()
	w.Try("type", func() { w.Type(rt) })
	partners := []reflect.Type{reflect.TypeOf((*T25)(nil)).Elem(), reflect.TypeOf((*p0.T14)(nil)).Elem(), reflect.TypeOf((*p0.T2)(nil)).Elem()}
	w.Try("matrix", func() { w.Matrix(rt, partners) })
	w.Try("same", func() {
		w.Same("ptr", reflect.TypeOf((**T39)(nil)).Elem(), reflect.PointerTo(rt))
		w.Same("slice", reflect.TypeOf((*[]T39)(nil)).Elem(), reflect.SliceOf(rt))
		w.Same("array", reflect.TypeOf((*[3]T39)(nil)).Elem(), reflect.ArrayOf(3, rt))
		w.Same("chan", reflect.TypeOf((*<-chan T39)(nil)).Elem(), reflect.ChanOf(reflect.RecvDir, rt))
		w.Same("map", reflect.TypeOf((*map[string]T39)(nil)).Elem(), reflect.MapOf(reflect.TypeOf(""), rt))
		w.Same("func", reflect.TypeOf((*func(T39, ...T39) *T39)(nil)).Elem(), reflect.FuncOf([]reflect.Type{rt, reflect.SliceOf(rt)}, []reflect.Type{reflect.PointerTo(rt)}, true))
	})
	var x T39 = MkT39(0)
	var y T39 = MkT39(0)
	var z T39 = MkT39(0)
	var d T39 = MkT39(3)
	var e T39 = MkT39(3)
	w.Value("x", &x)
	w.Value("d", &d)
	w.Deep("xy", &x, &y)
	w.Deep("xz", &x, &z)
	w.Deep("de", &d, &e)
	w.Try("conv", func() { w.Conv("x", &x, partners) })
	w.Fmt("x", &x)
	w.Fmt("z", &z)
	w.ZeroFmt("t", rt)
	w.TypeCalls("d", &d)
	w.Calls("d", &d)
	_, _, _ = y, z, e
}

func U39() {
	w.Header("39", "N/vv(chaninterface{0})")
	rt := reflect.TypeOf((*T40)(nil)).Elem()
	w.Try("type", func() { w.Type(rt) })
	partners := []reflect.Type{reflect.TypeOf((*p0.T11)(nil)).Elem(), reflect.TypeOf((*p0.T16)(nil)).Elem(), reflect.TypeOf((*T32)(nil)).Elem()}
	w.Try("matrix", func() { w.Matrix(rt, partners) })
	w.Try("same", func() {
		w.Same("ptr", reflect.TypeOf((**T40)(nil)).Elem(), reflect.PointerTo(rt))
		w.Same("slice", reflect.TypeOf((*[]T40)(nil)).Elem(), reflect.SliceOf(rt))
		w.Same("array", reflect.TypeOf((*[3]T40)(nil)).Elem(), reflect.ArrayOf(3, rt))
		w.Same("chan", reflect.TypeOf((*<-chan T40)(nil)).Elem(), reflect.ChanOf(reflect.RecvDir, rt))
		w.Same("map", reflect.TypeOf((*map[string]T40)(nil)).Elem(), reflect.MapOf(reflect.TypeOf(""), rt))
		w.Same("func", reflect.TypeOf((*func(T40, ...T40) *T40)(nil)).Elem(), reflect.FuncOf([]reflect.Type{rt, reflect.SliceOf(rt)}, []reflect.Type{reflect.PointerTo(rt)}, true))
	})
	var x T40 = MkT40(0)
	var y T40 = MkT40(0)
	var z T40 = MkT40(0)
	var d T40 = MkT40(3)
	var e T40 = MkT40(3)
	w.Value("x", &x)
	w.Value("d", &d)
	w.Deep("xy", &x, &y)
	w.Deep("xz", &x, &z)
	w.Deep("de", &d, &e)
	w.Try("conv", func() { w.Conv("x", &x, partners) })
	w.Fmt("x", &x)
	w.Fmt("z", &z)
	w.ZeroFmt("t", rt)
	w.TypeCalls("d", &d)
	w.Calls("d", &d)
	_, _, _ = y, z, e
}

func U40() {
	w.Header("40", "N/pv(struct{E:N/vvvvvu(g.Num[int]);N/p(struct{u:[]float64;N});N(map[int16]N);E:*g.Box[int];[]N})")
	rt := reflect.TypeOf((*T41)(nil)).Elem()
	w.Try("type", func() { w.Type(rt) })
	partners := []reflect.Type{reflect.TypeOf((*T30)(nil)).Elem(), reflect.TypeOf((*p0.T12)(nil)).Elem(), reflect.TypeOf((*p0.T9)(nil)).Elem()}
	w.Try("matrix", func() { w.Matrix(rt, partners) })
	w.Try("same", func() {
		w.Same("ptr", reflect.TypeOf((**T41)(nil)).Elem(), reflect.PointerTo(rt))
		w.Same("slice", reflect.TypeOf((*[]T41)(nil)).Elem(), reflect.SliceOf(rt))
		w.Same("array", reflect.TypeOf((*[3]T41)(nil)).Elem(), reflect.ArrayOf(3, rt))
		w.Same("chan", reflect.TypeOf((*<-chan T41)(nil)).Elem(), reflect.ChanOf(reflect.RecvDir, rt))
		w.Same("map", reflect.TypeOf((*map[string]T41)(nil)).Elem(), reflect.MapOf(reflect.TypeOf(""), rt))
		w.Same("func", reflect.TypeOf((*func(T41, ...T41) *T41)(nil)).Elem(), reflect.FuncOf([]reflect.Type{rt, reflect.SliceOf(rt)}, []reflect.Type{reflect.PointerTo(rt)}, true))
	})
	var x T41 = MkT41(0)
	var y T41 = MkT41(1)
	var z T41 = MkT41(0)
	var d T41 = MkT41(3)
	var e T41 = MkT41(4)
	w.Value("x", &x)
	w.Value("d", &d)
	w.Deep("xy", &x, &y)
	w.Deep("xz", &x, &z)
	w.Deep("de", &d, &e)
	w.Try("conv", func() { w.Conv("x", &x, partners) })
	w.Fmt("x", &x)
	w.Fmt("z", &z)
	w.ZeroFmt("t", rt)
	w.TypeCalls("d", &d)
	w.Calls("d", &d)
	_, _, _ = y, z, e
}

func U41() {
	w.Header("41", "N/pppvvv(struct{g.Wrap[N];E:u:error;E:*g.List[N];N/pvv(bool)})")
	rt := reflect.TypeOf((*T42)(nil)).Elem()
	w.Try("type", func() { w.Type(rt) })
	partners := []reflect.Type{reflect.TypeOf((*p0.T21)(nil)).Elem(), reflect.TypeOf((*p0.T4)(nil)).Elem(), reflect.TypeOf((*T38)(nil)).Elem()}
	w.Try("matrix", func() { w.Matrix(rt, partners) })
	w.Try("same", func() {
		w.Same("ptr", reflect.TypeOf((**T42)(nil)).Elem(), reflect.PointerTo(rt))
		w.Same("slice", reflect.TypeOf((*[]T42)(nil)).Elem(), reflect.SliceOf(rt))
		w.Same("array", reflect.TypeOf((*[3]T42)(nil)).Elem(), reflect.ArrayOf(3, rt))
		w.Same("chan", reflect.TypeOf((*<-chan T42)(nil)).Elem(), reflect.ChanOf(reflect.RecvDir, rt))
		w.Same("map", reflect.TypeOf((*map[string]T42)(nil)).Elem(), reflect.MapOf(reflect.TypeOf(""), rt))
		w.Same("func", reflect.TypeOf((*func(T42, ...T42) *T42)(nil)).Elem(), reflect.FuncOf([]reflect.Type{rt, reflect.SliceOf(rt)}, []reflect.Type{reflect.PointerTo(rt)}, true))
	})
	var x T42 = MkT42(0)
	var y T42 = MkT42(1)
	var z T42 = MkT42(0)
	var d T42 = MkT42(3)
	var e T42 = MkT42(4)
	w.Value("x", &x)
	w.Value("d", &d)
	w.Deep("xy", &x, &y)
	w.Deep("xz", &x, &z)
	w.Deep("de", &d, &e)
	w.Try("conv", func() { w.Conv("x", &x, partners) })
	w.P("F skipped: nil pointers or interfaces on the path of a promoted fmt method")
	w.TypeCalls("d", &d)
	w.Calls("d", &d)
	_, _, _ = y, z, e
}

func U42() {
	w.Header("42", "N/ppvvvvu(struct{N/vv(int);E:*N;E:N/pvvvvu(struct{N;u:map[float64]N});chan*int8;<-chanN})")
	rt := reflect.TypeOf((*T43)(nil)).Elem()
	w.Try("type", func() { w.Type(rt) })
	partners := []reflect.Type{reflect.TypeOf((*T35)(nil)).Elem(), reflect.TypeOf((*p0.T2)(nil)).Elem(), reflect.TypeOf((*p0.T23)(nil)).Elem()}
	w.Try("matrix", func() { w.Matrix(rt, partners) })
	w.Try("same", func() {
		w.Same("ptr", reflect.TypeOf((**T43)(nil)).Elem(), reflect.PointerTo(rt))
		w.Same("slice", reflect.TypeOf((*[]T43)(nil)).Elem(), reflect.SliceOf(rt))
		w.Same("array", reflect.TypeOf((*[3]T43)(nil)).Elem(), reflect.ArrayOf(3, rt))
		w.Same("chan", reflect.TypeOf((*<-chan T43)(nil)).Elem(), reflect.ChanOf(reflect.RecvDir, rt))
		w.Same("map", reflect.TypeOf((*map[string]T43)(nil)).Elem(), reflect.MapOf(reflect.TypeOf(""), rt))
		w.Same("func", reflect.TypeOf((*func(T43, ...T43) *T43)(nil)).Elem(), reflect.FuncOf([]reflect.Type{rt, reflect.SliceOf(rt)}, []reflect.Type{reflect.PointerTo(rt)}, true))
	})
	var x T43 = MkT43(0)
	var y T43 = MkT43(1)
	var z T43 = MkT43(0)
	var d T43 = MkT43(3)
	var e T43 = MkT43(4)
	w.Value("x", &x)
	w.Value("d", &d)
	w.Deep("xy", &x, &y)
	w.Deep("xz", &x, &z)
	w.Deep("de", &d, &e)
	w.Try("conv", func() { w.Conv("x", &x, partners) })
	w.Fmt("x", &x)
	w.Fmt("z", &z)
	w.ZeroFmt("t", rt)
	w.TypeCalls("d", &d)
	w.Calls("d", &d)
	_, _, _ = y, z, e
}

func U43() {
	w.Header("43", "N(struct{E:g.Box[N];func(N)(N);<-chanstruct{uint16;N};E:N/ppvvvv(chan<-G);*struct{int}})")
	rt := reflect.TypeOf((*T44)(nil)).Elem()
	w.Try("type", func() { w.Type(rt) })
	partners := []reflect.Type{reflect.TypeOf((*p0.T11)(nil)).Elem(), reflect.TypeOf((*p0.T2)(nil)).Elem(), reflect.TypeOf((*p0.T23)(nil)).Elem()}
	w.Try("matrix", func() { w.Matrix(rt, partners) })
	w.Try("same", func() {
		w.Same("ptr", reflect.TypeOf((**T44)(nil)).Elem(), reflect.PointerTo(rt))
		w.Same("slice", reflect.TypeOf((*[]T44)(nil)).Elem(), reflect.SliceOf(rt))
		w.Same("array", reflect.TypeOf((*[3]T44)(nil)).Elem(), reflect.ArrayOf(3, rt))
		w.Same("chan", reflect.TypeOf((*<-chan T44)(nil)).Elem(), reflect.ChanOf(reflect.RecvDir, rt))
		w.Same("map", reflect.TypeOf((*map[string]T44)(nil)).Elem(), reflect.MapOf(reflect.TypeOf(""), rt))
		w.Same("func", reflect.TypeOf((*func(T44, ...T44) *T44)(nil)).Elem(), reflect.FuncOf([]reflect.Type{rt, reflect.SliceOf(rt)}, []reflect.Type{reflect.PointerTo(rt)}, true))
	})
	var x T44 = MkT44(0)
	var y T44 = MkT44(1)
	var z T44 = MkT44(2)
	var d T44 = MkT44(3)
	var e T44 = MkT44(4)
	w.Value("x", &x)
	w.Value("d", &d)
	w.Deep("xy", &x, &y)
	w.Deep("xz", &x, &z)
	w.Deep("de", &d, &e)
	w.Try("conv", func() { w.Conv("x", &x, partners) })
	w.Fmt("x", &x)
	w.Fmt("z", &z)
	w.ZeroFmt("t", rt)
	w.TypeCalls("d", &d)
	w.Calls("d", &d)
	_, _, _ = y, z, e
}

func U44() {
	w.Header("44", "N/pppv(struct{u:N(struct{[][]N});u:N/pv(struct{E:N;N;N;E:*G;[]N});int;struct{N;N;bool;u:N}})")
	rt := reflect.TypeOf((*T45)(nil)).Elem()
	w.Try("type", func() { w.Type(rt) })
	partners := []reflect.Type{reflect.TypeOf((*p0.T17)(nil)).Elem(), reflect.TypeOf((*p0.T7)(nil)).Elem(), reflect.TypeOf((*p0.T22)(nil)).Elem()}
	w.Try("matrix", func() { w.Matrix(rt, partners) })
	w.Try("same", func() {
		w.Same("ptr", reflect.TypeOf((**T45)(nil)).Elem(), reflect.PointerTo(rt))
		w.Same("slice", reflect.TypeOf((*[]T45)(nil)).Elem(), reflect.SliceOf(rt))
		w.Same("array", reflect.TypeOf((*[3]T45)(nil)).Elem(), reflect.ArrayOf(3, rt))
		w.Same("chan", reflect.TypeOf((*<-chan T45)(nil)).Elem(), reflect.ChanOf(reflect.RecvDir, rt))
		w.Same("map", reflect.TypeOf((*map[string]T45)(nil)).Elem(), reflect.MapOf(reflect.TypeOf(""), rt))
		w.Same("func", reflect.TypeOf((*func(T45, ...T45) *T45)(nil)).Elem(), reflect.FuncOf([]reflect.Type{rt, reflect.SliceOf(rt)}, []reflect.Type{reflect.PointerTo(rt)}, true))
	})
	var x T45 = MkT45(2)
	var y T45 = MkT45(0)
	var z T45 = MkT45(0)
	var d T45 = MkT45(3)
	var e T45 = MkT45(4)
	w.Value("x", &x)
	w.Value("d", &d)
	w.Deep("xy", &x, &y)
	w.Deep("xz", &x, &z)
	w.Deep("de", &d, &e)
	w.Try("conv", func() { w.Conv("x", &x, partners) })
	w.Fmt("x", &x)
	w.Fmt("z", &z)
	w.ZeroFmt("t", rt)
	w.TypeCalls("d", &d)
	w.Calls("d", &d)
	_, _, _ = y, z, e
}

func U45() {
	w.Header("45", "N/pp([]N/pp([]N))")
	rt := reflect.TypeOf((*T46)(nil)).Elem()
	w.Try("type", func() { w.Type(rt) })
	partners := []reflect.Type{reflect.TypeOf((*p0.T21)(nil)).Elem(), reflect.TypeOf((*p0.T6)(nil)).Elem(), reflect.TypeOf((*p0.T18)(nil)).Elem()}
	w.Try("matrix", func() { w.Matrix(rt, partners) })
	w.Try("same", func() {
		w.Same("ptr", reflect.TypeOf((**T46)(nil)).Elem(), reflect.PointerTo(rt))
		w.Same("slice", reflect.TypeOf((*[]T46)(nil)).Elem(), reflect.SliceOf(rt))
		w.Same("array", reflect.TypeOf((*[3]T46)(nil)).Elem(), reflect.ArrayOf(3, rt))
		w.Same("chan", reflect.TypeOf((*<-chan T46)(nil)).Elem(), reflect.ChanOf(reflect.RecvDir, rt))
		w.Same("map", reflect.TypeOf((*map[string]T46)(nil)).Elem(), reflect.MapOf(reflect.TypeOf(""), rt))
		w.Same("func", reflect.TypeOf((*func(T46, ...T46) *T46)(nil)).Elem(), reflect.FuncOf([]reflect.Type{rt, reflect.SliceOf(rt)}, []reflect.Type{reflect.PointerTo(rt)}, true))
	})
	var x T46 = MkT46(0)
	var y T46 = MkT46(0)
	var z T46 = MkT46(0)
	var d T46 = MkT46(3)
	var e T46 = MkT46(3)
	w.Value("x", &x)
	w.Value("d", &d)
	w.Deep("xy", &x, &y)
	w.Deep("xz", &x, &z)
	w.Deep("de", &d, &e)
	w.Try("conv", func() { w.Conv("x", &x, partners) })
	w.Fmt("x", &x)
	w.Fmt("z", &z)
	w.ZeroFmt("t", rt)
	w.TypeCalls("d", &d)
	w.Calls("d", &d)
	_, _, _ = y, z, e
}

func U46() {
	w.Header("46", "N(struct{<-chan*int32;u:N(struct{u:map[uint]N});struct{bool};chan[]int32})")
	rt := reflect.TypeOf((*T47)(nil)).Elem()
	w.Try("type", func() { w.Type(rt) })
	partners := []reflect.Type{reflect.TypeOf((*p0.T11)(nil)).Elem(), reflect.TypeOf((*p0.T20)(nil)).Elem(), reflect.TypeOf((*T31)(nil)).Elem()}
	w.Try("matrix", func() { w.Matrix(rt, partners) })
	w.Try("same", func() {
		w.Same("ptr", reflect.TypeOf((**T47)(nil)).Elem(), reflect.PointerTo(rt))
		w.Same("slice", reflect.TypeOf((*[]T47)(nil)).Elem(), reflect.SliceOf(rt))
		w.Same("array", reflect.TypeOf((*[3]T47)(nil)).Elem(), reflect.ArrayOf(3, rt))
		w.Same("chan", reflect.TypeOf((*<-chan T47)(nil)).Elem(), reflect.ChanOf(reflect.RecvDir, rt))
		w.Same("map", reflect.TypeOf((*map[string]T47)(nil)).Elem(), reflect.MapOf(reflect.TypeOf(""), rt))
		w.Same("func", reflect.TypeOf((*func(T47, ...T47) *T47)(nil)).Elem(), reflect.FuncOf([]reflect.Type{rt, reflect.SliceOf(rt)}, []reflect.Type{reflect.PointerTo(rt)}, true))
	})
	var x T47 = MkT47(0)
	var y T47 = MkT47(1)
	var z T47 = MkT47(0)
	var d T47 = MkT47(3)
	var e T47 = MkT47(4)
	w.Value("x", &x)
	w.Value("d", &d)
	w.Deep("xy", &x, &y)
	w.Deep("xz", &x, &z)
	w.Deep("de", &d, &e)
	w.Try("conv", func() { w.Conv("x", &x, partners) })
	w.Fmt("x", &x)
	w.Fmt("z", &z)
	w.ZeroFmt("t", rt)
	w.TypeCalls("d", &d)
	w.Calls("d", &d)
	_, _, _ = y, z, e
}

func U47() {
	w.Header("47", "N/ppppu(map[int32]N/ppppu(map[int32]N))")
	rt := reflect.TypeOf((*T48)(nil)).Elem()
	w.Try("type", func() { w.Type(rt) })
	partners := []reflect.Type{reflect.TypeOf((*T32)(nil)).Elem(), reflect.TypeOf((*p0.T12)(nil)).Elem(), reflect.TypeOf((*p0.T21)(nil)).Elem()}
	w.Try("matrix", func() { w.Matrix(rt, partners) })
	w.Try("same", func() {
		w.Same("ptr", reflect.TypeOf((**T48)(nil)).Elem(), reflect.PointerTo(rt))
		w.Same("slice", reflect.TypeOf((*[]T48)(nil)).Elem(), reflect.SliceOf(rt))
		w.Same("array", reflect.TypeOf((*[3]T48)(nil)).Elem(), reflect.ArrayOf(3, rt))
		w.Same("chan", reflect.TypeOf((*<-chan T48)(nil)).Elem(), reflect.ChanOf(reflect.RecvDir, rt))
		w.Same("map", reflect.TypeOf((*map[string]T48)(nil)).Elem(), reflect.MapOf(reflect.TypeOf(""), rt))
		w.Same("func", reflect.TypeOf((*func(T48, ...T48) *T48)(nil)).Elem(), reflect.FuncOf([]reflect.Type{rt, reflect.SliceOf(rt)}, []reflect.Type{reflect.PointerTo(rt)}, true))
	})
	var x T48 = MkT48(0)
	var y T48 = MkT48(0)
	var z T48 = MkT48(0)
	var d T48 = MkT48(3)
	var e T48 = MkT48(3)
	w.Value("x", &x)
	w.Value("d", &d)
	w.Deep("xy", &x, &y)
	w.Deep("xz", &x, &z)
	w.Deep("de", &d, &e)
	w.Try("conv", func() { w.Conv("x", &x, partners) })
	w.Fmt("x", &x)
	w.Fmt("z", &z)
	w.ZeroFmt("t", rt)
	w.TypeCalls("d", &d)
	w.Calls("d", &d)
	_, _, _ = y, z, e
}

func U73() {
	w.Header("73", "[][][n]N")
	rt := reflect.TypeOf((*[][][2]p0.T8)(nil)).Elem()
	w.Try("type", func() { w.Type(rt) })
	partners := []reflect.Type{reflect.TypeOf((*p0.T20)(nil)).Elem(), reflect.TypeOf((*p0.T2)(nil)).Elem(), reflect.TypeOf((*p0.T6)(nil)).Elem()}
	w.Try("matrix", func() { w.Matrix(rt, partners) })
	w.Try("same", func() {
		w.Same("ptr", reflect.TypeOf((**[][][2]p0.T8)(nil)).Elem(), reflect.PointerTo(rt))
		w.Same("slice", reflect.TypeOf((*[][][][2]p0.T8)(nil)).Elem(), reflect.SliceOf(rt))
		w.Same("array", reflect.TypeOf((*[3][][][2]p0.T8)(nil)).Elem(), reflect.ArrayOf(3, rt))
		w.Same("chan", reflect.TypeOf((*<-chan [][][2]p0.T8)(nil)).Elem(), reflect.ChanOf(reflect.RecvDir, rt))
		w.Same("map", reflect.TypeOf((*map[string][][][2]p0.T8)(nil)).Elem(), reflect.MapOf(reflect.TypeOf(""), rt))
		w.Same("func", reflect.TypeOf((*func([][][2]p0.T8, ...[][][2]p0.T8) *[][][2]p0.T8)(nil)).Elem(), reflect.FuncOf([]reflect.Type{rt, reflect.SliceOf(rt)}, []reflect.Type{reflect.PointerTo(rt)}, true))
	})
	var x [][][2]p0.T8 = [][][2]p0.T8{[][2]p0.T8{[2]p0.T8{p0.MkT8(0), p0.MkT8(2)}, [2]p0.T8{p0.MkT8(0), p0.MkT8(0)}}}
	var y [][][2]p0.T8 = [][][2]p0.T8{[][2]p0.T8{[2]p0.T8{p0.MkT8(1), p0.MkT8(2)}, [2]p0.T8{p0.MkT8(0), p0.MkT8(0)}}}
	var z [][][2]p0.T8 = [][][2]p0.T8{[][2]p0.T8{}, [][2]p0.T8{}}
	var d [][][2]p0.T8 = [][][2]p0.T8{}
	var e [][][2]p0.T8 = [][][2]p0.T8{}
	w.Value("x", &x)
	w.Value("d", &d)
	w.Deep("xy", &x, &y)
	w.Deep("xz", &x, &z)
	w.Deep("de", &d, &e)
	w.Try("conv", func() { w.Conv("x", &x, partners) })
	w.Fmt("x", &x)
	w.Fmt("z", &z)
	w.ZeroFmt("t", rt)
	w.TypeCalls("d", &d)
	w.Calls("d", &d)
	_, _, _ = y, z, e
}

func U75() {
	w.Header("75", "map[N(uintptr)]struct{u:int;u:N/pppp(complex64);E:*N}")
	rt := reflect.TypeOf((*map[p0.T3]struct { f0 int; f1 p0.T1; *p0.T9 })(nil)).Elem()
	w.Try("type", func() { w.Type(rt) })
	partners := []reflect.Type{reflect.TypeOf((*p0.T22)(nil)).Elem(), reflect.TypeOf((*T42)(nil)).Elem(), reflect.TypeOf((*T26)(nil)).Elem()}
	w.Try("matrix", func() { w.Matrix(rt, partners) })
	w.Try("same", func() {
		w.Same("ptr", reflect.TypeOf((**map[p0.T3]struct { f0 int; f1 p0.T1; *p0.T9 })(nil)).Elem(), reflect.PointerTo(rt))
		w.Same("slice", reflect.TypeOf((*[]map[p0.T3]struct { f0 int; f1 p0.T1; *p0.T9 })(nil)).Elem(), reflect.SliceOf(rt))
		w.Same("array", reflect.TypeOf((*[3]map[p0.T3]struct { f0 int; f1 p0.T1; *p0.T9 })(nil)).Elem(), reflect.ArrayOf(3, rt))
		w.Same("chan", reflect.TypeOf((*<-chan map[p0.T3]struct { f0 int; f1 p0.T1; *p0.T9 })(nil)).Elem(), reflect.ChanOf(reflect.RecvDir, rt))
		w.Same("map", reflect.TypeOf((*map[string]map[p0.T3]struct { f0 int; f1 p0.T1; *p0.T9 })(nil)).Elem(), reflect.MapOf(reflect.TypeOf(""), rt))
		w.Same("func", reflect.TypeOf((*func(map[p0.T3]struct { f0 int; f1 p0.T1; *p0.T9 }, ...map[p0.T3]struct { f0 int; f1 p0.T1; *p0.T9 }) *map[p0.T3]struct { f0 int; f1 p0.T1; *p0.T9 })(nil)).Elem(), reflect.FuncOf([]reflect.Type{rt, reflect.SliceOf(rt)}, []reflect.Type{reflect.PointerTo(rt)}, true))
	})
	var x map[p0.T3]struct { f0 int; f1 p0.T1; *p0.T9 } = map[p0.T3]struct { f0 int; f1 p0.T1; *p0.T9 }{}
	var y map[p0.T3]struct { f0 int; f1 p0.T1; *p0.T9 } = map[p0.T3]struct { f0 int; f1 p0.T1; *p0.T9 }{}
	var z map[p0.T3]struct { f0 int; f1 p0.T1; *p0.T9 } = map[p0.T3]struct { f0 int; f1 p0.T1; *p0.T9 }{p0.T3(uintptr(1)): struct { f0 int; f1 p0.T1; *p0.T9 }{f0: int(0), f1: p0.MkT1(2), T9: (*p0.T9)(nil)}}
	var d map[p0.T3]struct { f0 int; f1 p0.T1; *p0.T9 } = map[p0.T3]struct { f0 int; f1 p0.T1; *p0.T9 }{p0.T3(uintptr(1)): struct { f0 int; f1 p0.T1; *p0.T9 }{f0: int(65), f1: p0.MkT1(3), T9: w.Ptr(p0.MkT9(3))}, p0.T3(uintptr(2)): struct { f0 int; f1 p0.T1; *p0.T9 }{f0: int(100), f1: p0.MkT1(3), T9: w.Ptr(p0.MkT9(3))}}
	var e map[p0.T3]struct { f0 int; f1 p0.T1; *p0.T9 } = map[p0.T3]struct { f0 int; f1 p0.T1; *p0.T9 }{p0.T3(uintptr(1)): struct { f0 int; f1 p0.T1; *p0.T9 }{f0: int(65), f1: p0.MkT1(3), T9: w.Ptr(p0.MkT9(4))}, p0.T3(uintptr(2)): struct { f0 int; f1 p0.T1; *p0.T9 }{f0: int(100), f1: p0.MkT1(3), T9: w.Ptr(p0.MkT9(3))}}
	w.Value("x", &x)
	w.Value("d", &d)
	w.Deep("xy", &x, &y)
	w.Deep("xz", &x, &z)
	w.Deep("de", &d, &e)
	w.Try("conv", func() { w.Conv("x", &x, partners) })
	w.Fmt("x", &x)
	w.Fmt("z", &z)
	w.ZeroFmt("t", rt)
	w.TypeCalls("d", &d)
	w.Calls("d", &d)
	_, _, _ = y, z, e
}

func U76() {
	w.Header("76", "fmt.Stringer")
	rt := reflect.TypeOf((*fmt.Stringer)(nil)).Elem()
	w.Try("type", func() { w.Type(rt) })
	partners := []reflect.Type{reflect.TypeOf((*p0.T24)(nil)).Elem(), reflect.TypeOf((*p0.T17)(nil)).Elem(), reflect.TypeOf((*p0.T13)(nil)).Elem()}
	w.Try("matrix", func() { w.Matrix(rt, partners) })
	w.Try("same", func() {
		w.Same("ptr", reflect.TypeOf((**fmt.Stringer)(nil)).Elem(), reflect.PointerTo(rt))
		w.Same("slice", reflect.TypeOf((*[]fmt.Stringer)(nil)).Elem(), reflect.SliceOf(rt))
		w.Same("array", reflect.TypeOf((*[3]fmt.Stringer)(nil)).Elem(), reflect.ArrayOf(3, rt))
		w.Same("chan", reflect.TypeOf((*<-chan fmt.Stringer)(nil)).Elem(), reflect.ChanOf(reflect.RecvDir, rt))
		w.Same("map", reflect.TypeOf((*map[string]fmt.Stringer)(nil)).Elem(), reflect.MapOf(reflect.TypeOf(""), rt))
		w.Same("func", reflect.TypeOf((*func(fmt.Stringer, ...fmt.Stringer) *fmt.Stringer)(nil)).Elem(), reflect.FuncOf([]reflect.Type{rt, reflect.SliceOf(rt)}, []reflect.Type{reflect.PointerTo(rt)}, true))
	})
	var x fmt.Stringer = fmt.Stringer(w.Str{-1})
	var y fmt.Stringer = fmt.Stringer(w.Str{0})
	var z fmt.Stringer = fmt.Stringer(w.Str{-30000})
	var d fmt.Stringer = fmt.Stringer(w.Str{1048576})
	var e fmt.Stringer = fmt.Stringer(w.Str{1048577})
	w.Value("x", &x)
	w.Value("d", &d)
	w.Deep("xy", &x, &y)
	w.Deep("xz", &x, &z)
	w.Deep("de", &d, &e)
	w.Try("conv", func() { w.Conv("x", &x, partners) })
	w.Fmt("x", &x)
	w.Fmt("z", &z)
	w.ZeroFmt("t", rt)
	w.TypeCalls("d", &d)
	w.Calls("d", &d)
	_, _, _ = y, z, e
}

func U79() {
	w.Header("79", "[]fmt.Stringer")
	rt := reflect.TypeOf((*[]fmt.Stringer)(nil)).Elem()
	w.Try("type", func() { w.Type(rt) })
	partners := []reflect.Type{reflect.TypeOf((*T46)(nil)).Elem(), reflect.TypeOf((**p0.T20)(nil)).Elem(), reflect.TypeOf((*T42)(nil)).Elem()}
	w.Try("matrix", func() { w.Matrix(rt, partners) })
	w.Try("same", func() {
		w.Same("ptr", reflect.TypeOf((**[]fmt.Stringer)(nil)).Elem(), reflect.PointerTo(rt))
		w.Same("slice", reflect.TypeOf((*[][]fmt.Stringer)(nil)).Elem(), reflect.SliceOf(rt))
		w.Same("array", reflect.TypeOf((*[3][]fmt.Stringer)(nil)).Elem(), reflect.ArrayOf(3, rt))
		w.Same("chan", reflect.TypeOf((*<-chan []fmt.Stringer)(nil)).Elem(), reflect.ChanOf(reflect.RecvDir, rt))
		w.Same("map", reflect.TypeOf((*map[string][]fmt.Stringer)(nil)).Elem(), reflect.MapOf(reflect.TypeOf(""), rt))
		w.Same("func", reflect.TypeOf((*func([]fmt.Stringer, ...[]fmt.Stringer) *[]fmt.Stringer)(nil)).Elem(), reflect.FuncOf([]reflect.Type{rt, reflect.SliceOf(rt)}, []reflect.Type{reflect.PointerTo(rt)}, true))
	})
	var x []fmt.Stringer = []fmt.Stringer(nil)
	var y []fmt.Stringer = []fmt.Stringer(nil)
	var z []fmt.Stringer = []fmt.Stringer{fmt.Stringer(nil)}
	var d []fmt.Stringer = []fmt.Stringer{fmt.Stringer(w.Str{1000}), fmt.Stringer(nil)}
	var e []fmt.Stringer = []fmt.Stringer{fmt.Stringer(w.Str{1001}), fmt.Stringer(nil)}
	w.Value("x", &x)
	w.Value("d", &d)
	w.Deep("xy", &x, &y)
	w.Deep("xz", &x, &z)
	w.Deep("de", &d, &e)
	w.Try("conv", func() { w.Conv("x", &x, partners) })
	w.Fmt("x", &x)
	w.Fmt("z", &z)
	w.ZeroFmt("t", rt)
	w.TypeCalls("d", &d)
	w.Calls("d", &d)
	_, _, _ = y, z, e
}

func U80() {
	w.Header("80", "func(int32,[]N/pvv(bool),[][n]uint8...)(int32,N/pppp(complex64))")
	rt := reflect.TypeOf((*func(int32, []p0.T20, ...[2]uint8) (int32, p0.T1))(nil)).Elem()
	w.Try("type", func() { w.Type(rt) })
	partners := []reflect.Type{reflect.TypeOf((*T40)(nil)).Elem(), reflect.TypeOf((*p0.T5)(nil)).Elem(), reflect.TypeOf((*p0.T20)(nil)).Elem()}
	w.Try("matrix", func() { w.Matrix(rt, partners) })
	w.Try("same", func() {
		w.Same("slice", reflect.TypeOf((*[]func(int32, []p0.T20, ...[2]uint8) (int32, p0.T1))(nil)).Elem(), reflect.SliceOf(rt))
		w.Same("array", reflect.TypeOf((*[3]func(int32, []p0.T20, ...[2]uint8) (int32, p0.T1))(nil)).Elem(), reflect.ArrayOf(3, rt))
		w.Same("chan", reflect.TypeOf((*<-chan func(int32, []p0.T20, ...[2]uint8) (int32, p0.T1))(nil)).Elem(), reflect.ChanOf(reflect.RecvDir, rt))
		w.Same("map", reflect.TypeOf((*map[string]func(int32, []p0.T20, ...[2]uint8) (int32, p0.T1))(nil)).Elem(), reflect.MapOf(reflect.TypeOf(""), rt))
	})
	var x func(int32, []p0.T20, ...[2]uint8) (int32, p0.T1) = (func(int32, []p0.T20, ...[2]uint8) (int32, p0.T1))(nil)
	var y func(int32, []p0.T20, ...[2]uint8) (int32, p0.T1) = (func(int32, []p0.T20, ...[2]uint8) (int32, p0.T1))(nil)
	var z func(int32, []p0.T20, ...[2]uint8) (int32, p0.T1) = (func(int32, []p0.T20, ...[2]uint8) (int32, p0.T1))(nil)
	var d func(int32, []p0.T20, ...[2]uint8) (int32, p0.T1) = (func(int32, []p0.T20, ...[2]uint8) (int32, p0.T1))(func(a0 int32, a1 []p0.T20, a2 ...[2]uint8) (int32, p0.T1) { return int32(1048576) + int32(a0), p0.MkT1(0) })
	var e func(int32, []p0.T20, ...[2]uint8) (int32, p0.T1) = (func(int32, []p0.T20, ...[2]uint8) (int32, p0.T1))(func(a0 int32, a1 []p0.T20, a2 ...[2]uint8) (int32, p0.T1) { return int32(1048576) + int32(a0), p0.MkT1(0) })
	w.Value("x", &x)
	w.Value("d", &d)
	w.Deep("xy", &x, &y)
	w.Deep("xz", &x, &z)
	w.Deep("de", &d, &e)
	w.Try("conv", func() { w.Conv("x", &x, partners) })
	w.Fmt("x", &x)
	w.Fmt("z", &z)
	w.ZeroFmt("t", rt)
	w.TypeCalls("d", &d)
	w.Calls("d", &d)
	_, _, _ = y, z, e
}

func U82() {
	w.Header("82", "map[float32][n]map[int32]int")
	rt := reflect.TypeOf((*map[float32][3]map[int32]int)(nil)).Elem()
	w.Try("type", func() { w.Type(rt) })
	partners := []reflect.Type{reflect.TypeOf((*T32)(nil)).Elem(), reflect.TypeOf((*p0.T18)(nil)).Elem(), reflect.TypeOf((*T29)(nil)).Elem()}
	w.Try("matrix", func() { w.Matrix(rt, partners) })
	w.Try("same", func() {
		w.Same("ptr", reflect.TypeOf((**map[float32][3]map[int32]int)(nil)).Elem(), reflect.PointerTo(rt))
		w.Same("slice", reflect.TypeOf((*[]map[float32][3]map[int32]int)(nil)).Elem(), reflect.SliceOf(rt))
		w.Same("array", reflect.TypeOf((*[3]map[float32][3]map[int32]int)(nil)).Elem(), reflect.ArrayOf(3, rt))
		w.Same("chan", reflect.TypeOf((*<-chan map[float32][3]map[int32]int)(nil)).Elem(), reflect.ChanOf(reflect.RecvDir, rt))
		w.Same("map", reflect.TypeOf((*map[string]map[float32][3]map[int32]int)(nil)).Elem(), reflect.MapOf(reflect.TypeOf(""), rt))
		w.Same("func", reflect.TypeOf((*func(map[float32][3]map[int32]int, ...map[float32][3]map[int32]int) *map[float32][3]map[int32]int)(nil)).Elem(), reflect.FuncOf([]reflect.Type{rt, reflect.SliceOf(rt)}, []reflect.Type{reflect.PointerTo(rt)}, true))
	})
	var x map[float32][3]map[int32]int = map[float32][3]map[int32]int{float32(1.5): [3]map[int32]int{map[int32]int{}, map[int32]int(nil), map[int32]int{int32(1): int(120)}}, float32(2.5): [3]map[int32]int{map[int32]int{int32(1): int(-30000), int32(2): int(65)}, map[int32]int{int32(1): int(-30000), int32(2): int(-30000), int32(3): int(65)}, map[int32]int{int32(1): int(65), int32(2): int(1000), int32(3): int(1000)}}}
	var y map[float32][3]map[int32]int = map[float32][3]map[int32]int{float32(1.5): [3]map[int32]int{map[int32]int{}, map[int32]int(nil), map[int32]int{int32(1): int(120)}}, float32(2.5): [3]map[int32]int{map[int32]int{int32(1): int(-30000), int32(2): int(65)}, map[int32]int{int32(1): int(-30000), int32(2): int(-30000), int32(3): int(65)}, map[int32]int{int32(1): int(65), int32(2): int(1000), int32(3): int(1001)}}}
	var z map[float32][3]map[int32]int = map[float32][3]map[int32]int{}
	var d map[float32][3]map[int32]int = map[float32][3]map[int32]int{float32(1.5): [3]map[int32]int{map[int32]int{}, map[int32]int{int32(1): int(1000), int32(2): int(0), int32(3): int(1048576)}, map[int32]int{int32(1): int(-30000)}}, float32(2.5): [3]map[int32]int{map[int32]int{int32(1): int(65)}, map[int32]int{int32(1): int(1000), int32(2): int(1048576), int32(3): int(99)}, map[int32]int{int32(1): int(-1073741824), int32(2): int(1000), int32(3): int(100)}}}
	var e map[float32][3]map[int32]int = map[float32][3]map[int32]int{float32(1.5): [3]map[int32]int{map[int32]int{}, map[int32]int{int32(1): int(1000), int32(2): int(0), int32(3): int(1048576)}, map[int32]int{int32(1): int(-30000)}}, float32(2.5): [3]map[int32]int{map[int32]int{int32(1): int(65)}, map[int32]int{int32(1): int(1000), int32(2): int(1048576), int32(3): int(99)}, map[int32]int{int32(1): int(-1073741824), int32(2): int(1000), int32(3): int(101)}}}
	w.Value("x", &x)
	w.Value("d", &d)
	w.Deep("xy", &x, &y)
	w.Deep("xz", &x, &z)
	w.Deep("de", &d, &e)
	w.Try("conv", func() { w.Conv("x", &x, partners) })
	w.Fmt("x", &x)
	w.Fmt("z", &z)
	w.ZeroFmt("t", rt)
	w.TypeCalls("d", &d)
	w.Calls("d", &d)
	_, _, _ = y, z, e
}

func U84() {
	w.Header("84", "interface{0}")
	rt := reflect.TypeOf((*interface{})(nil)).Elem()
	w.Try("type", func() { w.Type(rt) })
	partners := []reflect.Type{reflect.TypeOf((*p0.T6)(nil)).Elem(), reflect.TypeOf((*p0.T18)(nil)).Elem(), reflect.TypeOf((*T34)(nil)).Elem()}
	w.Try("matrix", func() { w.Matrix(rt, partners) })
	w.Try("same", func() {
		w.Same("ptr", reflect.TypeOf((**interface{})(nil)).Elem(), reflect.PointerTo(rt))
		w.Same("slice", reflect.TypeOf((*[]interface{})(nil)).Elem(), reflect.SliceOf(rt))
		w.Same("array", reflect.TypeOf((*[3]interface{})(nil)).Elem(), reflect.ArrayOf(3, rt))
		w.Same("chan", reflect.TypeOf((*<-chan interface{})(nil)).Elem(), reflect.ChanOf(reflect.RecvDir, rt))
		w.Same("map", reflect.TypeOf((*map[string]interface{})(nil)).Elem(), reflect.MapOf(reflect.TypeOf(""), rt))
		w.Same("func", reflect.TypeOf((*func(interface{}, ...interface{}) *interface{})(nil)).Elem(), reflect.FuncOf([]reflect.Type{rt, reflect.SliceOf(rt)}, []reflect.Type{reflect.PointerTo(rt)}, true))
	})
	var x interface{} = interface{}(int64(65))
	var y interface{} = interface{}(int64(66))
	var z interface{} = interface{}(int64(1))
	var d interface{} = interface{}(bool(false))
	var e interface{} = interface{}(bool(true))
	w.Value("x", &x)
	w.Value("d", &d)
	w.Deep("xy", &x, &y)
	w.Deep("xz", &x, &z)
	w.Deep("de", &d, &e)
	w.Try("conv", func() { w.Conv("x", &x, partners) })
	w.Fmt("x", &x)
	w.Fmt("z", &z)
	w.ZeroFmt("t", rt)
	w.TypeCalls("d", &d)
	w.Calls("d", &d)
	_, _, _ = y, z, e
}

func U90() {
	w.Header("90", "func(complex64)(N/pvv([]N))")
	rt := reflect.TypeOf((*func(complex64) p0.T16)(nil)).Elem()
	w.Try("type", func() { w.Type(rt) })
	partners := []reflect.Type{reflect.TypeOf((*T48)(nil)).Elem(), reflect.TypeOf((*p0.T18)(nil)).Elem(), reflect.TypeOf((*p0.T3)(nil)).Elem()}
	w.Try("matrix", func() { w.Matrix(rt, partners) })
	w.Try("same", func() {
		w.Same("slice", reflect.TypeOf((*[]func(complex64) p0.T16)(nil)).Elem(), reflect.SliceOf(rt))
		w.Same("array", reflect.TypeOf((*[3]func(complex64) p0.T16)(nil)).Elem(), reflect.ArrayOf(3, rt))
		w.Same("chan", reflect.TypeOf((*<-chan func(complex64) p0.T16)(nil)).Elem(), reflect.ChanOf(reflect.RecvDir, rt))
		w.Same("map", reflect.TypeOf((*map[string]func(complex64) p0.T16)(nil)).Elem(), reflect.MapOf(reflect.TypeOf(""), rt))
	})
	var x func(complex64) p0.T16 = (func(complex64) p0.T16)(nil)
	var y func(complex64) p0.T16 = (func(complex64) p0.T16)(nil)
	var z func(complex64) p0.T16 = (func(complex64) p0.T16)(nil)
	var d func(complex64) p0.T16 = (func(complex64) p0.T16)(func(a0 complex64) p0.T16 { return p0.MkT16(2) })
	var e func(complex64) p0.T16 = (func(complex64) p0.T16)(func(a0 complex64) p0.T16 { return p0.MkT16(2) })
	w.Value("x", &x)
	w.Value("d", &d)
	w.Deep("xy", &x, &y)
	w.Deep("xz", &x, &z)
	w.Deep("de", &d, &e)
	w.Try("conv", func() { w.Conv("x", &x, partners) })
	w.Fmt("x", &x)
	w.Fmt("z", &z)
	w.ZeroFmt("t", rt)
	w.TypeCalls("d", &d)
	w.Calls("d", &d)
	_, _, _ = y, z, e
}

func U91() {
	w.Header("91", "struct{*int8;E:N/vvvv(N/pppp(complex64));E:N(struct{*N`})}")
	rt := reflect.TypeOf((*struct { F0 *int8; p0.T2; p0.T7 })(nil)).Elem()
	w.Try("type", func() { w.Type(rt) })
	partners := []reflect.Type{reflect.TypeOf((*T35)(nil)).Elem(), reflect.TypeOf((*T48)(nil)).Elem(), reflect.TypeOf((*T44)(nil)).Elem()}
	w.Try("matrix", func() { w.Matrix(rt, partners) })
	w.Try("same", func() {
		w.Same("ptr", reflect.TypeOf((**struct { F0 *int8; p0.T2; p0.T7 })(nil)).Elem(), reflect.PointerTo(rt))
		w.Same("slice", reflect.TypeOf((*[]struct { F0 *int8; p0.T2; p0.T7 })(nil)).Elem(), reflect.SliceOf(rt))
		w.Same("array", reflect.TypeOf((*[3]struct { F0 *int8; p0.T2; p0.T7 })(nil)).Elem(), reflect.ArrayOf(3, rt))
		w.Same("chan", reflect.TypeOf((*<-chan struct { F0 *int8; p0.T2; p0.T7 })(nil)).Elem(), reflect.ChanOf(reflect.RecvDir, rt))
		w.Same("map", reflect.TypeOf((*map[string]struct { F0 *int8; p0.T2; p0.T7 })(nil)).Elem(), reflect.MapOf(reflect.TypeOf(""), rt))
		w.Same("func", reflect.TypeOf((*func(struct { F0 *int8; p0.T2; p0.T7 }, ...struct { F0 *int8; p0.T2; p0.T7 }) *struct { F0 *int8; p0.T2; p0.T7 })(nil)).Elem(), reflect.FuncOf([]reflect.Type{rt, reflect.SliceOf(rt)}, []reflect.Type{reflect.PointerTo(rt)}, true))
	})
	var x struct { F0 *int8; p0.T2; p0.T7 } = struct { F0 *int8; p0.T2; p0.T7 }{F0: (*int8)(nil), T2: p0.MkT2(0), T7: p0.MkT7(0)}
	var y struct { F0 *int8; p0.T2; p0.T7 } = struct { F0 *int8; p0.T2; p0.T7 }{F0: (*int8)(nil), T2: p0.MkT2(1), T7: p0.MkT7(0)}
	var z struct { F0 *int8; p0.T2; p0.T7 } = struct { F0 *int8; p0.T2; p0.T7 }{F0: (*int8)(nil), T2: p0.MkT2(0), T7: p0.MkT7(2)}
	var d struct { F0 *int8; p0.T2; p0.T7 } = struct { F0 *int8; p0.T2; p0.T7 }{F0: (*int8)(nil), T2: p0.MkT2(3), T7: p0.MkT7(3)}
	var e struct { F0 *int8; p0.T2; p0.T7 } = struct { F0 *int8; p0.T2; p0.T7 }{F0: (*int8)(nil), T2: p0.MkT2(4), T7: p0.MkT7(3)}
	w.Value("x", &x)
	w.Value("d", &d)
	w.Deep("xy", &x, &y)
	w.Deep("xz", &x, &z)
	w.Deep("de", &d, &e)
	w.Try("conv", func() { w.Conv("x", &x, partners) })
	w.P("F skipped: nil pointers or interfaces on the path of a promoted fmt method")
	w.TypeCalls("d", &d)
	w.Calls("d", &d)
	_, _, _ = y, z, e
}

func U92() {
	w.Header("92", "***N")
	rt := reflect.TypeOf((****T42)(nil)).Elem()
	w.Try("type", func() { w.Type(rt) })
	partners := []reflect.Type{reflect.TypeOf((*T35)(nil)).Elem(), reflect.TypeOf((*p0.T8)(nil)).Elem(), reflect.TypeOf((*map[p0.T3]struct { f0 int; f1 p0.T1; *p0.T9 })(nil)).Elem()}
	w.Try("matrix", func() { w.Matrix(rt, partners) })
	w.Try("same", func() {
		w.Same("slice", reflect.TypeOf((*[]***T42)(nil)).Elem(), reflect.SliceOf(rt))
		w.Same("array", reflect.TypeOf((*[3]***T42)(nil)).Elem(), reflect.ArrayOf(3, rt))
		w.Same("chan", reflect.TypeOf((*<-chan ***T42)(nil)).Elem(), reflect.ChanOf(reflect.RecvDir, rt))
		w.Same("map", reflect.TypeOf((*map[string]***T42)(nil)).Elem(), reflect.MapOf(reflect.TypeOf(""), rt))
	})
	var x ***T42 = (***T42)(nil)
	var y ***T42 = (***T42)(nil)
	var z ***T42 = (***T42)(nil)
	var d ***T42 = w.Ptr(w.Ptr(w.Ptr(MkT42(3))))
	var e ***T42 = w.Ptr(w.Ptr(w.Ptr(MkT42(4))))
	w.Value("x", &x)
	w.Value("d", &d)
	w.Deep("xy", &x, &y)
	w.Deep("xz", &x, &z)
	w.Deep("de", &d, &e)
	w.Try("conv", func() { w.Conv("x", &x, partners) })
	w.Fmt("x", &x)
	w.Fmt("z", &z)
	w.ZeroFmt("t", rt)
	w.TypeCalls("d", &d)
	w.Calls("d", &d)
	_, _, _ = y, z, e
}

func U94() {
	w.Header("94", "[]*struct{N}")
	rt := reflect.TypeOf((*[]*struct { F0 p0.T16 })(nil)).Elem()
	w.Try("type", func() { w.Type(rt) })
	partners := []reflect.Type{reflect.TypeOf((*T31)(nil)).Elem(), reflect.TypeOf((*T40)(nil)).Elem(), reflect.TypeOf((*map[uint64]*p0.T3)(nil)).Elem()}
	w.Try("matrix", func() { w.Matrix(rt, partners) })
	w.Try("same", func() {
		w.Same("ptr", reflect.TypeOf((**[]*struct { F0 p0.T16 })(nil)).Elem(), reflect.PointerTo(rt))
		w.Same("slice", reflect.TypeOf((*[][]*struct { F0 p0.T16 })(nil)).Elem(), reflect.SliceOf(rt))
		w.Same("array", reflect.TypeOf((*[3][]*struct { F0 p0.T16 })(nil)).Elem(), reflect.ArrayOf(3, rt))
		w.Same("chan", reflect.TypeOf((*<-chan []*struct { F0 p0.T16 })(nil)).Elem(), reflect.ChanOf(reflect.RecvDir, rt))
		w.Same("map", reflect.TypeOf((*map[string][]*struct { F0 p0.T16 })(nil)).Elem(), reflect.MapOf(reflect.TypeOf(""), rt))
		w.Same("func", reflect.TypeOf((*func([]*struct { F0 p0.T16 }, ...[]*struct { F0 p0.T16 }) *[]*struct { F0 p0.T16 })(nil)).Elem(), reflect.FuncOf([]reflect.Type{rt, reflect.SliceOf(rt)}, []reflect.Type{reflect.PointerTo(rt)}, true))
	})
	var x []*struct { F0 p0.T16 } = []*struct { F0 p0.T16 }{(*struct { F0 p0.T16 })(nil), (*struct { F0 p0.T16 })(nil)}
	var y []*struct { F0 p0.T16 } = []*struct { F0 p0.T16 }{(*struct { F0 p0.T16 })(nil), (*struct { F0 p0.T16 })(nil)}
	var z []*struct { F0 p0.T16 } = []*struct { F0 p0.T16 }{(*struct { F0 p0.T16 })(nil), (*struct { F0 p0.T16 })(nil), (*struct { F0 p0.T16 })(nil)}
	var d []*struct { F0 p0.T16 } = []*struct { F0 p0.T16 }{w.Ptr(struct { F0 p0.T16 }{F0: p0.MkT16(3)}), w.Ptr(struct { F0 p0.T16 }{F0: p0.MkT16(3)})}
	var e []*struct { F0 p0.T16 } = []*struct { F0 p0.T16 }{w.Ptr(struct { F0 p0.T16 }{F0: p0.MkT16(3)}), w.Ptr(struct { F0 p0.T16 }{F0: p0.MkT16(3)})}
	w.Value("x", &x)
	w.Value("d", &d)
	w.Deep("xy", &x, &y)
	w.Deep("xz", &x, &z)
	w.Deep("de", &d, &e)
	w.Try("conv", func() { w.Conv("x", &x, partners) })
	w.Fmt("x", &x)
	w.Fmt("z", &z)
	w.ZeroFmt("t", rt)
	w.TypeCalls("d", &d)
	w.Calls("d", &d)
	_, _, _ = y, z, e
}

func U96() {
	w.Header("96", "chanstruct{u:int;string;u:uintptr}")
	rt := reflect.TypeOf((*chan struct { f0 int; F1 string; _ uintptr })(nil)).Elem()
	w.Try("type", func() { w.Type(rt) })
	partners := []reflect.Type{reflect.TypeOf((*func(...float64) (interface{}, uint8))(nil)).Elem(), reflect.TypeOf((*p0.T13)(nil)).Elem(), reflect.TypeOf((*T40)(nil)).Elem()}
	w.Try("matrix", func() { w.Matrix(rt, partners) })
	w.Try("same", func() {
		w.Same("ptr", reflect.TypeOf((**chan struct { f0 int; F1 string; _ uintptr })(nil)).Elem(), reflect.PointerTo(rt))
		w.Same("slice", reflect.TypeOf((*[]chan struct { f0 int; F1 string; _ uintptr })(nil)).Elem(), reflect.SliceOf(rt))
		w.Same("array", reflect.TypeOf((*[3]chan struct { f0 int; F1 string; _ uintptr })(nil)).Elem(), reflect.ArrayOf(3, rt))
		w.Same("chan", reflect.TypeOf((*<-chan chan struct { f0 int; F1 string; _ uintptr })(nil)).Elem(), reflect.ChanOf(reflect.RecvDir, rt))
		w.Same("map", reflect.TypeOf((*map[string]chan struct { f0 int; F1 string; _ uintptr })(nil)).Elem(), reflect.MapOf(reflect.TypeOf(""), rt))
		w.Same("func", reflect.TypeOf((*func(chan struct { f0 int; F1 string; _ uintptr }, ...chan struct { f0 int; F1 string; _ uintptr }) *chan struct { f0 int; F1 string; _ uintptr })(nil)).Elem(), reflect.FuncOf([]reflect.Type{rt, reflect.SliceOf(rt)}, []reflect.Type{reflect.PointerTo(rt)}, true))
	})
	var x chan struct { f0 int; F1 string; _ uintptr } = (chan struct { f0 int; F1 string; _ uintptr })(nil)
	var y chan struct { f0 int; F1 string; _ uintptr } = (chan struct { f0 int; F1 string; _ uintptr })(nil)
	var z chan struct { f0 int; F1 string; _ uintptr } = (chan struct { f0 int; F1 string; _ uintptr })(nil)
	var d chan struct { f0 int; F1 string; _ uintptr } = (chan struct { f0 int; F1 string; _ uintptr })(make(chan struct { f0 int; F1 string; _ uintptr }, 3))
	var e chan struct { f0 int; F1 string; _ uintptr } = (chan struct { f0 int; F1 string; _ uintptr })(make(chan struct { f0 int; F1 string; _ uintptr }, 3))
	w.Value("x", &x)
	w.Value("d", &d)
	w.Deep("xy", &x, &y)
	w.Deep("xz", &x, &z)
	w.Deep("de", &d, &e)
	w.Try("conv", func() { w.Conv("x", &x, partners) })
	w.Fmt("x", &x)
	w.Fmt("z", &z)
	w.ZeroFmt("t", rt)
	w.TypeCalls("d", &d)
	w.Calls("d", &d)
	_, _, _ = y, z, e
}

func U97() {
	w.Header("97", "fmt.Stringer")
	rt := reflect.TypeOf((*fmt.Stringer)(nil)).Elem()
	w.Try("type", func() { w.Type(rt) })
	partners := []reflect.Type{reflect.TypeOf((*T25)(nil)).Elem(), reflect.TypeOf((*T44)(nil)).Elem(), reflect.TypeOf((*p0.T23)(nil)).Elem()}
	w.Try("matrix", func() { w.Matrix(rt, partners) })
	w.Try("same", func() {
		w.Same("ptr", reflect.TypeOf((**fmt.Stringer)(nil)).Elem(), reflect.PointerTo(rt))
		w.Same("slice", reflect.TypeOf((*[]fmt.Stringer)(nil)).Elem(), reflect.SliceOf(rt))
		w.Same("array", reflect.TypeOf((*[3]fmt.Stringer)(nil)).Elem(), reflect.ArrayOf(3, rt))
		w.Same("chan", reflect.TypeOf((*<-chan fmt.Stringer)(nil)).Elem(), reflect.ChanOf(reflect.RecvDir, rt))
		w.Same("map", reflect.TypeOf((*map[string]fmt.Stringer)(nil)).Elem(), reflect.MapOf(reflect.TypeOf(""), rt))
		w.Same("func", reflect.TypeOf((*func(fmt.Stringer, ...fmt.Stringer) *fmt.Stringer)(nil)).Elem(), reflect.FuncOf([]reflect.Type{rt, reflect.SliceOf(rt)}, []reflect.Type{reflect.PointerTo(rt)}, true))
	})
	var x fmt.Stringer = fmt.Stringer(w.Str{1000})
	var y fmt.Stringer = fmt.Stringer(w.Str{1001})
	var z fmt.Stringer = fmt.Stringer(w.Str{65})
	var d fmt.Stringer = fmt.Stringer(w.Str{99})
	var e fmt.Stringer = fmt.Stringer(w.Str{100})
	w.Value("x", &x)
	w.Value("d", &d)
	w.Deep("xy", &x, &y)
	w.Deep("xz", &x, &z)
	w.Deep("de", &d, &e)
	w.Try("conv", func() { w.Conv("x", &x, partners) })
	w.Fmt("x", &x)
	w.Fmt("z", &z)
	w.ZeroFmt("t", rt)
	w.TypeCalls("d", &d)
	w.Calls("d", &d)
	_, _, _ = y, z, e
}

func U101() {
	w.Header("101", "func(*int16,N(struct{<-chan*int32;u:N;struct{bool};chan[]int32}))(error)")
	rt := reflect.TypeOf((*func(*int16, T47) error)(nil)).Elem()
	w.Try("type", func() { w.Type(rt) })
	partners := []reflect.Type{reflect.TypeOf((*T29)(nil)).Elem(), reflect.TypeOf((*fmt.Stringer)(nil)).Elem(), reflect.TypeOf((*map[p0.T3]struct { f0 int; f1 p0.T1; *p0.T9 })(nil)).Elem()}
	w.Try("matrix", func() { w.Matrix(rt, partners) })
	w.Try("same", func() {
		w.Same("slice", reflect.TypeOf((*[]func(*int16, T47) error)(nil)).Elem(), reflect.SliceOf(rt))
		w.Same("array", reflect.TypeOf((*[3]func(*int16, T47) error)(nil)).Elem(), reflect.ArrayOf(3, rt))
		w.Same("chan", reflect.TypeOf((*<-chan func(*int16, T47) error)(nil)).Elem(), reflect.ChanOf(reflect.RecvDir, rt))
		w.Same("map", reflect.TypeOf((*map[string]func(*int16, T47) error)(nil)).Elem(), reflect.MapOf(reflect.TypeOf(""), rt))
	})
	var x func(*int16, T47) error = (func(*int16, T47) error)(nil)
	var y func(*int16, T47) error = (func(*int16, T47) error)(nil)
	var z func(*int16, T47) error = (func(*int16, T47) error)(nil)
	var d func(*int16, T47) error = (func(*int16, T47) error)(func(a0 *int16, a1 T47) error { return error(w.Err{"\x7f"}) })
	var e func(*int16, T47) error = (func(*int16, T47) error)(func(a0 *int16, a1 T47) error { return error(w.Err{"\x7f"}) })
	w.Value("x", &x)
	w.Value("d", &d)
	w.Deep("xy", &x, &y)
	w.Deep("xz", &x, &z)
	w.Deep("de", &d, &e)
	w.Try("conv", func() { w.Conv("x", &x, partners) })
	w.Fmt("x", &x)
	w.Fmt("z", &z)
	w.ZeroFmt("t", rt)
	w.TypeCalls("d", &d)
	w.Calls("d", &d)
	_, _, _ = y, z, e
}

func U102() {
	w.Header("102", "[]string")
	rt := reflect.TypeOf((*[]string)(nil)).Elem()
	w.Try("type", func() { w.Type(rt) })
	partners := []reflect.Type{reflect.TypeOf((*p0.T1)(nil)).Elem(), reflect.TypeOf((*func(*int16, T47) error)(nil)).Elem(), reflect.TypeOf((*[]map[int16]chan uint8)(nil)).Elem()}
	w.Try("matrix", func() { w.Matrix(rt, partners) })
	w.Try("same", func() {
		w.Same("ptr", reflect.TypeOf((**[]string)(nil)).Elem(), reflect.PointerTo(rt))
		w.Same("slice", reflect.TypeOf((*[][]string)(nil)).Elem(), reflect.SliceOf(rt))
		w.Same("array", reflect.TypeOf((*[3][]string)(nil)).Elem(), reflect.ArrayOf(3, rt))
		w.Same("chan", reflect.TypeOf((*<-chan []string)(nil)).Elem(), reflect.ChanOf(reflect.RecvDir, rt))
		w.Same("map", reflect.TypeOf((*map[string][]string)(nil)).Elem(), reflect.MapOf(reflect.TypeOf(""), rt))
		w.Same("func", reflect.TypeOf((*func([]string, ...[]string) *[]string)(nil)).Elem(), reflect.FuncOf([]reflect.Type{rt, reflect.SliceOf(rt)}, []reflect.Type{reflect.PointerTo(rt)}, true))
	})
	var x []string = []string{string("Z"), string(""), string("hi")}
	var y []string = []string{string("Z~"), string(""), string("hi")}
	var z []string = []string{string("x y"), string("\x7f")}
	var d []string = []string{string("a"), string("Z")}
	var e []string = []string{string("a"), string("Z~")}
	w.Value("x", &x)
	w.Value("d", &d)
	w.Deep("xy", &x, &y)
	w.Deep("xz", &x, &z)
	w.Deep("de", &d, &e)
	w.Try("conv", func() { w.Conv("x", &x, partners) })
	w.Fmt("x", &x)
	w.Fmt("z", &z)
	w.ZeroFmt("t", rt)
	w.TypeCalls("d", &d)
	w.Calls("d", &d)
	_, _, _ = y, z, e
}

func U103() {
	w.Header("103", "map[N/pvv(uint)]struct{u:float32;string;E:N/pvv(uint)}")
	rt := reflect.TypeOf((*map[p0.T11]struct { _ float32; F1 string; p0.T11 })(nil)).Elem()
	w.Try("type", func() { w.Type(rt) })
	partners := []reflect.Type{reflect.TypeOf((*p0.T2)(nil)).Elem(), reflect.TypeOf((*p0.T12)(nil)).Elem(), reflect.TypeOf((*T44)(nil)).Elem()}
	w.Try("matrix", func() { w.Matrix(rt, partners) })
	w.Try("same", func() {
		w.Same("ptr", reflect.TypeOf((**map[p0.T11]struct { _ float32; F1 string; p0.T11 })(nil)).Elem(), reflect.PointerTo(rt))
		w.Same("slice", reflect.TypeOf((*[]map[p0.T11]struct { _ float32; F1 string; p0.T11 })(nil)).Elem(), reflect.SliceOf(rt))
		w.Same("array", reflect.TypeOf((*[3]map[p0.T11]struct { _ float32; F1 string; p0.T11 })(nil)).Elem(), reflect.ArrayOf(3, rt))
		w.Same("chan", reflect.TypeOf((*<-chan map[p0.T11]struct { _ float32; F1 string; p0.T11 })(nil)).Elem(), reflect.ChanOf(reflect.RecvDir, rt))
		w.Same("map", reflect.TypeOf((*map[string]map[p0.T11]struct { _ float32; F1 string; p0.T11 })(nil)).Elem(), reflect.MapOf(reflect.TypeOf(""), rt))
		w.Same("func", reflect.TypeOf((*func(map[p0.T11]struct { _ float32; F1 string; p0.T11 }, ...map[p0.T11]struct { _ float32; F1 string; p0.T11 }) *map[p0.T11]struct { _ float32; F1 string; p0.T11 })(nil)).Elem(), reflect.FuncOf([]reflect.Type{rt, reflect.SliceOf(rt)}, []reflect.Type{reflect.PointerTo(rt)}, true))
	})
	var x map[p0.T11]struct { _ float32; F1 string; p0.T11 } = map[p0.T11]struct { _ float32; F1 string; p0.T11 }{p0.T11(uint(1)): struct { _ float32; F1 string; p0.T11 }{F1: string("x y"), T11: p0.MkT11(0)}, p0.T11(uint(2)): struct { _ float32; F1 string; p0.T11 }{F1: string("x y"), T11: p0.MkT11(0)}, p0.T11(uint(3)): struct { _ float32; F1 string; p0.T11 }{F1: string("Z"), T11: p0.MkT11(2)}}
	var y map[p0.T11]struct { _ float32; F1 string; p0.T11 } = map[p0.T11]struct { _ float32; F1 string; p0.T11 }{p0.T11(uint(1)): struct { _ float32; F1 string; p0.T11 }{F1: string("x y"), T11: p0.MkT11(0)}, p0.T11(uint(2)): struct { _ float32; F1 string; p0.T11 }{F1: string("x y"), T11: p0.MkT11(0)}, p0.T11(uint(3)): struct { _ float32; F1 string; p0.T11 }{F1: string("Z"), T11: p0.MkT11(0)}}
	var z map[p0.T11]struct { _ float32; F1 string; p0.T11 } = map[p0.T11]struct { _ float32; F1 string; p0.T11 }{p0.T11(uint(1)): struct { _ float32; F1 string; p0.T11 }{F1: string("a"), T11: p0.MkT11(0)}, p0.T11(uint(2)): struct { _ float32; F1 string; p0.T11 }{F1: string("q\"uote"), T11: p0.MkT11(0)}, p0.T11(uint(3)): struct { _ float32; F1 string; p0.T11 }{F1: string("日本"), T11: p0.MkT11(0)}}
	var d map[p0.T11]struct { _ float32; F1 string; p0.T11 } = map[p0.T11]struct { _ float32; F1 string; p0.T11 }{}
	var e map[p0.T11]struct { _ float32; F1 string; p0.T11 } = map[p0.T11]struct { _ float32; F1 string; p0.T11 }{}
	w.Value("x", &x)
	w.Value("d", &d)
	w.Deep("xy", &x, &y)
	w.Deep("xz", &x, &z)
	w.Deep("de", &d, &e)
	w.Try("conv", func() { w.Conv("x", &x, partners) })
	w.Fmt("x", &x)
	w.Fmt("z", &z)
	w.ZeroFmt("t", rt)
	w.TypeCalls("d", &d)
	w.Calls("d", &d)
	_, _, _ = y, z, e
}

func U104() {
	w.Header("104", "struct{}")
	rt := reflect.TypeOf((*struct{})(nil)).Elem()
	w.Try("type", func() { w.Type(rt) })
	partners := []reflect.Type{reflect.TypeOf((*map[complex128]g.Wrap[p0.T22])(nil)).Elem(), reflect.TypeOf((*[]string)(nil)).Elem(), reflect.TypeOf((*T34)(nil)).Elem()}
	w.Try("matrix", func() { w.Matrix(rt, partners) })
	w.Try("same", func() {
		w.Same("ptr", reflect.TypeOf((**struct{})(nil)).Elem(), reflect.PointerTo(rt))
		w.Same("slice", reflect.TypeOf((*[]struct{})(nil)).Elem(), reflect.SliceOf(rt))
		w.Same("array", reflect.TypeOf((*[3]struct{})(nil)).Elem(), reflect.ArrayOf(3, rt))
		w.Same("chan", reflect.TypeOf((*<-chan struct{})(nil)).Elem(), reflect.ChanOf(reflect.RecvDir, rt))
		w.Same("map", reflect.TypeOf((*map[string]struct{})(nil)).Elem(), reflect.MapOf(reflect.TypeOf(""), rt))
		w.Same("func", reflect.TypeOf((*func(struct{}, ...struct{}) *struct{})(nil)).Elem(), reflect.FuncOf([]reflect.Type{rt, reflect.SliceOf(rt)}, []reflect.Type{reflect.PointerTo(rt)}, true))
	})
	var x struct{} = struct{}{}
	var y struct{} = struct{}{}
	var z struct{} = struct{}{}
	var d struct{} = struct{}{}
	var e struct{} = struct{}{}
	w.Value("x", &x)
	w.Value("d", &d)
	w.Deep("xy", &x, &y)
	w.Deep("xz", &x, &z)
	w.Deep("de", &d, &e)
	w.Try("conv", func() { w.Conv("x", &x, partners) })
	w.Fmt("x", &x)
	w.Fmt("z", &z)
	w.ZeroFmt("t", rt)
	w.TypeCalls("d", &d)
	w.Calls("d", &d)
	_, _, _ = y, z, e
}

func U105() {
	w.Header("105", "func()(int32)")
	rt := reflect.TypeOf((*func() int32)(nil)).Elem()
	w.Try("type", func() { w.Type(rt) })
	partners := []reflect.Type{reflect.TypeOf((*T43)(nil)).Elem(), reflect.TypeOf((*T41)(nil)).Elem(), reflect.TypeOf((*T41)(nil)).Elem()}
	w.Try("matrix", func() { w.Matrix(rt, partners) })
	w.Try("same", func() {
		w.Same("slice", reflect.TypeOf((*[]func() int32)(nil)).Elem(), reflect.SliceOf(rt))
		w.Same("array", reflect.TypeOf((*[3]func() int32)(nil)).Elem(), reflect.ArrayOf(3, rt))
		w.Same("chan", reflect.TypeOf((*<-chan func() int32)(nil)).Elem(), reflect.ChanOf(reflect.RecvDir, rt))
		w.Same("map", reflect.TypeOf((*map[string]func() int32)(nil)).Elem(), reflect.MapOf(reflect.TypeOf(""), rt))
	})
	var x func() int32 = (func() int32)(nil)
	var y func() int32 = (func() int32)(nil)
	var z func() int32 = (func() int32)(nil)
	var d func() int32 = (func() int32)(nil)
	var e func() int32 = (func() int32)(nil)
	w.Value("x", &x)
	w.Value("d", &d)
	w.Deep("xy", &x, &y)
	w.Deep("xz", &x, &z)
	w.Deep("de", &d, &e)
	w.Try("conv", func() { w.Conv("x", &x, partners) })
	w.Fmt("x", &x)
	w.Fmt("z", &z)
	w.ZeroFmt("t", rt)
	w.TypeCalls("d", &d)
	w.Calls("d", &d)
	_, _, _ = y, z, e
}

func U109() {
	w.Header("109", "fmt.Stringer")
	rt := reflect.TypeOf((*fmt.Stringer)(nil)).Elem()
	w.Try("type", func() { w.Type(rt) })
	partners := []reflect.Type{reflect.TypeOf((****T42)(nil)).Elem(), reflect.TypeOf((*p0.T11)(nil)).Elem(), reflect.TypeOf((*T30)(nil)).Elem()}
	w.Try("matrix", func() { w.Matrix(rt, partners) })
	w.Try("same", func() {
		w.Same("ptr", reflect.TypeOf((**fmt.Stringer)(nil)).Elem(), reflect.PointerTo(rt))
		w.Same("slice", reflect.TypeOf((*[]fmt.Stringer)(nil)).Elem(), reflect.SliceOf(rt))
		w.Same("array", reflect.TypeOf((*[3]fmt.Stringer)(nil)).Elem(), reflect.ArrayOf(3, rt))
		w.Same("chan", reflect.TypeOf((*<-chan fmt.Stringer)(nil)).Elem(), reflect.ChanOf(reflect.RecvDir, rt))
		w.Same("map", reflect.TypeOf((*map[string]fmt.Stringer)(nil)).Elem(), reflect.MapOf(reflect.TypeOf(""), rt))
		w.Same("func", reflect.TypeOf((*func(fmt.Stringer, ...fmt.Stringer) *fmt.Stringer)(nil)).Elem(), reflect.FuncOf([]reflect.Type{rt, reflect.SliceOf(rt)}, []reflect.Type{reflect.PointerTo(rt)}, true))
	})
	var x fmt.Stringer = fmt.Stringer(nil)
	var y fmt.Stringer = fmt.Stringer(nil)
	var z fmt.Stringer = fmt.Stringer(w.Str{1000})
	var d fmt.Stringer = fmt.Stringer(w.Str{65})
	var e fmt.Stringer = fmt.Stringer(w.Str{66})
	w.Value("x", &x)
	w.Value("d", &d)
	w.Deep("xy", &x, &y)
	w.Deep("xz", &x, &z)
	w.Deep("de", &d, &e)
	w.Try("conv", func() { w.Conv("x", &x, partners) })
	w.Fmt("x", &x)
	w.Fmt("z", &z)
	w.ZeroFmt("t", rt)
	w.TypeCalls("d", &d)
	w.Calls("d", &d)
	_, _, _ = y, z, e
}

func U110() {
	w.Header("110", "map[N/pvv(uint)]map[int]struct{float32}")
	rt := reflect.TypeOf((*map[p0.T11]map[int]struct { F0 float32 })(nil)).Elem()
	w.Try("type", func() { w.Type(rt) })
	partners := []reflect.Type{reflect.TypeOf((*[][][2]p0.T8)(nil)).Elem(), reflect.TypeOf((****T42)(nil)).Elem(), reflect.TypeOf((*T36)(nil)).Elem()}
	w.Try("matrix", func() { w.Matrix(rt, partners) })
	w.Try("same", func() {
		w.Same("ptr", reflect.TypeOf((**map[p0.T11]map[int]struct { F0 float32 })(nil)).Elem(), reflect.PointerTo(rt))
		w.Same("slice", reflect.TypeOf((*[]map[p0.T11]map[int]struct { F0 float32 })(nil)).Elem(), reflect.SliceOf(rt))
		w.Same("array", reflect.TypeOf((*[3]map[p0.T11]map[int]struct { F0 float32 })(nil)).Elem(), reflect.ArrayOf(3, rt))
		w.Same("chan", reflect.TypeOf((*<-chan map[p0.T11]map[int]struct { F0 float32 })(nil)).Elem(), reflect.ChanOf(reflect.RecvDir, rt))
		w.Same("map", reflect.TypeOf((*map[string]map[p0.T11]map[int]struct { F0 float32 })(nil)).Elem(), reflect.MapOf(reflect.TypeOf(""), rt))
		w.Same("func", reflect.TypeOf((*func(map[p0.T11]map[int]struct { F0 float32 }, ...map[p0.T11]map[int]struct { F0 float32 }) *map[p0.T11]map[int]struct { F0 float32 })(nil)).Elem(), reflect.FuncOf([]reflect.Type{rt, reflect.SliceOf(rt)}, []reflect.Type{reflect.PointerTo(rt)}, true))
	})
	var x map[p0.T11]map[int]struct { F0 float32 } = map[p0.T11]map[int]struct { F0 float32 }{p0.T11(uint(1)): map[int]struct { F0 float32 }{int(1): struct { F0 float32 }{F0: float32(0.0025)}, int(2): struct { F0 float32 }{F0: float32(1000000.0)}, int(3): struct { F0 float32 }{F0: float32(0.25)}}, p0.T11(uint(2)): map[int]struct { F0 float32 }{int(1): struct { F0 float32 }{F0: float32(100.5)}, int(2): struct { F0 float32 }{F0: float32(123456.75)}, int(3): struct { F0 float32 }{F0: float32(3.75)}}, p0.T11(uint(3)): map[int]struct { F0 float32 }{int(1): struct { F0 float32 }{F0: float32(0.0025)}, int(2): struct { F0 float32 }{F0: float32(123456.75)}}}
	var y map[p0.T11]map[int]struct { F0 float32 } = map[p0.T11]map[int]struct { F0 float32 }{p0.T11(uint(1)): map[int]struct { F0 float32 }{int(1): struct { F0 float32 }{F0: float32(0.0025)}, int(2): struct { F0 float32 }{F0: float32(1000000.0)}, int(3): struct { F0 float32 }{F0: float32(0.25)}}, p0.T11(uint(2)): map[int]struct { F0 float32 }{int(1): struct { F0 float32 }{F0: float32(100.5)}, int(2): struct { F0 float32 }{F0: float32(123456.75)}, int(3): struct { F0 float32 }{F0: float32(3.75)}}, p0.T11(uint(3)): map[int]struct { F0 float32 }{int(1): struct { F0 float32 }{F0: float32(0.0025)}, int(2): struct { F0 float32 }{F0: float32(123457.25)}}}
	var z map[p0.T11]map[int]struct { F0 float32 } = map[p0.T11]map[int]struct { F0 float32 }{p0.T11(uint(1)): map[int]struct { F0 float32 }{int(1): struct { F0 float32 }{F0: float32(-1.5)}, int(2): struct { F0 float32 }{F0: float32(0.0)}, int(3): struct { F0 float32 }{F0: float32(1.0)}}, p0.T11(uint(2)): map[int]struct { F0 float32 }{}, p0.T11(uint(3)): map[int]struct { F0 float32 }{int(1): struct { F0 float32 }{F0: float32(3.75)}}}
	var d map[p0.T11]map[int]struct { F0 float32 } = map[p0.T11]map[int]struct { F0 float32 }{}
	var e map[p0.T11]map[int]struct { F0 float32 } = map[p0.T11]map[int]struct { F0 float32 }{}
	w.Value("x", &x)
	w.Value("d", &d)
	w.Deep("xy", &x, &y)
	w.Deep("xz", &x, &z)
	w.Deep("de", &d, &e)
	w.Try("conv", func() { w.Conv("x", &x, partners) })
	w.Fmt("x", &x)
	w.Fmt("z", &z)
	w.ZeroFmt("t", rt)
	w.TypeCalls("d", &d)
	w.Calls("d", &d)
	_, _, _ = y, z, e
}

func U111() {
	w.Header("111", "struct{int;int;func([]N...)()}")
	rt := reflect.TypeOf((*struct { F0 int; F1 int; F2 func(...T48) })(nil)).Elem()
	w.Try("type", func() { w.Type(rt) })
	partners := []reflect.Type{reflect.TypeOf((*func(*int16, T47) error)(nil)).Elem(), reflect.TypeOf((*T46)(nil)).Elem(), reflect.TypeOf((*T34)(nil)).Elem()}
	w.Try("matrix", func() { w.Matrix(rt, partners) })
	w.Try("same", func() {
		w.Same("ptr", reflect.TypeOf((**struct { F0 int; F1 int; F2 func(...T48) })(nil)).Elem(), reflect.PointerTo(rt))
		w.Same("slice", reflect.TypeOf((*[]struct { F0 int; F1 int; F2 func(...T48) })(nil)).Elem(), reflect.SliceOf(rt))
		w.Same("array", reflect.TypeOf((*[3]struct { F0 int; F1 int; F2 func(...T48) })(nil)).Elem(), reflect.ArrayOf(3, rt))
		w.Same("chan", reflect.TypeOf((*<-chan struct { F0 int; F1 int; F2 func(...T48) })(nil)).Elem(), reflect.ChanOf(reflect.RecvDir, rt))
		w.Same("map", reflect.TypeOf((*map[string]struct { F0 int; F1 int; F2 func(...T48) })(nil)).Elem(), reflect.MapOf(reflect.TypeOf(""), rt))
		w.Same("func", reflect.TypeOf((*func(struct { F0 int; F1 int; F2 func(...T48) }, ...struct { F0 int; F1 int; F2 func(...T48) }) *struct { F0 int; F1 int; F2 func(...T48) })(nil)).Elem(), reflect.FuncOf([]reflect.Type{rt, reflect.SliceOf(rt)}, []reflect.Type{reflect.PointerTo(rt)}, true))
	})
	var x struct { F0 int; F1 int; F2 func(...T48) } = struct { F0 int; F1 int; F2 func(...T48) }{F0: int(-100), F1: int(-30000), F2: (func(...T48))(nil)}
	var y struct { F0 int; F1 int; F2 func(...T48) } = struct { F0 int; F1 int; F2 func(...T48) }{F0: int(-100), F1: int(-29999), F2: (func(...T48))(nil)}
	var z struct { F0 int; F1 int; F2 func(...T48) } = struct { F0 int; F1 int; F2 func(...T48) }{F0: int(2147483646), F1: int(1000), F2: (func(...T48))(nil)}
	var d struct { F0 int; F1 int; F2 func(...T48) } = struct { F0 int; F1 int; F2 func(...T48) }{F0: int(1000), F1: int(-1073741824), F2: (func(...T48))(func(a0 ...T48) {  })}
	var e struct { F0 int; F1 int; F2 func(...T48) } = struct { F0 int; F1 int; F2 func(...T48) }{F0: int(1000), F1: int(-1073741823), F2: (func(...T48))(func(a0 ...T48) {  })}
	w.Value("x", &x)
	w.Value("d", &d)
	w.Deep("xy", &x, &y)
	w.Deep("xz", &x, &z)
	w.Deep("de", &d, &e)
	w.Try("conv", func() { w.Conv("x", &x, partners) })
	w.Fmt("x", &x)
	w.Fmt("z", &z)
	w.ZeroFmt("t", rt)
	w.TypeCalls("d", &d)
	w.Calls("d", &d)
	_, _, _ = y, z, e
}

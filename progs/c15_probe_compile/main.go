// Fixed probe of finding C15-embedded-generic-compile: an unnamed struct that embeds a generic instance with
// methods is converted to an interface (llgo: compiler panic "invalid recv type").
package main

import "fmt"

type List[T any] []T

func (l List[T]) Len() int { return len(l) }

type E struct{ A int }

func (e E) Get() int { return e.A }

func main() {
	var a any = struct{ E }{E{3}}
	fmt.Println(a.(interface{ Get() int }).Get())
	var b any = struct{ List[int] }{List[int]{1, 2}}
	fmt.Println(b.(interface{ Len() int }).Len())
	var c any = struct{ *List[int] }{&List[int]{1, 2, 3}}
	fmt.Println(c.(interface{ Len() int }).Len())
}

module probe15c

go 1.24

module 9probe15

go 1.24

// Fixed probes of check C15: one unit per known finding class.  `probe <unit>` runs one unit (a unit that
// crashes the process must not hide the others); without argument all units run in order.
package main

import (
	"fmt"
	"os"
	"reflect"
	"runtime"
	"sort"
	"strconv"

	"9probe15/q"
	"9probe15/q2"
)

type MT struct{ X int }
type MI interface{ M() }

func p(s string) { os.Stdout.WriteString(s + "\n") }
func b2s(b bool) string {
	if b {
		return "1"
	}
	return "0"
}
func try(tag string, f func()) {
	defer func() {
		if r := recover(); r != nil {
			p("PANIC " + tag + ": " + fmt.Sprint(r))
		}
	}()
	f()
}

func tl(t reflect.Type) string {
	return "kind=" + t.Kind().String() + " name=" + strconv.Quote(t.Name()) + " str=" + strconv.Quote(t.String()) + " pkg=" + strconv.Quote(t.PkgPath())
}

var units = []struct {
	name string
	f    func()
}{
	{"mainpkg", func() {
		p(tl(reflect.TypeOf(MT{})))
		p(tl(reflect.TypeOf(q.Box[MT]{})))
		p(tl(reflect.TypeOf((*MI)(nil)).Elem()))
		t := reflect.TypeOf(struct{ a int }{})
		p("field pkg=" + strconv.Quote(t.Field(0).PkgPath))
		p(fmt.Sprintf("%T %#v", MT{1}, q.Box[MT]{}))
	}},
	{"ifacepkg", func() {
		p(tl(reflect.TypeOf((*q.Stringer2)(nil)).Elem()))
		p(tl(reflect.TypeOf((*fmt.Stringer)(nil)).Elem()))
		p(tl(reflect.TypeOf((*error)(nil)).Elem()))
	}},
	{"structstr", func() {
		v := struct {
			A int `json:"a"`
			B bool
		}{}
		p(tl(reflect.TypeOf(v)))
		p(fmt.Sprintf("%T|%#v", v, v))
		p(strconv.Quote(string(reflect.TypeOf(v).Field(0).Tag)))
	}},
	{"functags", func() {
		for _, t := range []reflect.Type{reflect.TypeOf(q.WithFunc{}), reflect.TypeOf(q.HoldsNF{}), reflect.TypeOf(q.Tagged{}), reflect.TypeOf(q.TP[func()]{}), reflect.TypeOf(q.TP[int]{})} {
			for i := 0; i < t.NumField(); i++ {
				p(t.String() + " " + t.Field(i).Name + " tag=" + strconv.Quote(string(t.Field(i).Tag)))
			}
		}
	}},
	{"tagcollide", func() {
		for _, t := range []reflect.Type{reflect.TypeOf(q.Tagged{}), reflect.TypeOf(q.TaggedVariant{})} {
			p(t.String() + " A tag=" + strconv.Quote(string(t.Field(0).Tag)))
		}
		p("conv=" + b2s(reflect.TypeOf(q.Tagged{}).ConvertibleTo(reflect.TypeOf(q.TaggedVariant{}))) + " asg=" + b2s(reflect.TypeOf(q.Tagged{}).AssignableTo(reflect.TypeOf(q.TaggedVariant{}))))
	}},
	{"ptrptr", func() {
		t := reflect.TypeOf(0)
		p(reflect.PointerTo(t).String())
		p(reflect.PointerTo(reflect.PointerTo(t)).String())
		p(reflect.TypeOf((***int)(nil)).String())
		p(reflect.PointerTo(reflect.TypeOf((*int)(nil))).String())
		p(reflect.FuncOf(nil, []reflect.Type{reflect.PointerTo(reflect.TypeOf((*q.Big)(nil)))}, false).String())
	}},
	{"namedptr", func() {
		t := reflect.TypeOf(q.NamedPtr(nil))
		p(tl(t))
		p(reflect.PointerTo(t).String() + " " + reflect.SliceOf(t).String())
		p(fmt.Sprintf("%T %#v", q.NamedPtr(nil), q.NamedPtr(nil)))
	}},
	{"namedfunc", func() {
		p(tl(reflect.TypeOf(q.NF(nil))))
		p(tl(reflect.TypeOf(q.Fn[int](nil))))
		t := reflect.TypeOf(q.HoldsNF{})
		p(tl(t.Field(1).Type))
		try("numin", func() { p("numin=" + strconv.Itoa(reflect.TypeOf(q.NF(nil)).NumIn())) })
		try("set", func() {
			v := reflect.New(t).Elem()
			v.Field(1).Set(reflect.Zero(t.Field(1).Type))
			p("set ok")
		})
		p(fmt.Sprintf("%T %v", q.NF(nil), q.HoldsNF{}))
	}},
	{"convwrap", func() {
		for _, x := range []any{uint8(200), int16(-300), int64(1 << 40), uint32(70000), 3.9} {
			v := reflect.ValueOf(x)
			s := fmt.Sprintf("%T(%v)", x, x)
			for _, t := range []reflect.Type{reflect.TypeOf(int8(0)), reflect.TypeOf(uint8(0)), reflect.TypeOf(int16(0)), reflect.TypeOf(uint16(0)), reflect.TypeOf(int32(0)), reflect.TypeOf(q.I8(0)), reflect.TypeOf(float32(0))} {
				s += " " + t.String() + "=" + fmt.Sprint(v.Convert(t).Interface())
			}
			p(s)
		}
	}},
	{"mapiter", func() {
		m := map[bool]q.Big{true: {A: 1, S: "t"}, false: {A: 2, S: "f"}}
		var s []string
		it := reflect.ValueOf(m).MapRange()
		for it.Next() {
			s = append(s, fmt.Sprint(it.Key().Bool(), it.Value().Field(0).Int()))
		}
		sort.Strings(s)
		p(fmt.Sprint(s))
		m2 := map[string]int{"a": 1, "b": 2, "c": 3}
		n := 0
		it = reflect.ValueOf(m2).MapRange()
		for it.Next() {
			n += int(it.Value().Int())
		}
		p("sum=" + strconv.Itoa(n))
	}},
	{"mapiter-func", func() {
		m := map[bool]q.WF{true: {Z: 1}, false: {Z: 2}}
		var s []string
		try("big", func() {
			it := reflect.ValueOf(m).MapRange()
			for it.Next() {
				s = append(s, fmt.Sprint(it.Key().Bool(), it.Value().Field(2).Int()))
			}
			sort.Strings(s)
			p("big " + fmt.Sprint(s))
		})
		try("small", func() {
			m2 := map[int]q.SF{1: {Z: 10}, 2: {Z: 20}}
			n := 0
			it := reflect.ValueOf(m2).MapRange()
			for it.Next() {
				n += int(it.Value().Field(1).Int()) * int(it.Key().Int())
			}
			p("small " + strconv.Itoa(n))
			p("index " + fmt.Sprint(reflect.ValueOf(m2).MapIndex(reflect.ValueOf(2)).Field(1).Int()))
		})
		try("funcval", func() {
			m3 := map[string]func() int{"a": func() int { return 5 }, "b": nil}
			v := reflect.ValueOf(m3)
			p("funcval " + b2s(v.MapIndex(reflect.ValueOf("a")).IsNil()) + b2s(v.MapIndex(reflect.ValueOf("b")).IsNil()))
		})
	}},
	{"structfunc", func() {
		x := q.SF{F: func() int { return 3 }, Z: 9}
		v := reflect.ValueOf(x)
		t := v.Type()
		p("field Z=" + fmt.Sprint(v.Field(1).Int()) + " Fnil=" + b2s(v.Field(0).IsNil()) + " call=" + fmt.Sprint(v.Field(0).Call(nil)[0].Int()))
		n := reflect.New(t).Elem()
		n.Set(v)
		p("copied Z=" + fmt.Sprint(n.Field(1).Int()) + " de=" + b2s(reflect.DeepEqual(n.Interface().(q.SF).Z, 9)))
		s := []q.SF{x, x}
		sv := reflect.ValueOf(s)
		p("slice Z1=" + fmt.Sprint(sv.Index(1).Field(1).Int()))
		p(fmt.Sprintf("%v %+v", q.SF{Z: 1}, q.SF{Z: 2}))
	}},
	{"bigelem-map", func() {
		// elements larger than 128 bytes are stored indirectly: every bucket slot is one pointer
		var canaries []*[18]uint64
		mk := func() {
			for i := 0; i < 32; i++ {
				c := new([18]uint64)
				for j := range c {
					c[j] = 0xA5A5A5A5A5A5A5A5
				}
				canaries = append(canaries, c)
			}
		}
		mk()
		var maps []map[int]q.Big152
		for k := 0; k < 8; k++ {
			m := map[int]q.Big152{}
			for i := 0; i < 8; i++ {
				m[i] = q.Big152{A: [18]int64{int64(i), int64(k)}}
			}
			maps = append(maps, m)
			mk()
		}
		bad := 0
		for _, c := range canaries {
			for _, x := range c {
				if x != 0xA5A5A5A5A5A5A5A5 {
					bad++
				}
			}
		}
		p("clobbered canary words: " + strconv.Itoa(bad))
		sum, n := 0, 0
		for _, m := range maps {
			it := reflect.ValueOf(m).MapRange()
			for it.Next() {
				sum += int(it.Key().Int()) + int(it.Value().Field(0).Index(1).Int())
				n++
			}
		}
		p("reflect iteration n=" + strconv.Itoa(n) + " sum=" + strconv.Itoa(sum))
	}},
	{"methorder", func() {
		// the module path starts with a digit: "9probe15/q.hid" sorts before every exported name
		t := reflect.TypeOf(q.Ordered{})
		s := "nummethod=" + strconv.Itoa(t.NumMethod())
		for i := 0; i < t.NumMethod(); i++ {
			s += " " + t.Method(i).Name
		}
		p(s)
		_, ok := t.MethodByName("String")
		p("MethodByName(String)=" + b2s(ok) + " implements=" + b2s(t.Implements(reflect.TypeOf((*q.OrderedI)(nil)).Elem())))
		try("assert", func() {
			var x any = q.Ordered{A: 4}
			p("assert " + strconv.Itoa(x.(q.OrderedI).Get()) + " " + x.(fmt.Stringer).String())
		})
	}},
	{"convf32", func() {
		x := q.F32(1.5)
		v := reflect.ValueOf(&x).Elem()
		p("addressable " + fmt.Sprint(v.Convert(reflect.TypeOf(float32(0))).Float()))
		p("direct " + fmt.Sprint(reflect.ValueOf(x).Convert(reflect.TypeOf(float32(0))).Float()))
		p("to64 " + fmt.Sprint(v.Convert(reflect.TypeOf(float64(0))).Float()))
	}},
	{"emptystr", func() {
		e := ""
		b := []byte(e)
		r := []rune(e)
		p("native nil: " + b2s(b == nil) + b2s(r == nil))
		v := reflect.ValueOf(e).Convert(reflect.TypeOf([]byte(nil)))
		p("reflect nil: " + b2s(v.IsNil()) + " len=" + strconv.Itoa(v.Len()))
	}},
	{"typearg", func() {
		p(tl(reflect.TypeOf(q.Box[q.SArg]{})))
		p(tl(reflect.TypeOf(q.Box[[]struct{ X, Y int8 }]{})))
		p(tl(reflect.TypeOf(q.Box[func(int) string]{})))
		p(tl(reflect.TypeOf(q.Box[interface{ M() }]{})))
		p(tl(reflect.TypeOf(q.Box[map[string]*q.Tagged]{})))
	}},
	{"aliasid", func() {
		p("field type " + q2.Use() + " SliceOf identity " + b2s(q.SliceIdentity()))
	}},
	{"recfunc2", func() {
		r, real := q.RecOffsets()
		p("offsets match " + b2s(r[1] == real[1] && r[2] == real[2]) + " Z read through reflect " + b2s(r[0] == real[0]))
	}},
	{"recfunc", func() {
		x := q.RF{F: func() int { return 1 }, Next: &q.RF{Z: 5}, Z: 7}
		v := reflect.ValueOf(x)
		t := v.Type()
		p("recursive: offsets ordered=" + b2s(t.Field(1).Offset >= t.Field(0).Offset+t.Field(0).Type.Size()) + " Z=" + fmt.Sprint(v.Field(2).Int()) + " NextNil=" + b2s(v.Field(1).IsNil()) + " Next.Z=" + fmt.Sprint(v.Field(1).Elem().Field(2).Int()))
		y := q.NRF{F: func() int { return 1 }, Z: 7}
		w := reflect.ValueOf(y)
		u := w.Type()
		p("plain: offsets ordered=" + b2s(u.Field(1).Offset >= u.Field(0).Offset+u.Field(0).Type.Size()) + " Z=" + fmt.Sprint(w.Field(2).Int()) + " PNil=" + b2s(w.Field(1).IsNil()))
	}},
	{"derived-gc", func() {
		// strings of types constructed at run time must survive garbage collections
		base := reflect.TypeOf(int16(0))
		var ts []reflect.Type
		var want []string
		for i := 0; i < 200; i++ {
			a := reflect.ArrayOf(i, base)
			ts = append(ts, a, reflect.ChanOf(reflect.RecvDir, a), reflect.SliceOf(a), reflect.PointerTo(a), reflect.MapOf(base, a),
				reflect.FuncOf([]reflect.Type{a}, nil, false))
			n := strconv.Itoa(i)
			want = append(want, "["+n+"]int16", "<-chan ["+n+"]int16", "[]["+n+"]int16", "*["+n+"]int16", "map[int16]["+n+"]int16", "func(["+n+"]int16)")
		}
		var junk [][]byte
		for r := 0; r < 20; r++ {
			for i := 0; i < 2000; i++ {
				junk = append(junk, make([]byte, 8+i%64))
			}
			junk = junk[:0]
			runtime.GC()
		}
		bad := map[string]int{}
		for i, t := range ts {
			if t.String() != want[i] {
				bad[[]string{"ArrayOf", "ChanOf", "SliceOf", "PointerTo", "MapOf", "FuncOf"}[i%6]]++
			}
		}
		p("corrupted type strings after GC: " + fmt.Sprint(bad))
		again := reflect.ChanOf(reflect.RecvDir, reflect.ArrayOf(7, base))
		p("cached ChanOf: " + again.String())
	}},
	{"embed-ro", func() {
		for _, x := range []any{q.MkOuterV(), q.MkOuterP()} {
			v := reflect.ValueOf(x).Elem()
			e := v.Field(0)
			if e.Kind() == reflect.Pointer {
				p("outer " + v.Type().String()) // the embedded pointer would print as an address
			} else {
				p("outer " + v.Type().String() + " " + fmt.Sprintf("%v | %+v", x, x))
			}
			p("embedded canset=" + b2s(e.CanSet()) + " canif=" + b2s(e.CanInterface()) + " canaddr=" + b2s(e.CanAddr()))
			if e.Kind() == reflect.Pointer {
				e = e.Elem()
			}
			for i := 0; i < e.NumField(); i++ {
				f := e.Field(i)
				s := "inner." + e.Type().Field(i).Name + " canset=" + b2s(f.CanSet()) + " canif=" + b2s(f.CanInterface()) + " canaddr=" + b2s(f.CanAddr())
				try("interface", func() {
					if f.CanInterface() {
						s += " val=" + fmt.Sprint(f.Interface())
					}
				})
				p(s)
			}
			for _, name := range []string{"Temp", "Err", "N", "Z"} {
				f := v.FieldByName(name)
				p("byname " + name + " canset=" + b2s(f.CanSet()) + " canif=" + b2s(f.CanInterface()))
			}
			try("set", func() {
				v.FieldByName("N").SetInt(41)
				v.FieldByName("Temp").Set(reflect.ValueOf(q.Celsius(1.5)))
				p("after set " + fmt.Sprint(v.FieldByName("N").Interface(), v.FieldByName("Temp").Interface()))
			})
			func() { // the panic text names the calling method under go and cannot under llgo: compare the fact only
				defer func() {
					if recover() != nil {
						p("set of unexported field panicked")
					}
				}()
				e.FieldByName("low").SetInt(1)
				p("set of unexported field succeeded")
			}()
		}
	}},
	{"call-ret-overflow", func() {
		// results larger than 16 bytes must live in their own buffer: they have to survive later allocations
		meth := reflect.ValueOf(q.Ret3{A: 1}).MethodByName("Three")
		bad := 0
		var keep []*[2]uint64
		for i := 0; i < 200; i++ {
			out := meth.Call(nil)
			for j := 0; j < 32; j++ {
				c := new([2]uint64)
				c[0], c[1] = 0xA5A5A5A5A5A5A5A5, 0x5A5A5A5A5A5A5A5A
				keep = append(keep, c)
			}
			if out[0].Int() != 1 || out[1].Len() != 26 || out[2].Int() != 7 {
				bad++
			}
		}
		for _, c := range keep {
			if c[0] != 0xA5A5A5A5A5A5A5A5 || c[1] != 0x5A5A5A5A5A5A5A5A {
				bad++
			}
		}
		p("unstable results or clobbered neighbours: " + strconv.Itoa(bad))
	}},
	{"chanparen", func() {
		p(reflect.TypeOf((chan (<-chan int))(nil)).String())
		p(reflect.TypeOf((chan<- (<-chan int))(nil)).String())
		p(reflect.TypeOf((chan<- chan int)(nil)).String())
		p(reflect.TypeOf((<-chan (<-chan int))(nil)).String())
		p(fmt.Sprintf("%T", (chan (<-chan int))(nil)))
	}},
	{"funcof", func() {
		ft := reflect.TypeOf((func(int) string)(nil))
		a := reflect.TypeOf((func(func(int) string, ...func(int) string) *func(int) string)(nil))
		b := reflect.FuncOf([]reflect.Type{ft, reflect.SliceOf(ft)}, []reflect.Type{reflect.PointerTo(ft)}, true)
		p("func-of-func same=" + b2s(a == b) + " " + a.String() + " | " + b.String())
		it := reflect.TypeOf(0)
		c := reflect.TypeOf((func(int, ...int) *int)(nil))
		d := reflect.FuncOf([]reflect.Type{it, reflect.SliceOf(it)}, []reflect.Type{reflect.PointerTo(it)}, true)
		p("func-of-int same=" + b2s(c == d))
		p("slice same=" + b2s(reflect.SliceOf(ft) == reflect.TypeOf([]func(int) string(nil))))
		p("ptr same=" + b2s(reflect.PointerTo(ft) == reflect.TypeOf((*func(int) string)(nil))))
	}},
	{"funcelem", func() {
		f := func() int { return 7 }
		s := []func() int{f, f, nil, f}
		v := reflect.ValueOf(s)
		o := ""
		for i := 0; i < v.Len(); i++ {
			o += b2s(v.Index(i).IsNil())
		}
		p("slice nil pattern " + o)
		a := [3]func() int{f, f, f}
		av := reflect.ValueOf(a)
		o = ""
		for i := 0; i < av.Len(); i++ {
			o += b2s(av.Index(i).IsNil())
		}
		p("array nil pattern " + o + " elemsize-consistent=" + b2s(av.Type().Size() == 3*av.Type().Elem().Size()))
		c := reflect.MakeSlice(v.Type(), 4, 4)
		reflect.Copy(c, v)
		p("copy then call " + strconv.Itoa(c.Index(1).Interface().(func() int)()))
	}},
	{"ptrfunc", func() {
		f := func() int { return 1 }
		pf := &f
		v := reflect.ValueOf(pf)
		p("addr-roundtrip " + b2s(v.Elem().Addr().Interface() == v.Interface()))
	}},
	{"trailingzero", func() {
		t := reflect.TypeOf(q.Trailing{})
		p("size=" + strconv.Itoa(int(t.Size())) + " arr=" + strconv.Itoa(int(reflect.TypeOf([3]q.Trailing{}).Size())))
		t2 := reflect.TypeOf(struct {
			A q.Trailing
			B int
		}{})
		p("off=" + strconv.Itoa(int(t2.Field(1).Offset)))
	}},
	// ---- reflect.Call argument / result kinds
	{"call-int", func() { call(func(a int8, b uint16, c int64) string { return fmt.Sprint(a, b, c) }) }},
	{"call-float", func() { call(func(a float32, b float64) string { return fmt.Sprint(a, b) }) }},
	{"call-string", func() { call(func(a string, b []int) string { return fmt.Sprint(a, b) }) }},
	{"call-bool", func() { call(func(a bool, b *int) string { return fmt.Sprint(a, b == nil) }) }},
	{"call-map", func() { call(func(m map[string]int) string { return fmt.Sprint(len(m)) }) }},
	{"call-map2", func() { call(func(x int, m map[string]int) string { return fmt.Sprint(x, len(m)) }) }},
	{"call-chan", func() { call(func(c chan int) string { return fmt.Sprint(cap(c), c == nil) }) }},
	{"call-func", func() { call(func(f func(int) bool) string { return fmt.Sprint(f == nil) }) }},
	{"call-func2", func() {
		callWith(func(f func(int) bool) string { return fmt.Sprint(f(1), f(5)) }, reflect.ValueOf(func(x int) bool { return x < 2 }))
	}},
	{"call-c128", func() { call(func(c complex128) string { return fmt.Sprint(c) }) }},
	{"call-c64", func() { call(func(c complex64) string { return fmt.Sprint(c) }) }},
	{"call-retc64", func() { call(func(x int) complex64 { return complex(float32(x), 1) }) }},
	{"call-retc128", func() { call(func(x int) complex128 { return complex(float64(x), 1) }) }},
	{"call-iface", func() { call(func(a any, e error) string { return fmt.Sprint(a, e) }) }},
	{"call-struct", func() { call(func(b q.Big, t q.Tagged) string { return fmt.Sprint(b, t) }) }},
	{"call-smallstruct", func() { call(func(b q.Box[int8], c q.Box[float32]) string { return fmt.Sprint(b, c) }) }},
	{"call-array", func() { call(func(a [3]int, b [2]float64) string { return fmt.Sprint(a, b) }) }},
	{"call-zeroarray", func() { call(func(a [0]int, b int) string { return fmt.Sprint(a, b) }) }},
	{"call-empty", func() { call(func(e q.Empty, b int) string { return fmt.Sprint(e, b) }) }},
	{"call-hasempty", func() { call(func(e q.HasEmpty) string { return fmt.Sprint(e) }) }},
	{"call-retstruct", func() { call(func(x int) q.Big { return q.Big{A: int64(x), S: "s"} }) }},
	{"call-retmulti", func() { call(func(x int) (int, string, float64, bool) { return x, "s", 1.5, true }) }},
	{"call-retmap", func() {
		call(func(x int) (map[string]int, chan int, func()) { return map[string]int{"a": x}, nil, nil })
	}},
	{"call-variadic", func() { call(func(s string, xs ...int8) string { return fmt.Sprint(s, xs) }) }},
	{"call-many", func() {
		call(func(a, b, c, d, e, f, g, h, i, j int, x, y float64) string {
			return fmt.Sprint(a, b, c, d, e, f, g, h, i, j, x, y)
		})
	}},
	// ---- methods on directly-stored (pointer-shaped) types and zero-size receivers
	{"meth-map", func() { meth(q.NM{"a": 1}, "Size") }},
	{"meth-chan", func() { meth(q.NC(make(chan int, 3)), "Cap") }},
	{"meth-func", func() { meth(q.NFn(func() int { return 21 }), "Twice") }},
	{"meth-map-mixed", func() { meth(q.NM2{"a": 1}, "Error") }},
	{"meth-map-mixed2", func() { meth(q.NM3{"a": 1}, "Error") }},
	{"meth-struct-mixed", func() { meth(q.SM{1, 2}, "Error") }},
	{"meth-map-addr", func() { methAddr(q.NM{"a": 1}, "Size") }},
	{"meth-chan-addr", func() { methAddr(q.NC(make(chan int, 3)), "Cap") }},
	{"meth-oneptr-addr", func() { x := 5; methAddr(q.OnePtr{&x}, "Deref") }},
	{"meth-oneptr", func() { x := 5; meth(q.OnePtr{&x}, "Deref") }},
	{"meth-arrptr", func() { x := 6; meth(q.ArrPtr{&x}, "Deref") }},
	{"meth-empty", func() { meth(q.Empty{}, "Name") }},
	{"meth-hasempty", func() { meth(q.HasEmpty{N: 1, M: 2}, "Sum") }},
	{"meth-box", func() { meth(q.Box[int]{V: 9}, "Get") }},
	{"meth-list", func() { meth(q.List[string]{"a", "b"}, "Len") }},
	{"meth-i8", func() { meth(q.I8(-3), "Get") }},
}

func argFor(t reflect.Type, k int) reflect.Value {
	v := reflect.New(t).Elem()
	switch t.Kind() {
	case reflect.Int, reflect.Int8, reflect.Int16, reflect.Int32, reflect.Int64:
		v.SetInt(int64(k + 3))
	case reflect.Uint, reflect.Uint8, reflect.Uint16, reflect.Uint32, reflect.Uint64:
		v.SetUint(uint64(k + 5))
	case reflect.Float32, reflect.Float64:
		v.SetFloat(float64(k) + 0.5)
	case reflect.Complex64, reflect.Complex128:
		v.SetComplex(complex(float64(k)+0.25, -1))
	case reflect.String:
		v.SetString("a" + strconv.Itoa(k))
	case reflect.Bool:
		v.SetBool(true)
	case reflect.Slice:
		s := reflect.MakeSlice(t, 2, 2)
		s.Index(0).Set(argFor(t.Elem(), k+1))
		v.Set(s)
	case reflect.Map:
		m := reflect.MakeMap(t)
		m.SetMapIndex(argFor(t.Key(), k), argFor(t.Elem(), k+1))
		v.Set(m)
	case reflect.Chan:
		v.Set(reflect.MakeChan(t, 4))
	case reflect.Array:
		for i := 0; i < v.Len(); i++ {
			v.Index(i).Set(argFor(t.Elem(), k+i))
		}
	case reflect.Struct:
		for i := 0; i < v.NumField(); i++ {
			if v.Field(i).CanSet() {
				v.Field(i).Set(argFor(t.Field(i).Type, k+i))
			}
		}
	}
	return v
}

func call(f any) {
	fv := reflect.ValueOf(f)
	ft := fv.Type()
	args := make([]reflect.Value, ft.NumIn())
	for i := range args {
		args[i] = argFor(ft.In(i), i)
	}
	callv(fv, args)
}

func callWith(f any, args ...reflect.Value) { callv(reflect.ValueOf(f), args) }

func callv(fv reflect.Value, args []reflect.Value) {
	try("call", func() {
		out := fv.Call(args)
		s := ""
		for _, o := range out {
			switch o.Kind() {
			case reflect.Chan, reflect.Func:
				s += " " + o.Kind().String() + "-nil=" + b2s(o.IsNil())
			default:
				s += " " + fmt.Sprint(o.Interface())
			}
		}
		p("->" + s)
	})
}

func meth(x any, name string) {
	v := reflect.ValueOf(x)
	try("direct", func() {
		switch y := x.(type) {
		case interface{ Size() int }:
			p("direct " + strconv.Itoa(y.Size()))
		case interface{ Cap() int }:
			p("direct " + strconv.Itoa(y.Cap()))
		case interface{ Twice() int }:
			p("direct " + strconv.Itoa(y.Twice()))
		case interface{ Deref() int }:
			p("direct " + strconv.Itoa(y.Deref()))
		case interface{ Name() string }:
			p("direct " + y.Name())
		case interface{ Sum() int }:
			p("direct " + strconv.Itoa(y.Sum()))
		case interface{ Len() int }:
			p("direct " + strconv.Itoa(y.Len()))
		case interface{ Get() int }:
			p("direct " + strconv.Itoa(y.Get()))
		case error:
			p("direct " + y.Error())
		}
	})
	try("value.MethodByName", func() {
		m := v.MethodByName(name + "")
		p("value.MethodByName -> " + fmt.Sprint(m.Call(nil)[0].Interface()))
	})
	try("type.Method.Func", func() {
		m, _ := v.Type().MethodByName(name)
		p("type.Method.Func -> " + fmt.Sprint(m.Func.Call([]reflect.Value{v})[0].Interface()))
	})
	try("ptr.MethodByName", func() {
		pv := reflect.New(v.Type())
		pv.Elem().Set(v)
		p("ptr.MethodByName -> " + fmt.Sprint(pv.MethodByName(name + "").Call(nil)[0].Interface()))
	})
}

// methAddr calls a value-receiver method through an addressable Value.
func methAddr(x any, name string) {
	v := reflect.ValueOf(x)
	pv := reflect.New(v.Type())
	pv.Elem().Set(v)
	try("addressable.MethodByName", func() {
		p("addressable.MethodByName -> " + fmt.Sprint(pv.Elem().MethodByName(name + "").Call(nil)[0].Interface()))
	})
	try("addressable.Method(0)", func() {
		p("addressable.Method(0) -> " + fmt.Sprint(pv.Elem().Method(0).Call(nil)[0].Interface()))
	})
}

func main() {
	for _, u := range units {
		if len(os.Args) > 1 && os.Args[1] != u.name {
			continue
		}
		p("U " + u.name)
		try("unit", u.f)
	}
	p("END")
}

// Package q2 is compiled after q and reaches []q.T9x only through an alias (finding C15-alias-typelist).
package q2

import (
	"reflect"

	"9probe15/q"
)

type ASl = []q.T9x

type HoldsAlias struct{ ASl }

func Use() string {
	x := HoldsAlias{ASl: ASl{}}
	return reflect.TypeOf(&x).Elem().Field(0).Type.String()
}

// Package q declares the (non-main) types used by the fixed C15 probes.
package q

import (
	"reflect"
	"strconv"
	"unsafe"
)

type Stringer2 interface{ String() string }

type Tagged struct {
	A int `json:"a"`
	B string
}

type TaggedVariant struct {
	A int `json:"other" k:"v"`
	B string
}

type WithFunc struct {
	A int        `k:"a"`
	F func() int `k:"f"`
}

type NF func(int) int
type HoldsNF struct {
	A int `k:"a"`
	N NF
}

type NamedPtr *int
type Fn[T any] func(T) T
type Box[T any] struct{ V T }

func (b Box[T]) Get() T { return b.V }

type List[T any] []T

func (l List[T]) Len() int { return len(l) }

type NM map[string]int

func (m NM) Size() int { return len(m) + 100 }

type NC chan int

func (c NC) Cap() int { return cap(c) + 200 }

type NFn func() int

func (f NFn) Twice() int { return f() * 2 }

type OnePtr struct{ P *int }

func (o OnePtr) Deref() int { return *o.P + 300 }

type ArrPtr [1]*int

func (a ArrPtr) Deref() int { return *a[0] + 400 }

type Empty struct{}

func (Empty) Name() string { return "empty" }

type HasEmpty struct {
	N int
	E Empty
	M int
}

func (h HasEmpty) Sum() int { return h.N + h.M }

type Trailing struct {
	C chan int
	E Empty
}

type Big struct {
	A, B, C, D int64
	S          string
}

type NM2 map[string]int

func (m *NM2) Add(a int) int { return a + 1 }
func (m NM2) Error() string  { return "nm2:" + strconv.Itoa(len(m)) }
func (m NM2) hid() int       { return 1 }

type NM3 map[string]int

func (m *NM3) Add(a int) int { return a + 1 }
func (m NM3) Error() string  { return "nm3:" + strconv.Itoa(len(m)) }

type SM struct{ A, B int }

func (m *SM) Add(a int) int { return a + 1 }
func (m SM) Error() string  { return "sm:" + strconv.Itoa(m.A+m.B) }
func (m SM) hid() int       { return 1 }

type WF struct {
	A [20]int64
	F func() int
	Z int
}

type SF struct {
	F func() int
	Z int
}

type Big152 struct {
	A [18]int64
	P *int
}

type Ordered struct{ A int }

func (o Ordered) Get() int       { return o.A }
func (o Ordered) String() string { return "ordered" }
func (o Ordered) hid() int       { return 1 }
func (o Ordered) aaa() int       { return 2 }

type OrderedI interface {
	Get() int
	hid() int
}

type F32 float32

type TP[V any] struct {
	K string `k:"key"`
	V V
}

type SArg = struct {
	A int
	b Tagged
}

type T9x Box[Stringer2]

// SliceIdentity: is reflect.SliceOf(T9x) the type the compiler emitted for []T9x?
func SliceIdentity() bool {
	return reflect.TypeOf((*[]T9x)(nil)).Elem() == reflect.SliceOf(reflect.TypeOf((*T9x)(nil)).Elem())
}

type M1 struct {
	F0 func(uint64) int16
	F1 *M1
	Z  int
}

// RecOffsets: reflect's offsets of a self-referential struct with a func field, reached through its pointer type.
func RecOffsets() (reflected, real [3]uintptr) {
	var m M1
	t := reflect.ValueOf(&m).Elem().Type()
	for i := 0; i < 3; i++ {
		reflected[i] = t.Field(i).Offset
	}
	real = [3]uintptr{unsafe.Offsetof(m.F0), unsafe.Offsetof(m.F1), unsafe.Offsetof(m.Z)}
	m.Z = 77
	m.F1 = &M1{Z: 5}
	v := reflect.ValueOf(&m).Elem()
	reflected[0] = uintptr(v.Field(2).Int())
	real[0] = 77
	return
}

type RF struct {
	F    func() int
	Next *RF
	Z    int
}

type NRF struct {
	F func() int
	P *int
	Z int
}

type Ret3 struct{ A int }

func (r Ret3) Three() (int, string, int) { return r.A, "abcdefghijklmnopqrstuvwxyz", 7 }

type Getter interface{ Get() int }
type I8 int8

func (i I8) Get() int { return int(i) }

func Itoa(i int) string { return strconv.Itoa(i) }

// ---- unexported embedded struct types with exported fields (flagEmbedRO must not stick to their exported fields)

type Celsius float64

func (c Celsius) String() string { return strconv.Itoa(int(c*10)) + "dC" }

type inner struct {
	Temp Celsius
	Err  error
	N    int
	low  int
}

type OuterV struct {
	inner
	Z int
}

type OuterP struct {
	*inner
	Z int
}

type myErr struct{ S string }

func (e myErr) Error() string { return "err:" + e.S }

func MkOuterV() *OuterV { return &OuterV{inner{21.5, myErr{"v"}, 3, 4}, 9} }
func MkOuterP() *OuterP { return &OuterP{&inner{-4, myErr{"p"}, 5, 6}, 8} }

module c03probes

go 1.24

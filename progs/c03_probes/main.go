// Fixed probe units of the C03 findings (checks/c03.py runs this program first on every run, under llgo
// and under the reference toolchain, and compares section by section).  Every probe unit runs in a fresh
// goroutine; the probe that can kill the process (two recovered nil dereferences in one goroutine) is last.
//
// Output (stderr): "PROBE <finding id>" then lines "B <n>", "T <n>", "A <n>", "P <panic message or ->",
// "RE <kind> <bool>" (does the recovered value implement runtime.Error).
package main

import "runtime"

type S struct{ a, b int }

type SP4M struct {
	pad [4 << 20]byte
	x   int
}

//go:noinline
func nz(x int) int { return x }

func tv(k int, v int) int { println("T", k); return v }

func spin() {
	for i := 0; i < 50; i++ {
		runtime.Gosched()
	}
}

func rp(r interface{}) {
	if r == nil {
		println("P -")
		return
	}
	switch v := r.(type) {
	case error:
		println("P", v.Error())
	case string:
		println("P", v)
	default:
		println("P ?")
	}
}

// unit1 runs f with the standard before/after/recover frame in the calling goroutine
func unit1(n int, f func() int) {
	defer func() { rp(recover()) }()
	println("B", n)
	r := f()
	println("A", r)
}

// unit runs f in a goroutine of its own (so that one unit's fault cannot influence the next)
func unit(n int, f func() int) {
	done := make(chan int, 1)
	go func() {
		defer func() { done <- 1 }()
		unit1(n, f)
	}()
	<-done
}

// re reports whether the panic raised by f (in a goroutine of its own) carries a runtime.Error
func re(kind string, f func()) {
	done := make(chan int, 1)
	go func() {
		defer func() { done <- 1 }()
		defer func() {
			r := recover()
			_, ok := r.(runtime.Error)
			println("RE", kind, ok, r != nil)
		}()
		f()
	}()
	<-done
}

func probe(id string, f func()) {
	done := make(chan int, 1)
	go func() {
		defer func() { done <- 1 }()
		println("PROBE", id)
		f()
	}()
	<-done
}

var sink int

func main() {
	probe("C03-panic-value-string", func() {
		re("index", func() { x := make([]int, nz(3)); sink += x[nz(5)] })
		re("divide", func() { sink += nz(7) / nz(0) })
		re("shift", func() { sink += nz(1) << nz(-1) })
		re("nilcheck", func() {
			var p *[1 << 21]byte
			if nz(1) == 2 {
				p = new([1 << 21]byte)
			}
			_ = *p
		})
		re("stringslice", func() { s := "abc"; lo, hi := nz(2), nz(5); sink += len(s[lo:hi]) })
		re("slice", func() { x := make([]int, nz(3)); lo, hi := nz(2), nz(5); sink += len(x[lo:hi]) })
		re("makeslice", func() { x := make([]int, nz(-1)); sink += len(x) })
		re("nilmap", func() { var m map[int]int; m[nz(1)] = 2 })
	})
	probe("C03-typeassert-value-string", func() {
		re("typeassert", func() { var e interface{} = nz(1); sink += len(e.(string)) })
		re("typeassert-nil", func() { var e interface{}; sink += e.(int) })
		re("typeassert-iface", func() { var e interface{} = nz(1); sink += len(e.(error).Error()) })
	})
	probe("C03-chan-misuse", func() {
		unit(1, func() int { c := make(chan int, 1); close(c); c <- tv(1, 5); return len(c) })
		unit(2, func() int { c := make(chan int); close(c); c <- 5; return 1 })
		unit(3, func() int { c := make(chan int, 1); close(c); close(c); return 1 })
		unit(4, func() int { var c chan int; close(c); return 1 })
		unit(5, func() int {
			c := make(chan int, 1)
			close(c)
			select {
			case c <- 1:
				return 1
			default:
				return 2
			}
		})
		unit(6, func() int {
			c := make(chan int, 1)
			c <- 1
			go func() { spin(); close(c) }()
			c <- tv(1, 2)
			return 1
		})
		unit(7, func() int { n := nz(-1); c := make(chan int, n); return cap(c) + 1 })
		unit(8, func() int { n := nz(1 << 62); c := make(chan int, n); return cap(c)%1000 + 1 })
	})
	probe("C03-makechan-narrow-size", func() {
		unit(1, func() int { n := int8(nz(-1)); c := make(chan int, n); return cap(c) + 1 })
		unit(2, func() int { n := int8(nz(5)); c := make(chan int, n); return cap(c) + 1 })
		unit(3, func() int { n := uint8(nz(200)); c := make(chan int, n); return cap(c) + 1 })
	})
	probe("C03-nil-large-offset", func() {
		unit(1, func() int {
			var p *SP4M
			if nz(1) == 2 {
				p = new(SP4M)
			}
			return p.x*0 + 1
		})
		unit(2, func() int {
			var p *[1 << 20]int
			if nz(1) == 2 {
				p = new([1 << 20]int)
			}
			return p[nz(0x80000)]*0 + 1
		})
		unit(3, func() int {
			var p *SP4M
			if nz(1) == 2 {
				p = new(SP4M)
			}
			p.x = 3
			return 1
		})
	})
	probe("C03-nil-array-slice", func() {
		unit(1, func() int {
			var p *[4]int
			if nz(1) == 2 {
				p = new([4]int)
			}
			y := p[:]
			return len(y)
		})
		unit(2, func() int {
			var p *[4]int
			if nz(1) == 2 {
				p = new([4]int)
			}
			y := p[nz(1):nz(3)]
			return len(y)
		})
	})
	probe("C03-sigsegv-twice", func() {
		for i := 0; i < 3; i++ {
			unit1(i, func() int { var p *S; return p.b })
		}
	})
	println("END")
}

// C13 reproducibility probe: a program whose main module carries the run-time type list
// (emitted only when reflect.ArrayOf / ChanOf / FuncOf / ... are reachable).  -gen-llfiles cannot
// be used for programs that import reflect (LLVM 14 IR text), so two builds' executables are compared.
package main

import "reflect"

type T1 struct{ A int }
type T2 struct{ B string }
type T3 struct {
	C float64
	D []byte
}

var sink []any

func main() {
	sink = append(sink, [1]int{}, [2]int{}, [3]int8{}, [4]string{}, [5]T1{}, [6]T2{}, [7]T3{}, [8]uint16{}, [9]*T1{}, [10][]int{})
	sink = append(sink, make(chan int), make(chan string), make(chan T1), make(chan *T2), make(chan [2]int), make(<-chan T3), make(chan<- bool))
	sink = append(sink, map[string]int{}, map[int]T1{}, map[T2]bool{}, []T3{}, []*T3{}, func(int) string { return "" }, func(T1, T2) {})
	a := reflect.ArrayOf(3, reflect.TypeOf(T1{}))
	c := reflect.ChanOf(reflect.BothDir, reflect.TypeOf(T2{}))
	s := reflect.SliceOf(reflect.TypeOf(T3{}))
	m := reflect.MapOf(reflect.TypeOf(""), reflect.TypeOf(T1{}))
	p := reflect.PointerTo(reflect.TypeOf(T2{}))
	println(a.String(), c.String(), s.String(), m.String(), p.String(), len(sink))
	println(reflect.TypeOf([5]T1{}) == reflect.ArrayOf(5, reflect.TypeOf(T1{})), reflect.TypeOf(make(chan int)) == reflect.ChanOf(reflect.BothDir, reflect.TypeOf(0)))
}

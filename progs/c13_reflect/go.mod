module c13reflect

go 1.24

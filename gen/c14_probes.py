"""C14 fixed probes (run first on every run).  One go-buildable program; id ranges identify the finding a mismatch belongs to.

  100-199  C14-wrapper-receiver-pkg   method-value wrappers (`$bound`) and interface thunks (`$bound`/`$thunk`) created in ONE package for
                                      receiver types with the same NAME that belong to different packages (incl. generic G from two packages)
  200-299  C14-wrapper-local-scope    promoted-method wrappers of two function-local types with the same name (different scopes)
  900-999  controls (must always pass: direct calls, method values on differently named types, local types without methods)
"""

RANGES = [(100, 199, "C14-wrapper-receiver-pkg"), (200, 299, "C14-wrapper-local-scope"), (900, 999, None)]

MOD = "vmprobe"

T_SRC = """package t

var nw, nh int

//go:noinline
func Want(id int) { nw++; println("W", id) }

//go:noinline
func Hit(id int) { nh++; println("H", id) }

func Done()       {}
func Ok(b bool)   { println("OK", b) }
func Eq(a, b int) { println("EQ", a, b) }
func End()        { println("END", nw, nh) }
"""

PA = """package pa

import "vmprobe/t"

type T struct{ X int }

func (T) M()  { t.Hit(101) }
func (*T) P() { t.Hit(103) }
func (T) A()  { t.Hit(901) }

type I interface{ M() }

type Q struct{ X int }

func (Q) M() { t.Hit(902) }

// descriptors of *T and of interface{ M() } are emitted by this package too (IR probes, see main)
var K1 any = &T{}
var K2 interface{ M() } = Q{}
"""

PB = """package pb

import "vmprobe/t"

type T struct{ X int }

func (T) M()  { t.Hit(102) }
func (*T) P() { t.Hit(104) }
func (T) A()  { t.Hit(105) }

// same name as pa.I, M has another index in the method table
type I interface {
	A()
	M()
}
"""

G = """package g

import "vmprobe/t"

type G[X any] struct{ v X }

func (G[X]) M() { t.Hit(%d) }
"""

MAIN = """package main

import (
	"vmprobe/g"
	"vmprobe/pa"
	"vmprobe/pb"
	sg "vmprobe/sub/g"
	"vmprobe/t"
)

// IR probes (no output): C14-alias-ptrtothis: the descriptor of *pa.T reached through an alias differs from the copy in pa;
// C14-iface-pkgpath: the descriptor of interface{ M() } carries the path of the emitting package
type AP = *pa.T

var k1 any = (*AP)(nil) // **pa.T whose element descriptor *pa.T is built from the alias
var k2 interface{ M() } = pa.Q{}

func main() {
	_, _ = k1, k2
	a, b := pa.T{}, pb.T{}
	// controls
	t.Want(901)
	a.A()
	q := pa.Q{}
	fq := q.M
	t.Want(902)
	fq()
	// method values of same-named types of two packages, bound in one package
	f1, f2 := a.M, b.M
	t.Want(101)
	f1()
	t.Want(102)
	f2()
	p1, p2 := a.P, b.P
	t.Want(103)
	p1()
	t.Want(104)
	p2()
	// method expressions of the same types ($thunk wrappers)
	x1, x2 := (*pa.T).P, (*pb.T).P
	t.Want(103)
	x1(&a)
	t.Want(104)
	x2(&b)
	// same-named generic types of two packages with the same type argument
	var ga g.G[int]
	var gb sg.G[int]
	m1, m2 := ga.M, gb.M
	t.Want(111)
	m1()
	t.Want(112)
	m2()
	// interface method values / method expressions of same-named interfaces with different method tables
	var ia pa.I = a
	var ib pb.I = b
	i1, i2 := ia.M, ib.M
	t.Want(101)
	i1()
	t.Want(102)
	i2()
	e1, e2 := pa.I.M, pb.I.M
	t.Want(101)
	e1(a)
	t.Want(102)
	e2(b)
	// two local types with the same name, each embedding a type with methods
	func() {
		type L struct{ pa.T }
		var i interface{ M() } = L{}
		t.Want(201)
		i.M()
		t.Want(201)
		L{}.M()
	}()
	func() {
		type L struct{ pb.T }
		var i interface{ M() } = L{}
		t.Want(202)
		i.M()
		var j interface{ P() } = &L{}
		t.Want(204)
		j.P()
		t.Want(202)
		L{}.M()
	}()
	t.End()
}
"""


def files():
    return {"go.mod": "module %s\n\ngo 1.24\n" % MOD, "t/t.go": T_SRC, "pa/pa.go": PA, "pb/pb.go": PB,
            "g/g.go": G % 111, "sub/g/g.go": G % 112, "main.go": MAIN}


# ids 201 / 202 / 204 stand for pa.T.M / pb.T.M / pb.(*T).P reached through a local type L (wrapper of the first / second L)
ALIAS = {201: 101, 202: 102, 204: 104}


def classify(want):
    for lo, hi, fid in RANGES:
        if lo <= want <= hi:
            return fid
    return None


# ---------------------------------------------------------------------------------------------------------------
# second probe: a package whose import path ends in ".x" next to a type x of the parent path (needs its own program: the
# collision is between two strong symbols)
DOT_MOD = "vmdot"
DOT_FILES = {
    "go.mod": "module vmdot\n\ngo 1.24\n",
    "pa/pa.go": "package pa\n\ntype x struct{ n int }\n\nfunc (x) F() { println(\"H 301\") }\n\nfunc Run() { var v x; println(\"W 301\"); v.F() }\n",
    "pa.x/x.go": "package x\n\nfunc F() { println(\"H 302\") }\n",
    "main.go": "package main\n\nimport (\n\t\"vmdot/pa\"\n\tx \"vmdot/pa.x\"\n)\n\nfunc main() {\n\tpa.Run()\n\tprintln(\"W 302\")\n\tx.F()\n\tprintln(\"END 2 2\")\n}\n",
}

"""C08 leg (b): C-compatible struct shapes.

One seeded shape list feeds BOTH sides:
  * shapes_json(): consumed by inpkg/c08_sizes_test.go (VERIF_C08_SHAPES), which builds the go/types
    struct and reports the amd64 numbers of the three llgo computations;
  * c_source(): a C translation unit printing sizeof/_Alignof/offsetof of the corresponding C struct,
    compiled by the host gcc.
Pure function of the seed (random.Random, no sets / hash()).
"""
import json
import random

# Go basic kind -> C type on x86-64 SysV (LP64)
CSCALAR = {
    "bool": "_Bool", "int8": "int8_t", "uint8": "uint8_t", "int16": "int16_t", "uint16": "uint16_t",
    "int32": "int32_t", "uint32": "uint32_t", "int64": "int64_t", "uint64": "uint64_t",
    "int": "long", "uint": "unsigned long", "uintptr": "uintptr_t",
    "float32": "float", "float64": "double", "complex64": "float _Complex", "complex128": "double _Complex",
    "ptr": "void *", "ptrint": "int32_t *",
}
SCALARS = list(CSCALAR.keys())


def _scalar(rng):
    return {"k": rng.choice(SCALARS)}


def _typ(rng, d):
    r = rng.randrange(100)
    if d <= 0 or r < 55:
        return _scalar(rng)
    if r < 75:
        lens = [1, 1, 2, 3, 4, 7]
        if rng.randrange(12) == 0:
            lens = [0]           # GNU C zero-length array
        return {"k": "arr", "n": rng.choice(lens), "e": _typ(rng, d - 1)}
    return _struct(rng, d - 1)


def _struct(rng, d):
    n = rng.randrange(1, 7)
    if rng.randrange(25) == 0:
        n = 0                     # GNU C empty struct, size 0
    return {"k": "struct", "f": [_typ(rng, d) for _ in range(n)]}


def gen_shapes(seed, n):
    rng = random.Random(seed * 104729 + 8)
    shapes = []
    seen = {}

    def add(t):
        key = json.dumps(t, sort_keys=True)
        if key in seen or not t["f"]:
            return
        seen[key] = True
        shapes.append({"id": "s%d" % len(shapes), "t": t})

    def subs(t):
        if t["k"] == "struct":
            for f in t["f"]:
                subs(f)
            add(t)
        elif t["k"] == "arr":
            subs(t["e"])

    # fixed shapes first (same for every seed)
    fixed = [
        {"k": "struct", "f": [{"k": "int8"}, {"k": "int64"}]},
        {"k": "struct", "f": [{"k": "int64"}, {"k": "arr", "n": 5, "e": {"k": "int64"}}, {"k": "arr", "n": 0, "e": {"k": "int32"}}]},
        {"k": "struct", "f": [{"k": "int8"}, {"k": "complex128"}, {"k": "int8"}]},
        {"k": "struct", "f": [{"k": "bool"}, {"k": "struct", "f": [{"k": "int16"}, {"k": "int8"}]}, {"k": "int8"}]},
        {"k": "struct", "f": [{"k": "ptr"}, {"k": "arr", "n": 3, "e": {"k": "struct", "f": [{"k": "int8"}, {"k": "float64"}]}}, {"k": "uint16"}]},
    ]
    for t in fixed:
        subs(t)
    guard = 0
    while len(shapes) < n and guard < n * 20:
        guard += 1
        subs(_struct(rng, rng.randrange(1, 4)))
    return shapes[:max(n, len(fixed))]


def shapes_json(shapes):
    return json.dumps(shapes)


def _decl(t, name):
    """C declarator of a member/typedef `name` of shape type t"""
    dims = ""
    while t["k"] == "arr":
        dims += "[%d]" % t["n"]
        t = t["e"]
    if t["k"] == "struct":
        body = " ".join(_decl(f, "f%d" % i) + ";" for i, f in enumerate(t["f"]))
        return "struct { %s } %s%s" % (body, name, dims)
    c = CSCALAR[t["k"]]
    sep = "" if c.endswith("*") else " "
    return "%s%s%s%s" % (c, sep, name, dims)


def c_source(shapes):
    out = ["#include <stdio.h>", "#include <stddef.h>", "#include <stdint.h>", ""]
    for s in shapes:
        out.append("typedef %s;" % _decl(s["t"], "T_" + s["id"]))
    out.append("int main(void) {")
    for s in shapes:
        n = len(s["t"]["f"])
        fmt = '{\\"id\\":\\"%s\\",\\"size\\":%%zu,\\"align\\":%%zu,\\"offs\\":[%s]}\\n' % (s["id"], ",".join(["%zu"] * n))
        args = ["sizeof(T_%s)" % s["id"], "_Alignof(T_%s)" % s["id"]] + ["offsetof(T_%s, f%d)" % (s["id"], i) for i in range(n)]
        out.append('  printf("%s", %s);' % (fmt, ", ".join(args)))
    out.append("  return 0;")
    out.append("}")
    return "\n".join(out) + "\n"


def has_zero_size(t):
    """a zero-size member (GNU extension) takes part in the shape"""
    if t["k"] == "arr":
        return t["n"] == 0 or has_zero_size(t["e"])
    if t["k"] == "struct":
        return not t["f"] or any(has_zero_size(f) for f in t["f"])
    return False

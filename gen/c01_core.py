"""C01 generator core: typed random core-language Go programs (one module, 1-4 packages).

A program is a list of independent *units*.  Every unit is produced by one feature skeleton
(gen/c01_units.py) with typed random fillers (class Fill below) and logs through the trace package
(`Tr(unit, tag, ints...)`, `Ts(unit, tag, strings...)`), which is built on print/println of ints and
strings only.  Each unit has a `lib` part (types, methods, generic functions) and a `body` part (the
`U<n>Run` function and its helpers); the two parts may be placed in different packages (package-split
dimension; generic instantiation / method calls / embedding then cross a package boundary).

Pure function of (seed, program index): every unit draws from its own PRNG keyed by
sha256(seed/index/unit); no hash(), no set/dict-order dependence, no time.  `only=[uid,...]`
regenerates the same program reduced to the given units (same text for those units).

Rules that keep programs determined by the Go spec (DESIGN 3.3 / C01 hazards):
  * expressions produced by Fill are call-free apart from calls to pure total helpers;
  * calls that can write state (closures mutating captured variables, pointer-receiver methods,
    functions with pointer/slice/map parameters they write) appear only as `t := f(args)` (or
    `f(args)`) statements whose arguments are call-free;
  * no goroutines, no map iteration order (keys are collected and sorted), no addresses printed,
    no unsafe, no cgo; integer division/modulo divisors are forced non-zero, indices are reduced
    into range, shift counts masked - except in the `pan` units where one fault is intended and the
    unit ends with the recovered panic's class;
  * floats are never passed to print/println (finding C01-println-float; fixed probe only): they are
    logged through math.Float64bits.
"""
import hashlib
import random

INTS = ["int", "int8", "int16", "int32", "int64", "uint", "uint8", "uint16", "uint32", "uint64"]
BITS = {"int": 64, "int8": 8, "int16": 16, "int32": 32, "int64": 64,
        "uint": 64, "uint8": 8, "uint16": 16, "uint32": 32, "uint64": 64,
        # "T": an integer type parameter inside a generic filler body (gen form 11); conservative width, never picked as a kind
        "T": 8}


def signed(t):
    return t.startswith("int")


def tmin(t):
    return -(1 << (BITS[t] - 1)) if signed(t) else 0


def tmax(t):
    return (1 << (BITS[t] - 1)) - 1 if signed(t) else (1 << BITS[t]) - 1


def sub_rng(*parts):
    h = hashlib.sha256("/".join(str(p) for p in parts).encode()).digest()
    return random.Random(int.from_bytes(h[:8], "big"))


STR_POOL = ['""', '"a"', '"ab"', '"go"', '"h\\u00e9llo"', '"\\u4e16\\u754c"', '"x\\xffy"', '"\\xe4\\xb8"', '"z\\U0001F600w"',
            '"abc"', '"k1"', '"\\x00q"', '"tab\\tnl"', '"ABBA"', '"\\u00ff\\u0100"']

# ------------------------------------------------------------------------------------------------
# trace package (PKGNAME replaced).  Only ints, strings and bools reach print/println.

TRACE_SRC = '''package PKGNAME

import "math"

// Lim bounds the number of printed lines per unit; every value is still folded into the unit hash.
const Lim = 600

var cur = -1
var cnt int
var acc uint64

func mix(v uint64) {
	acc = (acc ^ v) * 1099511628211
	acc ^= acc >> 29
}

func Begin(u int) {
	cur = u
	cnt = 0
	acc = 14695981039346656037
	println("B", u)
}

func End(u int) {
	println("E", u, cnt, acc)
}

func Tr(u int, tag string, vs ...int) {
	cnt++
	mix(uint64(u))
	for i := 0; i < len(tag); i++ {
		mix(uint64(tag[i]))
	}
	for _, v := range vs {
		mix(uint64(v))
	}
	if cnt > Lim {
		return
	}
	print("T ", u, " ", tag)
	for _, v := range vs {
		print(" ", v)
	}
	println()
}

const hexd = "0123456789abcdef"

// Qs renders a string with every byte outside [0x21,0x7e] (and backslash) escaped, so a trace line stays one line.
func Qs(s string) string {
	out := make([]byte, 0, len(s)+2)
	for i := 0; i < len(s); i++ {
		c := s[i]
		if c > 0x20 && c < 0x7f && c != '\\\\' {
			out = append(out, c)
		} else {
			out = append(out, '\\\\', hexd[c>>4], hexd[c&15])
		}
	}
	return string(out)
}

func Ts(u int, tag string, ss ...string) {
	cnt++
	mix(uint64(u))
	for i := 0; i < len(tag); i++ {
		mix(uint64(tag[i]))
	}
	for _, s := range ss {
		mix(uint64(len(s)))
		for i := 0; i < len(s); i++ {
			mix(uint64(s[i]))
		}
	}
	if cnt > Lim {
		return
	}
	print("S ", u, " ", tag)
	for _, s := range ss {
		print(" ", len(s), ":", Qs(s))
	}
	println()
}

// Bi: bool as int.
func Bi(b bool) int {
	if b {
		return 1
	}
	return 0
}

// Nk: opaque identity (keeps generated literals non-constant).
//
//go:noinline
func Nk(x int) int { return x }

// Fb: float64 through its bits (never print floats directly).
func Fb(f float64) int { return int(math.Float64bits(f)) }

// At: total slice read.
func At(s []int, i int) int {
	if len(s) == 0 {
		return -1
	}
	if i < 0 {
		i = -(i + 1)
	}
	return s[i%len(s)]
}

// Ix: i reduced into [0,n) (n > 0), total.
func Ix(i, n int) int {
	if n <= 0 {
		return 0
	}
	if i < 0 {
		i = -(i + 1)
	}
	return i % n
}

// Sub: total substring.
func Sub(s string, i, j int) string {
	n := len(s)
	i = Ix(i, n+1)
	j = Ix(j, n+1)
	if i > j {
		i, j = j, i
	}
	return s[i:j]
}

// Cap: s cut to at most n bytes (may cut inside a rune).
func Cap(s string, n int) string {
	if len(s) > n {
		return s[:n]
	}
	return s
}

// Its: decimal rendering of n.
func Its(n int) string {
	if n == 0 {
		return "0"
	}
	neg := n < 0
	u := uint64(n)
	if neg {
		u = -u
	}
	var b [24]byte
	k := len(b)
	for u > 0 {
		k--
		b[k] = byte('0' + u%10)
		u /= 10
	}
	if neg {
		k--
		b[k] = '-'
	}
	return string(b[k:])
}

func has(s, sub string) bool {
	for i := 0; i+len(sub) <= len(s); i++ {
		if s[i:i+len(sub)] == sub {
			return true
		}
	}
	return false
}

// Cls maps a recovered panic value to a class; run-time panics are classified by message (llgo raises
// some of them as plain strings, go as runtime.Error: both map to the same class here).
func Cls(r any) string {
	var msg string
	switch v := r.(type) {
	case nil:
		return "none"
	case error:
		msg = v.Error()
	case string:
		msg = v
	case int:
		return "int:" + Its(v)
	default:
		return "other"
	}
	switch {
	case has(msg, "index out of range"):
		return "rt-index"
	case has(msg, "slice bounds out of range"):
		return "rt-slicebounds"
	case has(msg, "divide by zero"):
		return "rt-divide"
	case has(msg, "nil pointer dereference") || has(msg, "invalid memory address"):
		return "rt-nilderef"
	case has(msg, "interface conversion") || has(msg, "type assertion"):
		return "rt-typeassert"
	case has(msg, "cannot convert slice"):
		return "rt-slice2array"
	case has(msg, "nil map"):
		return "rt-nilmap"
	case has(msg, "negative shift"):
		return "rt-negshift"
	}
	return "msg:" + msg
}

// SortInts: insertion sort (map keys are collected and sorted before anything is printed).
func SortInts(a []int) {
	for i := 1; i < len(a); i++ {
		for j := i; j > 0 && a[j-1] > a[j]; j-- {
			a[j-1], a[j] = a[j], a[j-1]
		}
	}
}

func SortStrs(a []string) {
	for i := 1; i < len(a); i++ {
		for j := i; j > 0 && a[j-1] > a[j]; j-- {
			a[j-1], a[j] = a[j], a[j-1]
		}
	}
}
'''


class W:
    """indented line writer"""

    def __init__(self, ind=0):
        self.lines = []
        self.ind = ind

    def __call__(self, s=""):
        self.lines.append(("\t" * self.ind + s) if s else "")

    def open(self, s):
        self(s)
        self.ind += 1

    def close(self, s="}"):
        self.ind -= 1
        self(s)

    def mid(self, s):
        self.ind -= 1
        self(s)
        self.ind += 1

    def text(self):
        return "\n".join(self.lines) + "\n"


class Unit:
    """One unit under construction.  `lib` and `body` are W writers of top-level declarations.
    In body text `§` marks identifiers declared in lib; `¤` marks the trace package (both parts)."""

    def __init__(self, uid, rng, kind):
        self.uid = uid
        self.r = rng
        self.kind = kind
        self.lib = W()
        self.body = W()
        self.feats = []
        self.nid = 0
        self.ntag = 0
        self.P = "U%d" % uid
        self.needs_go126 = False
        self.avoid = []

    def feat(self, *tags):
        for t in tags:
            if t not in self.feats:
                self.feats.append(t)

    def nm(self, base=""):
        """fresh exported top-level identifier"""
        self.nid += 1
        return "%s%s%d" % (self.P, base, self.nid)

    def lv(self, base="v"):
        """fresh local identifier"""
        self.nid += 1
        return "%s%d" % (base, self.nid)

    def tag(self):
        self.ntag += 1
        return "a%d" % self.ntag

    def tr(self, *exprs):
        """trace statement over int-typed expressions"""
        return "¤Tr(%d, \"%s\"%s)" % (self.uid, self.tag(), "".join(", " + e for e in exprs))

    def ts(self, *exprs):
        return "¤Ts(%d, \"%s\"%s)" % (self.uid, self.tag(), "".join(", " + e for e in exprs))

    def sig(self):
        return self.kind + ":" + ",".join(sorted(self.feats))


def as_int(expr, t):
    """expression of type t rendered as an int for Tr"""
    if t == "int":
        return expr
    if t == "bool":
        return "¤Bi(%s)" % expr
    if t == "float64":
        return "¤Fb(%s)" % expr
    if t == "string":
        return "len(%s)" % expr
    return "int(%s)" % expr


class Fill:
    """Typed random filler of statements and pure expressions inside one function body.

    vars:  [name, type, assignable]  (types: int kinds, bool, string)
    srcs:  read-only pure expressions (text, type) supplied by the skeleton (fields, elements, len(...))
    hooks: callables(fill) emitting stateful statements in the `t := f(args)` form
    """

    def __init__(self, unit, w, main_t="int", depth=3, fuel=60, stmts_budget=60):
        self.u = unit
        self.r = unit.r
        self.w = w
        self.vars = []
        self.srcs = []
        self.hooks = []
        self.loops = []      # enclosing loops: (label or None)
        self.main_t = main_t
        self.fuel_var = None
        self.fuel = fuel
        self.depth = depth
        self.budget = stmts_budget
        self.in_switch = 0
        self.kinds = [main_t]
        self.no_range = False

    # ------------------------------------------------------------ environment
    def add(self, name, t, assignable=True):
        self.vars.append([name, t, assignable])

    def names(self, t, assignable=False):
        return [v[0] for v in self.vars if v[1] == t and (v[2] or not assignable)]

    def int_vars(self, assignable=False):
        return [(v[0], v[1]) for v in self.vars if v[1] in BITS and (v[2] or not assignable)]

    def need_fuel(self):
        if self.fuel_var is None:
            self.fuel_var = self.u.lv("fuel")
            # declared by the caller through fuel_decl()
        return self.fuel_var

    def fuel_decl(self):
        """must be emitted at the top of the function body (call before any loop is generated)"""
        fv = self.need_fuel()
        self.w("%s := %d" % (fv, self.fuel))
        self.w("_ = %s" % fv)

    def fuel_check(self, action="break"):
        fv = self.need_fuel()
        self.w("%s--" % fv)
        self.w("if %s <= 0 {" % fv)
        self.w("\t" + action)
        self.w("}")

    # ------------------------------------------------------------ expressions (pure, total)
    def lit(self, t):
        r = self.r
        c = [0, 1, 2, 3, 5, 7, 10, 100]
        if signed(t):
            c += [-1, -2, -7]
        if r.random() < 0.15:
            c = [tmax(t), tmin(t), tmax(t) - 1, tmin(t) + 1]
        v = r.choice(c)
        if v > tmax(t) or v < tmin(t):
            v = 1
        return v

    def lit_txt(self, t, v):
        if t == "int":
            return str(v) if v >= 0 else "(%d)" % v
        if v < 0:
            return "%s(%d)" % (t, v)
        return "%s(%d)" % (t, v)

    def nonconst_lit(self, t):
        v = self.lit(t)
        if t == "int" or (-(1 << 62) < v < (1 << 62)):
            if t == "int":
                return "¤Nk(%d)" % v
            return "%s(¤Nk(%d))" % (t, v)
        return "%s(¤Nk(%d))" % (t, 1)

    def _leaf(self, t):
        """(text, is_const)"""
        r = self.r
        cands = self.names(t)
        src = [s[0] for s in self.srcs if s[1] == t]
        k = r.random()
        if cands and k < 0.55:
            return r.choice(cands), False
        if src and k < 0.75:
            return r.choice(src), False
        if k < 0.85:
            others = [(n, tt) for n, tt in self.int_vars() if tt != t]
            osrc = [s for s in self.srcs if s[1] in BITS and s[1] != t]
            if others and (not osrc or r.random() < 0.6):
                n, tt = r.choice(others)
                self.u.feat("conv")
                return "%s(%s)" % (t, n), False
            if osrc:
                s = r.choice(osrc)
                self.u.feat("conv")
                return "%s(%s)" % (t, s[0]), False
        if k < 0.9:
            ss = self.names("string")
            if ss:
                e = "len(%s)" % r.choice(ss)
                return (e if t == "int" else "%s(%s)" % (t, e)), False
        return self.lit_txt(t, self.lit(t)), True

    def ie(self, t=None, d=2):
        return self._ie(t or self.main_t, d)[0]

    def iex(self, t=None, d=2):
        """non-constant int expression (safe under an enclosing conversion)"""
        t = t or self.main_t
        return self._nc(t, self._ie(t, d))

    def _nc(self, t, e):
        """make (text, is_const) non-constant"""
        if e[1]:
            return self.nonconst_lit(t)
        return e[0]

    def _ie(self, t, d):
        r = self.r
        if d <= 0 or r.random() < 0.3:
            return self._leaf(t)
        k = r.randrange(12)
        a = self._ie(t, d - 1)
        b = self._ie(t, d - 1)
        if a[1] and b[1]:
            b = (self.nonconst_lit(t), False)
        at, bt = a[0], b[0]
        if k <= 3:
            return "(%s %s %s)" % (at, r.choice(["+", "-", "*"]), bt), False
        if k == 4:
            return "(%s / (%s | 1))" % (self._nc(t, a), bt), False
        if k == 5:
            return "(%s %% (%s | 1))" % (self._nc(t, a), bt), False
        if k == 6:
            return "(%s %s %s)" % (at, r.choice(["&", "|", "^", "&^"]), bt), False
        if k == 7:
            self.u.feat("shift")
            return "(%s %s (uint(%s) & %d))" % (self._nc(t, a), r.choice(["<<", ">>"]), self._nc(t, b), r.choice([3, 7, 15])), False
        if k == 8:
            return "(%s%s)" % (r.choice(["-", "^"]), self._nc(t, a)), False
        if k == 9:
            e = "¤Bi(%s)" % self.be(d - 1)
            return (e if t == "int" else "%s(%s)" % (t, e)), False
        if k == 10 and t != self.main_t:
            return "%s(%s)" % (t, self._nc(self.main_t, self._ie(self.main_t, d - 1))), False
        return "(%s + %s)" % (at, bt), False

    def be(self, d=2):
        r = self.r
        bs = self.names("bool")
        k = r.randrange(8)
        if d > 0 and k == 0:
            return "(%s %s %s)" % (self.be(d - 1), r.choice(["&&", "||"]), self.be(d - 1))
        if d > 0 and k == 1:
            return "!(%s)" % self.be(d - 1)
        if bs and k == 2:
            return r.choice(bs)
        ss = self.names("string")
        if len(ss) >= 1 and k == 3:
            self.u.feat("strcmp")
            return "(%s %s %s)" % (r.choice(ss), r.choice(["==", "!=", "<", ">="]), self.se(1))
        t = self.pick_kind()
        a = self._ie(t, max(d - 1, 0))
        b = self._ie(t, max(d - 1, 0))
        if a[1] and b[1]:
            b = (self.nonconst_lit(t), False)
        return "(%s %s %s)" % (a[0], r.choice(["<", "<=", ">", ">=", "==", "!="]), b[0])

    def se(self, d=1):
        r = self.r
        ss = self.names("string")
        k = r.randrange(7)
        if ss and k <= 2:
            return r.choice(ss)
        if d > 0 and k == 3:
            return "(%s + %s)" % (self.se(d - 1), self.se(d - 1))
        if d > 0 and k == 4 and ss:
            return "¤Sub(%s, %s, %s)" % (r.choice(ss), self.ie("int", 1), self.ie("int", 1))
        if d > 0 and k == 5:
            return "¤Its(%s)" % self.ie("int", 1)
        return r.choice(STR_POOL)

    def pick_kind(self):
        return self.r.choice(self.kinds)

    def expr_of(self, t, d=2):
        if t == "bool":
            return self.be(d)
        if t == "string":
            return self.se(min(d, 2))
        return self.ie(t, d)

    # ------------------------------------------------------------ statements
    def trace_vars(self, k=3):
        """trace up to k variables in scope (ints/bools) + maybe a string"""
        r = self.r
        pool = [(v[0], v[1]) for v in self.vars if v[1] in BITS or v[1] == "bool"]
        if pool:
            sel = pool if len(pool) <= k else r.sample(pool, k)
            self.w(self.u.tr(*[as_int(n, t) for n, t in sel]))
        ss = self.names("string")
        if ss and r.random() < 0.4:
            self.w(self.u.ts(r.choice(ss)))

    def decl(self, t=None):
        r = self.r
        if t is None:
            k = r.random()
            t = self.pick_kind() if k < 0.75 else ("bool" if k < 0.87 else "string")
        v = self.u.lv("v")
        e = self.expr_of(t, 2)
        if r.random() < 0.2:
            self.w("var %s %s = %s" % (v, t, e))
        else:
            if t in BITS and t != "int":
                e = "%s(%s)" % (t, e)
            elif t == "int" and r.random() < 0.3:
                e = "int(%s)" % e
            self.w("%s := %s" % (v, e))
        if t == "string":
            self.w(self.u.ts(v))
        else:
            self.w(self.u.tr(as_int(v, t)))
        self.add(v, t)
        return v

    def block(self, n=None, d=None):
        """a braced body: fresh scope"""
        if d is None:
            d = self.depth
        mark = len(self.vars)
        n = n if n is not None else self.r.randint(1, 3)
        for _ in range(n):
            self.stmt(d)
        del self.vars[mark:]

    def stmts(self, n, d=None):
        for _ in range(n):
            self.stmt(self.depth if d is None else d)

    def stmt(self, d):
        r = self.r
        self.budget -= 1
        ivs = self.int_vars(assignable=True)
        if not ivs:
            self.decl(self.pick_kind())
            return
        simple = d <= 0 or self.budget <= 0
        k = r.randrange(8) if simple else r.randrange(30)
        w = self.w
        if k == 0:
            self.decl()
        elif k == 1:
            n, t = r.choice(ivs)
            op = r.choice(["=", "+=", "-=", "*=", "^=", "|=", "&="])
            w("%s %s %s" % (n, op, self.ie(t, 2)))
        elif k == 2:
            n, t = r.choice(ivs)
            w("%s%s" % (n, r.choice(["++", "--"])))
        elif k == 3:
            es = []
            for _ in range(r.randint(1, 3)):
                t = self.pick_kind()
                es.append(as_int(self.iex(t, 2), t))
            w(self.u.tr(*es))
        elif k == 4:
            self.trace_vars()
        elif k == 5:
            self.multi_assign()
        elif k == 6:
            bs = self.names("bool", True)
            ss = self.names("string", True)
            if bs and r.random() < 0.5:
                w("%s = %s" % (r.choice(bs), self.be(2)))
            elif ss:
                v = r.choice(ss)
                if r.random() < 0.5:
                    w("%s = ¤Cap(%s+%s, %d)" % (v, v, self.se(1), r.choice([7, 16, 33])))
                else:
                    w("%s = ¤Cap(%s, 40)" % (v, self.se(2)))
                w(self.u.ts(v))
            else:
                self.decl("string" if r.random() < 0.5 else "bool")
        elif k == 7:
            if self.hooks:
                r.choice(self.hooks)(self)
            else:
                self.trace_vars(2)
        elif k in (8, 9, 10):
            self.if_chain(d)
        elif k in (11, 12):
            self.for3(d)
        elif k == 13:
            self.for_cond(d)
        elif k == 14:
            self.for_inf(d)
        elif k == 15 and not self.no_range:
            self.range_int(d)
        elif k in (16, 17):
            self.switch_expr(d)
        elif k == 18:
            self.switch_notag(d)
        elif k in (19, 20):
            self.jump(d)
        elif k == 21:
            self.goto_back(d)
        elif k == 22:
            self.goto_fwd(d)
        elif k == 23:
            self.shadow_block(d)
        elif k in (24, 25) and self.hooks:
            r.choice(self.hooks)(self)
        elif k == 26:
            self.if_init(d)
        else:
            self.decl()

    def multi_assign(self):
        r = self.r
        ivs = self.int_vars(assignable=True)
        by_t = []
        for n, t in ivs:
            same = [m for m, tt in ivs if tt == t]
            if len(same) >= 2 and t not in by_t:
                by_t.append(t)
        if not by_t:
            n, t = r.choice(ivs)
            self.w("%s = %s" % (n, self.ie(t, 2)))
            return
        t = r.choice(by_t)
        same = [m for m, tt in ivs if tt == t]
        self.u.feat("multiassign")
        if len(same) >= 3 and r.random() < 0.4:
            a, b, c = r.sample(same, 3)
            self.w("%s, %s, %s = %s, %s, %s" % (a, b, c, b, c, self.ie(t, 1)))
        else:
            a, b = r.sample(same, 2)
            if r.random() < 0.5:
                self.w("%s, %s = %s, %s" % (a, b, b, a))
            else:
                self.w("%s, %s = %s, (%s + %s)" % (a, b, b, a, self.ie(t, 1)))
        self.w(self.u.tr(as_int(a, t), as_int(b, t)))

    def if_chain(self, d):
        r = self.r
        w = self.w
        self.u.feat("if")
        w.open("if %s {" % self.be(2))
        self.block(d=d - 1)
        for _ in range(r.choice([0, 0, 1, 1, 2])):
            self.u.feat("elseif")
            w.mid("} else if %s {" % self.be(2))
            self.block(d=d - 1)
        if r.random() < 0.6:
            w.mid("} else {")
            self.block(d=d - 1)
        w.close()

    def if_init(self, d):
        r = self.r
        w = self.w
        t = self.pick_kind()
        v = self.u.lv("q")
        self.u.feat("ifinit")
        e = self.ie(t, 2)
        if t != "int":
            e = "%s(%s)" % (t, e)
        w.open("if %s := %s; %s %s %s {" % (v, e, v, r.choice(["<", ">", "!=", "=="]), self.ie(t, 1)))
        mark = len(self.vars)
        self.add(v, t)
        w(self.u.tr(as_int(v, t)))
        self.block(d=d - 1)
        w.mid("} else {")
        w(self.u.tr(as_int(v, t), "1"))
        self.block(n=1, d=d - 1)
        del self.vars[mark:]
        w.close()

    def _label(self):
        if self.r.random() < 0.45:
            return self.u.lv("L")
        return None

    def _loop_body(self, d, lab, extra=None):
        self.loops.append(lab)
        sw = self.in_switch
        self.in_switch = 0
        self.fuel_check("break")
        if extra:
            extra()
        self.block(d=d - 1)
        self.in_switch = sw
        self.loops.pop()

    def _use_label(self, lab):
        """labels must be used: emit a guarded labelled continue that never fires early"""
        if lab:
            fv = self.need_fuel()
            self.w("if %s < -1000 {" % fv)
            self.w("\tcontinue %s" % lab)
            self.w("}")

    def for3(self, d):
        r = self.r
        w = self.w
        i = self.u.lv("i")
        t = "int" if r.random() < 0.6 else self.pick_kind()
        lab = self._label()
        self.u.feat("for3")
        lo = r.choice([0, 0, 1, 2])
        hi = r.choice([1, 2, 3, 4, 5])
        if r.random() < 0.3:
            bound = "(%s %% %d)" % (self.ie(t, 1), r.choice([3, 4, 6]))
        else:
            bound = self.lit_txt(t, hi)
        if lab:
            w("%s:" % lab)
        step = r.choice(["%s++" % i, "%s++" % i, "%s += 2" % i])
        down = r.random() < 0.15 and signed(t)
        if down:
            w.open("for %s := %s; %s > %s; %s-- {" % (i, self.lit_txt(t, hi) if t != "int" else str(hi), i, self.lit_txt(t, lo - 1) if lo > 0 else self.lit_txt(t, -1), i))
        else:
            w.open("for %s := %s; %s < %s; %s {" % (i, "%s(%d)" % (t, lo) if t != "int" else str(lo), i, bound, step))
        mark = len(self.vars)
        self.add(i, t, r.random() < 0.15)
        self._loop_body(d, lab, lambda: (self._use_label(lab), w(self.u.tr(as_int(i, t)))))
        del self.vars[mark:]
        w.close()

    def for_cond(self, d):
        w = self.w
        lab = self._label()
        self.u.feat("forcond")
        if lab:
            w("%s:" % lab)
        w.open("for %s {" % self.be(2))
        self._loop_body(d, lab, lambda: self._use_label(lab))
        # make progress likely: mutate some variable
        ivs = self.int_vars(assignable=True)
        if ivs:
            n, t = self.r.choice(ivs)
            w("%s += %s" % (n, self.lit_txt(t, self.r.choice([1, 2, 3]))))
        w.close()

    def for_inf(self, d):
        w = self.w
        lab = self._label()
        self.u.feat("forinf")
        if lab:
            w("%s:" % lab)
        w.open("for {")
        c = self.u.lv("c")

        def extra():
            self._use_label(lab)
            w("if %s {" % self.be(1))
            w("\tbreak")
            w("}")
        self._loop_body(d, lab, extra)
        w.close()

    def range_int(self, d):
        r = self.r
        w = self.w
        lab = self._label()
        self.u.feat("rangeint")
        i = self.u.lv("i")
        t = "int" if r.random() < 0.7 else self.pick_kind()
        if r.random() < 0.5:
            n = self.lit_txt(t, r.choice([0, 1, 2, 3, 4]))
            if t != "int":
                pass
        else:
            n = "(%s %% 5)" % self.ie(t, 1)
        if lab:
            w("%s:" % lab)
        if r.random() < 0.2:
            w.open("for range %s {" % n)
            self._loop_body(d, lab, lambda: self._use_label(lab))
        else:
            w.open("for %s := range %s {" % (i, n))
            mark = len(self.vars)
            self.add(i, t, r.random() < 0.2)
            self._loop_body(d, lab, lambda: (self._use_label(lab), w(self.u.tr(as_int(i, t)))))
            del self.vars[mark:]
        w.close()

    def switch_expr(self, d):
        r = self.r
        w = self.w
        self.u.feat("switch")
        t = self.pick_kind()
        m = r.choice([3, 4, 5, 6])
        tag = "(%s %% %d)" % (self.ie(t, 2), m)
        if r.random() < 0.25:
            v = self.u.lv("sw")
            w.open("switch %s := %s; %s {" % (v, tag, v))
            self.u.feat("switchinit")
        else:
            w.open("switch %s {" % tag)
        vals = list(range(-2 if signed(t) else 0, m))
        r.shuffle(vals)
        clauses = []
        pos = 0
        for _ in range(r.randint(1, 4)):
            k = r.choice([1, 1, 2])
            cs = vals[pos:pos + k]
            pos += k
            if cs:
                clauses.append(cs)
        if r.random() < 0.8:
            clauses.insert(r.randint(0, len(clauses)), None)
        self.in_switch += 1
        for ci, cs in enumerate(clauses):
            last = ci == len(clauses) - 1
            if cs is None:
                w.mid("default:")
            else:
                w.mid("case %s:" % ", ".join(self.lit_txt(t, c) for c in cs))
            self.block(n=r.randint(1, 2), d=d - 1)
            if not last and r.random() < 0.3:
                self.u.feat("fallthrough")
                w("fallthrough")
            elif r.random() < 0.15:
                self.u.feat("switchbreak")
                w("if %s {" % self.be(1))
                w("\tbreak")
                w("}")
                w(self.u.tr("7"))
        self.in_switch -= 1
        w.close()

    def switch_notag(self, d):
        r = self.r
        w = self.w
        self.u.feat("switchnotag")
        w.open("switch {")
        self.in_switch += 1
        n = r.randint(1, 3)
        for ci in range(n):
            w.mid("case %s:" % self.be(2))
            self.block(n=r.randint(1, 2), d=d - 1)
            if ci + 1 < n and r.random() < 0.25:
                self.u.feat("fallthrough")
                w("fallthrough")
        if r.random() < 0.6:
            w.mid("default:")
            self.block(n=1, d=d - 1)
        self.in_switch -= 1
        w.close()

    def jump(self, d):
        r = self.r
        w = self.w
        if not self.loops:
            self.if_chain(d)
            return
        labs = [l for l in self.loops if l]
        kw = r.choice(["break", "continue"])
        w("if %s {" % self.be(2))
        w("\t" + self.u.tr("9"))
        if labs and r.random() < 0.7:
            self.u.feat("labelled-" + kw)
            w("\t%s %s" % (kw, r.choice(labs)))
        else:
            if kw == "break" and self.in_switch:
                self.u.feat("break-in-switch")
            self.u.feat(kw)
            w("\t" + kw)
        w("}")

    def goto_back(self, d):
        """backward goto loop with its own counter (no declarations are jumped over)"""
        r = self.r
        w = self.w
        self.u.feat("goto-back")
        k = self.u.lv("g")
        lab = self.u.lv("G")
        w.open("{")
        w("%s := 0" % k)
        w("%s:" % lab)
        w("%s++" % k)
        mark = len(self.vars)
        self.add(k, "int", False)
        sw, lp = self.in_switch, self.loops
        self.in_switch, self.loops = 0, []
        self.block(n=r.randint(1, 2), d=min(d - 1, 1))
        self.in_switch, self.loops = sw, lp
        w("if %s < %d {" % (k, r.choice([1, 2, 3])))
        w("\tgoto %s" % lab)
        w("}")
        del self.vars[mark:]
        w.close()

    def goto_fwd(self, d):
        r = self.r
        w = self.w
        self.u.feat("goto-fwd")
        lab = self.u.lv("G")
        w("if %s {" % self.be(2))
        w("\tgoto %s" % lab)
        w("}")
        w.open("{")
        self.block(n=r.randint(1, 2), d=min(d - 1, 1))
        w.close()
        w("%s:" % lab)
        w(self.u.tr("11"))

    def shadow_block(self, d):
        r = self.r
        w = self.w
        ivs = self.int_vars()
        if not ivs:
            self.decl()
            return
        n, t = r.choice(ivs)
        self.u.feat("shadow")
        w.open("{")
        w("%s := %s + %s" % (n, n, self.lit_txt(t, 1)))
        mark = len(self.vars)
        # the inner variable hides the outer one; it is assignable whatever the outer one was
        self.vars.append([n, t, True])
        w("%s *= %s" % (n, self.lit_txt(t, 3)))
        w(self.u.tr(as_int(n, t)))
        self.block(n=r.randint(1, 2), d=d - 1)
        del self.vars[mark:]
        w.close()
        w(self.u.tr(as_int(n, t)))


# ------------------------------------------------------------------------------------------------
# program assembly

def pkg_names(npk):
    return {1: ["main"], 2: ["pa", "main"], 3: ["pa", "pb", "main"], 4: ["pa", "pb", "pc", "main"]}[npk]


def _render(text, here, lib_pkg, trace_pkg):
    text = text.replace("¤", "" if here == trace_pkg else trace_pkg + ".")
    text = text.replace("§", "" if here == lib_pkg else lib_pkg + ".")
    return text


def _file(pkg, text, mod, all_pkgs):
    imps = []
    for p in all_pkgs:
        if p != pkg and p != "main" and (p + ".") in text:
            # crude but sufficient: generated identifiers never end in a package name followed by '.'
            import re
            if re.search(r"(?<![A-Za-z0-9_.])%s\." % p, text):
                imps.append('"%s/%s"' % (mod, p))
    import re
    if re.search(r"(?<![A-Za-z0-9_.])math\.", text):
        imps.append('"math"')
    if re.search(r"(?<![A-Za-z0-9_.])os\.", text):
        imps.append('"os"')
    if re.search(r"(?<![A-Za-z0-9_.])iter\.", text):
        imps.append('"iter"')
    head = "package %s\n\n" % pkg
    if imps:
        head += "import (\n" + "".join("\t%s\n" % i for i in sorted(imps)) + ")\n\n"
    return head + text


# constructs the random part avoids while the named finding is open (probe + avoid, DESIGN 3.5)
AVOIDABLE = {"retload": "C01-retload-moved-past-call", "rangearr": "C01-range-array-value-not-copied"}


def generate(seed, idx, nunits=25, only=None, kinds=None, npk=None, term=None, avoid=()):
    """Returns {"files": {rel: text}, "units": [{uid, kind, sig, feats, lib_pkg, body_pkg, needs_go126}],
    "mod": module name, "npk": n, "term": termination kind planned, "needs_go126": bool}"""
    import c01_units as units
    pr = sub_rng("c01", seed, idx, "prog")
    if npk is None:
        npk = pr.choice([1, 2, 2, 3, 3, 4, 4])
    else:
        pr.random()
    pkgs = pkg_names(npk)
    trace_pkg = pkgs[0]
    mod = "c01m"
    tk = pr.random()
    if term is None:
        term = "normal" if tk < 0.72 else ("exit" if tk < 0.80 else ("panic-custom" if tk < 0.90 else "panic-rt"))
    files = {}
    per_pkg = {p: [] for p in pkgs}
    meta = []
    main_calls = []
    klist = kinds or units.KINDS
    # unit kinds: a shuffled round-robin over all kinds so that every program covers many features
    order = []
    for k_ in klist:
        order += [k_] * (getattr(units, "WEIGHT", {}).get(k_, 1) if kinds is None else 1)
    pr.shuffle(order)
    for uid in range(nunits):
        kind = order[uid % len(order)]
        ur = sub_rng("c01", seed, idx, "unit", uid)
        li = ur.randrange(len(pkgs))
        bi = ur.randrange(li, len(pkgs))
        if only is not None and uid not in only:
            continue
        u = Unit(uid, ur, kind)
        u.avoid = tuple(avoid)
        units.build(u, kind)
        lib_pkg, body_pkg = pkgs[li], pkgs[bi]
        lt, bt = u.lib.text(), u.body.text()
        if lt.strip():
            files["%s%s_u%d_lib.go" % ("" if lib_pkg == "main" else lib_pkg + "/", kind, uid)] = _file(
                lib_pkg, _render(lt, lib_pkg, lib_pkg, trace_pkg), mod, pkgs)
        files["%s%s_u%d.go" % ("" if body_pkg == "main" else body_pkg + "/", kind, uid)] = _file(
            body_pkg, _render(bt, body_pkg, lib_pkg, trace_pkg), mod, pkgs)
        q = "" if body_pkg == "main" else body_pkg + "."
        main_calls.append((uid, "%sU%dRun()" % (q, uid)))
        meta.append({"uid": uid, "kind": kind, "sig": u.sig(), "feats": list(u.feats), "lib_pkg": lib_pkg,
                     "body_pkg": body_pkg, "needs_go126": u.needs_go126})
    tq = "" if trace_pkg == "main" else trace_pkg + "."
    m = W()
    m.open("func main() {")
    for uid, call in main_calls:
        m("%sBegin(%d)" % (tq, uid))
        m(call)
        m("%sEnd(%d)" % (tq, uid))
    term_uid = 9000
    if only is None or term_uid in only:
        tr_ = sub_rng("c01", seed, idx, "term")
        if term == "exit":
            m("%sBegin(%d)" % (tq, term_uid))
            m("defer %sTr(%d, \"never\", 1)" % (tq, term_uid))
            m("%sTr(%d, \"x\", 1)" % (tq, term_uid))
            m("os.Exit(%d)" % tr_.choice([0, 1, 3, 7, 42, 125]))
        elif term == "panic-custom":
            m("%sBegin(%d)" % (tq, term_uid))
            m("defer %sTr(%d, \"deferred\", 2)" % (tq, term_uid))
            k = tr_.randrange(4)
            if k == 0:
                m("panic(\"boom-\" + %sIts(%sNk(%d)))" % (tq, tq, tr_.randrange(100)))
            elif k == 1:
                m("panic(%sNk(%d))" % (tq, tr_.randrange(-50, 50)))
            elif k == 2:
                m("var err error = termErr{%d}" % tr_.randrange(100))
                m("panic(err)")
            else:
                m("termDeep(%sNk(3))" % tq)
        elif term == "panic-rt":
            m("%sBegin(%d)" % (tq, term_uid))
            m("defer %sTr(%d, \"deferred\", 2)" % (tq, term_uid))
            k = tr_.randrange(3)
            if k == 0:
                m("xs := []int{1, 2, 3}")
                m("%sTr(%d, \"x\", xs[%sNk(5)])" % (tq, term_uid, tq))
            elif k == 1:
                m("%sTr(%d, \"x\", 10/%sNk(0))" % (tq, term_uid, tq))
            else:
                m("var e any = \"s\"")
                m("%sTr(%d, \"x\", e.(int))" % (tq, term_uid))
    m.close()
    mt = m.text()
    mt += '''
type termErr struct{ c int }

func (e termErr) Error() string { return "termErr-" + %sIts(e.c) }

func termDeep(n int) {
	defer %sTr(9000, "unwind", n)
	if n == 0 {
		panic("deep")
	}
	termDeep(n - 1)
}
''' % (tq, tq)
    files["main.go"] = _file("main", mt, mod, pkgs)
    tsrc = TRACE_SRC.replace("PKGNAME", trace_pkg)
    files[("" if trace_pkg == "main" else trace_pkg + "/") + "vtrace.go"] = tsrc
    return {"files": files, "units": meta, "mod": mod, "npk": npk, "term": term,
            "needs_go126": any(x["needs_go126"] for x in meta)}

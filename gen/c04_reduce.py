"""Delta reducer for C04 replay programs (development / triage tool, not used by the check itself).

  python3 gen/c04_reduce.py <replay-dir-or-main.go> <func> [out.go]

Keeps removing brace-balanced statements from function <func> (and whole functions that are no longer referenced)
while llgo (built from VERIF_REPO or /repo) and go1.26.0 still disagree on the program's stderr and go1.26.0 prints no
MONITOR: line.  A statement `mpush(...)` is removed together with the statement that follows it."""
import os
import re
import sys

V = os.path.dirname(os.path.dirname(os.path.abspath(__file__)))
sys.path.insert(0, os.path.join(V, "rig"))
sys.path.insert(0, os.path.join(V, "checks"))
import core
import c04


def split_funcs(src):
    """-> list of (name or None, [lines]) in order"""
    out = []
    cur = []
    name = None
    depth = 0
    for ln in src.split("\n"):
        m = re.match(r"^func (?:\([^)]*\) )?(\w+)\(", ln)
        if depth == 0 and m:
            if cur:
                out.append((name, cur))
            cur, name = [], m.group(1)
        cur.append(ln)
        depth += ln.count("{") - ln.count("}")
        if depth == 0 and name is not None and ln.startswith("}"):
            out.append((name, cur))
            cur, name = [], None
    if cur:
        out.append((name, cur))
    return out


def chunks(lines, lo, hi):
    """statements (start, end inclusive) among lines[lo:hi] at the same nesting depth"""
    res = []
    i = lo
    while i < hi:
        j = i
        depth = lines[j].count("{") - lines[j].count("}")
        while depth > 0 and j + 1 < hi:
            j += 1
            depth += lines[j].count("{") - lines[j].count("}")
        # `} else {` continues the statement
        res.append((i, j))
        i = j + 1
    # merge mpush with the following statement
    merged = []
    k = 0
    while k < len(res):
        a, b = res[k]
        if lines[a].strip().startswith("mpush(") and a == b and k + 1 < len(res):
            merged.append((a, res[k + 1][1]))
            k += 2
        else:
            merged.append((a, b))
            k += 1
    return merged


def all_chunks(lines, lo, hi, acc, depth=0):
    for (a, b) in chunks(lines, lo, hi):
        acc.append((depth, a, b))
        # descend into compound statements
        first = a
        if lines[a].strip().startswith("mpush(") and b > a:
            first = a + 1
        if b > first:
            all_chunks(lines, first + 1, b, acc, depth + 1)


class Tester:
    def __init__(self):
        self.w = core.Work("reduceC04")
        self.llgo = core.build_llgo(self.w)
        self.n = 0

    def differs(self, src):
        self.n += 1
        d = self.w.sub("t%d" % self.n)
        b = c04.build_run(self.w, self.llgo, d, src, which=("go126",))
        r6 = b.res.get("go126")
        if r6 is None or "MONITOR:" in r6.err or r6.kind == "timeout":
            return False
        b2 = c04.build_run(self.w, self.llgo, d, src, which=("llgo",))
        r = b2.res.get("llgo")
        if r is None:
            return False
        core.shutil.rmtree(d, ignore_errors=True)
        a = r6.err.split("\n\ngoroutine ")[0]
        return (r.kind, r.rc) != (r6.kind, r6.rc) or c04.parse(r.err)[0] != c04.parse(r6.err)[0] or (c04.parse(r.err)[2] is None) != (c04.parse(r6.err)[2] is None)


def main():
    path = sys.argv[1]
    if os.path.isdir(path):
        path = os.path.join(path, "main.go")
    target = sys.argv[2]
    out = sys.argv[3] if len(sys.argv) > 3 else path + ".min.go"
    src = open(path).read()
    t = Tester()
    if not t.differs(src):
        print("does not reproduce")
        t.w.close()
        sys.exit(1)
    # 1. drop unreferenced generated functions
    changed = True
    while changed:
        changed = False
        fs = split_funcs(src)
        text = {n: "\n".join(l) for n, l in fs}
        for n, l in fs:
            if n and re.match(r"^f\d+$", n) and n != target:
                others = "\n".join(v for k, v in text.items() if k != n)
                if not re.search(r"\b%s\(" % n, others) and not re.search(r"\b%s\b" % n, others):
                    src = "\n".join("\n".join(l2) for n2, l2 in fs if n2 != n)
                    changed = True
                    break
    if not t.differs(src):
        print("stripping unreferenced functions changed the outcome?!")
        t.w.close()
        sys.exit(1)
    # 2. statement removal inside the target (and, afterwards, inside every remaining generated function)
    progress = True
    while progress:
        progress = False
        fs = split_funcs(src)
        for fi, (n, l) in enumerate(fs):
            if not (n and (n == target or re.match(r"^f\d+$", n))):
                continue
            acc = []
            all_chunks(l, 1, len(l) - 1, acc)
            acc.sort(key=lambda c: (c[0], -(c[2] - c[1])))
            for (depth, a, b) in acc:
                body = l[a:b + 1]
                txt = "\n".join(body)
                if "tr(\"enter" in txt and a == b:
                    continue
                if re.match(r"^\s*(t := T\{x\}|_ = t|res := 0|return res \+ x)$", l[a]) and a == b:
                    continue
                cand = l[:a] + l[b + 1:]
                src2 = "\n".join("\n".join(cand if k == fi else l2) for k, (n2, l2) in enumerate(fs))
                if t.differs(src2):
                    src = src2
                    progress = True
                    print("removed %s lines %d-%d (%d lines left in %s)" % (n, a, b, len(cand), n), flush=True)
                    break
            if progress:
                break
        # drop functions that became unreferenced
        fs = split_funcs(src)
        text = {n: "\n".join(l) for n, l in fs}
        for n, l in fs:
            if n and re.match(r"^f\d+$", n) and n != target:
                others = "\n".join(v for k, v in text.items() if k != n)
                if not re.search(r"\b%s\b" % n, others):
                    src = "\n".join("\n".join(l2) for n2, l2 in fs if n2 != n)
        open(out, "w").write(src)
    print("tests run:", t.n, "result:", out)
    t.w.close()


if __name__ == "__main__":
    main()

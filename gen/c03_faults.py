"""C03 fault-unit generator (engine E1).

A *unit* is one Go function `uN()` that runs a small inner function 1..5 times ("reps").  Every rep

    prints  B <rep>                      (before)
    runs    <op>                         (the possibly faulting operation; operands may print T <k>)
    prints  A <int result>               (after)
    and a deferred recover prints  P <message>  or  P -

The operands of a rep come from tables drawn around every bound; about half of the reps are IN RANGE and
must not panic.  The generator also computes what the Go spec requires (`expect`: '-' or a panic class); the
check compares llgo with the reference toolchain AND the reference with `expect` (a disagreement there is a
broken oracle, not a violation).

Pure function of (seed, program index, avoid set): no sets, no hash(), no time.
"""
import random

MAXI = (1 << 63) - 1
MINI = -(1 << 63)
U64 = (1 << 64) - 1

ITY = {  # name: (min, max)
    "int": (MINI, MAXI), "int8": (-128, 127), "int16": (-32768, 32767), "int32": (-(1 << 31), (1 << 31) - 1),
    "int64": (MINI, MAXI), "uint": (0, U64), "uint8": (0, 255), "uint16": (0, 65535), "uint32": (0, (1 << 32) - 1),
    "uint64": (0, U64), "uintptr": (0, U64),
}
IDX_TYPES = ["int", "int8", "uint8", "int64", "uint64", "uintptr"]
IDX_WEIGHTS = [6, 3, 3, 3, 3, 2]
DIV_TYPES = ["int", "int8", "int16", "int32", "int64", "uint", "uint8", "uint32", "uint64", "uintptr"]

# offsets of field x in the padded struct types SPn (declared in the prelude)
PAD_OFFS = [4088, 4096, 5000, 70000, 1 << 20, 4 << 20, 6 << 20]
# element counts of the *[N]int types used for nil array pointers
NILARR = [4, 1000, 1 << 20]

FAMILIES = [("index", 22), ("slice", 28), ("nilderef", 12), ("nilmap", 3), ("typeassert", 8), ("div", 6),
            ("make", 8), ("s2a", 4), ("chan", 4), ("sweep", 3), ("negshift", 2)]

# constructs that can be switched off ("probe + avoid"); the check passes the tags of the open findings whose
# probe still fails on the tree under test
AVOIDABLE = ["sigsegv-twice", "chan-misuse", "makechan-range", "nil-large-offset", "nil-array-slice", "makechan-narrow"]


def fits(t, v):
    lo, hi = ITY[t]
    return lo <= v <= hi


def lit(t, v):
    """typed constant expression"""
    return "%s(%d)" % (t, v)


def var(t, v):
    """run-time (non-constant) expression of type t with value v"""
    if v > MAXI:
        return "%s(nu(%d))" % (t, v)
    return "%s(nz(%d))" % (t, v)


def pick_itype(rng):
    return rng.choices(IDX_TYPES, IDX_WEIGHTS)[0]


class Unit:
    def __init__(self, fam):
        self.fam = fam
        self.params = []      # [(name, gotype)]
        self.setup = []       # statements before B
        self.body = []        # statements between B and A (assign r)
        self.reps = []        # [(args [goexpr], expect)]
        self.place = "seq"
        self.sig = fam
        self.desc = fam
        self.tags = []        # avoidable constructs this unit contains
        self.nilsig = False   # faults through SIGSEGV under llgo (one per thread while sigsegv-twice is open)
        self.helper = False   # starts a helper goroutine
        self.alt = {}         # llgo panic class -> class it stands for in this unit (legitimately different wording)


# ---------------------------------------------------------------- operand helpers

class Opnd:
    """one integer operand: constant in the source or a parameter of the inner function"""

    def __init__(self, name, t, const, cval=None, traced=0):
        self.name, self.t, self.const, self.cval, self.traced = name, t, const, cval, traced

    def expr(self):
        e = lit(self.t, self.cval) if self.const else self.name
        if self.const and self.t == "int" and self.cval >= 0 and self.cval % 3 == 0:
            e = "%d" % self.cval          # untyped constant now and then
        if self.traced:
            return "tv_%s(%d, %s)" % (self.t, self.traced, e)
        return e


def bound_pool(t, bounds):
    """candidate values of type t around the given bounds"""
    c = [-1, 0, 1, 2, 127, 128, 255, 256, MAXI, MINI, 1 << 63, U64, ITY[t][0], ITY[t][1]]
    for b in bounds:
        c += [b - 1, b, b + 1, b // 2]
    out = []
    for v in c:
        if fits(t, v) and v not in out:
            out.append(v)
    return out


# ---------------------------------------------------------------- families

def fam_index(rng, u, avoid):
    kind = rng.choices(["slice", "array", "parray", "string", "cstring", "arrfn", "bytes"], [6, 4, 4, 4, 1, 1, 2])[0]
    access = "read"
    if kind in ("slice", "array", "parray", "bytes"):
        access = rng.choices(["read", "write", "addr", "rmw", "wtrace"], [5, 3, 2, 2, 2])[0]
    if kind == "cstring":
        L = 5
    elif kind == "arrfn":
        L = 3
    elif kind in ("array", "parray"):
        L = rng.choice([1, 3, 5, 128, 256])
    else:
        L = rng.choice([0, 1, 3, 5, 128, 256, 300])
    C = L + rng.choice([0, 0, 2])
    t = pick_itype(rng)
    const = rng.random() < 0.3
    traced = 1 if rng.random() < 0.4 else 0
    pool = bound_pool(t, [L, C])
    inr = [v for v in pool if 0 <= v < L]
    outr = [v for v in pool if not (0 <= v < L)]
    io = Opnd("i", t, const, traced=traced)
    # "ssaconst": the index is a local variable initialised from a typed constant (i := uint8(200); x[i]). The Go compiler
    # accepts it for any value, go/ssa propagates the constant, so the compiler under test sees a CONSTANT index that may be
    # out of range - also on arrays, where a literal constant index out of range would not compile.
    ssaconst = (not const) and rng.random() < 0.22 and kind in ("slice", "array", "parray", "string", "bytes")
    if ssaconst:
        sv = rng.choice(pool)
        u.setup.append("i := %s" % lit(t, sv))
    if const:
        cands = [v for v in pool if 0 <= v <= MAXI]
        if kind in ("array", "parray", "cstring", "arrfn"):
            cands = [v for v in cands if v < L]
        if not cands:
            io.const = const = False
        else:
            io.cval = rng.choice(cands)
    # operand expression of the indexed thing
    if kind == "slice":
        u.setup.append("x := mkints(%d, %d)" % (L, C))
    elif kind == "bytes":
        u.setup.append("x := []byte(mkstr(%d))" % L)
    elif kind == "array":
        u.setup.append("var x [%d]int" % L)
        u.setup.append("for j := range x { x[j] = j*7 + 1 }")
    elif kind == "parray":
        u.setup.append("x := new([%d]int)" % L)
        u.setup.append("for j := range x { x[j] = j*7 + 1 }")
    elif kind == "string":
        u.setup.append("x := mkstr(%d)" % L)
    X = {"cstring": "cs5", "arrfn": "fa3()"}.get(kind, "x")
    if kind == "slice" and traced and rng.random() < 0.5:
        X = "tvs(%d, x)" % traced
        io.traced = traced + 1
    I = io.expr()
    whole = "x[:]" if kind in ("array", "parray") else "x"
    summ = "sumbytes(%s)" % whole if kind == "bytes" else "sumints(%s)" % whole
    if access == "read":
        if traced:
            u.body.append("r = ci(9, int(%s[%s]))" % (X, I))
        else:
            u.body.append("r = int(%s[%s])" % (X, I))
    elif access == "write":
        u.body.append("%s[%s] = 77" % (X, I))
        u.body.append("r = %s" % summ)
    elif access == "wtrace":
        u.body.append("%s[%s] = %s" % (X, I, "byte(tv_int(8, 77))" if kind == "bytes" else "tv_int(8, 77)"))
        u.body.append("r = %s" % summ)
    elif access == "addr":
        u.body.append("q := &%s[%s]" % (X, I))
        u.body.append("*q += 5")
        u.body.append("r = %s" % summ)
    elif access == "rmw":
        u.body.append("%s[%s]++" % (X, I))
        u.body.append("r = %s" % summ)
    K = rng.randint(1, 5)
    if not const and not ssaconst:
        u.params.append(("i", t))
    for _ in range(K):
        if ssaconst:
            u.reps.append(([], "-" if 0 <= sv < L else "index"))
        elif const:
            v = io.cval
            u.reps.append(([], "-" if 0 <= v < L else "index"))
        else:
            want_in = rng.random() < 0.5
            src = inr if (want_in and inr) else (outr if outr else inr)
            v = rng.choice(src)
            u.reps.append(([var(t, v)], "-" if 0 <= v < L else "index"))
    u.sig = "index/%s/%s/%s/%s/t%d" % (kind, access, t, "c" if const else ("s" if ssaconst else "v"), 1 if traced else 0)
    u.desc = "index %s of %s len %d (%s, %s index %s)" % (access, kind, L, t, "const" if const else "var", I)


def slice_model(kind, L, C, lo, hi, mx):
    bound = L if kind in ("string", "cstring") else C
    l = 0 if lo is None else lo
    h = L if hi is None else hi
    m = bound if mx is None else mx
    return "-" if 0 <= l <= h <= m <= bound else "slicebounds"


def fam_slice(rng, u, avoid):
    kind = rng.choices(["slice", "array", "parray", "string", "cstring"], [8, 4, 5, 5, 1])[0]
    three = kind in ("slice", "array", "parray") and rng.random() < 0.45
    form = rng.choice(["lhm", "lhm", "hm"]) if three else rng.choices(["lh", "l", "h", ""], [6, 2, 2, 1])[0]
    if kind == "cstring":
        L = C = 5
    elif kind == "string":
        L = C = rng.choice([0, 1, 5, 128, 300])
    elif kind in ("array", "parray"):
        L = C = rng.choice([0, 1, 3, 5, 128, 256])
    else:
        L = rng.choice([0, 1, 3, 5, 127, 255])
        C = L + rng.choice([0, 1, 2, 5])
    bound = L if kind in ("string", "cstring") else C
    traced = rng.random() < 0.3
    ops = {}
    k = 2 if (traced and kind == "slice") else 1
    for nm in ("l", "h", "m"):
        if nm in form:
            ops[nm] = Opnd({"l": "lo", "h": "hi", "m": "mx"}[nm], pick_itype(rng), rng.random() < 0.3, traced=(k if traced else 0))
            k += 1
    # constants: non-negative, representable as int, mutually ordered, within the array / constant string
    last = 0
    for nm in ("l", "h", "m"):
        o = ops.get(nm)
        if o is None or not o.const:
            continue
        pool = [v for v in bound_pool(o.t, [L, C]) if last <= v <= MAXI]
        if kind in ("array", "parray", "cstring"):
            pool = [v for v in pool if v <= bound]
        if not pool:
            o.const = False
            continue
        # mostly plausible values, sometimes far out (slices and variable strings only)
        near = [v for v in pool if v <= bound + 1]
        o.cval = rng.choice(near if (near and rng.random() < 0.8) else pool)
        last = o.cval
    if kind == "slice":
        u.setup.append("x := mkints(%d, %d)" % (L, C))
    elif kind == "array":
        u.setup.append("var x [%d]int" % L)
        u.setup.append("for j := range x { x[j] = j*7 + 1 }")
    elif kind == "parray":
        u.setup.append("x := new([%d]int)" % L)
        u.setup.append("for j := range x { x[j] = j*7 + 1 }")
    elif kind == "string":
        u.setup.append("x := mkstr(%d)" % L)
    X = "cs5" if kind == "cstring" else "x"
    if traced and kind == "slice":
        X = "tvs(1, x)"
    e = lambda nm: ops[nm].expr() if nm in ops else ""
    if three:
        sl = "%s[%s:%s:%s]" % (X, e("l"), e("h"), e("m"))
    else:
        sl = "%s[%s:%s]" % (X, e("l"), e("h"))
    u.body.append("y := %s" % sl)
    if kind in ("string", "cstring"):
        u.body.append("r = %slen(y) * 1000" % ("ci(9, 0) + " if traced else ""))
        u.body.append("if len(y) > 0 { r += int(y[0]) + int(y[len(y)-1])*3 }")
    else:
        u.body.append("r = %slen(y)*1000 + cap(y)" % ("ci(9, 0) + " if traced else ""))
        u.body.append("if len(y) > 0 { r += y[0] + y[len(y)-1]*3 }")
    for nm in ("l", "h", "m"):
        if nm in ops and not ops[nm].const:
            u.params.append((ops[nm].name, ops[nm].t))
    K = rng.randint(1, 5)
    for _ in range(K):
        want_in = rng.random() < 0.5
        best = None
        for attempt in range(12):
            vals = {}
            for nm in ("l", "h", "m"):
                o = ops.get(nm)
                if o is None:
                    vals[nm] = None
                elif o.const:
                    vals[nm] = o.cval
                else:
                    pool = bound_pool(o.t, [L, C])
                    if want_in or rng.random() < 0.6:
                        # plausible neighbourhood first
                        near = [v for v in pool if -1 <= v <= bound + 1]
                        if near:
                            pool = near
                    vals[nm] = rng.choice(pool)
            if want_in and attempt < 10:
                # help the search: order the variable operands
                names = [nm for nm in ("l", "h", "m") if nm in ops and not ops[nm].const]
                sv = sorted(vals[nm] for nm in names)
                ok = True
                for nm, v in zip(names, sv):
                    if not fits(ops[nm].t, v):
                        ok = False
                if ok:
                    for nm, v in zip(names, sv):
                        vals[nm] = v
            exp = slice_model(kind, L, C, vals["l"], vals["h"], vals["m"])
            best = (vals, exp)
            if (exp == "-") == want_in:
                break
        vals, exp = best
        args = [var(ops[nm].t, vals[nm]) for nm in ("l", "h", "m") if nm in ops and not ops[nm].const]
        u.reps.append((args, exp))
    u.sig = "slice/%s/%s/%s/t%d" % (kind, form, ",".join("%s%s" % (ops[nm].t, "c" if ops[nm].const else "v") for nm in ("l", "h", "m") if nm in ops), 1 if traced else 0)
    u.desc = "slice expression %s on %s len %d cap %d" % (sl, kind, L, C)


NIL_FORMS = [
    # name, weight, type of p, body lines, expect when nil, tags
    ("fieldr", 4, "S", ["r = p.b"], "nilderef", []),
    ("fieldw", 3, "S", ["p.b = 7", "r = p.b + p.a"], "nilderef", []),
    ("fieldr-traced", 2, "S", ["r = ci(9, tvp(1, p).b)"], "nilderef", []),
    ("load", 2, "int", ["r = *p"], "nilderef", []),
    ("store", 2, "int", ["*p = 4", "r = *p"], "nilderef", []),
    ("store-traced", 2, "int", ["*p = tv_int(8, 4)", "r = *p"], "nilderef", []),
    ("loadstruct", 2, "S", ["v := *p", "r = v.b"], "nilderef", []),
    ("bigval-unused", 1, "[1 << 21]byte", ["_ = *p", "r = 1"], "nilderef", []),
    ("bigval-iface", 1, "[1 << 21]byte", ["var e interface{} = *p", "if e != nil { r = 1 }"], "nilderef", []),
    ("arrlen", 1, "[4]int", ["r = len(p)"], "-", []),
    ("arrrange1", 1, "[4]int", ["for i := range p { r += i + 1 }"], "-", []),
    ("arrrange2", 1, "[4]int", ["for i, v := range p { r += i + v + 1 }"], "nilderef", []),
    ("arrslice-full", 2, "[4]int", ["y := p[:]", "r = len(y) + 10"], "nilderef", ["nil-array-slice"]),
    ("arrslice-part", 2, "[4]int", ["y := p[1:3]", "r = len(y) + 10"], "nilderef", ["nil-array-slice"]),
    ("arrslice-empty", 1, "[4]int", ["y := p[0:0]", "r = len(y) + 10"], "nilderef", ["nil-array-slice"]),
    ("mvalue-val", 2, "S", ["f := p.Val", "tr(5)", "r = f()"], "nilderef", []),
    ("mvalue-ptr", 2, "S", ["f := p.Get", "tr(5)", "r = f()"], "nilderef", []),
    ("mcall-val", 2, "S", ["r = p.Val()"], "nilderef", []),
    ("mcall-ptr", 2, "S", ["r = p.Get()"], "nilderef", []),
    ("mexpr-val", 1, "S", ["r = S.Val(*p)"], "nilderef", []),
]


def fam_nilderef(rng, u, avoid):
    forms = list(NIL_FORMS)
    names = [f[0] for f in forms] + ["fieldoff", "fieldoffw", "arridx", "arrw", "iface-call", "iface-mvalue", "embedded", "embedded-call", "nilfunc", "elemptr"]
    weights = [f[1] for f in forms] + [5, 3, 4, 2, 2, 2, 2, 1, 2, 1]
    for _ in range(20):
        name = rng.choices(names, weights)[0]
        tags = []
        u.alt = {}
        T = None
        decl = None
        exp_nil = "nilderef"
        if name == "fieldoff" or name == "fieldoffw":
            off = rng.choice(PAD_OFFS)
            T = "SP%d" % off
            body = ["r = p.x + 1"] if name == "fieldoff" else ["p.x = 3", "r = p.x"]
            if off >= 4096:
                tags.append("nil-large-offset")
            name = "%s-%d" % (name, off)
        elif name in ("arridx", "arrw"):
            n = rng.choice(NILARR)
            T = "[%d]int" % n
            cands = [0, n - 1, n // 2]
            i = rng.choice(cands)
            cst = rng.random() < 0.5
            ie = "%d" % i if cst else "nz(%d)" % i
            body = ["r = p[%s] + 1" % ie] if name == "arridx" else ["p[%s] = 5" % ie, "r = p[%s]" % ie]
            if i * 8 >= 4096:
                tags.append("nil-large-offset")
            name = "%s-%d-%s%d" % (name, n, "c" if cst else "v", i)
        elif name == "iface-call":
            decl = ["var p I", "if c != 0 { p = &S{1, 2} }"]
            body = ["r = p.Get()"]
        elif name == "iface-mvalue":
            decl = ["var p I", "if c != 0 { p = &S{1, 2} }"]
            body = ["f := p.Get", "tr(5)", "r = f()"]
            # go/ssa checks the nil interface of a method value with a type assertion i.(I); llgo words the
            # panic accordingly.  Same event (panic at the evaluation of i.Get), different text.
            u.alt = {"typeassert": "nilderef"}
        elif name == "embedded":
            decl = ["var p O", "if c != 0 { p.S = &S{1, 2} }"]
            body = ["r = p.b"]
        elif name == "embedded-call":
            decl = ["var p O", "if c != 0 { p.S = &S{1, 2} }"]
            body = ["r = p.Get()"]
        elif name == "nilfunc":
            decl = ["var p func() int", "if c != 0 { p = func() int { return 3 } }"]
            body = ["r = p()"]
        elif name == "elemptr":
            decl = ["p := []*S{nil, nil}", "if c != 0 { p[1] = &S{1, 2} }"]
            body = ["r = p[1].b"]
        else:
            f = [x for x in forms if x[0] == name][0]
            T, body, exp_nil, tags = f[2], list(f[3]), f[4], list(f[5])
        if any(t in avoid for t in tags):
            continue
        break
    else:
        name, T, body, exp_nil, tags, decl = "fieldr", "S", ["r = p.b"], "nilderef", [], None
    if decl is None:
        decl = ["var p *%s" % T, "if c != 0 { p = new(%s) }" % T]
    u.params.append(("c", "int"))
    u.setup += decl
    u.body += body
    u.tags += tags
    u.nilsig = exp_nil != "-"
    K = rng.randint(1, 5)
    for _ in range(K):
        c = rng.choice([0, 0, 1])
        u.reps.append((["nz(%d)" % c], exp_nil if c == 0 else "-"))
    u.sig = "nilderef/%s" % name
    u.desc = "nil dereference form %s" % name


def fam_nilmap(rng, u, avoid):
    kt = rng.choice(["int", "string"])
    key = "nz(3)" if kt == "int" else "mkstr(2)"
    form = rng.choices(["assign", "inc", "addassign", "assign-traced", "read", "commaok", "delete", "len", "range"], [4, 2, 2, 3, 1, 1, 1, 1, 1])[0]
    u.params.append(("c", "int"))
    u.setup.append("var m map[%s]int" % kt)
    u.setup.append("if c != 0 { m = map[%s]int{} }" % kt)
    panics = True
    if form == "assign":
        u.body += ["m[%s] = 5" % key, "r = len(m)"]
    elif form == "inc":
        u.body += ["m[%s]++" % key, "r = len(m)"]
    elif form == "addassign":
        u.body += ["m[%s] += tv_int(2, 3)" % key, "r = len(m) + m[%s]" % key]
    elif form == "assign-traced":
        k2 = "tv_int(1, 3)" if kt == "int" else "tvstr(1, mkstr(2))"
        u.body += ["m[%s] = tv_int(2, 5)" % k2, "r = ci(9, len(m))"]
    else:
        panics = False
        if form == "read":
            u.body += ["r = m[%s] + 1" % key]
        elif form == "commaok":
            u.body += ["v, ok := m[%s]" % key, "r = v + b2i(ok) + 1"]
        elif form == "delete":
            u.body += ["delete(m, %s)" % key, "r = len(m) + 1"]
        elif form == "len":
            u.body += ["r = len(m) + 1"]
        else:
            u.body += ["for k, v := range m { _ = k; r += v }", "r++"]
    for _ in range(rng.randint(1, 5)):
        c = rng.choice([0, 0, 1])
        u.reps.append((["nz(%d)" % c], "nilmap" if (c == 0 and panics) else "-"))
    u.sig = "nilmap/%s/%s" % (form, kt)
    u.desc = "nil map %s (key %s)" % (form, kt)


# dynamic values of mkany(c) in the prelude: (go type name, method set)
DYN = {0: (None, ()), 1: ("int", ()), 2: ("string", ()), 3: ("*S", ("Get", "Val")), 4: ("S", ("Val",)), 5: ("T2", ("Get",)),
       6: ("E1", ("Error",)), 7: ("int8", ()), 8: ("*T2", ("Get",)), 9: ("[]int", ())}
TA_TARGETS = {  # target: (is interface, methods needed, result expr using v)
    "int": (False, None, "v"), "string": (False, None, "len(v)"), "*S": (False, None, "v.b"), "S": (False, None, "v.b"),
    "T2": (False, None, "v.v"), "E1": (False, None, "len(string(v))"), "int8": (False, None, "int(v)"), "*T2": (False, None, "v.v"),
    "[]int": (False, None, "len(v)"), "I": (True, ("Get",), "v.Get()"), "J": (True, ("Val",), "v.Val()"),
    "error": (True, ("Error",), "len(v.Error())"), "interface{}": (True, (), "b2i(v != nil)"), "IJ": (True, ("Get", "Val"), "v.Get() + v.Val()"),
}


def fam_typeassert(rng, u, avoid):
    src = rng.choices(["any", "I"], [4, 1])[0]
    target = rng.choice(sorted(TA_TARGETS))
    if src == "I":
        # a concrete target must implement I, otherwise the assertion is a compile error ("impossible type assertion")
        okc = ["*S", "T2", "*T2", "I", "J", "error", "interface{}", "IJ"]
        target = rng.choice(okc)
        dyn_choices = [0, 3, 5, 8]
    else:
        dyn_choices = list(range(10))
    isif, need, rexpr = TA_TARGETS[target]
    commaok = rng.random() < 0.45
    traced = rng.random() < 0.3
    u.params.append(("c", "int"))
    if src == "any":
        u.setup.append("e := mkany(c)")
    else:
        u.setup.append("e := mkI(c)")
    E = "tva(1, e)" if (traced and src == "any") else "e"
    if commaok:
        u.body.append("v, ok := %s.(%s)" % (E, target))
        u.body.append("if ok { r = 100 + %s } else { r = -1 }" % rexpr)
        if not isif and target not in ("[]int",):
            zero = {"int": "v == 0", "string": 'v == ""', "*S": "v == nil", "S": "v == (S{})", "T2": "v == (T2{})", "E1": 'v == ""', "int8": "v == 0", "*T2": "v == nil"}[target]
            u.body.append("if !ok && !(%s) { r = -2 }" % zero)
        elif isif:
            u.body.append("if !ok && v != nil { r = -2 }")
    else:
        u.body.append("v := %s.(%s)" % (E, target))
        u.body.append("r = %s100 + %s" % ("ci(9, 0) + " if traced else "", rexpr))
    # make the matching dynamic value likely
    match = [c for c in dyn_choices if DYN[c][0] is not None and ((not isif and DYN[c][0] == target) or (isif and all(m in DYN[c][1] for m in need)))]
    for _ in range(rng.randint(1, 5)):
        c = rng.choice(match) if (match and rng.random() < 0.5) else rng.choice(dyn_choices)
        ok = c in match
        u.reps.append((["nz(%d)" % c], "-" if (ok or commaok) else "typeassert"))
    u.sig = "typeassert/%s/%s/%s" % (src, target, "ok" if commaok else "1")
    u.desc = "type assertion %s.(%s)%s" % (src, target, " comma-ok" if commaok else "")


def fam_div(rng, u, avoid):
    t = rng.choice(DIV_TYPES)
    op = rng.choice(["/", "%", "/=", "%="])
    lo, hi = ITY[t]
    aconst = rng.random() < 0.3
    bconst = rng.random() < 0.25
    traced = rng.random() < 0.35
    avals = [v for v in [0, 1, 7, -7, lo, hi, 100] if fits(t, v)]
    bnz = [v for v in [1, -1, 2, 3, hi, lo, 10] if fits(t, v) and v != 0]
    a = Opnd("a", t, aconst, rng.choice(avals), traced=1 if traced else 0)
    b = Opnd("b", t, bconst, rng.choice(bnz), traced=2 if traced else 0)
    if aconst and bconst:
        a.const = aconst = False      # fully constant division may be a compile-time overflow error
    if not aconst:
        u.params.append(("a", t))
    if not bconst:
        u.params.append(("b", t))
    ae, be = lit(t, a.cval) if aconst else "a", lit(t, b.cval) if bconst else "b"
    if traced:
        ae, be = "tv_%s(1, %s)" % (t, ae), "tv_%s(2, %s)" % (t, be)
    if op in ("/", "%"):
        u.body.append("q := %s %s %s" % (ae, op, be))
        u.body.append("r = %sint(q)" % ("ci(9, 0) + " if traced else ""))
    else:
        u.body.append("q := %s" % ae)
        u.body.append("q %s %s" % (op, be))
        u.body.append("r = int(q)")
    for _ in range(rng.randint(1, 5)):
        args = []
        if not aconst:
            args.append(var(t, rng.choice(avals)))
        bv = b.cval
        if not bconst:
            bv = 0 if rng.random() < 0.5 else rng.choice(bnz)
            args.append(var(t, bv))
        u.reps.append((args, "divide" if bv == 0 else "-"))
    u.sig = "div/%s/%s/%s%s/t%d" % (t, op, "c" if aconst else "v", "c" if bconst else "v", 1 if traced else 0)
    u.desc = "integer %s on %s" % (op, t)


ELEMS = {"int": 8, "byte": 1, "struct{}": 0, "[24]byte": 24, "[1 << 16]int": 8 << 16}
HUGE = 1 << 56


def size_pool(t, esize, small_cap):
    """(value, class) candidates for a make size of type t: class 'neg' | 'small' | 'huge'"""
    out = []
    for v in [-1, ITY[t][0], 0, 1, 2, 5, 127, 200, 255, 1000, 1 << 62, MAXI, 1 << 63, U64, ITY[t][1]]:
        if not fits(t, v):
            continue
        if v < 0:
            c = "neg"
        elif v <= small_cap:
            c = "small"
        elif v > MAXI or (esize > 0 and v * esize >= HUGE) or (esize == 0 and v >= HUGE):
            c = "huge"
        else:
            continue                   # neither certainly panicking nor certainly cheap
        if (v, c) not in out:
            out.append((v, c))
    return out


def fam_make(rng, u, avoid):
    what = rng.choices(["slice1", "slice2", "map", "chan"], [4, 5, 2, 4])[0]
    traced = rng.random() < 0.3
    if what in ("slice1", "slice2"):
        el = rng.choice(sorted(ELEMS))
        es = ELEMS[el]
        small_cap = 1000 if es <= 24 else 3
        tn, tm = pick_itype(rng), pick_itype(rng)
        n = Opnd("n", tn, rng.random() < 0.3, traced=1 if traced else 0)
        m = Opnd("m", tm, rng.random() < 0.3, traced=2 if traced else 0)
        pn, pm = size_pool(tn, es, small_cap), size_pool(tm, es, small_cap)
        if n.const:
            n.cval = rng.choice([v for v, c in pn if c == "small"])
        if m.const:
            mc_ = [v for v, c in pm if c == "small" and (not n.const or v >= n.cval)]
            if mc_:
                m.cval = rng.choice(mc_)
            else:
                m.const = False
        if what == "slice1":
            u.body.append("y := make([]%s, %s)" % (el, n.expr()))
        else:
            u.body.append("y := make([]%s, %s, %s)" % (el, n.expr(), m.expr()))
        u.body.append("r = %slen(y)%%100003*7 + cap(y)%%100003" % ("ci(9, 0) + " if traced else ""))
        if not n.const:
            u.params.append(("n", tn))
        if what == "slice2" and not m.const:
            u.params.append(("m", tm))
        for _ in range(rng.randint(1, 5)):
            want_in = rng.random() < 0.5
            for attempt in range(10):
                nv, nc = (n.cval, "small") if n.const else rng.choice(pn)
                if what == "slice2":
                    mv, mc = (m.cval, "small") if m.const else rng.choice(pm)
                else:
                    mv, mc = nv, nc
                bad = nc != "small" or mc != "small" or nv > mv
                # zero-size elements: a huge length is fine (no memory), as long as it is an int
                if es == 0:
                    bad = nv < 0 or mv < 0 or nv > MAXI or mv > MAXI or nv > mv
                if bad != want_in:
                    break
            args = []
            if not n.const:
                args.append(var(tn, nv))
            if what == "slice2" and not m.const:
                args.append(var(tm, mv))
            u.reps.append((args, "makeslice" if bad else "-"))
        # make([]T, n, <constant cap>) is lowered by go/ssa to new([cap]T)[:n]; llgo then reports the bad
        # length as a slice-bounds runtime error.  A panic at the same point with a different text.
        u.alt = {"slicebounds": "makeslice"}
        u.sig = "make/%s/%s/%s%s,%s%s/t%d" % (what, el, tn, "c" if n.const else "v", tm if what == "slice2" else "", ("c" if m.const else "v") if what == "slice2" else "", 1 if traced else 0)
        u.desc = "make([]%s, %s%s)" % (el, tn, ", " + tm if what == "slice2" else "")
    elif what == "map":
        tn = pick_itype(rng)
        u.params.append(("n", tn))
        u.body.append("y := make(map[int]int, %s)" % ("tv_%s(1, n)" % tn if traced else "n"))
        u.body.append("y[1] = 2")
        u.body.append("r = len(y)")
        pn = size_pool(tn, 16, 1000)
        for _ in range(rng.randint(1, 4)):
            nv, nc = rng.choice(pn)
            u.reps.append(([var(tn, nv)], "-"))      # a map size hint never panics
        u.sig = "make/map/%s/t%d" % (tn, 1 if traced else 0)
        u.desc = "make(map[int]int, %s)" % tn
    else:
        el = rng.choice(["int", "struct{}", "[100]int"])
        es = {"int": 8, "struct{}": 0, "[100]int": 800}[el]
        tn = pick_itype(rng)
        if "makechan-narrow" in avoid:
            tn = rng.choice(["int", "int64", "uint64", "uintptr"])
        u.params.append(("n", tn))
        u.body.append("y := make(chan %s, %s)" % (el, "tv_%s(1, n)" % tn if traced else "n"))
        u.body.append("r = cap(y)%100003 + 1")
        u.body.append("if cap(y) > 0 { var z %s; y <- z; r += 10 * len(y) }" % el)
        pn = size_pool(tn, max(es, 1), 1000)
        if es == 0:
            pn = [(v, c) for v, c in pn if c != "huge"]     # zero-size elements: implementation limits differ, not mandated
        smalls = [(v, c) for v, c in pn if c == "small"]
        for _ in range(rng.randint(1, 5)):
            nv, nc = rng.choice(pn)
            if "makechan-range" in avoid or rng.random() < 0.4:
                nv, nc = rng.choice(smalls)
            u.reps.append(([var(tn, nv)], "-" if nc == "small" else "makechan"))
        if "makechan-range" not in avoid:
            u.tags.append("makechan-range")
        u.sig = "make/chan/%s/%s/t%d" % (el, tn, 1 if traced else 0)
        u.desc = "make(chan %s, %s)" % (el, tn)


def fam_s2a(rng, u, avoid):
    N = rng.choice([0, 1, 3, 8])
    ptr = rng.random() < 0.5
    u.params += [("l", "int"), ("k", "int")]
    u.setup.append("var s []int")
    u.setup.append("if k >= 0 { s = mkints(l, k) }")
    S_ = "tvs(1, s)" if rng.random() < 0.3 else "s"
    if ptr:
        u.body.append("a := (*[%d]int)(%s)" % (N, S_))
        if N > 0:
            u.body.append("a[0] = 99")
            u.body.append("r = s[0] + a[%d] + 1" % (N - 1))
        else:
            u.body.append("r = b2i(a == nil) + 1")
    else:
        u.body.append("a := [%d]int(%s)" % (N, S_))
        if N > 0:
            u.body.append("a[0] += 5")
            u.body.append("r = s[0] + a[0] + a[%d] + 1" % (N - 1))
        else:
            u.body.append("r = len(a) + 1")
    for _ in range(rng.randint(1, 5)):
        l = rng.choice([0, max(N - 1, 0), N, N, N + 1, N + 4])
        k = l + rng.choice([0, 0, 3, 9])
        if rng.random() < 0.15:
            l, k = 0, -1            # nil slice
        u.reps.append((["nz(%d)" % l, "nz(%d)" % k], "-" if l >= N else "slice2array"))
    u.sig = "s2a/%s/%d" % ("ptr" if ptr else "arr", N)
    u.desc = "slice to %s conversion, N=%d" % ("array pointer" if ptr else "array", N)


def fam_chan(rng, u, avoid):
    misuse_ok = "chan-misuse" not in avoid
    forms = ["send-buf", "close", "sel-default", "sel-one", "sel-two", "recv-closed", "drain"]
    weights = [4, 4, 3, 2, 3, 2, 2]
    if misuse_ok:
        forms += ["closenil", "send-unbuf-closed", "blocked-buf", "blocked-unbuf"]
        weights += [3, 2, 3, 2]
    form = rng.choices(forms, weights)[0]
    u.params.append(("c", "int"))
    always = False      # True: every rep is a misuse (no in-range variant of this form)
    cls = None
    if form == "send-buf":
        u.setup += ["ch := make(chan int, 2)", "if c != 0 { close(ch) }"]
        u.body += ["ch <- tv_int(1, 5)", "r = ci(9, len(ch))"]
        cls = "sendclosed"
    elif form == "close":
        u.setup += ["ch := make(chan int, 1)", "if c != 0 { close(ch) }"]
        u.body += ["close(ch)", "_, ok := <-ch", "r = 1 + b2i(ok)"]
        cls = "closeclosed"
    elif form == "closenil":
        u.setup += ["var ch chan int", "if c == 0 { ch = make(chan int) }"]
        u.body += ["close(ch)", "r = 1"]
        cls = "closenil"
        u.nilsig = True       # llgo currently reports this through SIGSEGV
    elif form == "sel-default":
        u.setup += ["ch := make(chan int, 1)", "if c != 0 { close(ch) }"]
        u.body += ["select {", "case ch <- tv_int(1, 5):", "\tr = 1", "default:", "\tr = 2", "}"]
        cls = "sendclosed"
    elif form == "sel-one":
        u.setup += ["ch := make(chan int, 1)", "if c != 0 { close(ch) }"]
        u.body += ["select {", "case ch <- 5:", "\tr = 1", "}"]
        cls = "sendclosed"
    elif form == "sel-two":
        u.setup += ["ch := make(chan int, 1)", "other := make(chan int, 1)", "if c != 0 { close(ch) }"]
        u.body += ["select {", "case ch <- 5:", "\tr = 1", "case v := <-other:", "\tr = 2 + v", "}"]
        cls = "sendclosed"
    elif form == "send-unbuf-closed":
        u.setup += ["ch := make(chan int)", "close(ch)"]
        u.body += ["ch <- tv_int(1, 5)", "r = 1"]
        cls, always = "sendclosed", True
    elif form == "blocked-buf":
        u.setup += ["ch := make(chan int, 1)", "ch <- 1", "go func() { spin(); close(ch) }()"]
        u.body += ["ch <- tv_int(1, 2)", "r = 1"]
        cls, always = "sendclosed", True
        u.helper = True
    elif form == "blocked-unbuf":
        u.setup += ["ch := make(chan int)", "go func() { spin(); close(ch) }()"]
        u.body += ["ch <- tv_int(1, 2)", "r = 1"]
        cls, always = "sendclosed", True
        u.helper = True
    elif form == "recv-closed":
        u.setup += ["ch := make(chan int, 1)", "if c != 0 { ch <- 7 }", "close(ch)"]
        u.body += ["v, ok := <-ch", "r = v*2 + b2i(ok) + 1"]
    else:
        u.setup += ["ch := make(chan int, 3)", "ch <- 4", "ch <- 5", "if c != 0 { close(ch) }"]
        u.body += ["r = len(ch) * 100", "for len(ch) > 0 { r += <-ch }"]
    if cls is not None:
        u.tags.append("chan-misuse")
    for _ in range(rng.randint(1, 4)):
        c = 1 if always else rng.choice([0, 1])
        if cls is not None and not misuse_ok:
            c = 0
        u.reps.append((["nz(%d)" % c], cls if (cls is not None and (c != 0 or always)) else "-"))
    u.sig = "chan/%s" % form
    u.desc = "channel form %s" % form


def fam_sweep(rng, u, avoid):
    kind = rng.choice(["slice", "string", "parray", "reslice"])
    t = rng.choice(["int", "int8", "uint8", "int64"])
    L = rng.choice([1, 3, 5])
    C = L + rng.choice([0, 2])
    down = rng.random() < 0.4 and ITY[t][0] < 0 and kind != "reslice"
    u.params.append(("n", "int"))      # how far the sweep goes
    if kind == "slice":
        u.setup.append("x := mkints(%d, %d)" % (L, C))
    elif kind == "string":
        u.setup.append("x := mkstr(%d)" % L)
    elif kind == "parray":
        u.setup.append("x := new([%d]int)" % L)
    else:
        u.setup.append("x := mkints(%d, %d)" % (L, C))
    if kind == "reslice":
        u.body += ["for i := %s(0); int(i) <= n; i++ {" % t, "\ttr(int(i))", "\ty := x[:i]", "\tr += len(y)", "}"]
        limit = C
        first_bad = C + 1
    elif down:
        u.body += ["for i := %s(n); i >= -2; i-- {" % t, "\ttr(int(i) + 10)", "\tr += int(x[i])", "}"]
        limit = None
    else:
        u.body += ["for i := %s(0); int(i) <= n; i++ {" % t, "\ttr(int(i))", "\tr += int(x[i])", "}"]
        first_bad = L
    for _ in range(rng.randint(1, 4)):
        if down:
            n = rng.choice([0, L - 1, L - 1, L])
            u.reps.append((["nz(%d)" % n], "index"))        # always ends below zero (or starts above len-1)
        else:
            n = rng.choice([first_bad - 2, first_bad - 1, first_bad, first_bad + 1])
            n = max(n, 0)
            u.reps.append((["nz(%d)" % n], ("slicebounds" if kind == "reslice" else "index") if n >= first_bad else "-"))
    u.sig = "sweep/%s/%s/%s" % (kind, t, "down" if down else "up")
    u.desc = "loop sweeping an index across the bound (%s, %s)" % (kind, t)


def fam_negshift(rng, u, avoid):
    ta = rng.choice(["int", "uint8", "int32", "uint64"])
    tb = rng.choice(["int", "int8", "int64"])
    op = rng.choice(["<<", ">>"])
    u.params += [("a", ta), ("b", tb)]
    u.body.append("q := a %s b" % op)
    u.body.append("r = int(q)")
    for _ in range(rng.randint(1, 4)):
        bv = rng.choice([-1, ITY[tb][0], 0, 1, 7, 100])
        u.reps.append(([var(ta, rng.choice([1, 5, ITY[ta][1]])), var(tb, bv)], "negshift" if bv < 0 else "-"))
    u.sig = "negshift/%s/%s/%s" % (ta, tb, op)
    u.desc = "shift %s %s %s with possibly negative count" % (ta, op, tb)


FAM_FN = {"index": fam_index, "slice": fam_slice, "nilderef": fam_nilderef, "nilmap": fam_nilmap, "typeassert": fam_typeassert,
          "div": fam_div, "make": fam_make, "s2a": fam_s2a, "chan": fam_chan, "sweep": fam_sweep, "negshift": fam_negshift}

# "h*" placements run the unit's closure through a shared harness function of the prelude (cheap to compile: one
# closure per unit); the others spell the frame out inside the unit (op lexically inside a loop body / closure /
# deferred function literal / go statement) and cost about three times as much code.
PLACES = [("hseq", 10), ("hdefer", 5), ("hgo", 6), ("hgodefer", 2), ("hnest", 2),
          ("seq", 1), ("loop", 1), ("closure", 1), ("defer", 1), ("go", 1), ("loopdefer", 1)]
GO_PLACES = ("go", "hgo", "hgodefer")


def make_unit(rng, avoid, fam=None):
    fam = fam or rng.choices([f for f, _ in FAMILIES], [w for _, w in FAMILIES])[0]
    u = Unit(fam)
    FAM_FN[fam](rng, u, avoid)
    u.place = rng.choices([p for p, _ in PLACES], [w for _, w in PLACES])[0]
    if u.helper and u.place in GO_PLACES:
        u.place = "hseq"
    if u.nilsig and "sigsegv-twice" in avoid and u.place not in GO_PLACES:
        # one signal-based fault per thread at most: every rep in its own fresh goroutine, started by a clean thread
        u.place = "hgo"
    u.sig += "/" + u.place
    return u


# ---------------------------------------------------------------- rendering

def render_unit(u, uid):
    o = []
    w = o.append
    w("func u%d() {" % uid)
    w("\tprintln(\"U\", %d)" % uid)
    if u.place.startswith("h"):
        K = len(u.reps)
        for pi, (n, t) in enumerate(u.params):
            w("\ttab%d := [%d]%s{%s}" % (pi, K, t, ", ".join(r[0][pi] for r in u.reps)))
        w("\trun_%s(%d, func(rep int) int {" % (u.place[1:], K))
        for pi, (n, t) in enumerate(u.params):
            w("\t\t%s := tab%d[rep]" % (n, pi))
            w("\t\t_ = %s" % n)
        for st in u.setup:
            w("\t\t" + st)
        w("\t\tr := 0")
        for st in u.body:
            w("\t\t" + st)
        w("\t\treturn r")
        w("\t})")
        w("}")
        return "\n".join(o)
    ps = "".join(", %s %s" % (n, t) for n, t in u.params)
    w("\tinner := func(rep int%s) {" % ps)
    w("\t\tdefer func() { rp(recover()) }()")
    for n, t in u.params:
        w("\t\t_ = %s" % n)
    for s in u.setup:
        w("\t\t" + s)
    w("\t\tr := 0")
    body = list(u.body)
    if u.place in ("defer", "loopdefer"):
        w("\t\tdefer func() {")
        w("\t\t\tprintln(\"B\", rep)")
        for s in body:
            w("\t\t\t" + s)
        w("\t\t\tprintln(\"A\", r)")
        w("\t\t}()")
        w("\t\tprintln(\"D\", rep)")
    elif u.place == "closure":
        w("\t\tprintln(\"B\", rep)")
        w("\t\tf9 := func() int {")
        for s in body:
            w("\t\t\t" + s)
        w("\t\t\treturn r")
        w("\t\t}")
        w("\t\tr2 := f9()")
        w("\t\tprintln(\"A\", r2)")
    else:
        w("\t\tprintln(\"B\", rep)")
        for s in body:
            w("\t\t" + s)
        w("\t\tprintln(\"A\", r)")
    w("\t}")
    K = len(u.reps)
    if u.place in ("loop", "loopdefer") and u.params:
        for pi, (n, t) in enumerate(u.params):
            w("\ttab%d := [%d]%s{%s}" % (pi, K, t, ", ".join(r[0][pi] for r in u.reps)))
        w("\tfor rep := 0; rep < %d; rep++ {" % K)
        w("\t\tinner(rep%s)" % "".join(", tab%d[rep]" % pi for pi in range(len(u.params))))
        w("\t}")
    elif u.place == "go":
        for ri, (args, _) in enumerate(u.reps):
            w("\t{")
            w("\t\tdone := make(chan int, 1)")
            w("\t\tgo func() {")
            w("\t\t\tdefer func() { done <- 1 }()")
            w("\t\t\tinner(%d%s)" % (ri, "".join(", " + a for a in args)))
            w("\t\t}()")
            w("\t\t<-done")
            w("\t}")
    else:
        for ri, (args, _) in enumerate(u.reps):
            w("\tinner(%d%s)" % (ri, "".join(", " + a for a in args)))
    w("}")
    return "\n".join(o)


def prelude():
    o = ["package main", ""]
    w = o.append
    w("type S struct{ a, b int }")
    w("func (s *S) Get() int { return s.b }")
    w("func (s S) Val() int  { return s.b + 1 }")
    w("type I interface{ Get() int }")
    w("type J interface{ Val() int }")
    w("type IJ interface {")
    w("\tGet() int")
    w("\tVal() int")
    w("}")
    w("type T2 struct{ v int }")
    w("func (t T2) Get() int { return t.v }")
    w("type E1 string")
    w("func (e E1) Error() string { return string(e) }")
    w("type O struct {")
    w("\t*S")
    w("\tn int")
    w("}")
    for off in PAD_OFFS:
        w("type SP%d struct {" % off)
        w("\tpad [%d]byte" % off)
        w("\tx   int")
        w("}")
    w('const cs5 = "abcde"')
    w("")
    w("//go:noinline")
    w("func nz(x int) int { return x }")
    w("//go:noinline")
    w("func nu(x uint64) uint64 { return x }")
    w("func tr(k int) { println(\"T\", k) }")
    w("func ci(k int, v int) int { println(\"T\", k); return v }")
    for t in sorted(ITY):
        w("func tv_%s(k int, v %s) %s { println(\"T\", k); return v }" % (t, t, t))
    w("func tvs(k int, s []int) []int { println(\"T\", k); return s }")
    w("func tvp(k int, p *S) *S { println(\"T\", k); return p }")
    w("func tvstr(k int, s string) string { println(\"T\", k); return s }")
    w("func tva(k int, e interface{}) interface{} { println(\"T\", k); return e }")
    w("func b2i(b bool) int { if b { return 1 }; return 0 }")
    w("func fa3() [3]int { return [3]int{1, 8, 15} }")
    w("var spun int")
    w("func spin() { for i := 0; i < 20000; i++ { spun += i & 1 } }")
    w("func mkints(n, c int) []int {")
    w("\tx := make([]int, c)")
    w("\tfor j := range x { x[j] = j*7 + 1 }")
    w("\treturn x[:n]")
    w("}")
    w("func mkstr(n int) string {")
    w("\tb := make([]byte, n)")
    w("\tfor j := range b { b[j] = byte('a' + j%26) }")
    w("\treturn string(b)")
    w("}")
    w("func sumints(x []int) int { r := len(x); for _, v := range x { r = r*3 + v }; return r }")
    w("func sumbytes(x []byte) int { r := len(x); for _, v := range x { r = r*3 + int(v) }; return r }")
    w("func mkany(c int) interface{} {")
    w("\tswitch c {")
    w("\tcase 1: return 5")
    w("\tcase 2: return \"str\"")
    w("\tcase 3: return &S{1, 2}")
    w("\tcase 4: return S{3, 4}")
    w("\tcase 5: return T2{6}")
    w("\tcase 6: return E1(\"err\")")
    w("\tcase 7: return int8(9)")
    w("\tcase 8: return &T2{7}")
    w("\tcase 9: return []int{1, 2}")
    w("\t}")
    w("\treturn nil")
    w("}")
    w("func mkI(c int) I {")
    w("\tswitch c {")
    w("\tcase 3: return &S{1, 2}")
    w("\tcase 5: return T2{6}")
    w("\tcase 8: return &T2{7}")
    w("\t}")
    w("\treturn nil")
    w("}")
    w("func one(rep int, f func(int) int) {")
    w("\tdefer func() { rp(recover()) }()")
    w("\tprintln(\"B\", rep)")
    w("\tr := f(rep)")
    w("\tprintln(\"A\", r)")
    w("}")
    w("func oneDefer(rep int, f func(int) int) {")
    w("\tdefer func() { rp(recover()) }()")
    w("\tdefer func() {")
    w("\t\tprintln(\"B\", rep)")
    w("\t\tr := f(rep)")
    w("\t\tprintln(\"A\", r)")
    w("\t}()")
    w("\tprintln(\"D\", rep)")
    w("}")
    w("func nest(d int, rep int, f func(int) int) int {")
    w("\tif d > 0 { return nest(d-1, rep, f) + 0 }")
    w("\tg := func() int { return f(rep) }")
    w("\treturn g()")
    w("}")
    w("func run_seq(n int, f func(int) int) { for rep := 0; rep < n; rep++ { one(rep, f) } }")
    w("func run_defer(n int, f func(int) int) { for rep := 0; rep < n; rep++ { oneDefer(rep, f) } }")
    w("func run_nest(n int, f func(int) int) {")
    w("\tfor rep := 0; rep < n; rep++ { one(rep, func(r int) int { return nest(3, r, f) }) }")
    w("}")
    w("func inGo(g func()) {")
    w("\tdone := make(chan int, 1)")
    w("\tgo func() {")
    w("\t\tdefer func() { done <- 1 }()")
    w("\t\tg()")
    w("\t}()")
    w("\t<-done")
    w("}")
    w("func run_go(n int, f func(int) int) { for rep := 0; rep < n; rep++ { inGo(func() { one(rep, f) }) } }")
    w("func run_godefer(n int, f func(int) int) { for rep := 0; rep < n; rep++ { inGo(func() { oneDefer(rep, f) }) } }")
    w("func rp(r interface{}) {")
    w("\tif r == nil { println(\"P -\"); return }")
    w("\tswitch v := r.(type) {")
    w("\tcase error: println(\"P\", v.Error())")
    w("\tcase string: println(\"P\", v)")
    w("\tdefault: println(\"P ?\")")
    w("\t}")
    w("}")
    w("")
    return "\n".join(o)


def render_program(units, ids=None):
    """units: list of Unit; ids: which to include (default all)"""
    ids = list(range(len(units))) if ids is None else ids
    parts = [prelude()]
    for i in ids:
        parts.append(render_unit(units[i], i))
    parts.append("func main() {")
    for i in ids:
        parts.append("\tu%d()" % i)
    parts.append("\tprintln(\"END\")")
    parts.append("}")
    return "\n".join(parts) + "\n"


def generate(seed, prog, nunits, avoid=()):
    """-> list of Unit for program number `prog` of this seed"""
    rng = random.Random(seed * 7919 + prog * 104729 + 17)
    avoid = list(avoid)
    return [make_unit(rng, avoid) for _ in range(nunits)]


if __name__ == "__main__":
    import sys
    seed = int(sys.argv[1]) if len(sys.argv) > 1 else 1
    n = int(sys.argv[2]) if len(sys.argv) > 2 else 50
    av = sys.argv[3].split(",") if len(sys.argv) > 3 and sys.argv[3] else []
    us = generate(seed, 0, n, av)
    sys.stdout.write(render_program(us))

"""C12 fixed probe programs (independent of the seed; run first on every run).

programs(heavy) -> [(name, files, meta)] with the same meta layout as c12_initgraph.generate.
Event labels are extracted from the sources ("@ <pkg-id> <label>" string literals), so a probe is just Go source.
"""
import re
import c12_initgraph as G

LG = '''func %(q)slg(l string, v int) int {
	println(l, v)
	return v
}

func %(q)sbi(b bool) int {
	if b {
		return 1
	}
	return 0
}
'''


def mk(name, module, main_dir, spec, features):
    """spec: [(dir, pkgname, {file: src}, [imported idx], live)], last one is main"""
    files = {"go.mod": "module %s\n\ngo 1.24\n" % module}
    n = len(spec)
    reach = [set() for _ in range(n)]
    pk = []
    mlabels = []
    for i, (d, pname, fs, imps, live) in enumerate(spec):
        for j in imps:
            reach[i].add(j)
            reach[i] |= reach[j]
        labels = []
        for fn in sorted(fs):
            files[(d + "/" if d else "") + fn] = fs[fn]
            for m in re.finditer(r'"@ (p\d+|M) (\S+?)"', fs[fn]):
                if m.group(1) == "M":
                    mlabels.append(m.group(2))
                else:
                    assert m.group(1) == "p%d" % i, (name, fn, m.group(0))
                    labels.append(m.group(2))
        pk.append({"id": "p%d" % i, "dir": d, "name": pname, "files": sorted(fs), "imports": [[j, "plain"] for j in imps],
                   "closure": sorted(reach[i]), "live": live, "labels": labels, "cond_labels": [], "features": [], "blank_std": []})
    meta = {"seed": 0, "index": -1, "module": module, "main_pkg": "./" + main_dir if main_dir else ".", "shape": "fixed:" + name,
            "npkgs": n, "orphan": -1, "diamond_pairs": 1, "pkgs": pk, "main_labels": mlabels, "features": features,
            "sig": "fixed:" + name}
    return name, files, meta


def diamond():
    """diamond bottom <- left,right <- main; every node uses the patched sync/atomic; an orphan package stays silent"""
    def node(i, pname, imports, body):
        imp = "".join('\t%s"fx/%s"\n' % ("_ " if x == "side" else "", x) for x in imports)
        return ("package %s\n\nimport (\n\t\"sync/atomic\"\n%s)\n\n" % (pname, imp)) + LG % {"q": "p%d" % i} + body
    # the bottom of the diamond imports nothing at all (its run-once flag is all that protects it from a second run)
    bottom = "package bottom\n\n" + LG % {"q": "p0"} + '''var cnt int

var B = p0lg("@ p0 v.B", bump(5))

func bump(n int) int { cnt += n; return cnt }

func Peek() int { return cnt }

func init() { p0lg("@ p0 i.1", B) }
func init() { B += 100; p0lg("@ p0 i.2", B) }
'''
    left = node(1, "left", ["bottom"], '''var lc atomic.Int32

var L = p1lg("@ p1 v.L", bottom.B+bottom.Peek()+int(lc.Add(1)))

func init() { p1lg("@ p1 i.1", L) }
''')
    right = node(2, "right", ["bottom"], '''var rc atomic.Uint32

var R = p2lg("@ p2 v.R", bottom.B+bottom.Peek()+int(rc.Add(2)))

func init() { p2lg("@ p2 i.1", R) }
''')
    orphan = "package orphan\n\nfunc lg(l string, v int) int {\n\tprintln(l, v)\n\treturn v\n}\n\nvar O = lg(\"@ p3 v.O\", 1)\n\nfunc init() { lg(\"@ p3 i.1\", O) }\n"
    side = "package side\n\nfunc lg(l string, v int) int {\n\tprintln(l, v)\n\treturn v\n}\n\nvar S = lg(\"@ p4 v.S\", 1)\n\nfunc init() { lg(\"@ p4 i.1\", S) }\n"
    main = node(5, "main", ["right", "side", "left"], '''var mc atomic.Int32

var m1 = p5lg("@ p5 v.m1", m2+1)
var m2 = p5lg("@ p5 v.m2", left.L+right.R+int(mc.Add(3)))

func init() { p5lg("@ p5 i.1", m1) }

func main() { println("@ M main.main", m1+m2) }
''')
    return mk("diamond", "fx", "", [("bottom", "bottom", {"b.go": bottom}, [], True), ("left", "left", {"l.go": left}, [0], True),
                                    ("right", "right", {"r.go": right}, [0], True), ("orphan", "orphan", {"o.go": orphan}, [], False),
                                    ("side", "side", {"s.go": side}, [], True),
                                    ("", "main", {"main.go": main}, [2, 4, 1], True)], ["fixed:diamond", "std:atomic", "orphan-package", "import:blank"])


def fileorder():
    """init functions run in file-name order (byte order: B.go < a.b.go < a.go < a1.go < a_1.go) and declaration order;
    variables: declaration order across files adjusted for dependencies (also through a method called init and a hidden interface read)"""
    f = {}
    f["a.go"] = "package fo\n\n" + LG % {"q": "p0"} + '''
var A1 = p0lg("@ p0 v.A1", Z9+1) // depends on a variable of a later file

func init() { p0lg("@ p0 i.a#1", A1) }
func init() { p0lg("@ p0 i.a#2", A1) }
'''
    f["B.go"] = '''package fo

var B1 = p0lg("@ p0 v.B1", hv.hget()) // hidden read of X5 (not initialised yet: 0)
var X5 = p0lg("@ p0 v.X5", 5)

type hI interface{ hget() int }
type hT struct{}

func (hT) hget() int { return X5 }

var hv hI = hT{}

func init() { p0lg("@ p0 i.B#1", B1+X5) }
'''
    f["a.b.go"] = '''package fo

type tt struct{ n int }

func (t tt) init() int { return t.n + Q2 }

var Q1 = p0lg("@ p0 v.Q1", tt{1}.init()) // through a method named init
var Q2 = p0lg("@ p0 v.Q2", 7)

func init() { p0lg("@ p0 i.a.b#1", Q1+Q2) }
'''
    f["a1.go"] = '''package fo

var Y, Z9 = pair()

func pair() (int, int) { return p0lg("@ p0 v.Y", 2), p0lg("@ p0 v.Z9", 9) }

func init() { p0lg("@ p0 i.a1#1", Y+Z9) }
'''
    f["a_1.go"] = '''package fo

var W = p0lb("@ p0 v.W.l", A1 > 100) || p0lb("@ p0 v.W.r", Q1 > 0)

func p0lb(l string, v bool) bool {
	println(l, p0bi(v))
	return v
}

func init() { defer p0lg("@ p0 i.a_1#1.defer", 1); p0lg("@ p0 i.a_1#1", p0bi(W)) }
func init() { p0lg("@ p0 i.a_1#2", 0) }

func F() int { return A1 + B1 + Q1 + Y + Z9 + p0bi(W) }
'''
    main = 'package main\n\nimport "fx2/fo"\n\nfunc init() { println("@ p1 i.1", fo.F()) }\n\nfunc main() { println("@ M main.main", fo.A1) }\n'
    return mk("fileorder", "fx2", "cmd/app", [("fo", "fo", f, [], True), ("cmd/app", "main", {"main.go": main}, [0], True)],
              ["fixed:fileorder", "dep:hidden-iface", "dep:initmethod", "init:multi-block"])


def stdall(heavy):
    """all std probes of the generator spread over a diamond (p0 <- p1,p2 <- main), identity probes saved in p0 and
    compared again in every importer: a std package initialised twice or not at all shows in the logged values"""
    probes = [s for s in G.STD_PROBES if s[5] <= heavy]
    ids = [s for s in G.ID_PROBES if s[4] <= heavy]
    srcs = []
    for i in range(4):
        q = "p%d" % i
        imps = []
        body = LG % {"q": q}
        k = 0
        for n, s in enumerate(probes):
            if n % 4 != i and not (i == 3 and n % 5 == 0):
                continue
            k += 1
            m = {"u": "%sS%d" % (q, k), "bi": q + "bi"}
            for x in s[1]:
                if x not in imps:
                    imps.append(x)
            body += (s[2] % m) + "\nvar %sv%d = %slg(\"@ %s v.std.%s\", %s)\n\n" % (q, k, q, q, s[0], s[3] % m)
        if i == 0:
            for s in ids:
                for x in s[1]:
                    if x not in imps:
                        imps.append(x)
                body += "var Saved%s %s = %s\n\nfunc Same%s() int { return p0bi(Saved%s == %s) }\n\n" % (s[0], s[2], s[3], s[0], s[0], s[3])
            body += "func init() { p0lg(\"@ p0 i.1\", %s) }\n" % ("+".join("Same%s()" % s[0] for s in ids) or "0")
        else:
            body += "func init() { %slg(\"@ %s i.1\", %s) }\n" % (q, q, "+".join("base.Same%s()" % s[0] for s in ids) or "0")
        user = []
        if i in (1, 2):
            user = ["fx3/base"]
        if i == 3:
            user = ["fx3/base", "fx3/one", "fx3/two"]
            body += "\nfunc main() { println(\"@ M main.main\", one.N+two.N+%s) }\n" % ("+".join("base.Same%s()" % s[0] for s in ids) or "0")
        if i in (1, 2):
            body += "\nvar N = %slg(\"@ %s v.N\", %d)\n" % (q, q, i)
        pname = ["base", "one", "two", "main"][i]
        src = "package %s\n\nimport (\n%s)\n\n%s" % (pname, "".join('\t"%s"\n' % x for x in imps + user), body)
        srcs.append(src)
    return mk("stdall%d" % heavy, "fx3", "", [("base", "base", {"base.go": srcs[0]}, [], True), ("one", "one", {"one.go": srcs[1]}, [0], True),
                                              ("two", "two", {"two.go": srcs[2]}, [0], True), ("", "main", {"main.go": srcs[3]}, [0, 1, 2], True)],
              ["fixed:stdall"] + ["std:" + s[0] for s in probes + ids])


def samename():
    """one package imports several packages that share a package *name* (user sync/atomic next to the real one, v1/util and v2/util)"""
    def leaf(i, pname, val):
        return "package %s\n\n" % pname + LG % {"q": "p%d" % i} + "var V = p%dlg(\"@ p%d v.V\", %d)\n\nfunc init() { p%dlg(\"@ p%d i.1\", V+1) }\n" % (i, i, val, i, i)
    main = '''package main

import (
	"sync/atomic"

	u1 "fx4/v1/util"
	u2 "fx4/v2/util"
	ua "fx4/sync/atomic"
	"fx4/unique"
	stdunique "unique"
)

''' + LG % {"q": "p4"} + '''var c atomic.Int32

var m = p4lg("@ p4 v.m", u1.V+u2.V+ua.V+unique.V+int(c.Add(1))+p4bi(stdunique.Make("a") == stdunique.Make("a")))

func init() { p4lg("@ p4 i.1", m) }

func main() { println("@ M main.main", m) }
'''
    return mk("samename", "fx4", "", [("v1/util", "util", {"u.go": leaf(0, "util", 10)}, [], True), ("v2/util", "util", {"u.go": leaf(1, "util", 20)}, [], True),
                                      ("sync/atomic", "atomic", {"a.go": leaf(2, "atomic", 30)}, [], True), ("unique", "unique", {"q.go": leaf(3, "unique", 40)}, [], True),
                                      ("", "main", {"main.go": main}, [0, 1, 2, 3], True)], ["fixed:samename", "std:atomic", "std:unique"])


def genmethod():
    """PROBE of finding C12-generic-method-dep.  The initialiser of A reaches B only through a method of an instantiated generic
    type (call, method value, method expression).  By the spec that is a reference to the method, hence a dependency: B, D, F are
    initialised first.  go/types (and gc's types2) drop the dependency because the instantiated method object is not a
    package-level object.  G/H is the control: the same through a generic *function* is ordered correctly.
    meta["spec_seq"] is the order the language specification requires; the oracle of this probe is the spec, not the reference."""
    src = "package gm\n\n" + LG % {"q": "p0"} + '''type box[T int | uint] struct{ v T }

func (b box[T]) getB() int { return int(b.v) + B }
func (b box[T]) getD() int { return int(b.v) + D }
func (b box[T]) getF() int { return int(b.v) + F }

func gfun[T int | uint](x T) int { return int(x) + H }

var A = p0lg("@ p0 v.A", box[uint]{v: 1}.getB()) // method call
var B = p0lg("@ p0 v.B", 5)

var mv = box[int]{v: 2}.getD // method value
var C = p0lg("@ p0 v.C", mv())
var D = p0lg("@ p0 v.D", 7)

var E = p0lg("@ p0 v.E", box[int].getF(box[int]{v: 3})) // method expression
var F = p0lg("@ p0 v.F", 9)

var G = p0lg("@ p0 v.G", gfun[int](4)) // control: generic function
var H = p0lg("@ p0 v.H", 11)

func Sum() int { return A + C + E + G }
'''
    main = 'package main\n\nimport "fx5/gm"\n\nfunc main() { println("@ M main.main", gm.Sum()) }\n'
    name, files, meta = mk("genmethod", "fx5", "", [("gm", "gm", {"gm.go": src}, [], True), ("", "main", {"main.go": main}, [0], True)],
                           ["probe:generic-method-dep", "dep:generictype"])
    meta["finding"] = "C12-generic-method-dep"
    meta["spec_seq"] = {"p0": [["v.B", "5"], ["v.A", "6"], ["v.D", "7"], ["v.C", "9"], ["v.F", "9"], ["v.E", "12"], ["v.H", "11"], ["v.G", "15"]],
                        "M": [["main.main", "42"]]}
    return name, files, meta


def probes():
    """fixed probes of open/fixed findings (run first on every run)"""
    return [genmethod()]


def programs(heavy=1):
    return [stdall(max(1, heavy)), diamond(), fileorder(), samename()]

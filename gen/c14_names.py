"""C14 generator: println-only multi-package naming-stress programs.

One program = one Go module `<mod>` with the packages
    t        trace helpers (Want / Hit / Done / Arm / Join / Ok / Eq / End)
    g, sub/g two packages, both *named* g, with the same generic origins F, F2, Box, K, G[X] (+ methods M, P)
    pa, pb, sub/pa   three "leaf" packages (two of them named pa) that declare the SAME names:
             types T (struct) and U (array) with methods A, M, Z (value receiver) and P (pointer receiver),
             interfaces I (different method sets per package, so the method index of M differs),
             generic origins F, F2, G[X] (same names as in g), package variables V, W, W2, W3 (closures created in
             a variable initialiser and in two init functions), a host type H with methods R0 (value) / R1 (pointer)
    ca       (only in "C" programs) LLGoFiles C file in a sub-directory, //go:linkname to C functions and a C variable,
             //export'ed Go functions called back from C, Go->Go linkname pulls, decoy Go functions that carry the
             bare exported / C names
    main     call sites over everything

Every entity (function, method, closure, generic instance, closure of an instance) starts with t.Hit(<its id>) and every call
site says t.Want(<expected id>) immediately before the call; output must therefore be a sequence of `W n` / `H n` pairs.
Ids of non-generic entities are literals; the id of a generic instance is  BASE + Sizeof(type argument)*1000  and every named
type of one program (package-level and function-local) has its own size, so two instances that were wrongly merged print the
wrong id.  go/ssa folds the Sizeof in the instantiated body, therefore the literal id is also visible in the IR of every body.

Call modes: direct, method value (`$bound`), method expression, through an interface, interface method value / expression
(`$bound` / `$thunk`), `go` (joined through a channel in package t) and `defer`, each also on method values; closures nested
1-3 deep (called, stored, spawned, deferred) in functions, methods, generic functions and generic methods; local types named
L or T (shadowing) in function / block / closure scopes, used as type arguments and (embedding a type with methods) as
receivers of promoted-method wrappers; type arguments: own, cross-package, aliases (package-level and local), pointers,
slices, maps, arrays, channels, funcs and structs over all of those.

Pure function of (seed, index, tier, avoid); no hash(), no set iteration, no time.
"""
import random
import re

# constructs of open findings that the random generator must not produce (probe + avoid); see findings/C14.json
ALL_AVOIDABLE = ("C14-wrapper-receiver-pkg", "C14-wrapper-local-scope", "C14-dotted-path", "C14-alias-ptrtothis")

T_SRC = """package t

var nw, nh, depth int
var arms []int
var chs []chan int

//go:noinline
func Want(id int) { nw++; println("W", id) }

//go:noinline
func Hit(id int) { nh++; depth++; println("H", id) }

// Done ends an entity body; when the body was started by `go` (Arm) it releases the spawner.
// Only one goroutine of the program runs at any time (the spawner blocks on the returned channel).
func Done() {
	depth--
	if n := len(arms); n > 0 && arms[n-1] == depth {
		c := chs[n-1]
		arms, chs = arms[:n-1], chs[:n-1]
		c <- 1
	}
}

func Arm() chan int {
	c := make(chan int, 1)
	arms, chs = append(arms, depth), append(chs, c)
	return c
}

func Ok(b bool)   { println("OK", b) }
func Eq(a, b int) { println("EQ", a, b) }
func End()        { println("END", nw, nh) }
"""


class Pkg:
    def __init__(self, prog, d, name, alias, rank):
        self.prog, self.dir, self.name, self.alias, self.rank = prog, d, name, alias, rank
        self.path = prog.mod + ("/" + d if d else "")
        self.decls = []
        self.imports = {}        # path -> alias or None
        self.nfn = 0
        self.bound_owner = {}    # avoid-key -> owner package path
        self.emb_n = 0

    def ref(self, other):
        if other is self:
            return ""
        self.imports[other.path] = other.alias if other.alias != other.name else None
        return other.alias + "."

    def source(self):
        out = ["package " + ("main" if self.name == "main" else self.name), ""]
        if self.imports:
            out.append("import (")
            for p in sorted(self.imports):
                a = self.imports[p]
                out.append("\t%s%s" % ((a + " ") if a else "", '"%s"' % p))
            out.append(")")
            out.append("")
        out += self.decls
        return "\n".join(out) + "\n"


class Named:
    def __init__(self, pkg, name, size, form, local=False, emb=None):
        self.pkg, self.name, self.size, self.form, self.local, self.emb = pkg, name, size, form, local, emb
        self.meth = {}      # method name -> Ent

    def decl(self, Q=None):
        if self.emb is not None:
            et, ptr, pad = self.emb
            return "type %s struct {\n\t%s%s\n\tpad [%d]byte\n}" % (self.name, "*" if ptr else "", rtype(et, Q), pad)
        if self.form == "struct":
            return "type %s struct{ %s [%d]byte }" % (self.name, "a" if self.local else "Tag", self.size)
        return "type %s [%d]byte" % (self.name, self.size)


class Alias:
    def __init__(self, pkg, name, target, local=False):
        self.pkg, self.name, self.target, self.local = pkg, name, target, local


class Ent:
    """an entity with its nested closures. generic: id is a base, real id = base + size*1000"""

    def __init__(self, prog, desc, generic=False):
        self.generic = generic
        self.id = prog.new_base() if generic else prog.new_id()
        self.desc = desc
        self.children = []
        self.variant = "call"
        prog.ents.append(self)

    def all(self):
        out = [self]
        for c in self.children:
            out += c.all()
        return out


def rtype(t, Q):
    k = t[0]
    if k == "n" or k == "alias":
        o = t[1]
        if o.local or o.pkg is Q:
            return o.name
        return Q.ref(o.pkg) + o.name
    if k == "inst":      # generic type instance G[arg]
        return Q.ref(t[1]) + "G[" + rtype(t[2], Q) + "]"
    if k == "ptr":
        return "*" + rtype(t[1], Q)
    if k == "slice":
        return "[]" + rtype(t[1], Q)
    if k == "map":
        return "map[string]" + rtype(t[1], Q)
    if k == "arr":
        return "[%d]%s" % (t[1], rtype(t[2], Q))
    if k == "chan":
        return "chan " + rtype(t[1], Q)
    if k == "fn":
        return "func(%s)" % rtype(t[1], Q)
    if k == "st":
        return "struct{ F %s }" % rtype(t[1], Q)
    raise ValueError(k)


def tsize(t):
    k = t[0]
    if k == "n":
        return t[1].size
    if k == "alias":
        return tsize(t[1].target)
    if k == "inst":
        return tsize(t[2])
    if k in ("ptr", "map", "chan"):
        return 8
    if k == "slice":
        return 24
    if k == "arr":
        return t[1] * tsize(t[2])
    if k == "st":
        return tsize(t[1])
    return None      # fn: two words under llgo, one under go -> never used for ids


def leaf(t):
    while t[0] not in ("n",):
        if t[0] == "alias":
            t = t[1].target
        elif t[0] == "arr" or t[0] == "inst":
            t = t[2]
        else:
            t = t[1]
    return t


def tkey(t):
    """canonical identity key of a type (aliases resolved)"""
    k = t[0]
    if k == "n":
        return "n%d" % t[1].size
    if k == "alias":
        return tkey(t[1].target)
    if k == "inst":
        return "inst(%s,%s)" % (t[1].path, tkey(t[2]))
    if k == "arr":
        return "arr%d(%s)" % (t[1], tkey(t[2]))
    return "%s(%s)" % (k, tkey(t[1]))


class Prog:
    def __init__(self, seed, idx, tier="quick", avoid=(), with_c=None, size=1.0):
        self.rng = random.Random(seed * 7919 + idx * 104729 + 17)
        rng = self.rng
        self.mod = "vm%dx%d" % (seed, idx)
        self.avoid = tuple(avoid)
        self.next_id = 0
        self.next_base = 0
        self.ents = []
        self.id_owner = {}
        self.id_full = {}
        self.local_inst = {}
        self.expected = {}       # id -> description (every id that must have exactly one body in the IR)
        self.features = {}
        self.sizes = list(range(1, 120))
        rng.shuffle(self.sizes)
        self.scale = size
        self.with_c = (rng.random() < 0.3) if with_c is None else with_c
        self.exports = []        # bare symbol names that must be defined exactly so
        self.cbinds = []         # (package path, go symbol that must not exist, C symbol that must be declared+defined)
        self.gopulls = []        # (package path, local go symbol that must not exist, target symbol)
        rank = 0
        self.t = Pkg(self, "t", "t", "t", rank)
        self.gens = []
        for d, n, a in (("g", "g", "g"), ("sub/g", "g", "sg")):
            rank += 1
            self.gens.append(Pkg(self, d, n, a, rank))
        self.leaves = []
        for d, n, a in (("pa", "pa", "pa"), ("pb", "pb", "pb"), ("sub/pa", "pa", "spa")):
            rank += 1
            self.leaves.append(Pkg(self, d, n, a, rank))
        self.ca = None
        if self.with_c:
            rank += 1
            self.ca = Pkg(self, "ca", "ca", "ca", rank)
        self.main = Pkg(self, "", "main", "main", rank + 1)
        self.gen_origins = {}
        self.leaf_info = {}
        for G in self.gens:
            self.build_generic_pkg(G)
        for P in self.leaves:
            self.build_leaf_decls(P)
        if self.with_c:
            self.build_c_pkg()
        for P in self.leaves:
            self.build_runs(P, nhosts=max(1, int(round(rng.choice([2, 3]) * size))))
        self.build_runs(self.main, nhosts=max(1, int(round(rng.choice([3, 4]) * size))))
        self.finish_main()

    # ------------------------------------------------------------------ ids
    def new_id(self):
        self.next_id += 1
        return self.next_id

    def new_base(self):
        self.next_base += 1
        return self.next_base * 1000000

    def new_size(self):
        return self.sizes.pop()

    def feat(self, k):
        self.features[k] = self.features.get(k, 0) + 1

    def avoiding(self, fid):
        return fid in self.avoid

    # ------------------------------------------------------------------ entity bodies
    def mk_children(self, ent, depth, generic):
        rng = self.rng
        n = rng.choice([0, 1, 1, 2]) if depth > 0 else 0
        for i in range(n):
            c = Ent(self, ent.desc + "$%d" % (i + 1), generic)
            c.variant = rng.choice(["call", "call", "var", "go", "defer", "capture"])
            ent.children.append(c)
            self.mk_children(c, depth - 1, generic)

    def idx(self, ent, gen):
        if ent.generic:
            return "%d+int(%s)*1000" % (ent.id, gen)
        return str(ent.id)

    def body(self, L, ind, ent, gen, Q):
        """emit the statements of an entity body (without the func header)"""
        Q.ref(self.t)
        L.append(ind + "t.Hit(%s)" % self.idx(ent, gen))
        for c in ent.children:
            cx = self.idx(c, gen)
            v = c.variant
            self.feat("closure:" + v + (":generic" if ent.generic else ""))
            if v == "call":
                L.append(ind + "t.Want(%s)" % cx)
                L.append(ind + "func() {")
                self.body(L, ind + "\t", c, gen, Q)
                L.append(ind + "}()")
            elif v == "capture":
                L.append(ind + "cc%d := 0" % c.id)
                L.append(ind + "t.Want(%s)" % cx)
                L.append(ind + "func() {")
                L.append(ind + "\tcc%d++" % c.id)
                self.body(L, ind + "\t", c, gen, Q)
                L.append(ind + "}()")
                L.append(ind + "t.Eq(cc%d, 1)" % c.id)
            elif v == "var":
                L.append(ind + "fv%d := func() {" % c.id)
                self.body(L, ind + "\t", c, gen, Q)
                L.append(ind + "}")
                L.append(ind + "t.Want(%s)" % cx)
                L.append(ind + "fv%d()" % c.id)
            elif v == "go":
                L.append(ind + "t.Want(%s)" % cx)
                L.append(ind + "jc%d := t.Arm()" % c.id)
                L.append(ind + "go func() {")
                self.body(L, ind + "\t", c, gen, Q)
                L.append(ind + "}()")
                L.append(ind + "<-jc%d" % c.id)
            elif v == "defer":
                L.append(ind + "t.Want(%s)" % cx)
                L.append(ind + "func() {")
                L.append(ind + "\tdefer func() {")
                self.body(L, ind + "\t\t", c, gen, Q)
                L.append(ind + "\t}()")
                L.append(ind + "}()")
        L.append(ind + "t.Done()")

    def claim(self, ent, size, key, full):
        """ids must identify instances: may (ent, size) stand for the instance with identity `key`?
        `full` is the identity of the whole type-argument list (F2: ids come from E only, so several instances share one id)."""
        i = ent.id + size * 1000
        cur = self.id_owner.get(i)
        if cur is not None and cur != key:
            return False
        self.id_owner[i] = key
        for e in ent.all():
            fs = self.id_full.setdefault(e.id + size * 1000, [])
            if full not in fs:
                fs.append(full)
        return True

    def expect(self, ent, size=None, why=""):
        """register the ids an invocation of ent (with the given type-argument size) must have bodies for"""
        for e in ent.all():
            i = e.id + (size * 1000 if e.generic else 0)
            self.expected.setdefault(i, e.desc + (why and " " + why))
        return ent.id + (size * 1000 if ent.generic else 0)

    # ------------------------------------------------------------------ generic packages
    def generic_decls(self, P, into):
        """declare F, F2, Box, G (+M, P) in package P; returns dict of origins"""
        rng = self.rng
        P.ref(self.t)
        P.imports["unsafe"] = None
        o = {}
        L = P.decls
        pre = P.path
        o["F"] = Ent(self, pre + ".F[X]", True)
        self.mk_children(o["F"], rng.choice([1, 2, 3]), True)
        L.append("func F[X any]() {\n\tvar z X\n\t_ = z")
        self.body(L, "\t", o["F"], "unsafe.Sizeof(z)", P)
        L.append("}\n")
        o["F2"] = Ent(self, pre + ".F2[X,E]", True)
        self.mk_children(o["F2"], rng.choice([0, 1, 2]), True)
        L.append("func F2[X any, E any]() {\n\tvar x X\n\tvar z E\n\t_, _ = x, z")
        self.body(L, "\t", o["F2"], "unsafe.Sizeof(z)", P)
        L.append("}\n")
        L.append("func Box[X any](x X) any { return x }\n")
        L.append("type G[X any] struct{ v X }\n")
        o["G.M"] = Ent(self, pre + ".G[X].M", True)
        self.mk_children(o["G.M"], rng.choice([0, 1, 2]), True)
        L.append("func (q G[X]) M() {")
        self.body(L, "\t", o["G.M"], "unsafe.Sizeof(q.v)", P)
        L.append("}\n")
        o["G.P"] = Ent(self, pre + ".(*G[X]).P", True)
        self.mk_children(o["G.P"], rng.choice([0, 1, 2]), True)
        L.append("func (q *G[X]) P() {")
        self.body(L, "\t", o["G.P"], "unsafe.Sizeof(q.v)", P)
        L.append("}\n")
        self.gen_origins[P.path] = o
        return o

    def build_generic_pkg(self, P):
        o = self.generic_decls(P, None)
        rng = self.rng
        # K[X]: an instance that instantiates further origins with composites of its own parameter
        L = P.decls
        k = Ent(self, P.path + ".K[X]", True)
        o["K"] = k
        L.append("func K[X any]() {\n\tvar z X\n\t_ = z")
        L.append("\tt.Hit(%s)" % self.idx(k, "unsafe.Sizeof(z)"))
        comps = [("[]X", None), ("map[string]X", None), ("*X", None), ("[2]X", None), ("chan X", None), ("G[X]", None)]
        rng.shuffle(comps)
        k.chain = []
        for c, _ in comps[:rng.choice([2, 3, 4])]:
            L.append("\tt.Want(%s)" % self.idx(o["F2"], "unsafe.Sizeof(z)"))
            L.append("\tF2[%s, X]()" % c)
            k.chain.append(("F2", c))
        if rng.random() < 0.7:
            L.append("\tvar q G[[2]X]")
            L.append("\tt.Want(%d+2*int(unsafe.Sizeof(z))*1000)" % o["G.M"].id)
            m = rng.choice(["direct", "bound", "defer", "go"])
            if m == "bound" and self.avoiding("C14-wrapper-receiver-pkg"):
                # g.K[X] and sub/g.K[X] instantiated from one package would both create <pkg>.G[[2]X].M$bound (probe + avoid)
                m = "direct"
            if m == "direct":
                L.append("\tq.M()")
            elif m == "bound":
                L.append("\tfb := q.M\n\tfb()")
            elif m == "defer":
                L.append("\tfunc() { defer q.M() }()")
            else:
                L.append("\tjq := t.Arm()\n\tgo q.M()\n\t<-jq")
            k.chain.append(("G.M", m))
        L.append("\tt.Done()")
        L.append("}\n")

    # ------------------------------------------------------------------ leaf packages
    def build_leaf_decls(self, P):
        rng = self.rng
        info = {}
        self.leaf_info[P.path] = info
        P.ref(self.t)
        L = P.decls
        li = self.leaves.index(P)
        for tn, form in (("T", "struct"), ("U", "array")):
            nt = Named(P, tn, self.new_size(), form)
            info[tn] = nt
            L.append(nt.decl() + "\n")
            # receiver state: every value carries 7 in its first byte and every method checks it (a wrapper that passes the
            # receiver in the wrong form - value vs pointer - shows up as an EQ mismatch)
            L.append("func New%s() %s {\n\tvar v %s\n\tv%s[0] = 7\n\treturn v\n}\n" % (tn, tn, tn, ".Tag" if form == "struct" else ""))
            for m, ptr in (("A", False), ("M", False), ("Z", False), ("P", True)):
                e = Ent(self, "%s.%s.%s" % (P.path, "(*%s)" % tn if ptr else tn, m))
                self.mk_children(e, rng.choice([0, 0, 1, 2, 3]) if m in ("M", "P") else 0, False)
                nt.meth[m] = e
                L.append("func (r %s%s) %s() {" % ("*" if ptr else "", tn, m))
                L.append("\tt.Eq(int(r%s[0]), 7)" % (".Tag" if form == "struct" else ""))
                self.body(L, "\t", e, None, P)
                L.append("}\n")
                self.expect(e)
        # interfaces with the same name and different method sets: the index of M differs per package
        isets = [["M"], ["A", "M"], ["M", "Z"]]
        info["I"] = isets[li]
        L.append("type I interface {\n%s}\n" % "".join("\t%s()\n" % m for m in isets[li]))
        # same-named generic origins
        self.generic_decls(P, None)
        # package variables
        info["V"] = self.new_id()
        L.append("var V = %d\n" % info["V"])
        for wn, how in (("W", "varinit"), ("W2", "init"), ("W3", "init")):
            e = Ent(self, "%s.%s(closure in %s)" % (P.path, wn, how))
            self.mk_children(e, rng.choice([0, 1]), False)
            info[wn] = e
            self.expect(e)
            if how == "varinit":
                L.append("var %s = func() {" % wn)
                self.body(L, "\t", e, None, P)
                L.append("}\n")
            else:
                L.append("var %s func()\n" % wn)
                L.append("func init() {\n\t%s = func() {" % wn)
                self.body(L, "\t\t", e, None, P)
                L.append("\t}\n}\n")
        # package-level aliases
        als = []
        others = [q for q in self.leaves if q.rank < P.rank]
        cands = [("n", info["T"]), ("n", info["U"])] + [("n", self.leaf_info[q.path][tn]) for q in others for tn in ("T", "U")]
        for i, nm in enumerate(("A1", "A2")):
            tgt = rng.choice(cands)
            if rng.random() < 0.3:
                tgt = (rng.choice(["slice"] if self.avoiding("C14-alias-ptrtothis") else ["ptr", "slice"]), tgt)
            al = Alias(P, nm, tgt)
            L.append("type %s = %s\n" % (nm, rtype(tgt, P)))
            als.append(al)
        info["aliases"] = als
        L.append("type H struct{ n int }\n")
        if self.with_c:
            # decoys: Go functions whose bare names are the exported / C symbol names
            for nm in ("GoExp0", "C14f0"):
                e = Ent(self, "%s.%s (decoy)" % (P.path, nm))
                info[nm] = e
                self.expect(e)
                L.append("func %s() {" % nm)
                self.body(L, "\t", e, None, P)
                L.append("}\n")
            e = Ent(self, "%s.hidden" % P.path)
            info["hidden"] = e
            self.expect(e)
            L.append("func hidden() {")
            self.body(L, "\t", e, None, P)
            L.append("}\n")
            info["secret"] = self.new_id()
            L.append("var secret = %d\n" % info["secret"])
            L.append("func Secret() int { return secret }\n")

    # ------------------------------------------------------------------ C package
    def build_c_pkg(self):
        rng = self.rng
        P = self.ca
        P.ref(self.t)
        P.imports["unsafe"] = "_"
        L = P.decls
        C = ["#include <stdint.h>", ""]
        L.append('const LLGoFiles = "wrap/w.c"\n')
        run = ["func Run() {"]
        n = rng.choice([2, 3])
        for i in range(n):
            k = rng.randrange(1, 1000)
            C.append("int32_t C14f%d(int32_t x) { return x + %d; }" % (i, k))
            L.append("//go:linkname cf%d C.C14f%d\nfunc cf%d(x int32) int32\n" % (i, i, i))
            self.cbinds.append((P.path, "%s.cf%d" % (P.path, i), "C14f%d" % i))
            run.append("\tt.Eq(int(cf%d(%d)), %d)" % (i, i + 5, i + 5 + k))
            # exported Go function called back from C
            e = Ent(self, "%s.GoExp%d (//export)" % (P.path, i))
            self.mk_children(e, rng.choice([0, 1]), False)
            self.expect(e)
            kk = rng.randrange(1, 100)
            L.append("//export GoExp%d\nfunc GoExp%d(x int32) int32 {" % (i, i))
            self.body(L, "\t", e, None, P)
            L.append("\treturn x + %d\n}\n" % kk)
            self.exports.append("GoExp%d" % i)
            C.append("extern int32_t GoExp%d(int32_t);" % i)
            C.append("int32_t C14call%d(int32_t x) { return GoExp%d(x) * 3; }" % (i, i))
            L.append("//go:linkname callgo%d C.C14call%d\nfunc callgo%d(x int32) int32\n" % (i, i, i))
            self.cbinds.append((P.path, "%s.callgo%d" % (P.path, i), "C14call%d" % i))
            run.append("\tt.Want(%d)" % e.id)
            run.append("\tt.Eq(int(callgo%d(%d)), %d)" % (i, i + 2, (i + 2 + kk) * 3))
            self.feat("c:linkname-func")
            self.feat("c:export")
        C.append("int32_t C14var = 5;")
        C.append("int32_t C14getvar(void) { return C14var; }")
        L.append("//go:linkname cvar C14var\nvar cvar int32\n")
        L.append("//go:linkname cgetvar C.C14getvar\nfunc cgetvar() int32\n")
        self.cbinds.append((P.path, "%s.cgetvar" % P.path, "C14getvar"))
        self.cbinds.append((P.path, "%s.cvar" % P.path, "C14var"))
        run.append("\tt.Eq(int(cvar), 5)\n\tcvar = 77\n\tt.Eq(int(cgetvar()), 77)")
        self.feat("c:linkname-var")
        # Go -> Go pulls of unexported functions / variables of the leaf packages
        for q in self.leaves:
            P.imports[q.path] = "_"
            qi = self.leaf_info[q.path]
            nm = "pull_" + q.alias
            L.append("//go:linkname %s %s.hidden\nfunc %s()\n" % (nm, q.path, nm))
            self.gopulls.append((P.path, "%s.%s" % (P.path, nm), "%s.hidden" % q.path))
            run.append("\tt.Want(%d)\n\t%s()" % (qi["hidden"].id, nm))
            vn = "pv_" + q.alias
            L.append("//go:linkname %s %s.secret\nvar %s int\n" % (vn, q.path, vn))
            self.gopulls.append((P.path, "%s.%s" % (P.path, vn), "%s.secret" % q.path))
            run.append("\tt.Eq(%s, %d)" % (vn, qi["secret"]))
            self.feat("c:go-pull")
        # decoys in this package too
        for q in self.leaves:
            qi = self.leaf_info[q.path]
            for nm in ("GoExp0", "C14f0"):
                run.append("\tt.Want(%d)\n\t%s%s()" % (qi[nm].id, P.ref(q), nm))
        run.append("}\n")
        L += run
        self.cfile = "\n".join(C) + "\n"

    # ------------------------------------------------------------------ hosts and uses
    def visible_leaves(self, Q):
        return [p for p in self.leaves if p.rank <= Q.rank]

    def visible_gens(self, Q):
        return list(self.gens) + [p for p in self.leaves if p.rank <= Q.rank]

    def base_types(self, Q, env):
        out = []
        for p in self.visible_leaves(Q):
            for tn in ("T", "U"):
                if p is Q and tn in env["shadow"]:
                    continue
                out.append(("n", self.leaf_info[p.path][tn]))
            if p is Q or p.rank < Q.rank:
                for al in self.leaf_info[p.path]["aliases"]:
                    if p is Q and al.name in env["shadow"]:
                        continue
                    out.append(("alias", al))
        for nt in env["locals"]:
            out.append(("n", nt) if isinstance(nt, Named) else ("alias", nt))
        return out

    def renderable(self, t, Q, env):
        """can the type be written in this scope? (a local type named T/U shadows the package-level type of the same name)"""
        k = t[0]
        if k == "n" or k == "alias":
            o = t[1]
            if o.local:
                # a local object can only be written while it is the current binding of its name
                return any(x is o for x in env["locals"])
            return o.pkg is not Q or o.name not in env["shadow"]
        if k in ("arr", "inst"):
            return self.renderable(t[2], Q, env)
        return self.renderable(t[1], Q, env)

    def pick_arg(self, Q, env, need_size):
        for _ in range(8):
            X, E = self.pick_arg0(Q, env, need_size)
            if self.renderable(X, Q, env) and (E is None or self.renderable(E, Q, env)):
                return X, E
        b = self.rng.choice(self.base_types(Q, env))
        return b, None

    def pick_arg0(self, Q, env, need_size):
        """-> (type for X, type for E or None).  With E the id comes from E (a named leaf)."""
        rng = self.rng
        bases = self.base_types(Q, env)
        # prefer local types when there are some
        loc = [b for b in bases if b[1].local]
        b = rng.choice(loc) if loc and rng.random() < 0.5 else rng.choice(bases)
        r = rng.random()
        if r < 0.45:
            return b, None
        if r < 0.6 and tsize(b) * 3 < 1000:
            n = rng.choice([2, 3])
            c = ("arr", n, b)
            return c, None
        if r < 0.68:
            return ("st", b), ("n", leaf(b)[1])
        kind = rng.choice(["ptr", "slice", "map", "chan", "fn", "ptr", "slice"])
        c = (kind, b)
        if rng.random() < 0.2:
            c = (rng.choice(["slice", "ptr", "map"]), c)
        return c, ("n", leaf(b)[1])

    def new_local(self, Q, env, allow_emb=True):
        """declare a local type in the current scope; returns declaration lines"""
        rng = self.rng
        r = rng.random()
        names = ["L", "L", "L", "T", "U"]
        if r < 0.25 and allow_emb:
            # a local type that embeds a type with methods: promoted-method wrappers with a local receiver
            p = rng.choice(self.visible_leaves(Q))
            tn = rng.choice(["T", "U"])
            if p is Q and tn in env["shadow"]:
                tn = None
            if tn:
                et = ("n", self.leaf_info[p.path][tn])
                ptr = rng.random() < 0.3
                size = self.new_size()
                base = 8 if ptr else et[1].size
                total = base + size + (0 if not ptr else 0)
                # keep sizes unique: total must not collide with another named type
                while total in self.used_sizes or total >= 1000:
                    size += 1
                    total = base + size
                if ptr:
                    # struct{ *T; pad [k]byte } is padded to a multiple of 8
                    while (8 + size) % 8 != 0 or (8 + size) in self.used_sizes:
                        size += 1
                    total = 8 + size
                self.used_sizes.append(total)
                if self.avoiding("C14-wrapper-local-scope"):
                    Q.emb_n += 1
                    name = "L%d" % Q.emb_n
                else:
                    name = rng.choice(["L", "L", "E"])
                nt = Named(None, name, total, "emb", local=True, emb=(et, ptr, size))
                nt.host = Q
                env["locals"] = [x for x in env["locals"] if x.name != name] + [nt]
                self.feat("local:emb")
                return [nt.decl(Q)], nt
        if r < 0.4:
            tgt = rng.choice([b for b in self.base_types(Q, env)])
            name = rng.choice(["LA", "L"])
            rt = rtype(tgt, Q)
            for alt in ("LA", "LB", "LC"):
                if re.search(r"(?<![\w.])%s(?!\w)" % name, rt) is None:
                    break
                name = alt
            al = Alias(None, name, tgt, local=True)
            d = "type %s = %s" % (name, rt)
            env["locals"] = [x for x in env["locals"] if x.name != name] + [al]
            self.feat("local:alias")
            return [d], al
        name = rng.choice(names)
        size = self.new_size()
        while size in self.used_sizes:
            size = self.new_size()
        self.used_sizes.append(size)
        nt = Named(None, name, size, rng.choice(["struct", "array"]), local=True)
        if name in ("T", "U"):
            env["shadow"] = env["shadow"] + [name]
            self.feat("local:shadow")
        env["locals"] = [x for x in env["locals"] if x.name != name] + [nt]
        self.feat("local:plain")
        return [nt.decl()], nt

    def build_runs(self, Q, nhosts):
        rng = self.rng
        if not hasattr(self, "used_sizes"):
            self.used_sizes = []
            for p in self.leaves:
                for tn in ("T", "U"):
                    self.used_sizes.append(self.leaf_info[p.path][tn].size)
        Q.ref(self.t)
        calls = []
        for h in range(nhosts):
            kind = rng.choice(["func", "func", "valmeth", "ptrmeth"]) if Q is not self.main else "func"
            if kind == "func":
                name = "run%d" % h
                hdr = "func %s() {" % name
                calls.append("\t%s()" % name)
            elif kind == "valmeth":
                name = "R%d" % h
                hdr = "func (h H) %s() {" % name
                calls.append("\tH{}.%s()" % name)
            else:
                name = "R%d" % h
                hdr = "func (h *H) %s() {" % name
                calls.append("\t(&H{}).%s()" % name)
            L = [hdr]
            env = {"locals": [], "shadow": [], "v": [0], "declared": []}
            self.feat("host:" + kind)
            self.gen_scope(Q, L, "\t", env, depth=0)
            L.append("}\n")
            Q.decls += L
        if Q is not self.main:
            Q.decls.append("func Run() {\n" + "\n".join(calls) + "\n}\n")
        else:
            self.main_calls = calls

    def gen_scope(self, Q, L, ind, env, depth):
        rng = self.rng
        nseg = rng.choice([2, 3, 4]) if depth == 0 else rng.choice([1, 2])
        nseg = max(1, int(round(nseg * self.scale)))
        for s in range(nseg):
            senv, sind, wrapped = env, ind, False
            if rng.random() < 0.45:
                trial = {"locals": list(env["locals"]), "shadow": list(env["shadow"]), "v": env["v"], "declared": []}
                d, obj = self.new_local(Q, trial)
                if obj.name in env["declared"] or rng.random() < 0.4:
                    # same name again in this scope: the segment gets its own block ("two blocks of one function")
                    wrapped = True
                    trial["declared"] = [obj.name]
                    senv, sind = trial, ind + "\t"
                    L.append(ind + "{")
                    self.feat("scope:typeblock")
                else:
                    env["locals"], env["shadow"] = trial["locals"], trial["shadow"]
                    env["declared"].append(obj.name)
                L += [sind + x.replace("\n", "\n" + sind) for x in d]
            for u in range(rng.choice([1, 2, 3])):
                self.gen_use(Q, L, sind, senv)
            if depth < 2 and rng.random() < 0.55:
                sub = {"locals": list(senv["locals"]), "shadow": list(senv["shadow"]), "v": env["v"], "declared": []}
                how = rng.choice(["block", "block", "closure", "closure", "goclosure", "deferclosure"])
                self.feat("scope:" + how)
                if how == "block":
                    L.append(sind + "{")
                    self.gen_scope(Q, L, sind + "\t", sub, depth + 1)
                    L.append(sind + "}")
                elif how == "closure":
                    L.append(sind + "func() {")
                    self.gen_scope(Q, L, sind + "\t", sub, depth + 1)
                    L.append(sind + "}()")
                elif how == "goclosure":
                    env["v"][0] += 1
                    c = "dc%d" % env["v"][0]
                    L.append(sind + "%s := make(chan int)" % c)
                    L.append(sind + "go func() {")
                    self.gen_scope(Q, L, sind + "\t", sub, depth + 1)
                    L.append(sind + "\t%s <- 1" % c)
                    L.append(sind + "}()")
                    L.append(sind + "<-%s" % c)
                else:
                    L.append(sind + "func() {")
                    L.append(sind + "\tdefer func() {")
                    self.gen_scope(Q, L, sind + "\t\t", sub, depth + 1)
                    L.append(sind + "\t}()")
                    L.append(sind + "}()")
            if wrapped:
                L.append(ind + "}")

    def var(self, env, p="x"):
        env["v"][0] += 1
        return "%s%d" % (p, env["v"][0])

    def call_modes(self, L, ind, env, want, recv, meth, texpr, ptr_recv_expr, is_ptr_method, modes, Q):
        """emit one call of recv.meth() in a random mode. texpr = type expression for method expressions."""
        rng = self.rng
        m = rng.choice(modes)
        W = ind + "t.Want(%s)" % want
        if m == "direct":
            L += [W, ind + "%s.%s()" % (recv, meth)]
        elif m == "bound":
            f = self.var(env, "f")
            L += [ind + "%s := %s.%s" % (f, recv, meth), W, ind + "%s()" % f]
        elif m == "expr":
            f = self.var(env, "f")
            if is_ptr_method:
                L += [ind + "%s := (*%s).%s" % (f, texpr, meth), W, ind + "%s(%s)" % (f, ptr_recv_expr)]
            else:
                L += [ind + "%s := %s.%s" % (f, texpr if not texpr.startswith("*") else "(" + texpr + ")", meth), W, ind + "%s(%s)" % (f, recv)]
        elif m == "go":
            j = self.var(env, "j")
            L += [W, ind + "%s := t.Arm()" % j, ind + "go %s.%s()" % (recv, meth), ind + "<-" + j]
        elif m == "defer":
            L += [W, ind + "func() { defer %s.%s() }()" % (recv, meth)]
        elif m == "gobound":
            f = self.var(env, "f")
            j = self.var(env, "j")
            L += [ind + "%s := %s.%s" % (f, recv, meth), W, ind + "%s := t.Arm()" % j, ind + "go %s()" % f, ind + "<-" + j]
        elif m == "deferbound":
            f = self.var(env, "f")
            L += [ind + "%s := %s.%s" % (f, recv, meth), W, ind + "func() { defer %s() }()" % f]
        else:
            raise ValueError(m)
        self.feat("mode:" + m)
        return m

    def bound_ok(self, Q, key, owner):
        """probe+avoid for C14-wrapper-receiver-pkg: within one package only one owner package per wrapper key"""
        if not self.avoiding("C14-wrapper-receiver-pkg"):
            return True
        cur = Q.bound_owner.get(key)
        if cur is None:
            Q.bound_owner[key] = owner
            return True
        return cur == owner

    def gen_twins(self, Q, L, ind, env):
        """two sibling scopes declare a local type of the SAME name (different size) and make the same generic calls:
        only the scope indices of the type argument distinguish the instances"""
        rng = self.rng
        name = rng.choice(["L", "L", "T", "E"])
        op = rng.choice(self.visible_gens(Q))
        kinds = ["gfunc", "gfunc2", "gmeth", "box", "k"]
        rng.shuffle(kinds)
        kinds = kinds[:rng.choice([2, 3])]
        comp = rng.choice([None, None, "slice", "ptr", "map", "chan"])
        wrap = rng.choice([("block", "block"), ("closure", "closure"), ("block", "closure"), ("goclosure", "block")])
        self.feat("use:twins")
        for w in wrap:
            size = self.new_size()
            while size in self.used_sizes:
                size = self.new_size()
            self.used_sizes.append(size)
            nt = Named(None, name, size, rng.choice(["struct", "array"]), local=True)
            sub = {"locals": [x for x in env["locals"] if x.name != name] + [nt], "shadow": list(env["shadow"]) + ([name] if name in ("T", "U") else []),
                   "v": env["v"], "declared": [name]}
            dc = None
            if w == "block":
                L.append(ind + "{")
            elif w == "closure":
                L.append(ind + "func() {")
            else:
                dc = self.var(env, "dc")
                L.append(ind + "%s := make(chan int)" % dc)
                L.append(ind + "go func() {")
            L.append(ind + "\t" + nt.decl())
            X = ("n", nt)
            for k in kinds:
                if k == "gfunc":
                    self.gen_use(Q, L, ind + "\t", sub, {"kind": "gfunc", "op": op, "XE": (X, None)})
                elif k == "gfunc2":
                    c = (comp or "slice", X)
                    self.gen_use(Q, L, ind + "\t", sub, {"kind": "gfunc", "op": op, "XE": (c, X)})
                elif k == "gmeth":
                    self.gen_use(Q, L, ind + "\t", sub, {"kind": "gmeth", "op": op, "XE": (X, None)})
                elif k == "box":
                    self.gen_use(Q, L, ind + "\t", sub, {"kind": "box", "op": op, "XE": ((comp, X) if comp else X, None)})
                else:
                    self.gen_use(Q, L, ind + "\t", sub, {"kind": "k", "op": rng.choice(self.gens) if op not in self.gens else op, "XE": (X, None)})
            if w == "block":
                L.append(ind + "}")
            elif w == "closure":
                L.append(ind + "}()")
            else:
                L.append(ind + "\t%s <- 1" % dc)
                L.append(ind + "}()")
                L.append(ind + "<-%s" % dc)

    def gen_use(self, Q, L, ind, env, forced=None):
        rng = self.rng
        Q.ref(self.t)
        if forced is None and rng.random() < 0.06:
            return self.gen_twins(Q, L, ind, env)
        kind = forced["kind"] if forced else rng.choice(["meth", "meth", "iface", "gfunc", "gfunc", "gfunc", "gmeth", "gmeth", "box", "var", "emb", "k"])
        if kind == "meth":
            p = rng.choice(self.visible_leaves(Q))
            tn = rng.choice(["T", "U"])
            if p is Q and tn in env["shadow"]:
                tn = "U" if tn == "T" else "T"
                if tn in env["shadow"]:
                    return
            nt = self.leaf_info[p.path][tn]
            meth = rng.choice(["A", "M", "M", "Z", "P", "P"])
            e = nt.meth[meth]
            x = self.var(env)
            L.append(ind + "%s := %sNew%s()" % (x, Q.ref(p), tn))
            modes = ["direct", "go", "defer"]
            key = ("conc", tn, meth)
            if self.bound_ok(Q, key, p.path):
                modes += ["bound", "bound", "gobound", "deferbound"]
            if self.bound_ok(Q, key + ("thunk",), p.path):
                modes += ["expr", "expr"]      # method expression: go/ssa makes a $thunk wrapper, named like $bound
            self.call_modes(L, ind, env, str(e.id), x, meth, rtype(("n", nt), Q), "&" + x, meth == "P", modes, Q)
            L.append(ind + "_ = %s" % x)
            self.feat("use:meth")
        elif kind == "iface":
            p = rng.choice(self.visible_leaves(Q))
            tn = rng.choice(["T", "U"])
            if p is Q and tn in env["shadow"]:
                return
            # the interface may belong to another package than the dynamic type
            ip = rng.choice(self.visible_leaves(Q))
            nt = self.leaf_info[p.path][tn]
            iset = self.leaf_info[ip.path]["I"]
            meth = rng.choice(iset)
            e = nt.meth[meth]
            i = self.var(env, "i")
            if rng.random() < 0.4:
                # the interface holds a pointer: value methods are reached through the (*T).M wrappers
                pv = self.var(env, "pv")
                L.append(ind + "%s := %sNew%s()" % (pv, Q.ref(p), tn))
                L.append(ind + "var %s %sI = &%s" % (i, Q.ref(ip), pv))
                self.feat("use:iface:ptr")
            else:
                L.append(ind + "var %s %sI = %sNew%s()" % (i, Q.ref(ip), Q.ref(p), tn))
            modes = ["direct", "go", "defer"]
            if self.bound_ok(Q, ("iface", "I", meth), ip.path):
                modes += ["bound", "expr", "gobound", "deferbound"]
            self.call_modes(L, ind, env, str(e.id), i, meth, Q.ref(ip) + "I", None, False, modes, Q)
            self.feat("use:iface")
        elif kind == "gfunc":
            op = forced["op"] if forced else (self.gens[0] if rng.random() < 0.45 else rng.choice(self.visible_gens(Q)))
            o = self.gen_origins[op.path]
            X, E = forced["XE"] if forced else self.pick_arg(Q, env, True)
            if E is None and tsize(X) is None:
                return
            if E is None:
                ent, size = o["F"], tsize(X)
                if not self.claim(ent, size, tkey(X), tkey(X)):
                    return
                call = "%sF[%s]" % (Q.ref(op), rtype(X, Q))
            else:
                ent, size = o["F2"], tsize(E)
                if not self.claim(ent, size, tkey(E), tkey(X) + "," + tkey(E)):
                    return
                call = "%sF2[%s, %s]" % (Q.ref(op), rtype(X, Q), rtype(E, Q))
            want = self.expect(ent, size, "[%s]" % tkey(X))
            self.note_local(Q, ent.id, X)
            m = rng.choice(["direct", "direct", "value", "go", "defer"])
            W = ind + "t.Want(%d)" % want
            if m == "direct":
                L += [W, ind + call + "()"]
            elif m == "value":
                f = self.var(env, "f")
                L += [ind + "%s := %s" % (f, call), W, ind + "%s()" % f]
            elif m == "go":
                j = self.var(env, "j")
                L += [W, ind + "%s := t.Arm()" % j, ind + "go %s()" % call, ind + "<-" + j]
            else:
                L += [W, ind + "func() { defer %s() }()" % call]
            self.feat("use:gfunc:" + m)
            self.feat("targ:" + self.targ_class(X, Q))
        elif kind == "gmeth":
            op = forced["op"] if forced else (self.gens[0] if rng.random() < 0.45 else rng.choice(self.visible_gens(Q)))
            o = self.gen_origins[op.path]
            X, E = forced["XE"] if forced else self.pick_arg(Q, env, True)
            if E is not None or tsize(X) is None:
                X = rng.choice(self.base_types(Q, env))
            meth = rng.choice(["M", "P"])
            ent = o["G.M"] if meth == "M" else o["G.P"]
            if not self.claim(ent, tsize(X), tkey(X), tkey(X)):
                return
            want = self.expect(ent, tsize(X), "[%s]" % tkey(X))
            self.note_local(Q, ent.id, X)
            q = self.var(env, "q")
            gt = "%sG[%s]" % (Q.ref(op), rtype(X, Q))
            L.append(ind + "var %s %s" % (q, gt))
            modes = ["direct", "go", "defer"]
            if self.bound_ok(Q, ("gen", "G", tkey(X), meth), op.path):
                modes += ["bound", "gobound", "deferbound"]
            if self.bound_ok(Q, ("gen", "G", tkey(X), meth, "thunk"), op.path):
                modes += ["expr"]
            self.call_modes(L, ind, env, str(want), q, meth, gt, "&" + q, meth == "P", modes, Q)
            L.append(ind + "_ = %s" % q)
            self.feat("use:gmeth")
            self.feat("targ:" + self.targ_class(X, Q))
        elif kind == "box":
            op = forced["op"] if forced else (self.gens[0] if rng.random() < 0.6 else rng.choice(self.visible_gens(Q)))
            X, E = forced["XE"] if forced else self.pick_arg(Q, env, False)
            tx = rtype(X, Q)
            self.note_local(Q, "box:" + op.path, X)
            L.append(ind + "{")
            L.append(ind + "\t_, ok := %sBox[%s](*new(%s)).(%s)" % (Q.ref(op), tx, tx, tx))
            L.append(ind + "\tt.Ok(ok)")
            L.append(ind + "}")
            self.feat("use:box")
            self.feat("targ:" + self.targ_class(X, Q))
        elif kind == "var":
            p = rng.choice(self.visible_leaves(Q))
            info = self.leaf_info[p.path]
            w = rng.choice(["V", "W", "W2", "W3"])
            if w == "V":
                L.append(ind + "t.Eq(%sV, %d)" % (Q.ref(p), info["V"]))
            else:
                L += [ind + "t.Want(%d)" % info[w].id, ind + "%s%s()" % (Q.ref(p), w)]
            self.feat("use:var:" + w)
        elif kind == "emb":
            embs = [x for x in env["locals"] if isinstance(x, Named) and x.emb is not None]
            if not embs:
                return
            nt = rng.choice(embs)
            et, ptr, _ = nt.emb
            base = et[1]
            meth = rng.choice(["A", "M", "Z", "P"])
            e = base.meth[meth]
            x = self.var(env)
            if ptr:
                pv = self.var(env, "pv")
                L.append(ind + "%s := %sNew%s()" % (pv, Q.ref(base.pkg), base.name))
                L.append(ind + "%s := %s{%s: &%s}" % (x, nt.name, base.name, pv))
            else:
                L.append(ind + "%s := %s{%s: %sNew%s()}" % (x, nt.name, base.name, Q.ref(base.pkg), base.name))
            how = rng.choice(["direct", "iface", "iface", "bound", "go", "defer", "expr"])
            W = ind + "t.Want(%d)" % e.id
            if how == "iface":
                i = self.var(env, "i")
                src = x if (meth != "P" or ptr) else "&" + x
                L += [ind + "var %s interface{ %s() } = %s" % (i, meth, src), W, ind + "%s.%s()" % (i, meth)]
            elif how == "bound":
                if not self.bound_ok(Q, ("conc", base.name, meth), base.pkg.path):
                    how = "direct"
                    L += [W, ind + "%s.%s()" % (x, meth)]
                else:
                    f = self.var(env, "f")
                    L += [ind + "%s := %s.%s" % (f, x, meth), W, ind + "%s()" % f]
            elif how == "go":
                j = self.var(env, "j")
                L += [W, ind + "%s := t.Arm()" % j, ind + "go %s.%s()" % (x, meth), ind + "<-" + j]
            elif how == "defer":
                L += [W, ind + "func() { defer %s.%s() }()" % (x, meth)]
            elif how == "expr":
                f = self.var(env, "f")
                if meth == "P" and not ptr:
                    L += [ind + "%s := (*%s).%s" % (f, nt.name, meth), W, ind + "%s(&%s)" % (f, x)]
                else:
                    L += [ind + "%s := %s.%s" % (f, nt.name, meth), W, ind + "%s(%s)" % (f, x)]
            else:
                L += [W, ind + "%s.%s()" % (x, meth)]
            L.append(ind + "_ = %s" % x)
            self.feat("use:emb:" + how)
        elif kind == "k":
            op = forced["op"] if forced else rng.choice(self.gens)
            o = self.gen_origins[op.path]
            X = forced["XE"][0] if forced else rng.choice(self.base_types(Q, env))
            size = tsize(X)
            if size * 2 >= 1000:
                return
            for what, c in o["K"].chain:
                if what == "G.M":
                    cur = self.id_owner.get(o["G.M"].id + 2 * size * 1000)
                    if cur is not None and cur != "arr2(%s)" % tkey(X):
                        return
            for what, c in o["K"].chain:
                if what == "F2":
                    cur = self.id_owner.get(o["F2"].id + size * 1000)
                    if cur is not None and cur != tkey(X):
                        return
            if not self.claim(o["K"], size, tkey(X), tkey(X)):
                return
            want = self.expect(o["K"], size, "[%s]" % tkey(X))
            for what, c in o["K"].chain:
                if what == "F2":
                    self.claim(o["F2"], size, tkey(X), c + "," + tkey(X))
                    self.expect(o["F2"], size, "via K")
                else:
                    self.claim(o["G.M"], 2 * size, "arr2(%s)" % tkey(X), "arr2(%s)" % tkey(X))
                    self.expect(o["G.M"], 2 * size, "via K")
            L += [ind + "t.Want(%d)" % want, ind + "%sK[%s]()" % (Q.ref(op), rtype(X, Q))]
            self.feat("use:k")

    def note_local(self, Q, what, X):
        """count the situations in which only the scope distinguishes two instances: same origin, same package, same type NAME"""
        lf = leaf(X)[1]
        if not lf.local:
            return
        k = (Q.path, what, lf.name, tkey(X).replace("n%d" % lf.size, "L"))
        seen = self.local_inst.setdefault(k, [])
        if lf.size not in seen:
            seen.append(lf.size)
            if len(seen) == 2:
                self.feat("stress:same-origin-same-local-name")

    def targ_class(self, X, Q):
        k = X[0]
        if k in ("n", "alias"):
            o = X[1]
            where = "local" if o.local else ("own" if o.pkg is Q else "cross")
            return ("alias-" if k == "alias" else "") + where
        return k + "(" + self.targ_class(leaf(X) if k not in ("arr", "inst") else X[2], Q) + ")"

    # ------------------------------------------------------------------ main
    def finish_main(self):
        M = self.main
        L = ["func main() {"]
        for p in self.leaves:
            L.append("\t%sRun()" % M.ref(p))
        if self.with_c:
            L.append("\t%sRun()" % M.ref(self.ca))
            # export from package main + a second binding of a C function that package ca binds too
            M.imports["unsafe"] = "_"
            e = Ent(self, "main.GoExpMain (//export)")
            self.expect(e)
            D = ["//export GoExpMain\nfunc GoExpMain(x int32) int32 {"]
            self.body(D, "\t", e, None, M)
            D.append("\treturn x + 1\n}\n")
            D.append("//go:linkname callmain C.C14callmain\nfunc callmain(x int32) int32\n")
            D.append("//go:linkname again C.C14f0\nfunc again(x int32) int32\n")
            M.decls += D
            self.exports.append("GoExpMain")
            self.cbinds.append((M.path, "%s.callmain" % M.path, "C14callmain"))
            self.cbinds.append((M.path, "%s.again" % M.path, "C14f0"))
            self.cfile += "extern int32_t GoExpMain(int32_t);\nint32_t C14callmain(int32_t x) { return GoExpMain(x) * 5; }\n"
            L.append("\tt.Want(%d)\n\tt.Eq(int(callmain(3)), 20)" % e.id)
            L.append("\tt.Eq(int(again(0)), int(again(0)))")
        L += self.main_calls
        L.append("\tt.End()")
        L.append("}\n")
        M.decls += L

    def files(self):
        out = {"go.mod": "module %s\n\ngo 1.24\n" % self.mod, "t/t.go": T_SRC}
        for p in self.gens + self.leaves + ([self.ca] if self.ca else []):
            out["%s/%s.go" % (p.dir, p.name)] = p.source()
        out["main.go"] = self.main.source()
        if self.with_c:
            out["ca/wrap/w.c"] = self.cfile
        return out

    def meta(self):
        shared = [str(i) for i in sorted(self.id_full) if len(self.id_full[i]) > 1]
        return {"mod": self.mod, "with_c": self.with_c, "shared_ids": shared, "expected_ids": {str(k): v for k, v in sorted(self.expected.items())},
                "exports": self.exports, "cbinds": self.cbinds, "gopulls": self.gopulls, "features": dict(sorted(self.features.items())),
                "packages": [p.path for p in [self.t] + self.gens + self.leaves + ([self.ca] if self.ca else []) + [self.main]]}


def generate(seed, idx, tier="quick", avoid=(), with_c=None, size=1.0):
    p = Prog(seed, idx, tier, avoid, with_c, size)
    return p.files(), p.meta()


# ------------------------------------------------------------------------------------------------ trace oracle
def check_trace(text, meta=None):
    """self-checking oracle: W n must be followed by H n; OK must be true; EQ a a; END nw nh with nw == nh.
    Returns a list of problems (strings); empty = ok.  stats dict as second result."""
    probs = []
    pend = None
    nw = nh = nok = 0
    end = None
    for ln in text.split("\n"):
        p = ln.split(" ")
        if p[0] == "W" and len(p) == 2:
            if pend is not None:
                probs.append("call site expecting entity %s reached no entity body (next event is W %s)" % (pend, p[1]))
            pend = p[1]
            nw += 1
        elif p[0] == "H" and len(p) == 2:
            nh += 1
            if pend is None:
                probs.append("entity %s ran although no call site announced it" % p[1])
            elif pend != p[1]:
                probs.append("call site expects entity %s but the body of entity %s ran" % (pend, p[1]))
            pend = None
        elif p[0] == "OK":
            nok += 1
            if p[1:] != ["true"]:
                probs.append("type assertion on the result of a generic instance failed: " + ln)
        elif p[0] == "EQ" and len(p) == 3:
            nok += 1
            if p[1] != p[2]:
                probs.append("value mismatch: got %s want %s" % (p[1], p[2]))
        elif p[0] == "END" and len(p) == 3:
            end = (p[1], p[2])
        elif ln.strip():
            probs.append("unexpected output line: " + ln[:200])
    if end is None:
        probs.append("program did not reach END")
    elif end != (str(nw), str(nh)) or nw != nh:
        probs.append("END counters %s do not match the trace (W=%d H=%d)" % (end, nw, nh))
    if pend is not None:
        probs.append("call site expecting entity %s reached no entity body (end of trace)" % pend)
    return probs, {"want": nw, "hit": nh, "checks": nok}


if __name__ == "__main__":
    import os
    import sys
    seed, idx = int(sys.argv[1]), int(sys.argv[2])
    out = sys.argv[3]
    avoid = ALL_AVOIDABLE if "-avoid" in sys.argv else ()
    wc = True if "-c" in sys.argv else (False if "-noc" in sys.argv else None)
    files, meta = generate(seed, idx, avoid=avoid, with_c=wc)
    for rel, txt in files.items():
        p = os.path.join(out, rel)
        os.makedirs(os.path.dirname(p), exist_ok=True)
        with open(p, "w") as f:
            f.write(txt)
    import json
    with open(os.path.join(out, "meta.json"), "w") as f:
        json.dump(meta, f, indent=1)

"""C09 generator, strings and buffers: random byte strings through the llgo C-string helpers and back.

Two programs:
  * native: package main + package cab (linkname declarations, gcc-compiled libcallee.a), using
    c.Str, c.AllocaCStr, llgo.allocCStr, c.AllocaCStrs, c.GoString(p), c.GoString(p, n);
  * cgo: one `import "C"` file using C.CString, C.CBytes, C.GoString, C.GoStringN, C.GoBytes - this
    one is also built by the reference go toolchain (real cgo), giving a third opinion.

Lines:  C <unit> <tag> <n>: <hex bytes>   (stdout, printed by C)
        G <unit> <tag> <n>: <hex bytes>   (stderr, printed by Go)
Pure function of (seed, tier)."""
import random

LIBDIR = "@LIBDIR@"
LENS = [0, 1, 2, 7, 8, 9, 15, 16, 17, 31, 32, 33, 63, 64, 65, 255, 256, 257, 1023, 4096]


def rbytes(r, n, nul):
    lo = 0 if nul else 1
    b = bytes(r.randint(lo, 255) for _ in range(n))
    if nul and n >= 3 and r.random() < 0.7:
        b = bytearray(b)
        for _ in range(r.randint(1, 3)):
            b[r.randrange(n)] = 0
        b = bytes(b)
    return b


def draw_len(r):
    if r.random() < 0.5:
        return r.choice(LENS)
    return r.randint(0, 300)


def golit(b):
    return '"' + "".join("\\x%02x" % x for x in b) + '"'


def cinit(b):
    return "{" + "".join("%d," % x for x in b) + "0}"


def hexline(side, uid, tag, b):
    return "%s %d %s %d:%s" % (side, uid, tag, len(b), "".join(" %02x" % x for x in b))


def xor(b, k):
    return bytes(x ^ k for x in b)


GO_HEX = """func hex(b []byte) string {
	const d = "0123456789abcdef"
	o := make([]byte, 0, len(b)*3)
	for _, x := range b {
		o = append(o, ' ', d[x>>4], d[x&15])
	}
	return string(o)
}

func show(id int, tag string, b []byte) {
	println("G", id, tag, itoa(len(b))+":"+hex(b))
}

func itoa(n int) string {
	if n == 0 {
		return "0"
	}
	var buf [20]byte
	i := len(buf)
	for n > 0 {
		i--
		buf[i] = byte('0' + n%10)
		n /= 10
	}
	return string(buf[i:])
}
"""

C_COMMON = """#include <stdio.h>
#include <stdlib.h>
#include <string.h>
void sdump(int id, const char *tag, const char *p, long n) {
	printf("C %d %s %ld:", id, tag, n);
	for (long i = 0; i < n; i++) printf(" %02x", (unsigned char)p[i]);
	printf("\\n"); fflush(stdout);
}
void sxor(char *p, long n, int k) { for (long i = 0; i < n; i++) p[i] ^= (char)k; }
void sdumpv(int id, char **v, int n) {
	for (int i = 0; i < n; i++) { char tag[16]; snprintf(tag, sizeof tag, "v%d", i); sdump(id, tag, v[i], (long)strlen(v[i]) + 1); }
	printf("C %d vend %d\\n", id, v[n] == 0); fflush(stdout);
}
char *sdupn(const char *p, long n) { char *q = malloc(n + 1); memcpy(q, p, n); q[n] = 0; return q; }
"""


def gen_native(seed, tier, modname="c09strn"):
    r = random.Random(seed * 1000003 + (101 if tier == "quick" else 103))
    n_each = 30 if tier == "quick" else 120
    kinds = ["str", "alloca", "alloc", "gostr", "gostrn", "rt", "cstrs", "edge"]
    units = []
    for k in kinds:
        for _ in range(n_each if k != "edge" else 1):
            units.append(k)
    tab = []        # C static table entries: (uid, bytes)
    lits = []       # Go global string table
    G, M, exp_out, exp_err, meta = [], [], [], [], {}
    for uid, k in enumerate(units):
        meta[uid] = {"kind": k}
        body = []
        if k == "str":
            b = rbytes(r, draw_len(r), False)
            body.append("cab.Sdump(%d, c.Str(\"t\"), c.Str(%s), %d)" % (uid, golit(b), len(b) + 1))
            exp_out.append(hexline("C", uid, "t", b + b"\0"))
        elif k in ("alloca", "alloc"):
            b = rbytes(r, draw_len(r), True)
            lits.append(b)
            fn = "c.AllocaCStr" if k == "alloca" else "cab.AllocCStr"
            body.append("s := lits[%d]" % (len(lits) - 1))
            body.append("cab.Sdump(%d, c.Str(\"t\"), %s(s), c.Long(len(s)+1))" % (uid, fn))
            body.append("show(%d, \"s\", []byte(s))" % uid)
            exp_out.append(hexline("C", uid, "t", b + b"\0"))
            exp_err.append(hexline("G", uid, "s", b))
        elif k == "gostr":
            b = rbytes(r, draw_len(r), False)
            tab.append((uid, b))
            body.append("p := cab.Sget(%d)" % uid)
            body.append("g := c.GoString(p)")
            body.append("cab.Sxor(p, %d, 0x5a)" % len(b))      # the Go string must be a copy
            body.append("show(%d, \"g\", []byte(g))" % uid)
            exp_err.append(hexline("G", uid, "g", b))
        elif k == "gostrn":
            b = rbytes(r, draw_len(r), True)
            n = r.choice([len(b), len(b), r.randint(0, len(b))])
            tab.append((uid, b))
            body.append("p := cab.Sget(%d)" % uid)
            body.append("g := c.GoString(p, %d)" % n)
            body.append("cab.Sxor(p, %d, 0x33)" % len(b))
            body.append("show(%d, \"g\", []byte(g))" % uid)
            exp_err.append(hexline("G", uid, "g", b[:n]))
        elif k == "rt":
            b = rbytes(r, draw_len(r), True)
            lits.append(b)
            k1 = r.randint(1, 255)
            body.append("s := lits[%d]" % (len(lits) - 1))
            body.append("p := c.AllocaCStr(s)")
            body.append("cab.Sxor(p, c.Long(len(s)), %d)" % k1)
            body.append("g := c.GoString(p, len(s))")
            body.append("cab.Sxor(p, c.Long(len(s)), 0x77)")
            body.append("q := cab.Sdupn(p, c.Long(len(s)))")
            body.append("h := c.GoString(q, len(s))")
            body.append("cab.Sfree(q)")
            body.append("show(%d, \"g\", []byte(g))" % uid)
            body.append("show(%d, \"h\", []byte(h))" % uid)
            body.append("show(%d, \"s\", []byte(s))" % uid)
            exp_err.append(hexline("G", uid, "g", xor(b, k1)))
            exp_err.append(hexline("G", uid, "h", xor(xor(b, k1), 0x77)))
            exp_err.append(hexline("G", uid, "s", b))
        elif k == "cstrs":
            n = r.randint(0, 5)
            vs = [rbytes(r, r.randint(0, 40), False) for _ in range(n)]
            idx = []
            for b in vs:
                lits.append(b)
                idx.append(len(lits) - 1)
            body.append("v := []string{%s}" % ", ".join("lits[%d]" % i for i in idx))
            body.append("cab.Sdumpv(%d, c.AllocaCStrs(v, true), %d)" % (uid, n))
            for i, b in enumerate(vs):
                exp_out.append(hexline("C", uid, "v%d" % i, b + b"\0"))
            exp_out.append("C %d vend 1" % uid)
        else:   # edge
            body.append("var np *c.Char")
            body.append("g := c.GoString(np)")
            body.append("show(%d, \"nil\", []byte(g))" % uid)
            body.append("g = c.GoString(cab.Sget(-1), 0)")
            body.append("show(%d, \"zero\", []byte(g))" % uid)
            body.append("cab.Sdump(%d, c.Str(\"e\"), c.AllocaCStr(\"\"), 1)" % uid)
            exp_err.append(hexline("G", uid, "nil", b""))
            exp_err.append(hexline("G", uid, "zero", b""))
            exp_out.append(hexline("C", uid, "e", b"\0"))
        M.append("func u%d() {\n\t%s\n}" % (uid, "\n\t".join(body)))
    C = [C_COMMON]
    for uid, b in tab:
        C.append("static char t%d[] = %s;" % (uid, cinit(b)))
    C.append("static char tnone[] = {0};")
    C.append("char *sget(int id) {\n\tswitch (id) {")
    for uid, _ in tab:
        C.append("\tcase %d: return t%d;" % (uid, uid))
    C.append("\t}\n\treturn tnone;\n}")
    C.append("void sfree(void *p) { free(p); }")
    cab = """package cab

import (
	_ "unsafe"

	"github.com/goplus/lib/c"
)

const LLGoPackage = "link: -L%s -lcallee"

//go:linkname Sdump C.sdump
func Sdump(id c.Int, tag *c.Char, p *c.Char, n c.Long)

//go:linkname Sdumpv C.sdumpv
func Sdumpv(id c.Int, v **c.Char, n c.Int)

//go:linkname Sget C.sget
func Sget(id c.Int) *c.Char

//go:linkname Sxor C.sxor
func Sxor(p *c.Char, n c.Long, k c.Int)

//go:linkname Sdupn C.sdupn
func Sdupn(p *c.Char, n c.Long) *c.Char

//go:linkname Sfree C.sfree
func Sfree(p *c.Char)

//go:linkname AllocCStr llgo.allocCStr
func AllocCStr(s string) *c.Char
""" % LIBDIR
    main = ["package main", "", "import (", "\t\"%s/cab\"" % modname, "", "\t\"github.com/goplus/lib/c\"", ")", "", GO_HEX,
            "var lits = []string{"] + ["\t%s," % golit(b) for b in lits] + ["}", ""] + M + ["", "func main() {"]
    main += ["\tu%d()" % i for i in range(len(units))]
    main += ["\tprintln(\"G END\")", "}"]
    exp_err.append("G END")
    files = {
        "go.mod": "module %s\n\ngo 1.24\n\nrequire github.com/goplus/lib v0.3.1\n" % modname,
        "go.sum": "github.com/goplus/lib v0.3.1 h1:Xws4DBVvgOMu58awqB972wtvTacDbk3nqcbHjdx9KSg=\n"
                  "github.com/goplus/lib v0.3.1/go.mod h1:SgJv3oPqLLHCu0gcL46ejOP3x7/2ry2Jtxu7ta32kp0=\n",
        "main.go": "\n".join(main) + "\n",
        "cab/cab.go": cab,
        "cab/csrc/callee.c": "\n".join(C) + "\n",
    }
    return {"files": files, "exp_out": "".join(x + "\n" for x in exp_out), "exp_err": "".join(x + "\n" for x in exp_err), "meta": meta,
            "nunits": len(units), "modname": modname, "cref": False}


def gen_cgo(seed, tier, modname="c09strc", kinds=None, n_each=None):
    """cgo program.  kinds 'gobytes_alias' and 'cbytes_empty' isolate two constructs with their own findings."""
    r = random.Random(seed * 1000003 + (107 if tier == "quick" else 109))
    n_each = n_each or (30 if tier == "quick" else 120)
    kinds = kinds or ["cstring", "cbytes", "gostring", "gostringn", "gobytes", "edge"]
    units = []
    for k in kinds:
        for _ in range(n_each if k not in ("edge", "cbytes_empty") else 1):
            units.append(k)
    tab, lits = [], []
    M, exp_out, exp_err, meta = [], [], [], {}
    for uid, k in enumerate(units):
        meta[uid] = {"kind": k}
        body = []
        if k == "cstring":
            b = rbytes(r, draw_len(r), True)
            lits.append(b)
            body.append("s := lits[%d]" % (len(lits) - 1))
            body.append("p := C.CString(s)")
            body.append("C.sdump(%d, tagT, p, C.long(len(s)+1))" % uid)
            body.append("C.sxor(p, C.long(len(s)), 0x41)")       # the Go string must not be affected
            body.append("C.free(unsafe.Pointer(p))")
            body.append("show(%d, \"s\", []byte(s))" % uid)
            exp_out.append(hexline("C", uid, "t", b + b"\0"))
            exp_err.append(hexline("G", uid, "s", b))
        elif k == "cbytes":
            b = rbytes(r, max(1, draw_len(r)), True)
            lits.append(b)
            body.append("b := []byte(lits[%d])" % (len(lits) - 1))
            body.append("p := C.CBytes(b)")
            body.append("b[0] ^= 0xff")                              # the C copy must not be affected
            body.append("C.sdump(%d, tagT, (*C.char)(p), C.long(len(b)))" % uid)
            body.append("C.free(p)")
            exp_out.append(hexline("C", uid, "t", b))
        elif k == "cbytes_empty":
            body.append("b := []byte{}")
            body.append("p := C.CBytes(b)")
            body.append("C.sdump(%d, tagT, (*C.char)(p), 0)" % uid)
            body.append("C.free(p)")
            exp_out.append(hexline("C", uid, "t", b""))
        elif k == "gostring":
            b = rbytes(r, draw_len(r), False)
            tab.append((uid, b))
            body.append("p := C.sget(%d)" % uid)
            body.append("g := C.GoString(p)")
            body.append("C.sxor(p, %d, 0x5a)" % len(b))
            body.append("show(%d, \"g\", []byte(g))" % uid)
            exp_err.append(hexline("G", uid, "g", b))
        elif k == "gostringn":
            b = rbytes(r, draw_len(r), True)
            n = r.choice([len(b), len(b), r.randint(0, len(b))])
            tab.append((uid, b))
            body.append("p := C.sget(%d)" % uid)
            body.append("g := C.GoStringN(p, %d)" % n)
            body.append("C.sxor(p, %d, 0x33)" % len(b))
            body.append("show(%d, \"g\", []byte(g))" % uid)
            exp_err.append(hexline("G", uid, "g", b[:n]))
        elif k in ("gobytes", "gobytes_alias"):
            b = rbytes(r, draw_len(r), True)
            n = r.choice([len(b), len(b), r.randint(0, len(b))])
            tab.append((uid, b))
            body.append("p := C.sget(%d)" % uid)
            body.append("g := C.GoBytes(unsafe.Pointer(p), %d)" % n)
            if k == "gobytes_alias":
                body.append("C.sxor(p, %d, 0x3c)" % len(b))         # C.GoBytes returns a copy
            body.append("show(%d, \"g\", g)" % uid)
            exp_err.append(hexline("G", uid, "g", b[:n]))
        else:   # edge
            body.append("g := C.GoString(nil)")
            body.append("show(%d, \"nil\", []byte(g))" % uid)
            body.append("g = C.GoStringN(C.sget(-1), 0)")
            body.append("show(%d, \"zero\", []byte(g))" % uid)
            body.append("p := C.CString(\"\")")
            body.append("C.sdump(%d, tagT, p, 1)" % uid)
            body.append("C.free(unsafe.Pointer(p))")
            exp_err.append(hexline("G", uid, "nil", b""))
            exp_err.append(hexline("G", uid, "zero", b""))
            exp_out.append(hexline("C", uid, "t", b"\0"))
        M.append("func u%d() {\n\t%s\n}" % (uid, "\n\t".join(body)))
    C = [C_COMMON.replace("\nvoid ", "\nstatic void ").replace("\nchar *", "\nstatic char *")]
    for uid, b in tab:
        C.append("static char t%d[] = %s;" % (uid, cinit(b)))
    C.append("static char tnone[] = {0};")
    C.append("static char *sget(int id) {\n\tswitch (id) {")
    for uid, _ in tab:
        C.append("\tcase %d: return t%d;" % (uid, uid))
    C.append("\t}\n\treturn tnone;\n}")
    main = ["package main", "", "/*"] + C + ["*/", "import \"C\"", "", "import \"unsafe\"", "", "var _ unsafe.Pointer", "var tagT = C.CString(\"t\")", "", GO_HEX,
            "var lits = []string{"] + ["\t%s," % golit(b) for b in lits] + ["}", ""] + M + ["", "func main() {"]
    main += ["\tu%d()" % i for i in range(len(units))]
    main += ["\tprintln(\"G END\")", "}"]
    exp_err.append("G END")
    files = {"go.mod": "module %s\n\ngo 1.24\n" % modname, "main.go": "\n".join(main) + "\n"}
    return {"files": files, "exp_out": "".join(x + "\n" for x in exp_out), "exp_err": "".join(x + "\n" for x in exp_err), "meta": meta,
            "nunits": len(units), "modname": modname, "cref": False, "cgo": True}

"""Replay of a C03 case: build <dir>/main.go with llgo (from VERIF_REPO or /repo, -O0) and with go1.24, run both and
compare the per-unit traces the way checks/c03.py does (panic messages reduced to classes; unit-specific class
aliases from <dir>/meta.json).  Exit 1 if the case still differs."""
import json
import os
import sys

sys.path.insert(0, os.path.dirname(os.path.abspath(__file__)))
import c03_trace as tr
import core

d = os.path.abspath(sys.argv[1])
w = core.Work("replayC03")
llgo = core.build_llgo(w)
src = w.sub("src")
for fn in ("main.go", "go.mod"):
    with open(os.path.join(d, fn)) as f, open(os.path.join(src, fn), "w") as g:
        g.write(f.read())
alt = {}
if os.path.exists(os.path.join(d, "meta.json")):
    with open(os.path.join(d, "meta.json")) as f:
        alt = {int(k): v for k, v in json.load(f).get("alt", {}).items()}
rc, so, se = core.llgo_build(w, llgo, src, os.path.join(w.dir, "p_llgo.bin"))
if rc != 0:
    print("llgo build failed:\n" + so + se)
    w.close()
    sys.exit(1)
rc, so, se = core.go_build(w, src, os.path.join(w.dir, "p_go.bin"))
if rc != 0:
    print("go build failed:\n" + so + se)
    w.close()
    sys.exit(2)
a = core.run_prog([os.path.join(w.dir, "p_go.bin")], timeout=300)
b = core.run_prog([os.path.join(w.dir, "p_llgo.bin")], timeout=300, interposer=True)
w.close()
if "\nPROBE " in "\n" + a.err:
    # the fixed probe program: compare section by section
    def sections(text):
        sec, cur = {}, None
        for ln in text.split("\n"):
            if ln.startswith("PROBE "):
                cur = ln[6:].strip()
                sec[cur] = []
            elif cur is not None and ln and ln != "END":
                sec[cur].append(("P " + tr.pclass(ln[2:])) if ln.startswith("P ") else ln)
        return sec
    sa, sb = sections(a.err), sections(b.err)
    bad = 0
    for k in sa:
        if sa[k] != sb.get(k):
            bad = 1
            print("probe %s differs:\n  go:   %s\n  llgo: %s" % (k, " | ".join(sa[k]), " | ".join(sb.get(k, ["<not reached>"]))))
    print("REPLAY: %s" % ("still differs" if bad else "no difference"))
    sys.exit(bad)
ua, oa, ea, _ = tr.parse(a.err)
ub, ob, eb, _ = tr.parse(b.err)
bad = 0
for uid in oa:
    got = ub.get(uid)
    if got is not None and uid in alt:
        got = [("P " + alt[uid].get(l[2:], l[2:])) if l.startswith("P ") else l for l in got]
    if got != ua[uid]:
        bad = 1
        print("unit %d differs:\n  go:   %s\n  llgo: %s" % (uid, " | ".join(ua[uid]), " | ".join(got) if got is not None else "<not reached>"))
if (b.kind, b.rc) != ("exit", 0):
    bad = 1
    print("llgo program ended with %s rc=%s (go: %s rc=%s)" % (b.kind, b.rc, a.kind, a.rc))
    print(b.err[-800:])
print("REPLAY: %s" % ("still differs" if bad else "no difference"))
sys.exit(bad)

"""C19 generator: Go programs over github.com/goplus/lib/py that exchange values and calls with an embedded CPython.

One generated program = one Go module `c19m`:
  main.go, pa/, pb/            1-3 Go packages that use Python (init-time batches + run batches of call units)
  bind/<b>/                    binding packages (`LLGoPackage = "py.<module>"`, `//go:linkname F py.<name>`); a Python module
                               may be bound by two Go packages (only then the module-load guard of cl/compile.go decides anything)
  rb/                          fixed helper package: typed read-back of *py.Object into Go values, printed as text
  pylib/                       sitecustomize.py (wraps builtins.__import__, logs requests for generated modules),
                               1-4 generated pure-Python modules (one may live in a Python package: dotted name)
  driver.py                    the same units as pure Python, run by the system python3 (reference)
Every unit prints `R <uid> <payload>`; the generator also returns the expected payload of every unit (value table).

Deterministic in (seed, index): only random.Random, no sets, no hash()."""
import random
import struct

# --------------------------------------------------------------------------- text shared by driver.py and this file

PRELUDE = r'''
import struct
def _fb(bits): return struct.unpack("<d", struct.pack("<Q", bits))[0]
def _bits(f): return struct.unpack("<Q", struct.pack("<d", f))[0]
def dump(o):
    if o is None: return "N"
    if o is True: return "B1"
    if o is False: return "B0"
    t = type(o)
    if t is int: return "i%d" % o
    if t is float: return "f%016x" % _bits(o)
    if t is complex: return "c%016x:%016x" % (_bits(o.real), _bits(o.imag))
    if t is str: return "s" + o.encode("utf-8").hex()
    if t is bytearray: return "a" + bytes(o).hex()
    if t is bytes: return "b" + o.hex()
    if t is list: return "L%d[%s]" % (len(o), ",".join(dump(x) for x in o))
    if t is tuple: return "T%d(%s)" % (len(o), ",".join(dump(x) for x in o))
    return "?" + t.__name__
'''
_ns = {}
exec(PRELUDE, _ns)
dump, _fb, _bits = _ns["dump"], _ns["_fb"], _ns["_bits"]

SITECUSTOMIZE = r'''import builtins, os
_orig = builtins.__import__
def _imp(name, globals=None, locals=None, fromlist=(), level=0):
    if name.startswith("c19"):
        with open(os.environ["C19_LOG"], "a") as f:
            f.write("I %s\n" % name)
    return _orig(name, globals, locals, fromlist, level)
builtins.__import__ = _imp
'''

RB_GO = r'''// Package rb: read Python objects back into Go values and print them (fixed text, part of the C19 harness).
package rb

import (
	"unsafe"

	"github.com/goplus/lib/c"
	"github.com/goplus/lib/py"
)

//go:linkname asUTF8AndSize C.PyUnicode_AsUTF8AndSize
func asUTF8AndSize(o *py.Object, n *int) *c.Char

//go:linkname byteArrayAsString C.PyByteArray_AsString
func byteArrayAsString(o *py.Object) *c.Char

//go:linkname byteArraySize C.PyByteArray_Size
func byteArraySize(o *py.Object) int

//go:linkname bytesAsString C.PyBytes_AsString
func bytesAsString(o *py.Object) *c.Char

//go:linkname bytesSize C.PyBytes_Size
func bytesSize(o *py.Object) int

//go:linkname complexReal C.PyComplex_RealAsDouble
func complexReal(o *py.Object) float64

//go:linkname complexImag C.PyComplex_ImagAsDouble
func complexImag(o *py.Object) float64

//go:linkname objectASCII C.PyObject_ASCII
func objectASCII(o *py.Object) *py.Object

//go:linkname errOccurred C.PyErr_Occurred
func errOccurred() *py.Object

//go:linkname errClear C.PyErr_Clear
func errClear()

const hexd = "0123456789abcdef"

func Hex(s string) string {
	b := make([]byte, 0, 2*len(s))
	for i := 0; i < len(s); i++ {
		b = append(b, hexd[s[i]>>4], hexd[s[i]&15])
	}
	return string(b)
}

func U64(v uint64) string {
	if v == 0 {
		return "0"
	}
	var b [24]byte
	i := len(b)
	for v > 0 {
		i--
		b[i] = byte('0' + v%10)
		v /= 10
	}
	return string(b[i:])
}

func I64(v int64) string {
	if v < 0 {
		return "-" + U64(uint64(-(v+1))+1)
	}
	return U64(uint64(v))
}

func Hex16(v uint64) string {
	var b [16]byte
	for i := 15; i >= 0; i-- {
		b[i] = hexd[v&15]
		v >>= 4
	}
	return string(b[:])
}

func FB(bits uint64) float64   { return *(*float64)(unsafe.Pointer(&bits)) }
func FB32(bits uint32) float32 { return *(*float32)(unsafe.Pointer(&bits)) }
func bitsOf(f float64) uint64  { return *(*uint64)(unsafe.Pointer(&f)) }

// errTag reports (and clears) a pending Python exception: "!<TypeName>".
func errTag() string {
	t := errOccurred()
	if t == nil {
		return ""
	}
	name := "?"
	if n := t.TypeName(); n != nil {
		var k int
		if p := asUTF8AndSize(n, &k); p != nil {
			name = c.GoString(p, k)
		}
	}
	errClear()
	return "!" + name
}

func nilTag() string { return "<nil" + errTag() + ">" }

// typeName is the Python type name of o; the container and buffer readers check it before touching the object.
func typeName(o *py.Object) string {
	t := o.Type()
	if t == nil {
		return "?" + errTag()
	}
	n := t.TypeName()
	if n == nil {
		return "?" + errTag()
	}
	var k int
	p := asUTF8AndSize(n, &k)
	if p == nil {
		return "?" + errTag()
	}
	return c.GoString(p, k)
}

func wrongType(o *py.Object, want string) string {
	if tn := typeName(o); tn != want {
		return "<type:" + tn + ">"
	}
	return ""
}

func R(uid string, payload string) { println("R", uid, payload) }

func DStr(o *py.Object) string {
	if o == nil {
		return nilTag()
	}
	var n int
	p := asUTF8AndSize(o, &n)
	if p == nil {
		return "<notstr" + errTag() + ">"
	}
	return "s" + Hex(c.GoString(p, n))
}

// DStrC reads through (*Object).CStr (NUL-terminated view).
func DStrC(o *py.Object) string {
	if o == nil {
		return nilTag()
	}
	p := o.CStr()
	if p == nil {
		return "<notstr" + errTag() + ">"
	}
	return "s" + Hex(c.GoString(p))
}

func DAscii(o *py.Object) string {
	if o == nil {
		return nilTag()
	}
	return DStr(objectASCII(o))
}

func DInt(o *py.Object) string {
	if o == nil {
		return nilTag()
	}
	v := o.LongLong()
	return "i" + I64(int64(v)) + errTag()
}

func DLong(o *py.Object) string {
	if o == nil {
		return nilTag()
	}
	v := o.Long()
	return "i" + I64(int64(v)) + errTag()
}

func DUint(o *py.Object) string {
	if o == nil {
		return nilTag()
	}
	v := o.UlongLong()
	return "i" + U64(uint64(v)) + errTag()
}

func DUlong(o *py.Object) string {
	if o == nil {
		return nilTag()
	}
	v := o.Ulong()
	return "i" + U64(uint64(v)) + errTag()
}

func DUintptr(o *py.Object) string {
	if o == nil {
		return nilTag()
	}
	v := o.Uintptr()
	return "i" + U64(uint64(v)) + errTag()
}

func DFloat(o *py.Object) string {
	if o == nil {
		return nilTag()
	}
	v := o.Float64()
	return "f" + Hex16(bitsOf(v)) + errTag()
}

func DComplex(o *py.Object) string {
	if o == nil {
		return nilTag()
	}
	re, im := complexReal(o), complexImag(o)
	return "c" + Hex16(bitsOf(re)) + ":" + Hex16(bitsOf(im)) + errTag()
}

func DBool(o *py.Object) string {
	if o == nil {
		return nilTag()
	}
	if o.IsTrue() != 0 {
		return "B1"
	}
	return "B0"
}

func DBA(o *py.Object) string {
	if o == nil {
		return nilTag()
	}
	if w := wrongType(o, "bytearray"); w != "" {
		return w
	}
	n := byteArraySize(o)
	p := byteArrayAsString(o)
	if p == nil {
		return "<notbytearray" + errTag() + ">"
	}
	return "a" + Hex(c.GoString(p, n))
}

func DBY(o *py.Object) string {
	if o == nil {
		return nilTag()
	}
	if w := wrongType(o, "bytes"); w != "" {
		return w
	}
	p := bytesAsString(o)
	if p == nil {
		return "<notbytes" + errTag() + ">"
	}
	return "b" + Hex(c.GoString(p, bytesSize(o)))
}

func DL(o *py.Object, n int, f func(i int, it *py.Object) string) string {
	if o == nil {
		return nilTag()
	}
	if w := wrongType(o, "list"); w != "" {
		return w
	}
	k := o.ListLen()
	s := "L" + I64(int64(k)) + "["
	if k == n {
		for i := 0; i < n; i++ {
			if i > 0 {
				s += ","
			}
			s += f(i, o.ListItem(i))
		}
	}
	return s + "]" + errTag()
}

func DT(o *py.Object, n int, f func(i int, it *py.Object) string) string {
	if o == nil {
		return nilTag()
	}
	if w := wrongType(o, "tuple"); w != "" {
		return w
	}
	k := o.TupleLen()
	s := "T" + I64(int64(k)) + "("
	if k == n {
		for i := 0; i < n; i++ {
			if i > 0 {
				s += ","
			}
			s += f(i, o.TupleItem(i))
		}
	}
	return s + ")" + errTag()
}

// Rep builds a long string at run time: pat repeated n times.
func Rep(pat string, n int) string {
	b := make([]byte, 0, len(pat)*n)
	for i := 0; i < n; i++ {
		b = append(b, pat...)
	}
	return string(b)
}
'''

# --------------------------------------------------------------------------- value pools

I64MIN, I64MAX, U64MAX = -(1 << 63), (1 << 63) - 1, (1 << 64) - 1
GO_INT_TYPES = [("int8", -128, 127), ("int16", -32768, 32767), ("int32", -(1 << 31), (1 << 31) - 1), ("int64", I64MIN, I64MAX),
                ("int", I64MIN, I64MAX), ("uint8", 0, 255), ("uint16", 0, 65535), ("uint32", 0, (1 << 32) - 1),
                ("uint64", 0, U64MAX), ("uint", 0, U64MAX), ("uintptr", 0, U64MAX)]
OBJ_INT_FORMS = [("Long", "c.Long", I64MIN, I64MAX), ("LongLong", "c.LongLong", I64MIN, I64MAX), ("Ulong", "c.Ulong", 0, U64MAX),
                 ("UlongLong", "c.UlongLong", 0, U64MAX), ("Uintptr", "uintptr", 0, U64MAX)]

FLOAT_SPECIAL_BITS = [0x0000000000000000, 0x8000000000000000, 0x7ff0000000000000, 0xfff0000000000000, 0x7ff8000000000000,
                      0xfff8000000000000, 0x7ff8000000000001, 0x0000000000000001, 0x8000000000000001, 0x000fffffffffffff,
                      0x0010000000000000, 0x7fefffffffffffff, 0xffefffffffffffff, 0x3ff0000000000000, 0xbff0000000000000,
                      0x3fb999999999999a, 0x4340000000000000, 0x4340000000000001, 0x43e0000000000000, 0xc3e0000000000000,
                      0x3ca0000000000000, 0x400921fb54442d18]
F32_SPECIAL_BITS = [0x00000000, 0x80000000, 0x7f800000, 0xff800000, 0x7fc00000, 0x00000001, 0x80000001, 0x007fffff, 0x00800000,
                    0x7f7fffff, 0x3f800000, 0x3dcccccd, 0x4b800001, 0xcb7fffff]

STR_POOL = ["", "a", "hello world", "tab\tnl\ncr\r", "quote'\"back\\slash", "\u00e9", "h\u00e9llo", "\u07ff\u0800", "\uffff",
            "\U00010000", "\U0010ffff", "\U0001F600 smile", "e\u0301 combining", "\u4e2d\u6587", "\x7f\x01\x1f", "  spaced  ",
            "%s %d {}", "\u00ff\u0100"]
STR_NUL_POOL = ["\x00", "a\x00b", "\x00\x00", "tail\x00", "\x00head", "\u00e9\x00\U0001F600", "x\x00y\x00z"]


def hi_is64(t):
    return t[0] in ("int64", "int", "uint64", "uint", "uintptr")


def rnd_int_in(r, lo, hi):
    """boundary-biased integer in [lo, hi]"""
    c = r.random()
    if c < 0.35:
        cands = [lo, hi, 0, 1, -1, lo + 1, hi - 1, 127, 128, 255, 256, 32767, 32768, 65535, 65536, (1 << 31) - 1, 1 << 31,
                 (1 << 32) - 1, 1 << 32, (1 << 53) - 1, 1 << 53, (1 << 53) + 1, I64MAX, 1 << 63, -128, -129, -32768, -32769,
                 -(1 << 31), -(1 << 31) - 1, -(1 << 53) - 1, I64MIN, I64MIN + 1]
        cands = [x for x in cands if lo <= x <= hi]
        return r.choice(cands)
    if c < 0.6:
        return max(lo, min(hi, r.randint(-300, 300)))
    if c < 0.8:
        k = r.randint(1, 64)
        v = r.getrandbits(k)
        if r.random() < 0.5:
            v = -v
        return max(lo, min(hi, v))
    return r.randint(lo, hi)


def rnd_f64_bits(r):
    c = r.random()
    if c < 0.4:
        return r.choice(FLOAT_SPECIAL_BITS)
    if c < 0.6:
        return _bits(float(r.randint(-1000, 1000)) / r.choice([1, 2, 3, 7, 10, 1000]))
    if c < 0.7:   # denormals
        return r.getrandbits(52) | (r.getrandbits(1) << 63)
    b = r.getrandbits(64)
    if (b >> 52) & 0x7ff == 0x7ff and b & ((1 << 52) - 1):     # keep NaNs quiet (signalling NaNs are not claimed)
        b |= 1 << 51
    return b


def rnd_f32_bits(r):
    if r.random() < 0.4:
        return r.choice(F32_SPECIAL_BITS)
    b = r.getrandbits(32)
    if (b >> 23) & 0xff == 0xff and b & ((1 << 23) - 1):
        b |= 1 << 22
    return b


def rnd_str(r, allow_nul, long_ok, maxlong):
    c = r.random()
    if allow_nul and c < 0.2:
        return r.choice(STR_NUL_POOL)
    if c < 0.55:
        return r.choice(STR_POOL)
    if long_ok and c < 0.62:
        n = r.choice([255, 256, 1000, 4095, 4096, maxlong])
        pat = r.choice(["ab", "x", "0123456789", "\u00e9", "\U0001F600z"])
        return (pat * (n // len(pat) + 1))[:n]
    n = r.randint(1, 12)
    out = []
    for _ in range(n):
        k = r.random()
        if k < 0.5:
            out.append(chr(r.randint(0x20, 0x7e)))
        elif k < 0.6:
            out.append(chr(r.randint(1, 0x1f)))
        elif k < 0.75:
            out.append(chr(r.randint(0x80, 0x7ff)))
        elif k < 0.9:
            cp = r.randint(0x800, 0xffff)
            if 0xd800 <= cp <= 0xdfff:
                cp = 0xe000
            out.append(chr(cp))
        else:
            out.append(chr(r.randint(0x10000, 0x10ffff)))
        if allow_nul and r.random() < 0.05:
            out.append("\x00")
    return "".join(out)


def rnd_bytes(r):
    c = r.random()
    if c < 0.15:
        return b""
    if c < 0.3:
        return r.choice([b"\x00", b"\x00\x00\x00", b"\xff", b"\xff\xfe\xfd", b"abc\x00def", b"\xc3", b"\xc3\x28", b"\xed\xa0\x80",
                         b"\x80\x81", b"\xf8\x88\x80\x80\x80"])
    n = r.choice([1, 2, 3, 7, 8, 9, 15, 16, 17, 31, 33, 64, 200])
    return bytes(r.getrandbits(8) for _ in range(n))


# --------------------------------------------------------------------------- Go text helpers

def go_strlit(s):
    """byte-exact interpreted Go string literal; only [A-Za-z0-9 ] stay literal so that no `pkg.` pattern can appear inside"""
    if isinstance(s, str):
        s = s.encode("utf-8")
    out = []
    for b in s:
        ch = chr(b)
        if ch.isalnum() and b < 128 or ch == " ":
            out.append(ch)
        else:
            out.append("\\x%02x" % b)
    return '"' + "".join(out) + '"'


def go_f64_lit(bits):
    """Go constant expression of exactly this finite double, or None (NaN, Inf and -0 have no constant form)"""
    f = _fb(bits)
    if f != f or f in (float("inf"), float("-inf")) or bits == 0x8000000000000000:
        return None
    h = f.hex()           # [-]0x1.xxxxp+e  — valid Go hexadecimal floating-point literal
    return "(" + h + ")" if h.startswith("-") else h


def f32_to_f64(bits32):
    return struct.unpack("<f", struct.pack("<I", bits32))[0]


# --------------------------------------------------------------------------- value nodes

class Val:
    """py: the Python value Python must see; go_obj(g)/go_elem(g): Go source; pysrc(): Python source; reader(x): Go source of the
    typed read-back of the *py.Object expression x; sig: structural skeleton"""
    py = None
    sig = "?"

    def go_obj(self, g):
        raise NotImplementedError

    def go_elem(self, g):
        return self.go_obj(g)

    def pysrc(self):
        raise NotImplementedError

    def reader(self, r, x):
        raise NotImplementedError


class IntVal(Val):
    def __init__(self, r, mode, g):
        self.as_var = r.random() < 0.45
        if mode == "obj":
            self.ctor, self.gotype, lo, hi = r.choice(OBJ_INT_FORMS)
            self.elem = False
            self.sig = "py." + self.ctor
        else:
            self.gotype, lo, hi = r.choice([t for t in GO_INT_TYPES if hi_is64(t)] if g.avoid("narrow-int") else GO_INT_TYPES)
            self.elem = True
            self.sig = self.gotype
        self.py = rnd_int_in(r, lo, hi)
        if self.as_var:
            self.sig += "$"

    def _lit(self, g):
        lit = "%d" % self.py
        if self.as_var:
            return g.gvar(self.gotype, lit)
        return "%s(%s)" % (self.gotype, lit)

    def go_obj(self, g):
        if self.elem:
            # a converted element is obtained through a one-element list (borrowed reference, the list is never freed)
            return "py.List(%s).ListItem(0)" % self._lit(g)
        return "py.%s(%s)" % (self.ctor, self._lit(g))

    def go_elem(self, g):
        return self._lit(g) if self.elem else self.go_obj(g)

    def pysrc(self):
        return "%d" % self.py

    def reader(self, r, x):
        v = self.py
        opts = []
        if I64MIN <= v <= I64MAX:
            opts += ["DInt", "DLong"]
        if 0 <= v <= U64MAX:
            opts += ["DUint", "DUlong", "DUintptr"]
        return "rb.%s(%s)" % (r.choice(opts), x)


class FloatVal(Val):
    def __init__(self, r, mode):
        self.f32 = mode == "elem" and r.random() < 0.3
        if self.f32:
            self.bits32 = rnd_f32_bits(r)
            self.py = f32_to_f64(self.bits32)
            self.bits = _bits(self.py)
        else:
            self.bits = rnd_f64_bits(r)
            self.py = _fb(self.bits)
        self.elem = mode == "elem"
        self.const = go_f64_lit(self.bits) is not None and r.random() < 0.5
        self.as_var = not self.const and r.random() < 0.5
        self.sig = ("float32" if self.f32 else "float64" if self.elem else "py.Float") + ("#" if self.const else "$" if self.as_var else "")

    def _go(self, g):
        if self.f32:
            if self.const:
                return "float32(%s)" % go_f64_lit(self.bits)
            e = "rb.FB32(0x%08x)" % self.bits32
            return g.gvar("float32", e) if self.as_var else e
        if self.const:
            return "float64(%s)" % go_f64_lit(self.bits)
        e = "rb.FB(0x%016x)" % self.bits
        return g.gvar("float64", e) if self.as_var else e

    def go_obj(self, g):
        if self.f32:
            return "py.List(%s).ListItem(0)" % self._go(g)
        return "py.Float(%s)" % self._go(g)

    def go_elem(self, g):
        return self._go(g) if self.elem else self.go_obj(g)

    def pysrc(self):
        return "_fb(0x%016x)" % self.bits

    def reader(self, r, x):
        return "rb.DFloat(%s)" % x


class StrVal(Val):
    def __init__(self, r, mode, g):
        if mode == "obj":
            forms = ["Str", "FromGoString", "FromGoString$", "FromCStr", "FromCStrAndLen$"]
        else:
            forms = ["string", "string$", "stringRep"]
        self.form = r.choice(forms)
        nul_ok = self.form in ("FromGoString", "FromGoString$", "FromCStrAndLen$", "string", "string$") or \
            (self.form == "Str" and not g.avoid("pystr-nul"))
        self.rep = None
        if self.form == "stringRep":
            pat = r.choice(["ab", "xyz", "\u00e9", "0123456789abcdef", "\U0001F600"])
            n = r.choice([100, 1000, g.maxlong // len(pat.encode())])
            self.rep = (pat, n)
            self.py = pat * n
        else:
            self.py = rnd_str(r, nul_ok, True, 5000)
        self.elem = mode == "elem"
        self.sig = ("py." if mode == "obj" else "") + self.form + (":nul" if "\x00" in self.py else "") + \
            (":long" if len(self.py) > 200 else "") + (":mb" if any(ord(c) > 127 for c in self.py) else "")

    def _go(self, g):
        f = self.form
        lit = go_strlit(self.py)
        if f == "Str":
            return "py.Str(%s)" % lit
        if f == "FromGoString":
            return "py.FromGoString(%s)" % lit
        if f == "FromGoString$":
            return "py.FromGoString(%s)" % g.gvar("string", lit)
        if f == "FromCStr":
            return "py.FromCStr(c.Str(%s))" % lit
        if f == "FromCStrAndLen$":
            v = g.gvar("string", lit)
            return "py.FromCStrAndLen(c.GoStringData(%s), len(%s))" % (v, v)
        if f == "string":
            return lit
        if f == "string$":
            return g.gvar("string", lit)
        if f == "stringRep":
            return "rb.Rep(%s, %d)" % (go_strlit(self.rep[0]), self.rep[1])
        raise AssertionError(f)

    def go_obj(self, g):
        if self.elem:
            return "py.Tuple(%s).TupleItem(0)" % self._go(g)
        return self._go(g)

    def go_elem(self, g):
        return self._go(g)

    def pysrc(self):
        if self.rep:
            return "(%s * %d)" % (ascii(self.rep[0]), self.rep[1])
        return ascii(self.py)

    def reader(self, r, x):
        if "\x00" not in self.py and r.random() < 0.3:
            return "rb.DStrC(%s)" % x
        return "rb.DStr(%s)" % x


class BytesVal(Val):
    """[]byte -> bytearray, [N]byte -> bytes; only reachable as py.List/py.Tuple element"""

    def __init__(self, r, mode):
        b = rnd_bytes(r)
        self.array = r.random() < 0.45
        self.form = r.choice(["lit", "var"]) if self.array else r.choice(["lit", "var", "conv", "nil" if not b else "lit"])
        self.py = bytes(b) if self.array else bytearray(b)
        self.sig = ("[N]byte" if self.array else "[]byte") + ":" + self.form + (":empty" if not b else "")

    def _go(self, g):
        b = bytes(self.py)
        body = ", ".join("0x%02x" % x for x in b)
        if self.array:
            lit = "[%d]byte{%s}" % (len(b), body)
            return g.gvar("[%d]byte" % len(b), lit) if self.form == "var" else lit
        if self.form == "nil":
            return "[]byte(nil)"
        if self.form == "conv":
            return "[]byte(%s)" % g.gvar("string", go_strlit(b))
        lit = "[]byte{%s}" % body
        return g.gvar("[]byte", lit) if self.form == "var" else lit

    def go_obj(self, g):
        return "py.List(%s).ListItem(0)" % self._go(g)

    def go_elem(self, g):
        return self._go(g)

    def pysrc(self):
        return repr(self.py)

    def reader(self, r, x):
        return "rb.%s(%s)" % ("DBY" if self.array else "DBA", x)


class BoolVal(Val):
    def __init__(self, r, mode):
        self.py = r.random() < 0.5
        self.as_var = r.random() < 0.5
        self.sig = "bool" + ("$" if self.as_var else "")

    def _go(self, g):
        lit = "true" if self.py else "false"
        return g.gvar("bool", lit) if self.as_var else lit

    def go_obj(self, g):
        return "py.Tuple(%s).TupleItem(0)" % self._go(g)

    def go_elem(self, g):
        return self._go(g)

    def pysrc(self):
        return "True" if self.py else "False"

    def reader(self, r, x):
        return "rb.DBool(%s)" % x


class ComplexVal(Val):
    def __init__(self, r, mode):
        self.c64 = r.random() < 0.4
        if self.c64:
            self.b = (rnd_f32_bits(r), rnd_f32_bits(r))
            re, im = f32_to_f64(self.b[0]), f32_to_f64(self.b[1])
        else:
            self.b = (rnd_f64_bits(r), rnd_f64_bits(r))
            re, im = _fb(self.b[0]), _fb(self.b[1])
        self.py = complex(re, im)
        self.bits = (_bits(re), _bits(im))
        self.as_var = r.random() < 0.5
        self.sig = ("complex64" if self.c64 else "complex128") + ("$" if self.as_var else "")

    def _go(self, g):
        if self.c64:
            e = "complex(rb.FB32(0x%08x), rb.FB32(0x%08x))" % self.b
            return g.gvar("complex64", e) if self.as_var else e
        e = "complex(rb.FB(0x%016x), rb.FB(0x%016x))" % self.b
        return g.gvar("complex128", e) if self.as_var else e

    def go_obj(self, g):
        return "py.List(%s).ListItem(0)" % self._go(g)

    def go_elem(self, g):
        return self._go(g)

    def pysrc(self):
        return "complex(_fb(0x%016x), _fb(0x%016x))" % self.bits

    def reader(self, r, x):
        return "rb.DComplex(%s)" % x


class SeqVal(Val):
    """py.List / py.Tuple (lowered by ssa.PyList/PyTuple through PyVal) or hand-built with NewList/NewTuple + SetItem/Append"""

    def __init__(self, r, g, depth, force_kind=None):
        self.kind = force_kind or r.choice(["List", "Tuple"])
        c = r.random()
        n = 0 if c < 0.08 else r.randint(1, 6) if c < 0.93 else r.randint(20, 40)
        self.build = "lower" if r.random() < 0.8 else r.choice(["set", "append"] if self.kind == "List" else ["set"])
        self.items = [rnd_val(r, g, "obj" if self.build != "lower" or r.random() < 0.25 else "elem", depth + 1) for _ in range(n)]
        if self.build == "set" and n > 1 and r.random() < 0.5:
            self.order = list(range(n))
            r.shuffle(self.order)        # SetItem calls in scrambled order: positions, not call order, must decide
        else:
            self.order = list(range(n))
        vals = [it.py for it in self.items]
        self.py = vals if self.kind == "List" else tuple(vals)
        self.sig = "%s.%s(%s)" % (self.kind, self.build, ",".join(it.sig for it in self.items[:8]) + (",..%d" % n if n > 8 else ""))

    def go_obj(self, g):
        if self.build == "lower":
            return "py.%s(%s)" % (self.kind, ", ".join(it.go_elem(g) for it in self.items))
        n = len(self.items)
        lines = []
        if self.build == "append":
            lines.append("l := py.NewList(0)")
            for it in self.items:
                lines.append("l.ListAppend(%s)" % it.go_obj(g))
        else:
            lines.append("l := py.New%s(%d)" % (self.kind, n))
            for i in self.order:
                lines.append("l.%sSetItem(%d, %s)" % (self.kind, i, self.items[i].go_obj(g)))
        return "func() *py.Object {\n\t\t" + "\n\t\t".join(lines) + "\n\t\treturn l\n\t}()"

    def pysrc(self):
        inner = ", ".join(it.pysrc() for it in self.items)
        if self.kind == "List":
            return "[" + inner + "]"
        return "(" + inner + ("," if len(self.items) == 1 else "") + ")"

    def reader(self, r, x):
        n = len(self.items)
        cases = "".join("\n\t\tcase %d:\n\t\t\treturn %s" % (i, it.reader(r, "it")) for i, it in enumerate(self.items))
        fn = "func(i int, it *py.Object) string {\n\t\tswitch i {%s\n\t\t}\n\t\treturn \"?\"\n\t}" % cases
        return "rb.%s(%s, %d, %s)" % ("DL" if self.kind == "List" else "DT", x, n, fn)


def rnd_val(r, g, mode, depth=0):
    c = r.random()
    if depth < g.maxdepth and c < (0.22 if depth == 0 else 0.12):
        return SeqVal(r, g, depth)
    c = r.random()
    if c < 0.34:
        return IntVal(r, mode, g)
    if c < 0.58:
        return FloatVal(r, mode)
    if c < 0.82:
        return StrVal(r, mode, g)
    if c < 0.92:
        return BytesVal(r, mode)
    if c < 0.96:
        return BoolVal(r, mode)
    return ComplexVal(r, mode)


# --------------------------------------------------------------------------- Python modules

class PyMod:
    def __init__(self, idx, r, dotted):
        self.idx = idx
        self.name = ("c19pkg.m%d" % idx) if dotted else ("c19m%d" % idx)
        self.leaf = "m%d" % idx if dotted else self.name
        self.alias = "c19m%d" % idx            # name used by driver.py
        self.fixed = []       # (pyname, arity)
        for n in range(7):
            for j in range(1 if r.random() < 0.6 else 2):
                self.fixed.append(("f%d_%d" % (n, j), n))
        self.mixed = [("m%d_%d" % (k, 0), k) for k in (1, 2, 3) if r.random() < 0.8] or [("m1_0", 1)]
        self.variadic = ["v_0", "v_1"]
        self.star = None      # name of a one-parameter function that the Python side declares as (*a): target of arity aliases
        self.attrs = []       # (name, Val) filled by the program generator
        self.ns = []          # (path, Val)

    def source(self):
        nm = self.name
        L = ["import os, sys, functools",
             "def _log(s):",
             "    with open(os.environ[\"C19_LOG\"], \"a\") as f:",
             "        f.write(s + \"\\n\")",
             "_log(\"X %s\")" % nm,
             PRELUDE,
             "class _NS: pass",
             "NS = _NS()",
             "NS.inner = _NS()"]
        for name, v in self.attrs:
            L.append("%s = %s" % (name, v.pysrc()))
        for path, v in self.ns:
            L.append("%s = %s" % (path, v.pysrc()))
        L.append("def mark(t):\n    _log(\"C %s.mark \" + ascii(t))\n    return None" % nm)
        for name, n in self.fixed:
            if name == self.star:
                L.append("def %s(*a):\n    _log(\"C %s.%s %%d\" %% len(a))\n    return ascii(a)" % (name, nm, name))
                continue
            ps = ", ".join("a%d" % i for i in range(n))
            tup = "(" + ps + ("," if n == 1 else "") + ")"
            L.append("def %s(%s):\n    _log(\"C %s.%s %d\")\n    return ascii(%s)" % (name, ps, nm, name, n, tup))
        for name, k in self.mixed:
            ps = ", ".join("a%d" % i for i in range(k))
            L.append("def %s(%s, *r):\n    _log(\"C %s.%s %%d\" %% (%d + len(r)))\n    return ascii((%s,) + r)" % (name, ps, nm, name, k, ps))
        for name in self.variadic:
            L.append("def %s(*a):\n    _log(\"C %s.%s %%d\" %% len(a))\n    return ascii(a)" % (name, nm, name))
        L.append("def kw(a0, *a, k0=None, k1=None):\n    _log(\"C %s.kw %%d\" %% (1 + len(a)))\n    return ascii(((a0,) + a, k0, k1))" % nm)
        L.append("def ident(a):\n    _log(\"C %s.ident 1\")\n    return a" % nm)
        L.append("def pick(i, *a):\n    _log(\"C %s.pick %%d\" %% (1 + len(a)))\n    return a[i]" % nm)
        L.append("def tup(*a):\n    _log(\"C %s.tup %%d\" %% len(a))\n    return a" % nm)
        L.append("def lst(*a):\n    _log(\"C %s.lst %%d\" %% len(a))\n    return list(a)" % nm)
        L.append("def same(path, obj):\n    _log(\"C %s.same 2\")\n    ref = functools.reduce(getattr, path.split(\".\"), sys.modules[__name__])\n"
                 "    return ascii((obj is ref, type(ref).__name__))" % nm)
        L.append("def ismod(obj):\n    _log(\"C %s.ismod 1\")\n    return ascii(obj is sys.modules[__name__])" % nm)
        L.append("def apply(f, *a):\n    _log(\"C %s.apply %%d\" %% (1 + len(a)))\n    return f(*a)" % nm)
        return "\n".join(L) + "\n"


def go_name(pyname):
    return pyname[0].upper() + pyname[1:]


class Binding:
    """one Go package bound to a Python module"""

    def __init__(self, pkgname, mod, names, aliases=()):
        self.pkg = pkgname
        self.mod = mod
        self.names = names            # python function names declared here
        self.aliases = list(aliases)  # (GoName, pyname, nparams): extra Go declarations bound to an already bound Python name

    def source(self):
        m = self.mod
        L = ["package %s" % self.pkg, "", "import (", "\t_ \"unsafe\"", "", "\t\"github.com/goplus/lib/py\"", ")", "",
             "const LLGoPackage = \"py.%s\"" % m.name, ""]
        ar = dict(m.fixed)
        mixed = dict(m.mixed)
        for nm in self.names:
            if nm in ar:
                ps = ", ".join("a%d" % i for i in range(ar[nm]))
                sig = "(%s%s)" % (ps, " *py.Object" if ar[nm] else "")
            elif nm in mixed:
                ps = ", ".join("a%d" % i for i in range(mixed[nm]))
                sig = "(%s *py.Object, __llgo_va_list ...any)" % ps
            elif nm in ("mark", "ident", "ismod"):
                sig = "(a *py.Object)"
            elif nm == "same":
                sig = "(path, obj *py.Object)"
            else:   # v_*, pick, tup, lst, kw, apply
                sig = "(__llgo_va_list ...any)"
            L += ["//go:linkname %s py.%s" % (go_name(nm), nm), "func %s%s *py.Object" % (go_name(nm), sig), ""]
        for goname, pyname, n in self.aliases:
            ps = ", ".join("a%d" % i for i in range(n))
            L += ["//go:linkname %s py.%s" % (goname, pyname), "func %s(%s%s) *py.Object" % (goname, ps, " *py.Object" if n else ""), ""]
        for name, _ in m.attrs:
            L += ["//go:linkname %s py.%s" % (name, name), "var %s *py.Object" % name, ""]
        L += ["//go:linkname NS py.NS", "var NS *py.Object", ""]
        return "\n".join(L)


# --------------------------------------------------------------------------- Go user packages

class GoPkg:
    def __init__(self, name, prog):
        self.name = name            # "main", "pa", "pb"
        self.prog = prog
        self.nvar = 0
        self.vars = []
        self.funcs = []             # Go source of unit functions
        self.batches = []           # (label, [uid]) ; label "init" or "run<k>"
        self.maxdepth = prog.maxdepth
        self.maxlong = prog.maxlong
        self.deps = []              # helper packages imported

    def avoid(self, what):
        return what in self.prog.avoid_set

    def gvar(self, typ, init):
        self.nvar += 1
        n = "gv%d" % self.nvar
        self.vars.append("var %s %s = %s" % (n, typ, init))
        return n

    def source(self):
        body = "\n".join(self.vars) + "\n\n" + "\n\n".join(self.funcs) + "\n"
        imps = []
        cands = [("rb", "c19m/rb"), ("c", "github.com/goplus/lib/c"), ("py", "github.com/goplus/lib/py"),
                 ("std", "github.com/goplus/lib/py/std"), ("pymath", "github.com/goplus/lib/py/math")]
        for b in self.prog.bindings:
            cands.append((b.pkg, "c19m/bind/" + b.pkg))
        for d in self.deps:
            cands.append((d, "c19m/" + d))
        import re
        for alias, path in cands:
            if re.search(r"(?<![A-Za-z0-9_.])%s\." % re.escape(alias), body):
                imps.append("\t%s \"%s\"" % (alias, path) if alias == "pymath" else "\t\"%s\"" % path)
        return "package %s\n\nimport (\n%s\n)\n\n%s" % (self.name, "\n".join(imps), body)


class Program:
    pass


# --------------------------------------------------------------------------- units

def _bind_for(r, prog, mod, pyname):
    """a binding package of `mod` that declares pyname"""
    cands = [b for b in prog.bindings if b.mod is mod and pyname in b.names]
    return r.choice(cands)


def make_unit(r, prog, g, uid, kind):
    """returns (go_func_source, driver_lines, expected_payload, sig)"""
    mod = r.choice(prog.mods)
    ma = mod.alias
    go, drv, exp, sig = None, None, None, None

    def fn(pyname, m=mod):
        b = _bind_for(r, prog, m, pyname)
        return "%s.%s" % (b.pkg, go_name(pyname))

    if kind == "fixed":
        pyname, n = r.choice(mod.fixed)
        args = [rnd_val(r, g, "obj") for _ in range(n)]
        call = "%s(%s)" % (fn(pyname), ", ".join(a.go_obj(g) for a in args))
        go = "\to := %s\n\trb.R(\"%s\", rb.DStr(o))" % (call, uid)
        drv = "R(\"%s\", dump(%s.%s(%s)))" % (uid, ma, pyname, ", ".join(a.pysrc() for a in args))
        exp = dump(ascii(tuple(a.py for a in args)))
        sig = "fixed%d(%s)" % (n, ",".join(a.sig for a in args))
    elif kind == "variadic":
        pyname = r.choice(mod.variadic)
        c = r.random()
        n = 0 if c < 0.1 else 1 if c < 0.2 else r.randint(2, 7) if c < 0.9 else r.randint(8, 14)
        args = [rnd_val(r, g, "obj") for _ in range(n)]
        call = "%s(%s)" % (fn(pyname), ", ".join(a.go_obj(g) for a in args))
        go = "\to := %s\n\trb.R(\"%s\", rb.DStr(o))" % (call, uid)
        drv = "R(\"%s\", dump(%s.%s(%s)))" % (uid, ma, pyname, ", ".join(a.pysrc() for a in args))
        exp = dump(ascii(tuple(a.py for a in args)))
        sig = "variadic%d(%s)" % (n, ",".join(a.sig for a in args))
    elif kind == "mixed":
        pyname, k = r.choice(mod.mixed)
        n = k + r.choice([0, 0, 1, 2, 3, 5])
        args = [rnd_val(r, g, "obj") for _ in range(n)]
        call = "%s(%s)" % (fn(pyname), ", ".join(a.go_obj(g) for a in args))
        go = "\to := %s\n\trb.R(\"%s\", rb.DStr(o))" % (call, uid)
        drv = "R(\"%s\", dump(%s.%s(%s)))" % (uid, ma, pyname, ", ".join(a.pysrc() for a in args))
        exp = dump(ascii(tuple(a.py for a in args)))
        sig = "mixed%d+%d(%s)" % (k, n - k, ",".join(a.sig for a in args))
    elif kind == "roundtrip":
        how = r.choice(["ident", "ident", "pick", "tup", "lst"])
        if how == "ident":
            v = rnd_val(r, g, "obj")
            call = "%s(%s)" % (fn("ident"), v.go_obj(g))
            dcall = "%s.ident(%s)" % (ma, v.pysrc())
            res = v
            rd = v.reader(r, "o")
            exp_py = v.py
            sig = "ident(%s)" % v.sig
        elif how == "pick":
            n = r.randint(1, 6)
            vs = [rnd_val(r, g, "obj") for _ in range(n)]
            i = r.randrange(n)
            call = "%s(py.Long(%d), %s)" % (fn("pick"), i, ", ".join(v.go_obj(g) for v in vs))
            dcall = "%s.pick(%d, %s)" % (ma, i, ", ".join(v.pysrc() for v in vs))
            rd = vs[i].reader(r, "o")
            exp_py = vs[i].py
            sig = "pick%d/%d(%s)" % (i, n, ",".join(v.sig for v in vs))
        else:
            n = r.randint(0, 6)
            vs = [rnd_val(r, g, "obj") for _ in range(n)]
            call = "%s(%s)" % (fn(how), ", ".join(v.go_obj(g) for v in vs))
            dcall = "%s.%s(%s)" % (ma, how, ", ".join(v.pysrc() for v in vs))
            cases = "".join("\n\t\tcase %d:\n\t\t\treturn %s" % (i, it.reader(r, "it")) for i, it in enumerate(vs))
            f = "func(i int, it *py.Object) string {\n\t\tswitch i {%s\n\t\t}\n\t\treturn \"?\"\n\t}" % cases
            rd = "rb.%s(o, %d, %s)" % ("DT" if how == "tup" else "DL", n, f)
            exp_py = tuple(v.py for v in vs) if how == "tup" else [v.py for v in vs]
            sig = "%s%d(%s)" % (how, n, ",".join(v.sig for v in vs))
        go = "\to := %s\n\trb.R(\"%s\", %s+\" \"+rb.DAscii(o))" % (call, uid, rd)
        drv = "_o = %s; R(\"%s\", dump(_o) + \" \" + dump(ascii(_o)))" % (dcall, uid)
        exp = dump(exp_py) + " " + dump(ascii(exp_py))
    elif kind == "lookup":
        # an attribute of the module (or of a nested namespace object, or a function) found by name from Go must be the
        # very object CPython resolves for the same dotted path
        cands = [(n, v) for n, v in mod.attrs] + [(p, v) for p, v in mod.ns] + [(f, None) for f, _ in mod.fixed[:3]]
        path, v = r.choice(cands)
        parts = path.split(".")
        b = r.choice([b for b in prog.bindings if b.mod is mod])
        modobj = "py.AddModule(c.Str(\"%s\"))" % mod.name
        if parts[0] == "NS":
            base = r.choice(["%s.NS" % b.pkg, "%s.GetAttrString(c.Str(\"NS\"))" % modobj])
            e = base
            for p in parts[1:]:
                e = r.choice(["%s.GetAttrString(c.Str(\"%s\"))" % (e, p), "std.GetAttr(%s, py.Str(\"%s\"))" % (e, p)])
            how = "ns"
        elif v is None:
            e = r.choice(["%s.GetAttrString(c.Str(\"%s\"))" % (modobj, path), "py.List(%s).ListItem(0)" % fn(path),
                          "%s.ModuleGetDict().DictGetItem(py.Str(\"%s\"))" % (modobj, path)])
            how = "func"
        else:
            e = r.choice(["%s.%s" % (b.pkg, path), "%s.GetAttrString(c.Str(\"%s\"))" % (modobj, path),
                          "std.GetAttr(%s, py.Str(\"%s\"))" % (modobj, path),
                          "%s.ModuleGetDict().DictGetItem(py.Str(\"%s\"))" % (modobj, path),
                          "%s.GetAttr(py.Str(\"%s\"))" % (modobj, path)])
            how = "attr"
        tn = "function" if v is None else type(v.py).__name__
        if v is None:
            go = "\tx := %s\n\to := %s(py.Str(\"%s\"), x)\n\trb.R(\"%s\", rb.DStr(o))" % (e, fn("same"), path, uid)
            drv = "R(\"%s\", dump(%s.same(\"%s\", %s.%s)))" % (uid, ma, path, ma, path)
            exp = dump(ascii((True, tn)))
        else:
            go = "\tx := %s\n\to := %s(py.Str(\"%s\"), x)\n\trb.R(\"%s\", rb.DStr(o)+\" \"+%s+\" \"+rb.DAscii(x))" % (
                e, fn("same"), path, uid, v.reader(r, "x"))
            drv = "_x = %s.%s; R(\"%s\", dump(%s.same(\"%s\", _x)) + \" \" + dump(_x) + \" \" + dump(ascii(_x)))" % (ma, path, uid, ma, path)
            exp = dump(ascii((True, tn))) + " " + dump(v.py) + " " + dump(ascii(v.py))
        sig = "lookup:%s:%s:%s" % (how, e.split("(")[0].split(".")[-1] if "(" in e else "pyvar", len(parts))
    elif kind == "modlookup":
        # explicit import / sys.modules lookup of a generated module from Go: must be the object in sys.modules
        m0 = prog.mods[0]
        how = r.choice(["ImportModule", "AddModule", "Import"])
        if how == "AddModule":
            e = "py.AddModule(c.Str(\"%s\"))" % mod.name
            pre, dpre = "", ""
        else:
            e = "py.ImportModule(c.Str(\"%s\"))" % mod.name if how == "ImportModule" else "py.Import(py.Str(\"%s\"))" % mod.name
            pre = "\t%s(py.Str(\"explicit:%s\"))\n" % (fn("mark", m0), mod.name)
            dpre = "%s.mark(\"explicit:%s\"); " % (m0.alias, mod.name)
        go = "%s\tx := %s\n\to := %s(x)\n\trb.R(\"%s\", rb.DStr(o))" % (pre, e, fn("ismod"), uid)
        drv = "%sR(\"%s\", dump(%s.ismod(%s)))" % (dpre, uid, ma, ma)
        exp = dump("True")
        sig = "modlookup:" + how + (":dotted" if "." in mod.name else "")
    elif kind == "objcall":
        # a function object found by name, called through the object-call entry points
        pyname, n = r.choice(mod.fixed)
        how = r.choice(["CallObject", "Call", "CallFunctionObjArgs"] + (["CallNoArgs"] if n == 0 else []) + (["CallOneArg"] if n == 1 else []))
        args = [rnd_val(r, g, "obj") for _ in range(n)]
        fo = r.choice(["py.AddModule(c.Str(\"%s\")).GetAttrString(c.Str(\"%s\"))" % (mod.name, pyname),
                       "py.Tuple(%s).TupleItem(0)" % fn(pyname)])
        al = ", ".join(a.go_obj(g) for a in args)
        if how == "CallObject":
            call = "f.CallObject(py.Tuple(%s))" % al
        elif how == "Call":
            call = "f.Call(py.Tuple(%s), nil)" % al
        elif how == "CallFunctionObjArgs":
            call = "f.CallFunctionObjArgs(%s(*py.Object)(nil))" % (al + ", " if al else "")
        elif how == "CallNoArgs":
            call = "f.CallNoArgs()"
        else:
            call = "f.CallOneArg(%s)" % al
        go = "\tf := %s\n\to := %s\n\trb.R(\"%s\", rb.DStr(o))" % (fo, call, uid)
        drv = "R(\"%s\", dump(%s.%s(%s)))" % (uid, ma, pyname, ", ".join(a.pysrc() for a in args))
        exp = dump(ascii(tuple(a.py for a in args)))
        sig = "objcall:%s:%d(%s)" % (how, n, ",".join(a.sig for a in args))
    elif kind == "kwcall":
        n = r.randint(1, 4)
        args = [rnd_val(r, g, "obj") for _ in range(n)]
        kws = [(k, rnd_val(r, g, "obj")) for k in ("k0", "k1") if r.random() < 0.7]
        lines = ["\tf := py.AddModule(c.Str(\"%s\")).GetAttrString(c.Str(\"kw\"))" % mod.name, "\td := py.NewDict()"]
        for k, v in kws:
            lines.append("\td.DictSetItem(py.Str(\"%s\"), %s)" % (k, v.go_obj(g)))
        lines.append("\to := f.Call(py.Tuple(%s), d)" % ", ".join(a.go_obj(g) for a in args))
        lines.append("\trb.R(\"%s\", rb.DStr(o))" % uid)
        go = "\n".join(lines)
        drv = "R(\"%s\", dump(%s.kw(%s)))" % (uid, ma, ", ".join([a.pysrc() for a in args] + ["%s=%s" % (k, v.pysrc()) for k, v in kws]))
        kd = dict((k, v.py) for k, v in kws)
        exp = dump(ascii((tuple(a.py for a in args), kd.get("k0"), kd.get("k1"))))
        sig = "kwcall:%d:%s" % (n, "+".join(k for k, _ in kws))
    elif kind == "apply":
        # a bound Python function passed as an argument of another bound Python function
        pyname, n = r.choice(mod.fixed)
        args = [rnd_val(r, g, "obj") for _ in range(n)]
        call = "%s(%s)" % (fn("apply"), ", ".join([fn(pyname)] + [a.go_obj(g) for a in args]))
        go = "\to := %s\n\trb.R(\"%s\", rb.DStr(o))" % (call, uid)
        drv = "R(\"%s\", dump(%s.apply(%s)))" % (uid, ma, ", ".join(["%s.%s" % (ma, pyname)] + [a.pysrc() for a in args]))
        exp = dump(ascii(tuple(a.py for a in args)))
        sig = "apply:%d(%s)" % (n, ",".join(a.sig for a in args))
    elif kind == "alias":
        # a second Go declaration bound to the same Python name with another arity (the math.Log / math.LogOf pattern)
        b = r.choice([b for b in prog.bindings if b.mod is mod and b.aliases])
        goname, pyname, n = r.choice(b.aliases)
        args = [rnd_val(r, g, "obj") for _ in range(n)]
        first = "%s.%s" % (b.pkg, go_name(pyname))           # the one-parameter declaration, used first in this function
        a0 = rnd_val(r, g, "obj")
        go = "\to0 := %s(%s)\n\to := %s.%s(%s)\n\trb.R(\"%s\", rb.DStr(o0)+\" \"+rb.DStr(o))" % (
            first, a0.go_obj(g), b.pkg, goname, ", ".join(a.go_obj(g) for a in args), uid)
        drv = "R(\"%s\", dump(%s.%s(%s)) + \" \" + dump(%s.%s(%s)))" % (uid, ma, pyname, a0.pysrc(), ma, pyname, ", ".join(a.pysrc() for a in args))
        exp = dump(ascii((a0.py,))) + " " + dump(ascii(tuple(a.py for a in args)))
        sig = "alias:1->%d" % n
    elif kind == "stdlib":
        how = r.choice(["abs", "len", "max", "min", "sqrt", "pi", "fabs", "floor", "divmod", "ascii", "copysign"])
        if how == "abs":
            v = rnd_int_in(r, I64MIN, I64MAX)
            go = "\to := std.Abs(py.LongLong(%d))\n\trb.R(\"%s\", rb.DAscii(o))" % (v, uid)
            drv = "R(\"%s\", dump(ascii(abs(%d))))" % (uid, v)
            exp = dump(ascii(abs(v)))
        elif how == "len":
            sv = SeqVal(r, g, g.maxdepth - 1)
            go = "\to := std.Len(%s)\n\trb.R(\"%s\", rb.DInt(o))" % (sv.go_obj(g), uid)
            drv = "R(\"%s\", dump(len(%s)))" % (uid, sv.pysrc())
            exp = dump(len(sv.py))
        elif how in ("max", "min"):
            vs = [rnd_int_in(r, I64MIN, I64MAX) for _ in range(r.randint(2, 6))]
            go = "\to := std.%s(%s)\n\trb.R(\"%s\", rb.DInt(o))" % (how.capitalize(), ", ".join("py.LongLong(%d)" % v for v in vs), uid)
            drv = "R(\"%s\", dump(%s(%s)))" % (uid, how, ", ".join("%d" % v for v in vs))
            exp = dump(max(vs) if how == "max" else min(vs))
        elif how in ("sqrt", "fabs", "floor"):
            import math
            bits = _bits(abs(float(r.randint(0, 1 << 40)) / r.choice([1, 3, 1000])))
            x = _fb(bits)
            f = {"sqrt": math.sqrt, "fabs": math.fabs, "floor": math.floor}[how]
            go = "\to := pymath.%s(py.Float(rb.FB(0x%016x)))\n\trb.R(\"%s\", rb.DAscii(o))" % (how.capitalize(), bits, uid)
            drv = "import math; R(\"%s\", dump(ascii(math.%s(_fb(0x%016x)))))" % (uid, how, bits)
            exp = dump(ascii(f(x)))
        elif how == "pi":
            import math
            go = "\trb.R(\"%s\", rb.DFloat(pymath.Pi))" % uid
            drv = "import math; R(\"%s\", dump(math.pi))" % uid
            exp = dump(math.pi)
        elif how == "divmod":
            a, b2 = rnd_int_in(r, I64MIN, I64MAX), r.choice([1, -1, 2, 3, 7, -7, 10, 1 << 32, I64MAX, I64MIN])
            go = "\to := std.Divmod(py.LongLong(%d), py.LongLong(%d))\n\trb.R(\"%s\", rb.DAscii(o))" % (a, b2, uid)
            drv = "R(\"%s\", dump(ascii(divmod(%d, %d))))" % (uid, a, b2)
            exp = dump(ascii(divmod(a, b2)))
        elif how == "copysign":
            import math
            b1, b2 = rnd_f64_bits(r), rnd_f64_bits(r)
            go = "\to := pymath.Copysign(py.Float(rb.FB(0x%016x)), py.Float(rb.FB(0x%016x)))\n\trb.R(\"%s\", rb.DFloat(o))" % (b1, b2, uid)
            drv = "import math; R(\"%s\", dump(math.copysign(_fb(0x%016x), _fb(0x%016x))))" % (uid, b1, b2)
            exp = dump(math.copysign(_fb(b1), _fb(b2)))
        else:
            v = rnd_val(r, g, "obj")
            go = "\to := std.Ascii(%s)\n\trb.R(\"%s\", rb.DStr(o))" % (v.go_obj(g), uid)
            drv = "R(\"%s\", dump(ascii(%s)))" % (uid, v.pysrc())
            exp = dump(ascii(v.py))
        sig = "stdlib:" + how
    else:
        raise AssertionError(kind)
    # a unit lives in a plain function, a method, a closure, a generic function or a deferred call
    shape = r.choice(["func", "func", "func", "method", "closure", "generic", "defer"])
    name = "U" + uid[1:]
    if shape == "func":
        src = "func %s() {\n%s\n}" % (name, go)
    elif shape == "method":
        src = "type t%s struct{ k int }\n\nfunc (t t%s) run() {\n%s\n}\n\nfunc %s() { t%s{1}.run() }" % (uid, uid, go, name, uid)
    elif shape == "closure":
        src = "func %s() {\n\tk := 0\n\tf := func() {\n\t\tk++\n%s\n\t}\n\tf()\n\tif k != 1 {\n\t\tpanic(\"closure\")\n\t}\n}" % (name, go)
    elif shape == "generic":
        src = "func g%s[T any](gx T) T {\n%s\n\treturn gx\n}\n\nfunc %s() { g%s(%d) }" % (uid, go, name, uid, r.randint(0, 9))
    else:
        src = "func %s() {\n\tdefer func() {\n%s\n\t}()\n}" % (name, go)
    return src, drv, exp, sig + "@" + shape


KINDS = [("fixed", 30), ("variadic", 14), ("mixed", 8), ("roundtrip", 22), ("lookup", 8), ("modlookup", 3), ("objcall", 6),
         ("kwcall", 2), ("stdlib", 4), ("apply", 3), ("alias", 3)]


def generate(seed, idx, nunits=40, avoid=(), maxlong=5000, only=None):
    """-> dict(files, expected{uid: payload}, batches[(pkg, label, [uid])], order[labels of main-phase batches], mods, sigs, ...)"""
    r = random.Random(seed * 7919 + idx * 104729 + 19)
    prog = Program()
    prog.avoid_set = tuple(avoid)
    prog.maxdepth = 3
    prog.maxlong = maxlong
    nmods = r.choice([1, 2, 2, 3, 3, 4])
    dotted = r.randrange(nmods) if r.random() < 0.5 and nmods > 1 else -1      # module 0 (marks) is never the dotted one when alone
    if dotted == 0:
        dotted = nmods - 1
    prog.mods = [PyMod(i, r, i == dotted) for i in range(nmods)]
    gdummy = GoPkg("tmp", prog)
    for m in prog.mods:
        for k in range(r.randint(2, 4)):
            v = rnd_val(r, gdummy, "obj", depth=1)
            m.attrs.append(("ATTR_%d" % k, v))
        m.ns = [("NS.x", rnd_val(r, gdummy, "obj", depth=2)), ("NS.inner.y", rnd_val(r, gdummy, "obj", depth=2))]
    # bindings: one per module, plus (often) a second Go package bound to the same Python module
    prog.bindings = []
    helpers = ["mark", "ident", "pick", "tup", "lst", "same", "ismod", "kw", "apply"]
    for m in prog.mods:
        allnames = [n for n, _ in m.fixed] + [n for n, _ in m.mixed] + m.variadic + helpers
        aliases = []
        if "alias-arity" not in prog.avoid_set:
            one = [n for n, k in m.fixed if k == 1][0]
            m.star = one        # the Python side of an aliased name takes *a, so every arity is legal
            aliases = [(go_name(one) + "X%d" % k, one, k) for k in (2, 3, 5)]
        if r.random() < 0.6:
            # split: both packages declare the helpers; the other functions are divided (some declared by both)
            rest = [n for n in allnames if n not in helpers]
            a, b2 = [], []
            for n in rest:
                c = r.random()
                if c < 0.4:
                    a.append(n)
                elif c < 0.8:
                    b2.append(n)
                else:
                    a.append(n)
                    b2.append(n)
            one = [n for n, k in m.fixed if k == 1][0]
            if one not in a:
                a.append(one)
            prog.bindings.append(Binding("b%d" % m.idx, m, a + helpers, aliases))
            prog.bindings.append(Binding("b%dx" % m.idx, m, b2 + helpers))
        else:
            prog.bindings.append(Binding("b%d" % m.idx, m, allnames, aliases))
    # Go packages
    npk = r.choice([1, 2, 2, 3, 3])
    names = ["main", "pa", "pb"][:npk]
    pkgs = dict((n, GoPkg(n, prog)) for n in names)
    if "pb" in pkgs and r.random() < 0.5:
        pkgs["pb"].deps.append("pa")
    pkgs["main"].deps = [n for n in names if n != "main"]
    kinds = [(k, w) for k, w in KINDS if not (k == "apply" and "fnref-arg" in prog.avoid_set) and not (k == "alias" and "alias-arity" in prog.avoid_set)]
    tot = sum(w for _, w in kinds)
    expected, drv_of, sigs = {}, {}, {}
    uid_n = [0]

    def new_units(g, n):
        out = []
        for _ in range(n):
            uid_n[0] += 1
            uid = "u%d" % uid_n[0]
            x = r.random() * tot
            for k, w in kinds:
                x -= w
                if x < 0:
                    break
            nv = len(g.vars)
            src, drv, exp, sig = make_unit(r, prog, g, uid, k)
            if only is not None and uid not in only:      # reduced replay: same random stream, unit not emitted
                del g.vars[nv:]
                continue
            g.funcs.append(src)
            expected[uid] = exp
            drv_of[uid] = drv
            sigs[uid] = sig
            out.append(uid)
        return out

    # batch plan: every package gets an init batch (package-level initialiser) and 1-2 run batches
    share = max(2, nunits // (len(names) * 3))
    batches = []      # (pkg, label, uids)
    for n in names:
        g = pkgs[n]
        batches.append((n, "init", new_units(g, r.randint(1, max(1, share // 2)))))
        for k in range(r.choice([1, 2])):
            batches.append((n, "run%d" % k, new_units(g, share)))
    # top up main so that the program has nunits units
    have = sum(len(b[2]) for b in batches)
    if have < nunits:
        batches.append(("main", "run9", new_units(pkgs["main"], nunits - have)))
    m0 = prog.mods[0]
    markfn = "%s.Mark" % [b for b in prog.bindings if b.mod is m0][0].pkg
    run_order = [b for b in batches if b[1] != "init"]
    r.shuffle(run_order)
    for pk, label, uids in batches:
        g = pkgs[pk]
        calls = "".join("\tU%s()\n" % u[1:] for u in uids)
        fname = ("Run" + label[3:]) if label != "init" else "initBatch"
        body = "func %s() int {\n\t%s(py.Str(\"%s:%s\"))\n%s\treturn 0\n}" % (fname, markfn, pk, label, calls)
        g.funcs.append(body)
        if label == "init":
            g.funcs.append("var _ = initBatch()")
    mainseq = "".join("\t%s%s()\n" % ("" if pk == "main" else pk + ".", "Run" + label[3:]) for pk, label, _ in run_order)
    pkgs["main"].funcs.append("func main() {\n%s\trb.R(\"end\", \"s\")\n}" % mainseq)
    if "pb" in pkgs and "pa" in pkgs["pb"].deps:
        pkgs["pb"].funcs.append("var _ = pa.Run0")      # keeps the import used (pb depends on pa for initialisation order)
    # files
    files = {"go.mod": "module c19m\n\ngo 1.24\n\nrequire github.com/goplus/lib v0.3.1\n", "rb/rb.go": RB_GO,
             "pylib/sitecustomize.py": SITECUSTOMIZE}
    for n in names:
        files["main.go" if n == "main" else "%s/%s.go" % (n, n)] = pkgs[n].source()
    for b in prog.bindings:
        files["bind/%s/%s.go" % (b.pkg, b.pkg)] = b.source()
    for m in prog.mods:
        src = m.source()
        if "." in m.name:
            files["pylib/c19pkg/__init__.py"] = ""
            files["pylib/c19pkg/%s.py" % m.leaf] = src
        else:
            files["pylib/%s.py" % m.name] = src
    # driver: init batches in Go's order (dependencies first, then by import path), then the main sequence
    init_order = [n for n in ("pa", "pb", "main") if n in pkgs]
    D = ["import sys", PRELUDE]
    for m in prog.mods:
        D.append("import %s as %s" % (m.name, m.alias) if m.name != m.alias else "import %s" % m.name)
    D.append("def R(uid, payload): sys.stderr.write(\"R %s %s\\n\" % (uid, payload))")
    bmap = dict(((pk, label), uids) for pk, label, uids in batches)
    for n in init_order:
        D.append("%s.mark(\"%s:init\")" % (m0.alias, n))
        D += [drv_of[u] for u in bmap[(n, "init")]]
    for pk, label, uids in run_order:
        D.append("%s.mark(\"%s:%s\")" % (m0.alias, pk, label))
        D += [drv_of[u] for u in uids]
    D.append("R(\"end\", \"s\")")
    files["driver.py"] = "\n".join(D) + "\n"
    return {"files": files, "expected": expected, "batches": batches, "run_order": [(pk, label) for pk, label, _ in run_order],
            "init_order": init_order, "mods": [m.name for m in prog.mods], "sigs": sigs,
            "bound": dict((m.name, [b.pkg for b in prog.bindings if b.mod is m]) for m in prog.mods),
            "pb_needs_pa": "pb" in pkgs and "pa" in pkgs["pb"].deps, "npkgs": len(names)}


# --------------------------------------------------------------------------- fixed probes of the findings

PROBE_IDS = ["pystr-nul", "alias-arity", "fnref-arg", "binding-own-use", "narrow-int"]
PROBE_UNITS = ["p1", "p2", "p3", "p4"]


def probe_program():
    """One fixed program; C19_PROBE=p1..p4 selects the unit (one finding each), so that a probe that kills the process
    cannot hide the others."""
    mod = '''import os
def _log(s):
    with open(os.environ["C19_LOG"], "a") as f:
        f.write(s + "\\n")
_log("X c19probe")
def g(*a):
    _log("C c19probe.g %d" % len(a))
    return ascii(a)
def h(a):
    _log("C c19probe.h 1")
    return ascii((a,))
def own(a):
    _log("C c19probe.own 1")
    return ascii((a,))
def tn(*a):
    _log("C c19probe.tn %d" % len(a))
    return ascii(tuple(type(x).__name__ for x in a))
'''
    bind = '''package bp

import (
	_ "unsafe"

	"github.com/goplus/lib/py"
)

const LLGoPackage = "py.c19probe"

//go:linkname G py.g
func G(a *py.Object) *py.Object

//go:linkname G2 py.g
func G2(a, b *py.Object) *py.Object

//go:linkname G3 py.g
func G3(a, b, c *py.Object) *py.Object

//go:linkname TN py.tn
func TN(__llgo_va_list ...any) *py.Object

//go:linkname H py.h
func H(a *py.Object) *py.Object
'''
    own = '''package bown

import (
	_ "unsafe"

	"github.com/goplus/lib/py"
)

const LLGoPackage = "py.c19probe"

//go:linkname Own py.own
func Own(a *py.Object) *py.Object

// HH is ordinary Go code inside a binding package that uses the package's own Python name
// (a name no other package of the program loads).
func HH(a *py.Object) *py.Object { return Own(a) }
'''
    main = '''package main

import (
	"c19m/bind/bown"
	"c19m/bind/bp"
	"c19m/rb"
	_ "unsafe"

	"github.com/goplus/lib/c"
	"github.com/goplus/lib/py"
)

//go:linkname getenv C.getenv
func getenv(name *c.Char) *c.Char

// p1: a Go string constant with an embedded NUL through py.Str
func p1() { rb.R("p1", rb.DStr(bp.H(py.Str("a\\x00b")))) }

// p2: three Go declarations of different arity bound to one Python name; the one-parameter one is used first
func p2() {
	o1 := bp.G(py.Long(1))
	o2 := bp.G2(py.Long(1), py.Long(2))
	o3 := bp.G3(py.Long(1), py.Long(2), py.Long(3))
	rb.R("p2", rb.DStr(o1)+" "+rb.DStr(o2)+" "+rb.DStr(o3))
}

// p3: a bound Python function passed as an argument of a bound Python function
func p3() { rb.R("p3", rb.DStr(bp.TN(bp.H, py.Long(7)))) }

// p4: Go code inside a binding package calling the package's own Python function
func p4() { rb.R("p4", rb.DStr(bown.HH(py.Long(3)))) }

func main() {
	sel := getenv(c.Str("C19_PROBE"))
	if sel == nil {
		return
	}
	switch c.GoString(sel) {
	case "p1":
		p1()
	case "p2":
		p2()
	case "p3":
		p3()
	case "p4":
		p4()
	}
	rb.R("end", "s")
}
'''
    files = {"go.mod": "module c19m\n\ngo 1.24\n\nrequire github.com/goplus/lib v0.3.1\n", "rb/rb.go": RB_GO,
             "pylib/sitecustomize.py": SITECUSTOMIZE, "pylib/c19probe.py": mod, "bind/bp/bp.go": bind, "bind/bown/bown.go": own,
             "main.go": main}
    exp = {"p1": dump(ascii(("a\x00b",))),
           "p2": dump(ascii((1,))) + " " + dump(ascii((1, 2))) + " " + dump(ascii((1, 2, 3))),
           "p3": dump(ascii(("function", "int"))),
           "p4": dump(ascii((3,)))}
    return {"files": files, "expected": exp}


def probe_typecache_program():
    """Separate fixed program: narrow integers converted by py.List, followed in the same package by code whose type
    descriptors are built from those integer kinds; the runtime then reads the descriptors (interface comparison, hashing)."""
    main = '''package main

import (
	"c19m/rb"

	"github.com/goplus/lib/py"
)

type rec struct {
	a uint8
	b uint16
	c uint32
	d int8
	e int16
	f int32
}

type small struct {
	a uint8
	b uint8
}

var (
	g8  uint8  = 200
	g16 uint16 = 60000
	g32 uint32 = 4000000000
	h8  int8   = -5
	h16 int16  = -300
	h32 int32  = -70000
)

func b2s(b bool) string {
	if b {
		return "T"
	}
	return "F"
}

func p5() {
	l := py.List(g8, g16, g32, h8, h16, h32)
	var x any = rec{1, 2, 3, -4, -5, -6}
	var z any = rec{1, 2, 3, -4, -5, -6}
	var w any = rec{1, 2, 3, -4, -5, -7}
	var s1 any = small{1, 2}
	var s2 any = small{1, 3}
	var u1 any = uint32(7)
	var u2 any = uint32(8)
	arr := [4]uint16{1, 2, 3, 4}
	var a1 any = arr
	arr[3] = 9
	var a2 any = arr
	m := map[any]int{}
	m[x] = 1
	m[z] += 2
	rb.R("p5", rb.DAscii(l)+" "+b2s(x == z)+b2s(x == w)+b2s(s1 == s2)+b2s(u1 == u2)+b2s(a1 == a2)+" "+rb.I64(int64(m[x])))
}

func main() {
	p5()
	rb.R("end", "s")
}
'''
    files = {"go.mod": "module c19m\n\ngo 1.24\n\nrequire github.com/goplus/lib v0.3.1\n", "rb/rb.go": RB_GO,
             "pylib/sitecustomize.py": SITECUSTOMIZE, "main.go": main}
    exp = {"p5": dump(ascii([200, 60000, 4000000000, -5, -300, -70000])) + " TFFFF 3"}
    return {"files": files, "expected": exp}

"""C16 / E1: programs that embed files into string, []byte and embed.FS variables and print what they got.

println-only (no fmt): every variable is dumped as names + length + hand-rolled FNV-1a hash, the FS variables
through ReadDir recursion, fs.WalkDir, Open+Stat and ReadFile.  Output goes to stderr (println).
All functions are pure in the rng passed in.
"""
import os

MAIN_HEAD = '''package main

import (
	"embed"
	"io/fs"
%(imports)s)

%(decls)s

func hash(b []byte) uint64 {
	h := uint64(14695981039346656037)
	for _, c := range b {
		h ^= uint64(c)
		h *= 1099511628211
	}
	return h
}

func dumpFS(tag string, f embed.FS) {
	var rec func(d string)
	n := 0
	rec = func(d string) {
		es, err := f.ReadDir(d)
		if err != nil {
			println(tag, "READDIR-ERR", d)
			return
		}
		for _, e := range es {
			p := e.Name()
			if d != "." {
				p = d + "/" + e.Name()
			}
			if e.IsDir() {
				println(tag, "dir", p)
				rec(p)
				continue
			}
			b, err := f.ReadFile(p)
			if err != nil {
				println(tag, "READFILE-ERR", p)
				continue
			}
			n++
			fl, err := f.Open(p)
			size := int64(-1)
			if err == nil {
				if st, err := fl.Stat(); err == nil {
					size = st.Size()
				}
				fl.Close()
			}
			println(tag, "file", p, len(b), size, hash(b))
		}
	}
	rec(".")
	w := 0
	fs.WalkDir(f, ".", func(p string, d fs.DirEntry, err error) error {
		if err != nil {
			println(tag, "WALK-ERR", p)
			return nil
		}
		if !d.IsDir() {
			w++
		}
		return nil
	})
	_, err := f.ReadFile("no/such/file")
	println(tag, "files", n, "walked", w, "missing-is-error", err != nil)
}

func main() {
%(body)s}
'''

INNER = '''package inner

import "embed"

%(decls)s

func hash(b []byte) uint64 {
	h := uint64(14695981039346656037)
	for _, c := range b {
		h ^= uint64(c)
		h *= 1099511628211
	}
	return h
}

func Dump() {
%(body)s}

func FS() embed.FS { return IV0 }
'''


def content(rng, kind=None):
    k = kind if kind is not None else rng.randrange(8)
    if k == 0:
        return b""
    if k == 1:
        return bytes(range(256)) * 2            # every byte value, NULs, invalid UTF-8
    if k == 2:
        return bytes(rng.randrange(256) for _ in range(70000))
    if k == 3:
        return b'quote " backslash \\ percent %d newline\n\ttab \x00 nul \xff\xfe'
    n = rng.randrange(1, 300)
    return bytes(rng.randrange(256) for _ in range(n)) if rng.randrange(2) else ("text-%d\n" % rng.randrange(10 ** 6)).encode() * rng.randrange(1, 20)


FILES = ["a.txt", "b.txt", "c.dat", "x y.txt", "é.txt", "日本語.txt", ".hidden", "_under", "README", "data.json", "UPPER.TXT", "n0"]
DIRS = ["sub", "static", "d e", "ü", ".hid", "_priv", "deep", "assets"]


def gen_tree(rng, prefix=""):
    """returns {rel: bytes}; directories are implied. depth <= 4. Includes a nested module sometimes."""
    files = {}

    def fill(d, depth):
        for _ in range(rng.randrange(1, 6)):
            if depth < 3 and rng.randrange(3) == 0:
                sub = (d + "/" if d else "") + rng.choice(DIRS)
                fill(sub, depth + 1)
            else:
                rel = (d + "/" if d else "") + rng.choice(FILES)
                if not any(k.startswith(rel + "/") for k in files):
                    files[rel] = content(rng)
    fill("", 0)
    files = {k: v for k, v in files.items() if not any(o.startswith(k + "/") for o in files)}
    if rng.randrange(2) == 0:
        tops = sorted({k.split("/")[0] for k in files if "/" in k})
        if tops:
            t = rng.choice(tops)
            files[t + "/nm/go.mod"] = b"module nested\n"
            files[t + "/nm/inside.txt"] = b"must not be embedded\n"
    return files


def quote_tok(rng, p):
    needs = any(c in p for c in " \t") or p == ""
    k = rng.randrange(4)
    if needs or k == 0:
        if "`" not in p and rng.randrange(2):
            return "`" + p + "`"
        return '"' + p.replace("\\", "\\\\").replace('"', '\\"') + '"'
    return p


def candidates(files):
    tops_f = sorted(k for k in files if "/" not in k)
    tops_d = sorted({k.split("/")[0] for k in files if "/" in k})
    c = []
    c += tops_f
    for d in tops_d:
        c += [d, "all:" + d, d + "/*"]
    c += ["*", "all:*", "*.txt", "*.[td]*", "?.txt", "[a-c].*"]
    subs = sorted({"/".join(k.split("/")[:2]) for k in files if k.count("/") >= 2})
    c += subs + ["all:" + s for s in subs]
    c += sorted(files)[:6]
    return c


def gen_decls(rng, files, varprefix, nfs):
    """returns (decls text, list of (name, type))"""
    cand = candidates(files)
    decls, vars_ = [], []
    for i in range(nfs):
        lines = []
        for _ in range(1 if rng.randrange(4) else 2):
            pats = [rng.choice(cand) for _ in range(rng.randrange(1, 4))]
            if rng.randrange(4) == 0:
                pats.append(pats[0])
            lines.append("//go:embed " + " ".join(quote_tok(rng, p) for p in pats))
        name = "%sV%d" % (varprefix, i)
        decls.append("\n".join(lines) + "\nvar %s embed.FS\n" % name)
        vars_.append((name, "fs"))
    regular = sorted(files)
    for i, typ in enumerate(["string", "[]byte", "string"]):
        f = rng.choice(regular)
        name = "%s%s%d" % (varprefix, "S" if typ == "string" else "B", i)
        decls.append("//go:embed %s\nvar %s %s\n" % (quote_tok(rng, f), name, typ))
        vars_.append((name, typ))
    return "\n".join(decls), vars_


def body_for(vars_, pkg=""):
    out = []
    for name, typ in vars_:
        if typ == "fs":
            if pkg:
                continue
            out.append('\tdumpFS("%s", %s)\n' % (name, name))
        elif typ == "string":
            out.append('\tprintln("%s%s", len(%s), hash([]byte(%s)))\n' % (pkg, name, name, name))
        else:
            out.append('\tprintln("%s%s", len(%s), cap(%s) >= len(%s), hash(%s))\n' % (pkg, name, name, name, name, name))
    return "".join(out)


def random_program(rng):
    """returns {rel: bytes} of a whole module (without go.mod)"""
    files = gen_tree(rng)
    inner_files = gen_tree(rng)
    decls, vars_ = gen_decls(rng, files, "", rng.randrange(2, 5))
    idecls, ivars = gen_decls(rng, inner_files, "I", 1)
    body = body_for(vars_) + '\tinner.Dump()\n\tdumpFS("inner.IV0", inner.FS())\n'
    main = MAIN_HEAD % {"imports": '\n\t"vmod/inner"\n', "decls": decls, "body": body}
    inner = INNER % {"decls": idecls, "body": body_for(ivars, "inner.")}
    mod = {"main.go": main.encode(), "inner/inner.go": inner.encode()}
    for k, v in files.items():
        mod[k] = v
    for k, v in inner_files.items():
        mod["inner/" + k] = v
    return mod


def fixed_program():
    """kitchen sink: Go's hidden/underscore rule, all:, explicit hidden names, nested module, duplicates, overlap,
    quoted / back-quoted patterns, unicode and spaces, binary and empty and large content, three variable kinds."""
    big = bytes((i * 7 + i // 251) % 256 for i in range(150000))
    files = {
        "a.txt": b"alpha\n", "b.txt": b"", "bin.dat": bytes(range(256)), "big.bin": big,
        "x y.txt": b"space name\n", "é.txt": "é\n".encode(), "日本語.txt": b"nihongo\n",
        ".hidden": b"top hidden\n", "_under": b"top under\n",
        "sub/v.txt": b"v\n", "sub/.h": b"h\n", "sub/_u": b"u\n", "sub/.hd/x": b"x\n", "sub/_ud/y": b"y\n",
        "sub/deep/er/est.txt": b"deepest\n", "sub/deep/.skip/z": b"z\n",
        "sub/nm/go.mod": b"module nested\n", "sub/nm/w.txt": b"nested module file\n",
        "d e/f g.txt": b"fg\n", "static/css/a.css": b"a{}\n", "static/js/a.js": b"a()\n", "static/index.html": b"<html>\x00</html>",
    }
    decls = '''//go:embed a.txt
var S0 string

//go:embed bin.dat
var S1 string

//go:embed big.bin
var B0 []byte

//go:embed b.txt
var B1 []byte

//go:embed .hidden
var S2 string

//go:embed sub
var V0 embed.FS

//go:embed all:sub
var V1 embed.FS

//go:embed a.txt sub a.txt "sub/v.txt" `sub/*.txt` sub/deep/*
//go:embed *.txt
var V2 embed.FS

//go:embed .hidden _under sub/.h sub/.hd
var V3 embed.FS

//go:embed "x y.txt" `d e` é.txt "\\u65e5\\u672c\\u8a9e.txt"
var V4 embed.FS

//go:embed static/*/a.* static/index.html bin.dat big.bin b.txt
var V5 embed.FS

var (
	//go:embed all:static
	V6 embed.FS
	//go:embed [ab].txt
	V7 embed.FS
)

//go:embed *
var V8 embed.FS
'''
    vars_ = [("S0", "string"), ("S1", "string"), ("B0", "[]byte"), ("B1", "[]byte"), ("S2", "string")] + [("V%d" % i, "fs") for i in range(9)]
    main = MAIN_HEAD % {"imports": "", "decls": decls, "body": body_for(vars_)}
    mod = {"main.go": main.encode()}
    mod.update(files)
    return mod


# programs Go rejects: the llgo build must fail too.  kind "golist": rejected by `go list` itself (these also verify that llgo's
# package loading runs go's own embed resolution, the guard the E2 monitor relies on); "gc": rejected by the compiler only.
def negative_programs():
    def mini(decl):
        return ('package main\n\nimport "embed"\n\n%s\n\nvar _ embed.FS\n\nfunc main() { println(1) }\n' % decl).encode()
    return [
        ("golist", "no-match", {"main.go": mini("//go:embed nothere\nvar V embed.FS"), "a.txt": b"a"}, {}, {}),
        ("golist", "dotdot", {"main.go": mini("//go:embed ../a.txt\nvar V embed.FS"), "a.txt": b"a"}, {}, {}),
        ("golist", "vcs-dir", {"main.go": mini("//go:embed .git/config\nvar V embed.FS"), ".git/config": b"c"}, {}, {}),
        ("golist", "nested-module", {"main.go": mini("//go:embed sub/w.txt\nvar V embed.FS"), "sub/go.mod": b"module n\n", "sub/w.txt": b"w"}, {}, {}),
        ("golist", "empty-dir", {"main.go": mini("//go:embed sub\nvar V embed.FS"), "sub/.h": b"h"}, {}, {}),
        ("golist", "symlink-file", {"main.go": mini("//go:embed lnk\nvar V embed.FS"), "a.txt": b"a"}, {"lnk": "a.txt"}, {}),
        ("golist", "symlink-dir-traversal", {"main.go": mini("//go:embed ldir/a.txt\nvar V embed.FS"), "real/a.txt": b"a"}, {"ldir": "real"}, {}),
        ("golist", "unsafe-file-name", {"main.go": mini("//go:embed -dash\nvar V embed.FS"), "-dash": b"a"}, {}, {}),
        ("golist", "case-fold-collision", {"main.go": mini("//go:embed A a\nvar V embed.FS"), "A": b"1", "a": b"2"}, {}, {}),
        ("golist", "fifo", {"main.go": mini("//go:embed pipe\nvar V embed.FS")}, {}, {"pipe": True}),
        ("golist", "single-quoted-token", {"main.go": mini("//go:embed 'a'\nvar V embed.FS"), "a": b"a"}, {}, {}),
        ("gc", "string-two-files", {"main.go": mini("//go:embed a.txt b.txt\nvar S string"), "a.txt": b"a", "b.txt": b"b"}, {}, {}),
        ("gc", "unterminated-quote", {"main.go": mini("//go:embed \"a.txt\nvar V embed.FS"), "a.txt": b"a"}, {}, {}),
    ]


def write_tree(d, mod, symlinks=None, fifos=None, modname="vmod"):
    os.makedirs(d, exist_ok=True)
    with open(os.path.join(d, "go.mod"), "w") as f:
        f.write("module %s\n\ngo 1.24\n" % modname)
    for rel, data in mod.items():
        p = os.path.join(d, rel)
        os.makedirs(os.path.dirname(p), exist_ok=True)
        with open(p, "wb") as f:
            f.write(data)
    for rel, to in (symlinks or {}).items():
        os.symlink(to, os.path.join(d, rel))
    for rel in (fifos or {}):
        os.mkfifo(os.path.join(d, rel))

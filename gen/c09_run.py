"""C09 pipeline shared by checks/c09.py and by replays:
   module dir -> gcc -O1 libcallee.a (+ C->C reference driver) -> llgo build (-O0) -> run -> compare with expected.*.txt

As a script:  python3 gen/c09_run.py <replay dir>   (rebuilds llgo from VERIF_REPO or /repo; exit 1 if it still differs)"""
import os
import shutil
import sys

sys.path.insert(0, os.path.join(os.path.dirname(os.path.abspath(__file__)), "..", "rig"))
import core

LIBDIR = "@LIBDIR@"
GCC = ["gcc", "-O1", "-fno-strict-aliasing", "-w"]


def write_module(d, files, exp_out, exp_err):
    d = os.path.abspath(d)
    libdir = os.path.join(d, "cab", "lib")
    for rel, txt in files.items():
        p = os.path.join(d, rel)
        os.makedirs(os.path.dirname(p), exist_ok=True)
        with open(p, "w") as f:
            f.write(txt.replace(LIBDIR, libdir))
    with open(os.path.join(d, "expected.stdout.txt"), "w") as f:
        f.write(exp_out)
    with open(os.path.join(d, "expected.stderr.txt"), "w") as f:
        f.write(exp_err)


def build_c(d, env):
    """gcc -O1 -> cab/lib/libcallee.a ; cref/driver.c -> cref.bin.  Returns error text or ''."""
    src = os.path.join(d, "cab", "csrc", "callee.c")
    if not os.path.exists(src):
        return ""
    lib = os.path.join(d, "cab", "lib")
    os.makedirs(lib, exist_ok=True)
    obj = os.path.join(lib, "callee.o")
    rc, so, se = core.sh(GCC + ["-c", src, "-o", obj], env=env, timeout=600)
    if rc != 0:
        return "gcc callee.c: " + se[-2000:]
    rc, so, se = core.sh(["ar", "rcs", os.path.join(lib, "libcallee.a"), obj], env=env)
    if rc != 0:
        return "ar: " + se[-2000:]
    drv = os.path.join(d, "cref", "driver.c")
    if os.path.exists(drv):
        rc, so, se = core.sh(GCC + [drv, obj, "-o", os.path.join(d, "cref.bin")], env=env, timeout=600)
        if rc != 0:
            return "gcc driver.c: " + se[-2000:]
    return ""


def streams_diff(got_out, got_err, exp_out, exp_err):
    """[(stream, line index, got, expected)] first differing line per stream (None = equal)"""
    out = []
    for name, g, e in (("stdout", got_out, exp_out), ("stderr", got_err, exp_err)):
        fd = core.first_diff(g, e)
        if fd:
            out.append((name, fd[0], fd[1], fd[2]))
    return out


def bad_units(got_out, got_err, exp_out, exp_err):
    """unit ids (ints, in order of first appearance) with a line that is missing or different in either stream"""
    bad = []
    for g, e in ((got_out, exp_out), (got_err, exp_err)):
        gl = g.split("\n")
        have = {}
        for ln in gl:
            have[ln] = have.get(ln, 0) + 1
        for ln in e.split("\n"):
            if not ln:
                continue
            if have.get(ln, 0) > 0:
                have[ln] -= 1
                continue
            p = ln.split(" ")
            if len(p) > 1 and p[1].lstrip("-").isdigit():
                u = int(p[1])
                if u not in bad:
                    bad.append(u)
    return bad


def replay(d):
    w = core.Work("C09replay")
    try:
        llgo = core.build_llgo(w)
        src = w.sub("src")
        for fn in os.listdir(d):
            s = os.path.join(d, fn)
            if os.path.isdir(s):
                shutil.copytree(s, os.path.join(src, fn))
            else:
                shutil.copy(s, src)
        libdir = os.path.join(src, "cab", "lib")
        for root, _, fns in os.walk(src):
            for fn in fns:
                if fn.endswith(".go"):
                    p = os.path.join(root, fn)
                    t = open(p).read()
                    if LIBDIR in t:
                        open(p, "w").write(t.replace(LIBDIR, libdir))
        env = w.env()
        err = build_c(src, env)
        if err:
            print("C build failed: " + err)
            return 2
        tags = open(os.path.join(d, "tags.txt")).read().strip() if os.path.exists(os.path.join(d, "tags.txt")) else None
        exe = os.path.join(w.dir, "p.bin")
        rc, so, se = core.llgo_build(w, llgo, src, exe, tags=tags)
        if rc != 0:
            print("llgo build failed:\n" + so + se)
            return 1
        r = core.run_prog([exe], timeout=300)
        eo = open(os.path.join(d, "expected.stdout.txt")).read()
        ee = open(os.path.join(d, "expected.stderr.txt")).read()
        bad = 0
        if os.path.exists(os.path.join(src, "cref.bin")):
            c = core.run_prog([os.path.join(src, "cref.bin")], timeout=60)
            for st in streams_diff(c.out, c.err, eo, ee):
                print("C->C reference differs from the expected table (generator problem) %s line %d:\n  got: %s\n  exp: %s" % (st[0], st[1] + 1, st[2][:300], st[3][:300]))
        for st in streams_diff(r.out, r.err, eo, ee):
            bad = 1
            print("Go<->C %s differs at line %d:\n  got: %s\n  exp: %s" % (st[0], st[1] + 1, st[2][:400], st[3][:400]))
        if r.kind != "exit" or r.rc != 0:
            bad = 1
            print("termination: %s rc=%s" % (r.kind, r.rc))
        print("REPLAY: %s" % ("still differs" if bad else "no difference"))
        return bad
    finally:
        w.close()


if __name__ == "__main__":
    sys.exit(replay(os.path.abspath(sys.argv[1])))

"""C13 generator: a multi-package module as a *model* (dict of values) plus
  render(state)            -> {relpath: bytes}   the whole source tree
  expected(state, config)  -> (stderr text, [stdout markers])  what the program must print, computed without any build
  EDITS / apply_edit(...)  -> the edit kinds of the property, each changing a value the program prints

Packages (module c13m):
  main        prints one line per package (println -> stderr); never cached by llgo
  pa          go:embed: string file, []byte file, embed.FS over a glob directory          (only in the "full" variant)
  pc          LLGoFiles C file in sub-directory wrap/ + header next to it (wrap/c.h) + header in the package directory (top.h)
  pg          generic functions/types, interface + method sets, map, exported const used at compile time by dependents
  pd1..pdN    transitive chain: pd_i.C is a *constant expression* over pd_{i+1}.C, so a leaf edit must recompile every link;
              pd1 also instantiates pg.Scale (generic body compiled into the dependent)
  pt          build tag c13on selects on.go / off.go
  pr          one `var _ = reg(tag, v)` per r_<x>.go file: file add / remove / rename changes order and sum

All functions are pure in the rng passed in (no sets, no hash()).
"""
import copy

MOD = "c13m"
TAG = "c13on"

# environment variables listed in collectEnvInputs (internal/build/collect.go); value used when "on"; observable effect
ENV_VARS = [
    ("LLGO_TRACE", "1", "stdout-trace"),          # every function of a package compiled with it prints `call <fn>` on stdout
    ("LLGO_DEBUG", "1", "exe"),                   # debug info, no pass pipeline: visible in the executable only
    ("LLGO_OPTIMIZE", "0", "exe"),                # go/ssa NaiveForm: visible in the executable only
    ("LLGO_STDIO_NOBUF", "1", "main-only"),       # main module only (never cached)
    ("LLGO_FULL_RPATH", "0", "link-only"),        # link step only
    ("LLGO_WASM_RUNTIME", "wasmer", "none"),      # no effect on native builds
    ("LLGO_WASI_THREADS", "0", "none"),           # no effect on native builds
    ("LLGO_DEBUG_SYMBOLS", "1", "exe"),           # DWARF; crashes inside LLVM 14 here (toolchain) -> inconclusive
]

DEFAULT_CONFIG = {"tags": False, "abi": 2, "env": {}}


def cfg_key(cfg):
    return "tags=%d,abi=%d,%s" % (1 if cfg["tags"] else 0, cfg["abi"], ",".join("%s=%s" % kv for kv in sorted(cfg["env"].items())))


def new_state(rng, full=True, cgo=False):
    n = rng.randint(2, 4)
    s = {
        "full": full,
        "cgo": cgo,
        "cg_on": rng.randint(100, 499),
        "cg_off": rng.randint(500, 999),
        "main_k": rng.randint(10, 99),
        "x": "defx",
        "pa_k": rng.randint(10, 99),
        "pa_a": "alpha-%d" % rng.randint(100, 999),
        "pa_b": [rng.randint(1, 250) for _ in range(rng.randint(3, 9))],
        "pa_g": {"g1.txt": "one-%d" % rng.randint(10, 99), "g2.txt": "two-%d" % rng.randint(100, 999)},
        "pc_k": rng.randint(10, 99),
        "c_val": rng.randint(100, 999),
        "c_hdr": rng.randint(1000, 9999),
        "c_top": rng.randint(10, 99) * 10000,
        "pg_k": rng.randint(10, 99),
        "pg_mul": rng.randint(2, 9),
        "pt_on": rng.randint(100, 499),
        "pt_off": rng.randint(500, 999),
        "pd": [rng.randint(1, 9) for _ in range(n)],
        "pr": {"r_d.go": ["d", rng.randint(1, 9)], "r_m.go": ["m", rng.randint(10, 99)]},
        "decl_f": rng.randint(2, 99),
    }
    return s


# ---------------------------------------------------------------- rendering

def _main(s):
    imp = ['"%s/pc"' % MOD, '"%s/pd1"' % MOD, '"%s/pg"' % MOD, '"%s/pr"' % MOD, '"%s/pt"' % MOD]
    body = []
    if s.get("cgo"):
        imp.insert(1, '"%s/pcg"' % MOD)
        body.append('\tprintln("pcg", pcg.Val())')
    if s["full"]:
        imp.insert(0, '"%s/pa"' % MOD)
        body.append("\tn, names, total := pa.GInfo()")
        body.append('\tprintln("pa", pa.KV(), pa.A, len(pa.B), pa.SumB(), n, names, total)')
    return ("package main\n\nimport (\n" + "".join("\t%s\n" % i for i in imp) + ")\n\n"
            "const mainK = %d\n\nvar X = \"%s\"\n\n"
            "type local struct {\n\ta int\n\tb string\n}\n\n"
            "func (l local) Area() int    { return l.a }\nfunc (l local) Name() string { return l.b }\n\n"
            "func main() {\n"
            "\tprintln(\"main\", mainK)\n\tprintln(\"X\", X)\n" % (s["main_k"], s["x"])
            + "".join(b + "\n" for b in body) +
            "\tprintln(\"pc\", pc.KV(), pc.Val(), pc.Hdr())\n"
            "\tvar sh pg.Shape = local{mainK, \"loc\"}\n"
            "\tprintln(\"pg\", pg.KV(), pg.Scale[int](3), pg.Get(pg.Box[int64]{V: 5}), pg.Total(sh), pg.Look(\"b\"), pg.Kind(sh), pg.Kind(pg.Sq{S: 1}))\n"
            "\tr := pg.Mix(pg.B4{A: 1, B: 2, C: 3, D: mainK}, 7)\n"
            "\tprintln(\"pgmix\", r.A, r.B, r.C, r.D)\n"
            "\tprintln(\"pd\", pd1.V(), pd1.S())\n"
            "\tprintln(\"pt\", pt.TV(), pt.DF())\n"
            "\tprintln(\"pr\", pr.Order(), pr.Sum())\n"
            "}\n")


def _pa(s):
    return ("package pa\n\nimport \"embed\"\n\nconst K = %d\n\n"
            "//go:embed data/a.txt\nvar A string\n\n"
            "//go:embed data/b.bin\nvar B []byte\n\n"
            "//go:embed data/g/*.txt\nvar G embed.FS\n\n"
            "func KV() int { return K }\n\n"
            "func SumB() int {\n\tt := 0\n\tfor _, c := range B {\n\t\tt += int(c)\n\t}\n\treturn t\n}\n\n"
            "func GInfo() (n int, names string, total int) {\n"
            "\tes, err := G.ReadDir(\"data/g\")\n\tif err != nil {\n\t\treturn -1, \"ERR\", 0\n\t}\n"
            "\tfor _, e := range es {\n\t\tb, err := G.ReadFile(\"data/g/\" + e.Name())\n\t\tif err != nil {\n\t\t\treturn -2, \"ERR\", 0\n\t\t}\n"
            "\t\tn++\n\t\tnames += e.Name() + \";\"\n\t\ttotal += len(b)\n\t\tfor _, c := range b {\n\t\t\ttotal += int(c)\n\t\t}\n\t}\n\treturn\n}\n" % s["pa_k"])


def _pc(s):
    return ("package pc\n\nimport _ \"unsafe\"\n\nconst LLGoFiles = \"wrap/c.c\"\n\nconst K = %d\n\n"
            "//go:linkname cval C.c13_val\nfunc cval() int32\n\n"
            "//go:linkname chdr C.c13_hdr\nfunc chdr() int32\n\n"
            "func KV() int  { return K }\nfunc Val() int { return int(cval()) }\nfunc Hdr() int { return int(chdr()) }\n" % s["pc_k"])


def _c_c(s):
    return ("#include \"c.h\"\n#include \"../top.h\"\n\n"
            "int c13_val(void) { return %d; }\nint c13_hdr(void) { return C13_HDR + C13_TOP; }\n" % s["c_val"])


def _pg(s):
    return ("package pg\n\nconst K = %d\n\nconst mul = %d\n\n"
            "type Num interface{ ~int | ~int64 }\n\n"
            "func KV() int { return K }\n\n"
            "func Scale[T Num](x T) T { return x*T(mul) + T(K) }\n\n"
            "type Box[T any] struct{ V T }\n\nfunc Get[T any](b Box[T]) T { return b.V }\n\n"
            "type Shape interface {\n\tArea() int\n\tName() string\n}\n\n"
            "type Sq struct{ S int }\n\nfunc (s Sq) Area() int    { return s.S * s.S }\nfunc (s Sq) Name() string { return \"sq\" }\n\n"
            "type Rect struct{ W, H int }\n\nfunc (r *Rect) Area() int    { return r.W * r.H }\nfunc (r *Rect) Name() string { return \"rect\" }\n\n"
            "type Tri struct {\n\tB, H int\n\tTag  string\n\tf    func(int) int\n}\n\n"
            "func (t Tri) Area() int    { return t.f(t.B * t.H) }\nfunc (t Tri) Name() string { return t.Tag }\n\n"
            "var tbl = map[string]int{\"a\": K, \"b\": K + 1, \"c\": mul}\n\n"
            "func Look(k string) int { return tbl[k] }\n\n"
            "func shapes() []Shape {\n\treturn []Shape{Sq{S: K}, &Rect{W: 2, H: K}, Tri{B: 4, H: mul, Tag: \"tri\", f: func(x int) int { return x / 2 }}}\n}\n\n"
            "func Total(extra Shape) int {\n\tt := extra.Area() + len(extra.Name())\n\tfor _, s := range shapes() {\n\t\tt += s.Area() + len(s.Name())\n\t}\n\treturn t\n}\n\n"
            "type B4 struct{ A, B, C, D int64 }\n\n"
            "func Mix(b B4, m int64) B4 { return B4{b.A + m, b.B * m, b.C - m, b.D + b.A} }\n\n"
            "func Kind(v any) int {\n\tswitch x := v.(type) {\n\tcase Sq:\n\t\treturn 1 + x.S\n\tcase *Rect:\n\t\treturn 2\n\tcase interface{ Area() int }:\n\t\treturn 3\n\t}\n\treturn 0\n}\n"
            % (s["pg_k"], s["pg_mul"]))


def _pd(s, i):
    n = len(s["pd"])
    k = s["pd"][i - 1]
    if i == n:
        return "package pd%d\n\nconst C = %d\n\nfunc V() int { return C }\n" % (i, k)
    src = "package pd%d\n\nimport (\n" % i
    if i == 1:
        src += "\t\"%s/pg\"\n" % MOD
    src += "\t\"%s/pd%d\"\n)\n\nconst C = %d + pd%d.C*10\n\nfunc V() int { return C }\n" % (MOD, i + 1, k, i + 1)
    if i == 1:
        src += "\nfunc S() int { return pg.Scale[int](pd2.C) }\n"
    return src


def render(s):
    f = {}
    f["go.mod"] = "module %s\n\ngo 1.24\n" % MOD
    f["main.go"] = _main(s)
    if s["full"]:
        f["pa/pa.go"] = _pa(s)
        f["pa/data/a.txt"] = s["pa_a"]
        f["pa/data/b.bin"] = bytes(s["pa_b"])
        for name in sorted(s["pa_g"]):
            f["pa/data/g/" + name] = s["pa_g"][name]
    f["pc/pc.go"] = _pc(s)
    f["pc/wrap/c.c"] = _c_c(s)
    f["pc/wrap/c.h"] = "#define C13_HDR %d\n" % s["c_hdr"]
    f["pc/top.h"] = "#define C13_TOP %d\n" % s["c_top"]
    f["pg/pg.go"] = _pg(s)
    if s.get("cgo"):
        # the tag does not select a file here: it changes the C flags of one and the same file list
        f["pcg/pcg.go"] = ("package pcg\n\n/*\n#cgo %s CFLAGS: -DC13_TAGVAL=%d\n#ifndef C13_TAGVAL\n#define C13_TAGVAL %d\n#endif\n"
                           "static int tagval(void) { return C13_TAGVAL; }\n*/\nimport \"C\"\n\nfunc Val() int { return int(C.tagval()) }\n" % (TAG, s["cg_on"], s["cg_off"]))
    for i in range(1, len(s["pd"]) + 1):
        f["pd%d/pd%d.go" % (i, i)] = _pd(s, i)
    f["pt/on.go"] = "//go:build %s\n\npackage pt\n\nconst T = %d\n" % (TAG, s["pt_on"])
    f["pt/off.go"] = "//go:build !%s\n\npackage pt\n\nconst T = %d\n" % (TAG, s["pt_off"])
    # pdecl is a declaration-only package (the usual llgo C-binding form): it is never compiled itself, its constants and
    # types are folded into its importer pt, which IS cached
    f["pdecl/pdecl.go"] = ("package pdecl\n\nconst LLGoPackage = \"decl\"\n\nconst Factor = %d\n\ntype Pair struct{ A, B int32 }\n" % s.get("decl_f", 7))
    f["pt/pt.go"] = ("package pt\n\nimport \"%s/pdecl\"\n\nfunc TV() int { return T }\n\n"
                     "func DF() int { p := pdecl.Pair{A: pdecl.Factor, B: 2}; return int(p.A)*pdecl.Factor + int(p.B) }\n" % MOD)
    f["pr/pr.go"] = ("package pr\n\nvar order string\nvar sum int\n\n"
                     "func reg(tag string, v int) bool {\n\tif order != \"\" {\n\t\torder += \",\"\n\t}\n\torder += tag\n\tsum += v\n\treturn true\n}\n\n"
                     "func Order() string { return order }\nfunc Sum() int      { return sum }\n")
    for name in sorted(s["pr"]):
        tag, v = s["pr"][name]
        f["pr/" + name] = "package pr\n\nvar _ = reg(\"%s\", %d)\n" % (tag, v)
    return {k: (v if isinstance(v, bytes) else v.encode()) for k, v in f.items()}


# ---------------------------------------------------------------- expected output (independent of any build)

def pd_consts(s):
    n = len(s["pd"])
    c = [0] * (n + 2)
    for i in range(n, 0, -1):
        c[i] = s["pd"][i - 1] + (c[i + 1] * 10 if i < n else 0)
    return c


def expected(s, cfg):
    """(stderr text, stdout markers that must be present when LLGO_TRACE is on)"""
    out = []
    out.append("main %d" % s["main_k"])
    out.append("X %s" % s["x"])
    if s.get("cgo"):
        out.append("pcg %d" % (s["cg_on"] if cfg["tags"] else s["cg_off"]))
    if s["full"]:
        names = sorted(s["pa_g"])
        total = 0
        for nme in names:
            b = s["pa_g"][nme].encode()
            total += len(b) + sum(b)
        out.append("pa %d %s %d %d %d %s %d" % (s["pa_k"], s["pa_a"], len(s["pa_b"]), sum(s["pa_b"]), len(names),
                                               "".join(x + ";" for x in names), total))
    out.append("pc %d %d %d" % (s["pc_k"], s["c_val"], s["c_hdr"] + s["c_top"]))
    k, mul = s["pg_k"], s["pg_mul"]
    total = (s["main_k"] + 3) + (k * k + 2) + (2 * k + 4) + ((4 * mul) // 2 + 3)
    out.append("pg %d %d %d %d %d %d %d" % (k, 3 * mul + k, 5, total, k + 1, 3, 2))
    out.append("pgmix 8 14 -4 %d" % (s["main_k"] + 1))
    c = pd_consts(s)
    out.append("pd %d %d" % (c[1], c[2] * mul + k))
    df = s.get("decl_f", 7)
    out.append("pt %d %d" % (s["pt_on"] if cfg["tags"] else s["pt_off"], df * df + 2))
    files = sorted(s["pr"])
    out.append("pr %s %d" % (",".join(s["pr"][f][0] for f in files), sum(s["pr"][f][1] for f in files)))
    markers = []
    if cfg["env"].get("LLGO_TRACE"):
        markers = ["call %s/pc.Val" % MOD, "call %s/pc.Hdr" % MOD, "call %s/pg.Total" % MOD, "call %s/pg.Look" % MOD,
                   "call %s/pd1.V" % MOD, "call %s/pd1.S" % MOD, "call %s/pr.Order" % MOD, "call %s/pr.Sum" % MOD, "call %s/pr.reg" % MOD]
        if s["full"]:
            markers += ["call %s/pa.GInfo" % MOD, "call %s/pa.SumB" % MOD]
    return "\n".join(out) + "\n", markers


def packages(s):
    """non-main packages of the module (the cacheable ones)"""
    p = ["pc", "pg", "pt", "pr"] + ["pd%d" % i for i in range(1, len(s["pd"]) + 1)]
    if s["full"]:
        p.append("pa")
    if s.get("cgo"):
        p.append("pcg")
    return sorted(p)


# ---------------------------------------------------------------- edit kinds

def _other(rng, lo, hi, cur):
    while True:
        v = rng.randint(lo, hi)
        if v != cur:
            return v


def _samelen(rng, cur):
    d = len(str(cur))
    lo = 10 ** (d - 1) if d > 1 else 1
    return _other(rng, lo, 10 ** d - 1, cur)


# kind -> (needs_full, is_config, packages whose archive must change)
FILE_KINDS = ["go_body", "go_generic_body", "go_main", "dep_leaf", "dep_mid", "dep_decl", "c_hdr_pkgdir", "file_add", "file_remove", "file_rename",
              "tag_file_body", "samesize_newmtime"]
GATED_KINDS = ["embed_content", "embed_bytes", "embed_set", "c_file_subdir", "c_hdr_subdir", "samesize_mtime", "samesize_mtime_embed"]
CONFIG_KINDS = ["tags", "abi"] + ["env:" + v[0] for v in ENV_VARS]
META_KINDS = ["noop", "revert_mtime", "clear_module", "clear_all"]


def apply_edit(kind, s, cfg, rng):
    """returns (state', config', info).  info: {"pkg": edited package or None, "desc": text,
    "preserve_mtime": [relpaths whose mtime must be put back after writing]}"""
    s = copy.deepcopy(s)
    cfg = copy.deepcopy(cfg)
    info = {"pkg": None, "desc": kind, "preserve_mtime": []}
    if kind == "go_body":
        pk = rng.choice(["pc", "pg"] + (["pa"] if s["full"] else []))
        key = {"pc": "pc_k", "pg": "pg_k", "pa": "pa_k"}[pk]
        s[key] = _other(rng, 10, 999, s[key])
        info.update(pkg=pk, desc="const K of package %s -> %d" % (pk, s[key]))
    elif kind == "go_generic_body":
        s["pg_mul"] = _other(rng, 2, 99, s["pg_mul"])
        info.update(pkg="pg", desc="constant inside the generic body pg.Scale -> %d (instantiated in main and pd1)" % s["pg_mul"])
    elif kind == "go_main":
        s["main_k"] = _other(rng, 10, 999, s["main_k"])
        info.update(pkg="main", desc="const in package main -> %d" % s["main_k"])
    elif kind == "dep_leaf":
        n = len(s["pd"])
        s["pd"][n - 1] = _other(rng, 1, 99, s["pd"][n - 1])
        info.update(pkg="pd%d" % n, desc="const C of chain leaf pd%d -> %d (folded into pd1..pd%d at compile time)" % (n, s["pd"][n - 1], n - 1))
    elif kind == "dep_decl":
        s["decl_f"] = _other(rng, 2, 99, s.get("decl_f", 7))
        info.update(pkg="pt", desc="const Factor of the declaration-only package pdecl -> %d (folded into its cached importer pt)" % s["decl_f"])
    elif kind == "dep_mid":
        n = len(s["pd"])
        i = rng.randint(2, n)
        s["pd"][i - 1] = _other(rng, 1, 99, s["pd"][i - 1])
        info.update(pkg="pd%d" % i, desc="const term of pd%d -> %d" % (i, s["pd"][i - 1]))
    elif kind == "tag_file_body":
        which = "pt_on" if cfg["tags"] else "pt_off"
        s[which] = _other(rng, 100, 999, s[which])
        info.update(pkg="pt", desc="const in the tag-selected file of pt (%s) -> %d" % (which, s[which]))
    elif kind == "c_hdr_pkgdir":
        s["c_top"] = _other(rng, 1, 99, s["c_top"] // 10000) * 10000
        info.update(pkg="pc", desc="header pc/top.h (package directory, included by wrap/c.c) -> %d" % s["c_top"])
    elif kind == "file_add":
        free = [c for c in "abcefghijklnopqrstuvwxyz" if "r_%s.go" % c not in s["pr"]]
        c = rng.choice(free)
        s["pr"]["r_%s.go" % c] = [c, rng.randint(1, 99)]
        info.update(pkg="pr", desc="add file pr/r_%s.go" % c)
    elif kind == "file_remove":
        if len(s["pr"]) < 2:
            return apply_edit("file_add", s, cfg, rng)
        f = rng.choice(sorted(s["pr"]))
        del s["pr"][f]
        info.update(pkg="pr", desc="remove file pr/%s" % f)
    elif kind == "file_rename":
        if len(s["pr"]) < 2:
            return apply_edit("file_add", s, cfg, rng)
        files = sorted(s["pr"])
        f = rng.choice(files)
        # new name that changes the position of the file in the sorted list (= initialisation order)
        pos = files.index(f)
        others = [x for x in files if x != f]
        cands = []
        for c in "abcefghijklnopqrstuvwxyz":
            nn = "r_%s.go" % c
            if nn in s["pr"]:
                continue
            if sorted(others + [nn]).index(nn) != pos:
                cands.append(nn)
        nn = rng.choice(cands)
        s["pr"][nn] = s["pr"].pop(f)
        info.update(pkg="pr", desc="rename pr/%s -> pr/%s (content unchanged; initialisation order changes)" % (f, nn), rename=("pr/" + f, "pr/" + nn))
    elif kind == "embed_content":
        s["pa_a"] = "alpha-%d" % _other(rng, 1, 99999, -1) + "x" * rng.randint(0, 3)
        info.update(pkg="pa", desc="embedded string file pa/data/a.txt -> %r" % s["pa_a"])
    elif kind == "embed_bytes":
        s["pa_b"] = [rng.randint(1, 250) for _ in range(_other(rng, 2, 12, len(s["pa_b"])))]
        info.update(pkg="pa", desc="embedded []byte file pa/data/b.bin -> %d bytes" % len(s["pa_b"]))
    elif kind == "embed_set":
        if len(s["pa_g"]) > 1 and rng.random() < 0.4:
            f = rng.choice(sorted(s["pa_g"]))
            del s["pa_g"][f]
            info.update(pkg="pa", desc="remove pa/data/g/%s (matched by //go:embed data/g/*.txt)" % f)
        else:
            free = ["g%d.txt" % i for i in range(1, 40) if "g%d.txt" % i not in s["pa_g"]]
            f = rng.choice(free)
            s["pa_g"][f] = "new-%d" % rng.randint(1, 9999)
            info.update(pkg="pa", desc="add pa/data/g/%s (matched by //go:embed data/g/*.txt)" % f)
    elif kind == "c_file_subdir":
        s["c_val"] = _other(rng, 1, 99999, s["c_val"])
        info.update(pkg="pc", desc="LLGoFiles C file pc/wrap/c.c -> %d" % s["c_val"])
    elif kind == "c_hdr_subdir":
        s["c_hdr"] = _other(rng, 1, 9999, s["c_hdr"])
        info.update(pkg="pc", desc="header pc/wrap/c.h next to the LLGoFiles C file -> %d" % s["c_hdr"])
    elif kind == "samesize_mtime":
        pk = rng.choice(["pc", "pg"])
        key = {"pc": "pc_k", "pg": "pg_k"}[pk]
        s[key] = _samelen(rng, s[key])
        info.update(pkg=pk, desc="same-size edit of %s/%s.go (K -> %d) with the old mtime put back" % (pk, pk, s[key]),
                    preserve_mtime=["%s/%s.go" % (pk, pk)])
    elif kind == "samesize_newmtime":
        pk = rng.choice(["pc", "pg"])
        key = {"pc": "pc_k", "pg": "pg_k"}[pk]
        s[key] = _samelen(rng, s[key])
        info.update(pkg=pk, desc="same-size edit of %s/%s.go (K -> %d), mtime as written" % (pk, pk, s[key]))
    elif kind == "samesize_mtime_embed":
        cur = s["pa_a"]
        digits = [i for i, ch in enumerate(cur) if ch.isdigit()]
        i = rng.choice(digits)
        nd = str((int(cur[i]) + rng.randint(1, 9)) % 10)
        s["pa_a"] = cur[:i] + nd + cur[i + 1:]
        info.update(pkg="pa", desc="same-size edit of embedded pa/data/a.txt -> %r with the old mtime put back" % s["pa_a"],
                    preserve_mtime=["pa/data/a.txt"])
    elif kind == "tags":
        cfg["tags"] = not cfg["tags"]
        info.update(pkg="pt", desc="-tags %s %s" % (TAG, "on" if cfg["tags"] else "off"), config=True)
    elif kind == "abi":
        cfg["abi"] = _other(rng, 0, 2, cfg["abi"])
        info.update(desc="-abi %d" % cfg["abi"], config=True)
    elif kind.startswith("env:"):
        var = kind[4:]
        val = [v[1] for v in ENV_VARS if v[0] == var][0]
        if var in cfg["env"]:
            del cfg["env"][var]
            info.update(desc="unset %s" % var, config=True)
        else:
            cfg["env"][var] = val
            info.update(desc="%s=%s" % (var, val), config=True)
    elif kind in META_KINDS:
        pass
    else:
        raise ValueError(kind)
    return s, cfg, info


def kinds_for(full, gated_ok):
    """edit kinds usable in random histories; gated_ok: set of GATED_KINDS whose probe passed"""
    ks = list(FILE_KINDS)
    for g in GATED_KINDS:
        if g in gated_ok and (full or not g.startswith("embed") and not g.endswith("_embed")):
            ks.append(g)
    return ks

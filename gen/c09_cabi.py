"""C09 generator: Go<->C by-value struct / scalar traffic.

One *program* = a Go module (package main + package cab holding the `//go:linkname f C.f`
declarations and the `LLGoPackage = "link: -L<dir> -lcallee"` directive), the C side
(cab/csrc/callee.[ch], compiled by gcc -O1 into libcallee.a by the check), a C->C reference
driver (cref/driver.c: the Go role re-written in C, printing what Go would print) and the
generator's own expected table.  Every unit prints each scalar leaf it received:

    C <unit> a  <leaves of all parameters>      (C callee, stdout)
    G <unit> r  <leaves of the result>          (Go caller, stderr)
    G <unit> ca <leaves of callback parameters> (Go callback invoked from C, stderr)
    C <unit> cr <leaves of the callback result> (C caller of the callback, stdout)

Leaves are printed as decimal integers (floats as their IEEE bit pattern, pointers as
addresses) so that no float formatting is involved.  The receiver returns a leaf-wise
transformed copy (ints += K(k), floats *= -2, pointers += K(k)); all values are computed
here independently of both compilers.

Pure function of (seed, tier, index): no hash(), no set iteration, no time."""
import random
import struct as _st

INTS = ["int8", "int16", "int32", "int64", "uint8", "uint16", "uint32", "uint64"]
FLOATS = ["float32", "float64"]
PRIMS = INTS + FLOATS + ["ptr"]
BITS = {"int8": 8, "int16": 16, "int32": 32, "int64": 64, "uint8": 8, "uint16": 16, "uint32": 32,
        "uint64": 64, "float32": 32, "float64": 64, "ptr": 64, "bool": 8}
CT = {"int8": "int8_t", "int16": "int16_t", "int32": "int32_t", "int64": "int64_t", "uint8": "uint8_t",
      "uint16": "uint16_t", "uint32": "uint32_t", "uint64": "uint64_t", "float32": "float",
      "float64": "double", "ptr": "void*", "bool": "_Bool"}
GT = {k: k for k in CT}
GT["ptr"] = "unsafe.Pointer"
LIBDIR = "@LIBDIR@"     # replaced by the absolute directory of libcallee.a when the module is written


def P(name):
    return ("p", name)


def A(elem, n):
    return ("a", elem, n)


def S(sid):
    return ("s", sid)


class Shapes:
    """struct table of one program: sid -> list of field types (fields are f0.. / F0..)"""

    def __init__(self):
        self.fields = []

    def add(self, ftypes):
        for i, f in enumerate(self.fields):
            if f == ftypes:
                return i
        self.fields.append(list(ftypes))
        return len(self.fields) - 1

    def size_align(self, t):
        if t[0] == "p":
            b = BITS[t[1]] // 8
            return b, b
        if t[0] == "a":
            s, a = self.size_align(t[1])
            return s * t[2], a
        off, al = 0, 1
        for ft in self.fields[t[1]]:
            s, a = self.size_align(ft)
            off = (off + a - 1) // a * a + s
            al = max(al, a)
        return (off + al - 1) // al * al, al

    def leaves(self, t, gp="", cp="", off=0):
        """[(go path, c path, prim, byte offset)]"""
        if t[0] == "p":
            return [(gp, cp, t[1], off)]
        out = []
        if t[0] == "a":
            s, _ = self.size_align(t[1])
            for i in range(t[2]):
                out += self.leaves(t[1], "%s[%d]" % (gp, i), "%s[%d]" % (cp, i), off + i * s)
            return out
        o = 0
        for i, ft in enumerate(self.fields[t[1]]):
            s, a = self.size_align(ft)
            o = (o + a - 1) // a * a
            out += self.leaves(ft, "%s.F%d" % (gp, i), "%s.f%d" % (cp, i), off + o)
            o += s
        return out

    def depth(self, t):
        if t[0] == "p":
            return 0
        if t[0] == "a":
            return self.depth(t[1])
        return 1 + max(self.depth(f) for f in self.fields[t[1]])

    # ---- SysV amd64 classification (used for signatures and for avoiding an open finding; never as an oracle)
    def classify(self, t):
        """'M' (memory) or a list of eightbyte classes 'I' / 'S'"""
        size, _ = self.size_align(t)
        if t[0] == "p":
            return ["S"] if t[1] in FLOATS else ["I"]
        if size > 16:
            return "M"
        n8 = (size + 7) // 8
        cls = [None] * n8
        for _, _, prim, off in self.leaves(t):
            k = off // 8
            c = "S" if prim in FLOATS else "I"
            cls[k] = c if cls[k] is None else ("I" if "I" in (c, cls[k]) else "S")
        return [c or "S" for c in cls]

    def tname(self, t, lang):
        if t[0] == "p":
            return (GT if lang == "go" else CT)[t[1]]
        if t[0] == "s":
            return ("cab.S%d" if lang == "go" else "struct S%d") % t[1]
        raise ValueError("array types have no C spelling outside a struct")

    def gofield(self, t, inpkg):
        if t[0] == "p":
            return GT[t[1]]
        if t[0] == "a":
            return "[%d]%s" % (t[2], self.gofield(t[1], inpkg))
        return ("S%d" if inpkg else "cab.S%d") % t[1]

    def cfield(self, t, name):
        if t[0] == "p":
            return "%s %s" % (CT[t[1]], name)
        if t[0] == "a":
            return self.cfield(t[1], "%s[%d]" % (name, t[2]))
        return "struct S%d %s" % (t[1], name)


# ------------------------------------------------------------------ values

def f32_from_bits(b):
    return _st.unpack("<f", _st.pack("<I", b))[0]


def f64_from_bits(b):
    return _st.unpack("<d", _st.pack("<Q", b))[0]


def f32_bits(x):
    return _st.unpack("<I", _st.pack("<f", x))[0]


def f64_bits(x):
    return _st.unpack("<Q", _st.pack("<d", x))[0]


class Vals:
    """draws distinct raw bit patterns per unit"""

    def __init__(self, rng):
        self.rng = rng
        self.used = []

    def draw(self, prim):
        r = self.rng
        for _ in range(50):
            if prim == "bool":
                return r.randint(0, 1)
            w = BITS[prim]
            if prim == "float32":
                v = (r.randint(0, 1) << 31) | (r.randint(127 - 40, 127 + 40) << 23) | r.getrandbits(23)
            elif prim == "float64":
                v = (r.randint(0, 1) << 63) | (r.randint(1023 - 300, 1023 + 300) << 52) | r.getrandbits(52)
            elif prim == "ptr":
                v = (0x7f << 40) | (r.getrandbits(36) << 4)
            elif w == 8:
                v = r.choice([r.randint(0x80, 0xfe), r.randint(0x80, 0xfe), r.randint(1, 0x7f)])
            else:
                top = r.choice([r.randint(0x80, 0xfe), r.randint(0x80, 0xfe), r.randint(1, 0x7f)])
                v = (top << (w - 8)) | r.getrandbits(w - 8)
            if (w, v) not in self.used:
                self.used.append((w, v))
                return v
        return v

    def tree(self, sh, t):
        if t[0] == "p":
            return self.draw(t[1])
        if t[0] == "a":
            return [self.tree(sh, t[1]) for _ in range(t[2])]
        return [self.tree(sh, f) for f in sh.fields[t[1]]]


def flat(sh, t, v):
    """[(prim, raw)] in leaf order"""
    if t[0] == "p":
        return [(t[1], v)]
    if t[0] == "a":
        out = []
        for x in v:
            out += flat(sh, t[1], x)
        return out
    out = []
    for ft, x in zip(sh.fields[t[1]], v):
        out += flat(sh, ft, x)
    return out


def unflat(sh, t, it):
    if t[0] == "p":
        return next(it)[1]
    if t[0] == "a":
        return [unflat(sh, t[1], it) for _ in range(t[2])]
    return [unflat(sh, f, it) for f in sh.fields[t[1]]]


def kconst(k):
    return (k % 31) + 1


def xform_leaf(prim, raw, k):
    if prim == "float32":
        return f32_bits(f32_from_bits(raw) * -2.0)
    if prim == "float64":
        return f64_bits(f64_from_bits(raw) * -2.0)
    if prim == "bool":
        return 1 - raw
    return (raw + kconst(k)) & ((1 << BITS[prim]) - 1)


def xform(sh, t, v):
    fl = flat(sh, t, v)
    out = [(p, xform_leaf(p, r, k)) for k, (p, r) in enumerate(fl)]
    return unflat(sh, t, iter(out))


def tok(prim, raw):
    """the decimal token both sides print for a leaf"""
    if prim.startswith("int"):
        w = BITS[prim]
        return str(raw - (1 << w) if raw >> (w - 1) else raw)
    return str(raw)


def toks(sh, t, v):
    return [tok(p, r) for p, r in flat(sh, t, v)]


# ------------------------------------------------------------------ literals

def lit_leaf(prim, raw, lang):
    if prim == "bool":
        return ("true" if raw else "false") if lang == "go" else str(raw)
    if prim in FLOATS:
        x = f32_from_bits(raw) if prim == "float32" else f64_from_bits(raw)
        h = x.hex()
        if lang == "c":
            return h + ("f" if prim == "float32" else "")
        return h
    if prim == "ptr":
        return "unsafe.Pointer(uintptr(0x%x))" % raw if lang == "go" else "(void*)0x%xULL" % raw
    if lang == "go":
        return tok(prim, raw)
    return "(%s)0x%xULL" % (CT[prim], raw)


def lit(sh, t, v, lang, top=True):
    if t[0] == "p":
        s = lit_leaf(t[1], v, lang)
        if top and lang == "go" and t[1] != "ptr" and t[1] != "bool":
            return "%s(%s)" % (GT[t[1]], s)
        return s
    if t[0] == "a":
        inner = ", ".join(lit(sh, t[1], x, lang, False) for x in v)
        if lang == "go":
            return "%s{%s}" % (sh.gofield(t, False), inner)
        return "{%s}" % inner
    if lang == "go":
        return "cab.S%d{%s}" % (t[1], ", ".join("F%d: %s" % (i, lit(sh, ft, x, lang, False))
                                                  for i, (ft, x) in enumerate(zip(sh.fields[t[1]], v))))
    body = "{%s}" % ", ".join(".f%d = %s" % (i, lit(sh, ft, x, lang, False))
                               for i, (ft, x) in enumerate(zip(sh.fields[t[1]], v)))
    return ("(struct S%d)" % t[1] + body) if top else body


# ------------------------------------------------------------------ code fragments

def print_exprs(sh, t, var, lang):
    """(format tokens, expressions) printing every leaf of `var` of type t"""
    fm, ex = [], []
    for gp, cp, prim, _ in sh.leaves(t):
        if lang == "go":
            a = var + gp
            if prim.startswith("int"):
                ex.append("int64(%s)" % a)
            elif prim.startswith("uint"):
                ex.append("uint64(%s)" % a)
            elif prim == "float32":
                ex.append("f32(%s)" % a)
            elif prim == "float64":
                ex.append("f64(%s)" % a)
            elif prim == "ptr":
                ex.append("up(%s)" % a)
            else:
                ex.append("b2i(%s)" % a)
        else:
            a = var + cp
            if prim.startswith("int"):
                fm.append("%lld")
                ex.append("(long long)%s" % a)
            elif prim == "float32":
                fm.append("%llu")
                ex.append("(unsigned long long)f32b(%s)" % a)
            elif prim == "float64":
                fm.append("%llu")
                ex.append("(unsigned long long)f64b(%s)" % a)
            elif prim == "ptr":
                fm.append("%llu")
                ex.append("(unsigned long long)(uintptr_t)%s" % a)
            else:
                fm.append("%llu")
                ex.append("(unsigned long long)%s" % a)
    return fm, ex


def go_println(side, uid, tag, parts):
    """parts: [(shapes, type, var)]; uid may be a Go expression (capturing-closure probe)"""
    ex = []
    for sh, t, var in parts:
        ex += print_exprs(sh, t, var, "go")[1]
    return "println(%s)" % ", ".join(['"%s"' % side, str(uid), '"%s"' % tag] + ex)


def c_print(side, uid, tag, parts):
    fm, ex = [], []
    for sh, t, var in parts:
        f, e = print_exprs(sh, t, var, "c")
        fm += f
        ex += e
    fmt = "%s %d %s%s\\n" % (side, uid, tag, "".join(" " + x for x in fm))
    if side == "C":
        return 'printf("%s"%s); fflush(stdout);' % (fmt, "".join(", " + e for e in ex))
    return 'fprintf(stderr, "%s"%s);' % (fmt, "".join(", " + e for e in ex))


def xform_stmts(sh, t, var, lang):
    out = []
    for k, (gp, cp, prim, _) in enumerate(sh.leaves(t)):
        K = kconst(k)
        if lang == "go":
            a = var + gp
            if prim in FLOATS:
                out.append("%s *= -2" % a)
            elif prim == "ptr":
                out.append("%s = unsafe.Pointer(uintptr(%s) + %d)" % (a, a, K))
            elif prim == "bool":
                out.append("%s = !%s" % (a, a))
            else:
                out.append("%s += %d" % (a, K))
        else:
            a = var + cp
            if prim in FLOATS:
                out.append("%s *= -2;" % a)
            elif prim == "ptr":
                out.append("%s = (void*)((char*)%s + %d);" % (a, a, K))
            elif prim == "bool":
                out.append("%s = !%s;" % (a, a))
            else:
                ut = CT[prim] if prim.startswith("u") else "u" + CT[prim]
                out.append("%s = (%s)((%s)%s + (%s)%d);" % (a, CT[prim], ut, a, ut, K))
    return out


# ------------------------------------------------------------------ shapes

CURATED = [
    ["float32", "float32"], ["float32", "int32"], ["float32", "int16"], ["float32", "int8", "int8"],
    ["int32", "int16", "int32"], ["int32", "int16", "int32", "float32"], ["int16", "int8", "int32", "int32"], ["float64", "float64", "float32"],
    ["float32", "float32", "float32"], ["float64", "float64"], ["float64", "float64", "float64"],
    ["int32", "float32"], ["float32", "int32", "float32", "int32"], ["int64", "float64"], ["float64", "int64"],
    [("a", "float32", 2), "float64"], ["int8"], [("a", "int8", 3)], [("a", "int64", 2), "int8"], [("a", "float32", 4)],
    ["float32", "float32", "float64"], ["float64", "float32", "float32"], ["float32", "float32", "int32", "int32"],
    ["int32", "int32", "float32", "float32"], ["float32", "float32", "float32", "float32"], ["int64", "int64"],
    ["int64", "int64", "int64"], ["ptr", "ptr"], ["ptr", "int32"], ["int8", "int64"], ["int64", "int8"],
    ["float32", "float64"], ["float64", "float32"], ["int16", "float32", "float64"], ["float64", "int8", "int8"],
    [("a", "int8", 4), ("a", "int8", 4), ("a", "int8", 4), ("a", "int8", 4)], [("a", "int8", 4), ("a", "int8", 4), "int8"],
    ["int8", "int16", "int8", "int32", "float32"], ["float32", "float32", "float32", "int8"], ["float32"], ["float64"],
    ["int64"], ["ptr"], ["int16", "int16", "int16"], ["int8", "int8", "int8", "int8", "int8"],
    ["float64", "float64", "int8"], ["int32", "int32", "int32", "int32", "int32"], ["float32", "float32", "float32", "float32", "float32"],
    ["uint8", "uint16", "uint32", "uint64"], ["uint64", "uint32", "uint16", "uint8"], ["float32", "uint8", "uint8", "uint16", "float32", "float32"],
]


def _ft(x):
    if isinstance(x, str):
        return P(x)
    return A(P(x[1]), x[2])


def draw_prim(r, bias):
    if bias == "float":
        return r.choice(["float32", "float32", "float64", "float32", "int32", "int8"])
    if bias == "small":
        return r.choice(["int8", "int16", "int32", "uint8", "uint16", "float32", "float32", "int32", "uint32"])
    return r.choice(PRIMS)


def draw_struct(r, sh, depth=0, maxsize=80):
    """returns a struct type S(sid) with 1..12 fields, size 1..maxsize"""
    for _ in range(200):
        mode = r.choice(["small", "small", "float", "any", "any", "any", "big"])
        if mode == "big":
            nf = r.randint(4, 12)
        elif mode == "any":
            nf = r.choice([1, 2, 2, 3, 3, 4, 5, 6, 8])
        else:
            nf = r.choice([1, 2, 2, 3, 3, 4, 4, 5, 6])
        bias = mode if mode in ("small", "float") else "any"
        fts = []
        for _j in range(nf):
            k = r.random()
            if k < 0.10 and depth < 2:
                inner = draw_struct(r, sh, depth + 1, 24)
                if r.random() < 0.25:
                    fts.append(A(inner, r.randint(1, 3)))
                else:
                    fts.append(inner)
            elif k < 0.28:
                fts.append(A(P(draw_prim(r, bias)), r.randint(1, 4)))
            else:
                fts.append(P(draw_prim(r, bias)))
        sid = len(sh.fields)
        sh.fields.append(fts)
        size, _ = sh.size_align(S(sid))
        nleaves = len(sh.leaves(S(sid)))
        sh.fields.pop()
        if 1 <= size <= maxsize and nleaves <= 40:
            return S(sh.add(fts))
    return S(sh.add([P("int32")]))


SCALARS = PRIMS + ["bool"]


def draw_scalar(r):
    k = r.random()
    if k < 0.04:
        return P("bool")
    if k < 0.40:
        return P(r.choice(["int64", "int32", "ptr", "uint64", "int8", "uint16"]))
    if k < 0.70:
        return P(r.choice(["float64", "float32"]))
    return P(r.choice(PRIMS))


# ------------------------------------------------------------------ register model (SysV amd64)

def reg_walk(sh, params, ret):
    """Simulates SysV register assignment.  Returns (per-parameter location list, partial) where partial is True
    when some aggregate that does not fit into the remaining registers could still get a register for one of
    its eightbytes if the eightbytes were passed as independent scalars (the open finding's class)."""
    fi, fs = 6, 8
    if ret is not None and ret[0] != "p" and sh.classify(ret) == "M":
        fi -= 1
    locs = []
    partial = False
    for t in params:
        c = sh.classify(t)
        if c == "M":
            locs.append("mem")
            continue
        ni, ns = c.count("I"), c.count("S")
        if ni <= fi and ns <= fs:
            fi -= ni
            fs -= ns
            locs.append("reg:" + "".join(c))
        else:
            if t[0] == "p":
                locs.append("stk")
            else:
                locs.append("memx:" + "".join(c))
                if len(c) > 1 and ((ni and fi) or (ns and fs)):
                    partial = True
    return locs, partial


def packed_mismatch(sh, t):
    """True for a 9..16-byte aggregate whose scalar leaves, packed one after another by their own alignment,
    do not land on their real offsets (padding that comes from the alignment or tail padding of a nested
    aggregate).  This is the class of the open finding C09-amd64-nested-padding."""
    if t is None or t[0] == "p":
        return False
    size, _ = sh.size_align(t)
    if size <= 8 or size > 16:
        return False
    off = 0
    for _, _, prim, real in sh.leaves(t):
        b = BITS[prim] // 8
        off = (off + b - 1) // b * b
        if off != real:
            return True
        off += b
    return False


# ------------------------------------------------------------------ units

class Unit:
    pass


def sig_of(sh, u):
    """structural signature: classification skeleton, no constants"""
    def one(t):
        if t is None:
            return "void"
        if t[0] == "p":
            return t[1]
        c = sh.classify(t)
        size, al = sh.size_align(t)
        prims = ",".join(p for _, _, p, _ in sh.leaves(t))
        return "S<%d/%d:%s:%s>" % (size, al, c if c == "M" else "".join(c), prims)
    s = "%s/%s(%s)->%s" % (u.kind, u.form, ";".join(one(t) for t in u.params), one(u.ret))
    locs, _ = reg_walk(sh, u.params, u.ret)
    return s + " @" + ",".join(l.split(":")[0] for l in locs)


def make_sig(r, sh, avoid, struct_t=None, nstruct=None, curated=False):
    """draws (params, ret, retmode).  retmode: ('xf', j) | ('const',) | ('void',)"""
    for _ in range(100):
        if curated:
            params = [struct_t]
            pos = 0
        else:
            nother = r.choice([0, 0, 1, 2, 3, 4, 5, 6, 7, 8, 8, 6, 7])
            params = [draw_scalar(r) for _ in range(nother)]
            # bias: homogeneous runs exhaust one register class
            if nother >= 5 and r.random() < 0.5:
                cls = r.choice([["int64", "int32", "ptr", "int8", "uint16"], ["float64", "float32"]])
                params = [P(r.choice(cls)) for _ in range(nother)]
            k = nstruct if nstruct is not None else r.choice([1, 1, 1, 1, 2, 2, 3, 0])
            for j in range(k):
                st = struct_t if (j == 0 and struct_t is not None) else draw_struct(r, sh)
                params.insert(r.randint(0, len(params)), st)
        sidx = [i for i, t in enumerate(params) if t[0] == "s"]
        k = r.random()
        if curated:
            ret, mode = struct_t, ("xf", 0)
        elif sidx and k < 0.55:
            j = r.choice(sidx)
            ret, mode = params[j], ("xf", j)
        elif k < 0.75:
            ret, mode = draw_struct(r, sh), ("const",)
        elif k < 0.9 and params:
            j = r.randrange(len(params))
            ret, mode = params[j], ("xf", j)
        elif k < 0.95:
            ret, mode = draw_scalar(r), ("const",)
        else:
            ret, mode = None, ("void",)
        if not params and ret is None:
            continue
        if "regsplit" in avoid and reg_walk(sh, params, ret)[1]:
            continue
        if "nestedpad" in avoid and any(packed_mismatch(sh, t) for t in params + [ret]):
            if curated:
                return None
            continue
        return params, ret, mode
    return [P("int32")], P("int32"), ("xf", 0)


def gen_program(seed, tier, index, avoid=("regsplit", "nestedpad"), nunits=50, modname=None):
    """returns dict: files {rel: text}, expected_out, expected_err, units meta.
    avoid: constructs of open findings that the random part must not produce (probe + avoid)."""
    r = random.Random(seed * 1000003 + index * 7919 + (11 if tier == "quick" else 13))
    sh = Shapes()
    units = []
    modname = modname or "c09p%d" % index
    # curated shapes, rotated so that every program carries a slice and 8 programs carry all of them
    ncur = 12
    for j in range(ncur):
        fts = [_ft(x) for x in CURATED[(index * ncur + j) % len(CURATED)]]
        st = S(sh.add(fts))
        u = Unit()
        u.kind = r.choice(["call", "call", "cb", "fp"])
        u.form = r.choice(["named", "lit", "var"]) if u.kind == "cb" else "-"
        sg = make_sig(r, sh, avoid, struct_t=st, curated=True)
        if sg is None:
            continue
        u.params, u.ret, u.retmode = sg
        units.append(u)
    # curated SIGNATURES: register-exhaustion boundaries of the SysV classification. After an aggregate (or scalar run)
    # that no longer fits, a later aggregate that still fits must travel in registers, and vice versa.
    if "regsplit" not in avoid:
        i64, f64, i32 = P("int64"), P("float64"), P("int32")
        sII = S(sh.add([i64, i64]))
        sID = S(sh.add([i64, f64]))
        sDD = S(sh.add([f64, f64]))
        sDI = S(sh.add([f64, i32]))
        fams = []
        for n in (3, 4, 5, 6, 7, 8):
            fams.append([i64] * n + [sII, sID, i64])
            fams.append([i64] * n + [sDD, sII])
            fams.append([i64] * n + [sID, sDI, sII])
        for n in (6, 7, 8, 9, 10):
            fams.append([f64] * n + [sDD, sII, f64])
            fams.append([f64] * n + [sDI, sDD])
        fams.append([sII, sII, sII, sII, sID])
        fams.append([sDD, sDD, sDD, sDD, sDD, sDI])
        pick = [fams[(index * 7 + j) % len(fams)] for j in range(6)]
        for params in pick:
            u = Unit()
            u.kind = r.choice(["call", "call", "cb", "fp"])
            u.form = r.choice(["named", "lit", "var"]) if u.kind == "cb" else "-"
            j = r.choice([k for k, t in enumerate(params) if t[0] == "s"])
            u.params, u.ret, u.retmode = list(params), params[j], ("xf", j)
            units.append(u)
    while len(units) < nunits:
        u = Unit()
        k = r.random()
        u.kind = "call" if k < 0.50 else ("cb" if k < 0.85 else ("fp" if k < 0.95 else "va"))
        u.form = r.choice(["named", "lit", "var"]) if u.kind == "cb" else "-"
        if u.kind == "va":
            nfix = r.randint(0, 3)
            u.params = [P(r.choice(["int32", "int64", "float64", "ptr"])) for _ in range(nfix)]
            u.vargs = [P(r.choice(["int32", "int64", "uint64", "float64", "float64", "ptr", "uint32"])) for _ in range(r.randint(1, 14))]
            u.ret, u.retmode = None, ("void",)
        else:
            u.params, u.ret, u.retmode = make_sig(r, sh, avoid)
        units.append(u)
    return finish_units(r, sh, units, modname)


def finish_units(r, sh, units, modname):
    uid = 0
    for u in units:
        u.id = uid
        uid += 1
        vals = Vals(r)
        u.args = [vals.tree(sh, t) for t in u.params]
        if u.kind == "va":
            u.vvals = [vals.tree(sh, t) for t in u.vargs]
        u.outer = []
        if u.kind == "cb":
            # the C function that receives the callback also takes 0..2 scalars of its own
            u.outer = [draw_scalar(r) for _ in range(r.choice([0, 0, 1, 2]))]
            u.outer_args = [vals.tree(sh, t) for t in u.outer]
        if u.retmode[0] == "const":
            u.retval = vals.tree(sh, u.ret)
        elif u.retmode[0] == "xf":
            j = u.retmode[1]
            u.retval = xform(sh, u.params[j], u.args[j])
        else:
            u.retval = None
        u.sig = sig_of(sh, u)
    prog = render(sh, units, modname)
    prog["_sh"], prog["_units"] = sh, units
    return prog


def subset(prog, uids):
    """the same program reduced to the given units (ids and values unchanged) - used for replays"""
    return render(prog["_sh"], [u for u in prog["_units"] if u.id in uids], prog["modname"])


def _unit(kind, form, params, ret, retmode):
    u = Unit()
    u.kind, u.form, u.params, u.ret, u.retmode = kind, form, params, ret, retmode
    return u


def probe_program(name):
    """fixed programs reproducing the recorded findings (run first on every run)"""
    r = random.Random(20260923)
    sh = Shapes()
    i64, f64 = P("int64"), P("float64")
    units = []
    if name in ("regsplit", "abi"):
        p2 = S(sh.add([i64, i64]))
        q = S(sh.add([i64, f64]))
        d = S(sh.add([f64, f64]))
        units.append(_unit("call", "-", [i64] * 5 + [p2, i64], p2, ("xf", 5)))
        units.append(_unit("call", "-", [i64] * 6 + [q, i64], q, ("xf", 6)))
        units.append(_unit("call", "-", [f64] * 7 + [d, f64], d, ("xf", 7)))
        units.append(_unit("cb", "named", [i64] * 5 + [p2, i64], p2, ("xf", 5)))
        units.append(_unit("cb", "lit", [i64] * 6 + [q], q, ("xf", 6)))
        for u in units:
            u.probe = "regsplit"
    if name in ("nestedpad", "abi"):
        inner = S(sh.add([A(P("uint8"), 3), P("uint16"), P("float32")]))
        outer = S(sh.add([P("int8"), P("uint8"), P("int8"), inner]))
        s66 = S(sh.add([P("int32"), P("uint8"), P("uint8")]))
        s67 = S(sh.add([A(P("int16"), 1), s66]))
        s68 = S(sh.add([s67, A(P("int16"), 1)]))
        units.append(_unit("call", "-", [outer], outer, ("xf", 0)))
        units.append(_unit("call", "-", [s68], s68, ("xf", 0)))
        units.append(_unit("cb", "named", [outer], outer, ("xf", 0)))
        units.append(_unit("cb", "lit", [P("int32"), s68], s68, ("xf", 1)))
        for u in units:
            if not hasattr(u, "probe"):
                u.probe = "nestedpad"
    if name == "capture":
        p = S(sh.add([i64, P("int32")]))
        units.append(_unit("cb", "capt", [P("int8"), p, P("float32")], p, ("xf", 1)))
        units[0].probe = "capture"
    if not units:
        raise ValueError(name)
    prog = finish_units(r, sh, units, "c09probe" + name)
    for u in units:
        prog["meta"][u.id]["probe"] = u.probe
    return prog


def _params(sh, u, lang, names=True):
    out = []
    for i, t in enumerate(u.params):
        if lang == "go":
            out.append(("a%d " % i if names else "") + sh.gofield(t, False))
        else:
            out.append(sh.tname(t, "c") + (" a%d" % i if names else ""))
    return out


def _callee_body(sh, u, lang, side, tag, uid_expr=None):
    """statements of the receiver: print all params, compute result"""
    parts = [(sh, t, "a%d" % i) for i, t in enumerate(u.params)]
    body = []
    if lang == "go":
        body.append(go_println(side, uid_expr or u.id, tag, parts))
    else:
        body.append(c_print(side, u.id, tag, parts))
    if u.retmode[0] == "xf":
        j = u.retmode[1]
        body += xform_stmts(sh, u.params[j], "a%d" % j, lang)
        body.append("return a%d%s" % (j, ";" if lang == "c" else ""))
    elif u.retmode[0] == "const":
        body.append("return %s%s" % (lit(sh, u.ret, u.retval, lang), ";" if lang == "c" else ""))
    return body


def render(sh, units, modname):
    H = ["#include <stdint.h>", "#include <stdio.h>", "#include <string.h>", "#include <stdarg.h>", ""]
    H.append("static inline uint32_t f32b(float x) { uint32_t u; memcpy(&u, &x, 4); return u; }")
    H.append("static inline uint64_t f64b(double x) { uint64_t u; memcpy(&u, &x, 8); return u; }")
    for sid, fts in enumerate(sh.fields):
        H.append("struct S%d { %s };" % (sid, " ".join(sh.cfield(ft, "f%d" % i) + ";" for i, ft in enumerate(fts))))
        size, _ = sh.size_align(S(sid))
        H.append("_Static_assert(sizeof(struct S%d) == %d, \"generator layout\");" % (sid, size))
    C = ['#include "callee.h"', ""]
    D = ['#include "../cab/csrc/callee.h"', ""]        # reference driver (Go role in C)
    DM = []
    G = ["package cab", "", "import \"unsafe\"", "", "var _ unsafe.Pointer", "",
         "const LLGoPackage = \"link: -L%s -lcallee\"" % LIBDIR, ""]
    for sid, fts in enumerate(sh.fields):
        G.append("type S%d struct { %s }" % (sid, "; ".join("F%d %s" % (i, sh.gofield(ft, True)) for i, ft in enumerate(fts))))
    M = ["package main", "", "import (", "\t\"%s/cab\"" % modname, "\t\"unsafe\"", ")", "", "var _ unsafe.Pointer", "var _ cab.S0", "",
         "func f32(x float32) uint32 { return *(*uint32)(unsafe.Pointer(&x)) }",
         "func f64(x float64) uint64 { return *(*uint64)(unsafe.Pointer(&x)) }",
         "func up(p unsafe.Pointer) uint64 { return uint64(uintptr(p)) }",
         "func b2i(b bool) uint64 {\n\tif b {\n\t\treturn 1\n\t}\n\treturn 0\n}", ""]
    MM = []
    exp_out, exp_err = [], []
    meta = {}

    def rett(u, lang):
        if u.ret is None:
            return "" if lang == "go" else "void"
        return sh.gofield(u.ret, False) if lang == "go" else sh.tname(u.ret, "c")

    def inpkg(s):
        return s.replace("cab.", "")

    for u in units:
        i = u.id
        meta[i] = {"kind": u.kind, "form": u.form, "sig": u.sig}
        alltoks = []
        for t, v in zip(u.params, u.args):
            alltoks += toks(sh, t, v)
        rtoks = toks(sh, u.ret, u.retval) if u.ret is not None else []
        gargs = ", ".join(lit(sh, t, v, "go") for t, v in zip(u.params, u.args))
        cargs = ", ".join(lit(sh, t, v, "c") for t, v in zip(u.params, u.args))
        rparts = [(sh, u.ret, "r")] if u.ret is not None else []
        if u.kind in ("call", "fp"):
            # C callee
            H.append("%s fn%d(%s);" % (rett(u, "c"), i, ", ".join(_params(sh, u, "c")) or "void"))
            C.append("%s fn%d(%s) {\n\t%s\n}" % (rett(u, "c"), i, ", ".join(_params(sh, u, "c")) or "void",
                                                "\n\t".join(_callee_body(sh, u, "c", "C", "a"))))
            exp_out.append("C %d a%s" % (i, "".join(" " + x for x in alltoks)))
            exp_err.append("G %d r%s" % (i, "".join(" " + x for x in rtoks)))
            if u.kind == "call":
                G.append("//go:linkname Fn%d C.fn%d\nfunc Fn%d(%s) %s" % (i, i, i, inpkg(", ".join(_params(sh, u, "go"))), inpkg(rett(u, "go"))))
                callee_go, callee_c = "cab.Fn%d" % i, "fn%d" % i
                pre_go, pre_c = [], []
            else:
                # C hands out a function pointer, Go calls through it
                H.append("typedef %s (*fpt%d)(%s);" % (rett(u, "c"), i, ", ".join(_params(sh, u, "c", False)) or "void"))
                H.append("fpt%d get%d(void);" % (i, i))
                C.append("fpt%d get%d(void) { return fn%d; }" % (i, i, i))
                G.append("//llgo:type C\ntype Fpt%d func(%s) %s" % (i, inpkg(", ".join(_params(sh, u, "go"))), inpkg(rett(u, "go"))))
                G.append("//go:linkname Get%d C.get%d\nfunc Get%d() Fpt%d" % (i, i, i, i))
                callee_go, callee_c = "fp", "fp"
                pre_go, pre_c = ["fp := cab.Get%d()" % i], ["fpt%d fp = get%d();" % (i, i)]
            snap = [k for k, t in enumerate(u.params) if t[0] == "s" and sh.size_align(t)[0] > 16]
            if u.kind == "call" and snap and i % 3 == 0:
                # the argument is a copy taken from memory that is overwritten before the call, all in one basic block
                # (prev := s.cur; s.cur = next; f(prev)): C must see the value as of the copy
                k = snap[0]
                t = u.params[k]
                tn = sh.gofield(t, False)
                M.append("type hold%dT struct {\n\tgen int\n\tcur %s\n}" % (i, tn))
                other = lit(sh, t, xform(sh, t, u.args[k]), "go")
                gl = [lit(sh, tt, v, "go") for tt, v in zip(u.params, u.args)]
                gl[k] = "prev"
                call = "%s(%s)" % (callee_go, ", ".join(gl))
                rt = rett(u, "go")
                body = ["prev := s.cur", "s.cur = next", "s.gen++", ("return " if u.ret is not None else "") + call]
                M.append("//go:noinline\nfunc snap%d(s *hold%dT, next %s) %s {\n\t%s\n}" % (i, i, tn, rt, "\n\t".join(body)))
                pre_go = pre_go + ["s := &hold%dT{cur: %s}" % (i, lit(sh, t, u.args[k], "go"))]
                callee_go, gargs = "snap%d" % i, "s, %s" % other
            if u.ret is not None:
                MM.append("func u%d() {\n\t%s\n}" % (i, "\n\t".join(pre_go + ["r := %s(%s)" % (callee_go, gargs), go_println("G", i, "r", rparts)])))
                DM.append("static void u%d(void) {\n\t%s\n}" % (i, "\n\t".join(pre_c + ["%s r = %s(%s);" % (rett(u, "c"), callee_c, cargs), c_print("G", i, "r", rparts)])))
            else:
                MM.append("func u%d() {\n\t%s\n}" % (i, "\n\t".join(pre_go + ["%s(%s)" % (callee_go, gargs), go_println("G", i, "r", [])])))
                DM.append("static void u%d(void) {\n\t%s\n}" % (i, "\n\t".join(pre_c + ["%s(%s);" % (callee_c, cargs), c_print("G", i, "r", [])])))
        elif u.kind == "va":
            fixed = ", ".join(_params(sh, u, "c") + ["int n", "..."])
            H.append("void vfn%d(%s);" % (i, fixed))
            body = [c_print("C", i, "a", [(sh, t, "a%d" % k) for k, t in enumerate(u.params)]), "va_list ap; va_start(ap, n);"]
            vt = {"int32": "int", "uint32": "unsigned int", "int64": "long long", "uint64": "unsigned long long", "float64": "double", "ptr": "void*"}
            for k, t in enumerate(u.vargs):
                body.append("{ %s v = va_arg(ap, %s); %s }" % (CT[t[1]], vt[t[1]], c_print("C", i, "v%d" % k, [(sh, t, "v")])))
            body.append("va_end(ap);")
            C.append("void vfn%d(%s) {\n\t%s\n}" % (i, fixed, "\n\t".join(body)))
            G.append("//go:linkname Vfn%d C.vfn%d\nfunc Vfn%d(%s) " % (i, i, i, inpkg(", ".join(_params(sh, u, "go") + ["n int32", "__llgo_va_list ...any"]))))
            exp_out.append("C %d a%s" % (i, "".join(" " + x for x in alltoks)))
            for k, (t, v) in enumerate(zip(u.vargs, u.vvals)):
                exp_out.append("C %d v%d %s" % (i, k, tok(t[1], v)))
            exp_err.append("G %d r" % i)
            gv = ", ".join([lit(sh, t, v, "go") for t, v in zip(u.params, u.args)] + [str(len(u.vargs))] + [lit(sh, t, v, "go") for t, v in zip(u.vargs, u.vvals)])
            cv = ", ".join([lit(sh, t, v, "c") for t, v in zip(u.params, u.args)] + [str(len(u.vargs))] +
                           ["(%s)%s" % (vt[t[1]], lit(sh, t, v, "c")) for t, v in zip(u.vargs, u.vvals)])
            MM.append("func u%d() {\n\tcab.Vfn%d(%s)\n\t%s\n}" % (i, i, gv, go_println("G", i, "r", [])))
            DM.append("static void u%d(void) {\n\tvfn%d(%s);\n\t%s\n}" % (i, i, cv, c_print("G", i, "r", [])))
        else:  # cb: C function cb<i>(fn, outer...) calls fn(args) and hands the result back
            H.append("typedef %s (*cbt%d)(%s);" % (rett(u, "c"), i, ", ".join(_params(sh, u, "c", False)) or "void"))
            outer_c = ["cbt%d fn" % i] + ["%s q%d" % (sh.tname(t, "c"), k) for k, t in enumerate(u.outer)]
            H.append("%s cb%d(%s);" % (rett(u, "c"), i, ", ".join(outer_c)))
            body = [c_print("C", i, "a", [(sh, t, "q%d" % k) for k, t in enumerate(u.outer)])]
            if u.ret is not None:
                body.append("%s r = fn(%s);" % (rett(u, "c"), cargs))
                body.append(c_print("C", i, "cr", rparts))
                body.append("return r;")
            else:
                body.append("fn(%s);" % cargs)
                body.append(c_print("C", i, "cr", []))
            C.append("%s cb%d(%s) {\n\t%s\n}" % (rett(u, "c"), i, ", ".join(outer_c), "\n\t".join(body)))
            G.append("//llgo:type C\ntype Cbt%d func(%s) %s" % (i, inpkg(", ".join(_params(sh, u, "go"))), inpkg(rett(u, "go"))))
            G.append("//go:linkname Cb%d C.cb%d\nfunc Cb%d(%s) %s" % (i, i, i, ", ".join(["fn Cbt%d" % i] + ["q%d %s" % (k, sh.gofield(t, True)) for k, t in enumerate(u.outer)]), inpkg(rett(u, "go"))))
            otoks = []
            for t, v in zip(u.outer, u.outer_args):
                otoks += toks(sh, t, v)
            exp_out.append("C %d a%s" % (i, "".join(" " + x for x in otoks)))
            exp_err.append("G %d ca%s" % (i, "".join(" " + x for x in alltoks)))
            exp_out.append("C %d cr%s" % (i, "".join(" " + x for x in rtoks)))
            exp_err.append("G %d r%s" % (i, "".join(" " + x for x in rtoks)))
            gbody = "\n\t".join(_callee_body(sh, u, "go", "G", "ca", "k" if u.form == "capt" else None))
            gsig = "(%s) %s" % (", ".join(_params(sh, u, "go")), rett(u, "go"))
            oa_go = "".join(", " + lit(sh, t, v, "go") for t, v in zip(u.outer, u.outer_args))
            oa_c = "".join(", " + lit(sh, t, v, "c") for t, v in zip(u.outer, u.outer_args))
            if u.form == "named":
                MM.append("func gcb%d%s {\n\t%s\n}" % (i, gsig, gbody))
                fnexpr = "gcb%d" % i
            elif u.form == "capt":
                MM.append("func mk%d(k int) cab.Cbt%d {\n\treturn func%s {\n\t\t%s\n\t}\n}" % (i, i, gsig, gbody.replace("\n\t", "\n\t\t")))
                fnexpr = "mk%d(%d)" % (i, i)
            elif u.form == "var":
                MM.append("func gcb%d%s {\n\t%s\n}" % (i, gsig, gbody))
                MM.append("var gcbv%d cab.Cbt%d = gcb%d" % (i, i, i))
                fnexpr = "gcbv%d" % i
            else:
                fnexpr = "func%s {\n\t%s\n\t}" % (gsig, gbody.replace("\n\t", "\n\t\t"))
            if u.ret is not None:
                MM.append("func u%d() {\n\tr := cab.Cb%d(%s%s)\n\t%s\n}" % (i, i, fnexpr, oa_go, go_println("G", i, "r", rparts)))
            else:
                MM.append("func u%d() {\n\tcab.Cb%d(%s%s)\n\t%s\n}" % (i, i, fnexpr, oa_go, go_println("G", i, "r", [])))
            DM.append("static %s gcb%d(%s) {\n\t%s\n}" % (rett(u, "c"), i, ", ".join(_params(sh, u, "c")) or "void",
                                                        "\n\t".join(_callee_body(sh, u, "c", "G", "ca"))))
            if u.ret is not None:
                DM.append("static void u%d(void) {\n\t%s r = cb%d(gcb%d%s);\n\t%s\n}" % (i, rett(u, "c"), i, i, oa_c, c_print("G", i, "r", rparts)))
            else:
                DM.append("static void u%d(void) {\n\tcb%d(gcb%d%s);\n\t%s\n}" % (i, i, i, oa_c, c_print("G", i, "r", [])))
    M += MM
    M.append("func main() {")
    for u in units:
        M.append("\tu%d()" % u.id)
    M.append("\tprintln(\"G END\")\n}")
    exp_err.append("G END")
    D += DM
    D.append("int main(void) {")
    for u in units:
        D.append("\tu%d();" % u.id)
    D.append("\tfprintf(stderr, \"G END\\n\");\n\treturn 0;\n}")
    files = {
        "go.mod": "module %s\n\ngo 1.24\n" % modname,
        "main.go": "\n".join(M) + "\n",
        "cab/cab.go": "\n".join(G) + "\n",
        "cab/csrc/callee.h": "\n".join(H) + "\n",
        "cab/csrc/callee.c": "\n".join(C) + "\n",
        "cref/driver.c": "\n".join(D) + "\n",
    }
    return {"files": files, "exp_out": "".join(x + "\n" for x in exp_out), "exp_err": "".join(x + "\n" for x in exp_err), "meta": meta,
            "nunits": len(units), "modname": modname}


def write_program(d, prog, libdir=None):
    """writes the module; LIBDIR placeholder -> <d>/cab/lib unless given"""
    import os
    d = os.path.abspath(d)
    libdir = libdir or os.path.join(d, "cab", "lib")
    os.makedirs(libdir, exist_ok=True)
    for rel, txt in prog["files"].items():
        p = os.path.join(d, rel)
        os.makedirs(os.path.dirname(p), exist_ok=True)
        with open(p, "w") as f:
            f.write(txt.replace(LIBDIR, libdir))
    with open(os.path.join(d, "expected.stdout.txt"), "w") as f:
        f.write(prog["exp_out"])
    with open(os.path.join(d, "expected.stderr.txt"), "w") as f:
        f.write(prog["exp_err"])


if __name__ == "__main__":
    import sys
    if sys.argv[1] == "probe":
        p = probe_program(sys.argv[2])
    else:
        p = gen_program(int(sys.argv[1]), "quick", int(sys.argv[2]), avoid=() if len(sys.argv) > 4 else ("regsplit", "nestedpad"))
    write_program(sys.argv[3], p)
    print(p["nunits"], "units")

"""Replay of a C13 violation: re-executes the recorded history (history.json) step by step against llgo built from
$VERIF_REPO (or /repo) in a fresh work directory and prints the verdict of every step.
usage: python3 gen/c13_replay.py <replay dir>"""
import json
import os
import random
import sys

sys.path.insert(0, os.path.join(os.path.dirname(os.path.abspath(__file__)), "..", "rig"))
sys.path.insert(0, os.path.dirname(os.path.abspath(__file__)))
import core
import c13_hist as hist

d = os.path.abspath(sys.argv[1])
with open(os.path.join(d, "history.json")) as f:
    h = json.load(f)
w = core.Work("C13replay")
llgo = core.build_llgo(w)
steps = h["steps"]
lane = hist.Lane(w, llgo, "replay", steps[0]["state"], cfg=steps[0]["cfg"], log=print)
bad = 0
rng = random.Random(0)
for rec in steps:
    r = lane.step(rec["kind"], rng, forced=rec)
    if r["verdict"] == "violation":
        bad += 1
        print("STEP %d %s: VIOLATION [%s] %s" % (r["n"], r["kind"], r["class"], r["why"]))
        lane.repair()
    elif r["verdict"] != rec.get("verdict"):
        print("STEP %d %s: now %s (recorded: %s)" % (r["n"], r["kind"], r["verdict"], rec.get("verdict")))
w.close()
print("REPLAY: %s" % ("still fails (%d step(s))" % bad if bad else "no difference"))
sys.exit(1 if bad else 0)

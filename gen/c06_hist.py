"""C06 history generator: specs for the fixed map VM progs/c06_mapvm.

A spec is the string  K:V:profile:pool:lo:hi:ops:seed:flags  (see progs/c06_mapvm/main.go).
The history itself (up to 50 k operations) is derived inside the VM from `seed`; this
module only chooses the type instantiation, the profile and the key-pool / live-size
parameters so that every load-factor growth threshold (6.5 * 2^B), same-size grow
(insert/delete churn below a threshold) and overflow-bucket creation is crossed.
Pure function of (seed, tier, avoid flags): no sets, no hash(), no time."""
import random

KEYS = ["int", "uint8", "string", "float64", "iface", "arr", "sk", "ptr", "bk", "pk", "c128", "ck"]
VALS = ["int", "string", "empty", "a5", "a17"]
# growth of the bucket array happens when count+1 > THRESH[B].  llgo's port computes
# loadFactorNum as (8*13/16)*2 = 12, i.e. load factor 6.0 (Go: 13 -> 6.5); both lists are used
# so that the check keeps crossing the thresholds if that constant is ever changed.
THRESH = [8, 12, 24, 48, 96, 192, 384, 768, 1536, 3072, 6144, 12288, 24576]
THRESH65 = [8, 13, 26, 52, 104, 208, 416, 832, 1664, 3328, 6656, 13312, 26624]
KEY_MAX = {"uint8": 256, "ptr": 60000}

F_AVOID_CLEAR = 1
F_SCATTER = 2
F_PROBE = 4
F_TRACE = 8
F_NO_NAN = 16

# fixed probes of the findings (always run first, never random)
PROBES = {
    "C06-memclr-stub": ["int:int:mixed:3000:0:0:0:1:4", "string:a5:mixed:3000:0:0:0:2:4"],
    "C06-indirect-slot-size": ["int:a17:mixed:200:0:0:3000:3:1", "bk:int:mixed:200:0:0:3000:3:1",
                               "bk:a17:mixed:200:0:0:3000:4:1", "iface:a17:mixed:200:0:0:3000:5:1"],
    # hit rate of one spec is about 8 % (depends on the per-process hash seed): 24 short histories
    "C06-iter-samesize-nan": ["float64:int:nanchurn:960:4:24:8000:%d:1" % i for i in range(1, 25)],
}


def spec(k, v, prof, pool, lo, hi, ops, seed, flags):
    pool = max(1, min(pool, KEY_MAX.get(k, 1 << 30)))
    return "%s:%s:%s:%d:%d:%d:%d:%d:%d" % (k, v, prof, pool, lo, hi, ops, seed, flags)


def parse(s):
    f = s.split(":")
    return {"k": f[0], "v": f[1], "prof": f[2], "pool": int(f[3]), "lo": int(f[4]), "hi": int(f[5]),
            "ops": int(f[6]), "seed": int(f[7]), "flags": int(f[8])}


def truncate(s, ops):
    f = s.split(":")
    f[6] = str(ops)
    return ":".join(f)


def signature(s):
    """structural signature: instantiation, profile and size class (not the seed)"""
    p = parse(s)
    size = p["hi"] if p["prof"] in ("osc", "churn", "nanchurn") else p["pool"]
    cls = 0
    while cls < len(THRESH) and size > THRESH[cls]:
        cls += 1
    return "%s/%s/%s/B%d/f%d" % (p["k"], p["v"], p["prof"], cls, p["flags"] & (2 | 16))


def _one(r, k, v, tier, flags, idx, avoid_nan_churn=False):
    seed = r.randrange(1, 1 << 40)
    if k == "int" and r.random() < 0.5:
        flags |= F_SCATTER
    kmax = KEY_MAX.get(k, 1 << 30)
    big = tier == "thorough"
    kind = r.choices(["small", "mixed", "cross", "churn", "fill", "clear", "long"],
                     weights=[3, 3, 4, 4, 1, 2, 1 if big else 0])[0]
    if kind == "small":
        pool = r.choice([1, 2, 3, 5, 7, 8, 9, 10, 12, 14, 16, 24, 40])
        return spec(k, v, "iter", pool, 0, 0, r.randrange(1500, 4000), seed, flags)
    if kind == "mixed":
        pool = r.choice([20, 30, 60, 100, 150, 250, 400])
        return spec(k, v, "mixed", pool, 0, 0, r.randrange(3000, 8000), seed, flags)
    if kind == "cross":
        top = 9 if big else 7
        if r.random() < 0.15:
            top += 2
        b = r.randrange(0, top + 1)
        t = (THRESH65 if r.random() < 0.2 else THRESH)[b]
        if t >= kmax:
            t = THRESH[r.randrange(0, 5)]
        lo = max(0, t - r.choice([1, 2, 3, 6, t // 4, t // 2]))
        hi = t + r.choice([1, 1, 2, 3, 5, max(1, t // 8)])
        ops = max(3000, min(30000 if big else 20000, 24 * hi))
        return spec(k, v, "osc", 3 * hi + 8, lo, hi, ops, seed, flags)
    if kind == "churn":
        # stay below a growth threshold with ever-changing keys: overflow buckets pile up
        # until noverflow >= 2^B triggers a same-size grow
        b = r.choices([1, 2, 3, 4, 5, 6], weights=[3, 3, 3, 3, 2, 1 if big else 0])[0]
        hi = THRESH[b] - r.choice([0, 0, 0, 1, 2])
        ops = {1: 3000, 2: 5000, 3: 8000, 4: 14000, 5: 24000, 6: 45000}[b]
        prof = "churn"
        if k in ("float64", "iface", "c128"):
            if avoid_nan_churn:
                flags |= F_NO_NAN   # open finding C06-iter-samesize-nan: NaN keys + same-size grow stay in the probe
            elif r.random() < 0.6:
                prof = "nanchurn"   # keeps hi/3 NaN-keyed entries alive and iterates right after inserts
        return spec(k, v, prof, 40 * hi, max(1, hi // 6), hi, ops, seed, flags)
    if kind == "fill":
        pool = r.choice([500, 2000, 8000] + ([30000] if big else []))
        return spec(k, v, "fill", pool, 0, 0, min(50000, max(4000, int(2.2 * pool))), seed, flags)
    if kind == "clear":
        pool = r.choice([12, 30, 45, 100, 300, 1000])
        return spec(k, v, "clear", pool, 0, 0, r.randrange(4000, 10000), seed, flags)
    pool = r.choice([3000, 8000, 20000])
    return spec(k, v, r.choice(["mixed", "fill"]), pool, 0, 0, 50000, seed, flags)


def histories(seed, tier, avoid_clear_grown=False, avoid_indirect=False, avoid_nan_churn=False, n=None):
    """list of specs, fixed by (seed, tier, avoid flags)"""
    r = random.Random(seed * 7919 + (1 if tier == "thorough" else 0))
    if n is None:
        n = 30000 if tier == "thorough" else 600
    keys = [k for k in KEYS if not (avoid_indirect and k == "bk")]
    vals = [v for v in VALS if not (avoid_indirect and v == "a17")]
    combos = [(k, v) for k in keys for v in vals]
    flags = F_AVOID_CLEAR if avoid_clear_grown else 0
    out = []
    for i in range(n):
        k, v = combos[i % len(combos)]
        out.append(_one(r, k, v, tier, flags, i, avoid_nan_churn))
    return out


if __name__ == "__main__":
    import sys
    hs = histories(int(sys.argv[1]) if len(sys.argv) > 1 else 1, sys.argv[2] if len(sys.argv) > 2 else "quick")
    for h in hs[:40]:
        print(h, signature(h))
    print(len(hs), "histories", len({signature(h) for h in hs}), "signatures", sum(parse(h)["ops"] for h in hs), "ops")

"""Replay of a C04 violation: builds <dir>/main.go with llgo (from VERIF_REPO or /repo, -O0), go1.24.0 and go1.26.0,
runs the three binaries and prints, per unit, the first difference between llgo and the references (units on which
the references differ from each other are shown as reference_disagreement)."""
import os
import sys

V = os.path.dirname(os.path.dirname(os.path.abspath(__file__)))
sys.path.insert(0, os.path.join(V, "rig"))
sys.path.insert(0, os.path.join(V, "checks"))
import core
import c04

d = os.path.abspath(sys.argv[1])
w = core.Work("replayC04")
llgo = core.build_llgo(w)
src = open(os.path.join(d, "main.go")).read()
b = c04.build_run(w, llgo, w.sub("src"), src)
bad = 0
for name in ("llgo", "go124", "go126"):
    if b.res.get(name) is None:
        print("%s build failed:\n%s" % (name, b.err.get(name)))
        bad = 1
if not bad:
    p = {n: c04.parse(b.res[n].err) for n in b.res}
    for n in b.res:
        print("%s: %s, %d complete units%s" % (n, c04.term(b.res[n]), len(p[n][1]), "" if p[n][2] is None else ", unit %d unterminated" % p[n][2][0]))
    for u in p["go126"][1]:
        ref = p["go126"][0][u]
        if p["go124"][0].get(u) != ref:
            print("unit %d: reference_disagreement (go1.24.0 vs go1.26.0), not judged" % u)
            continue
        got = p["llgo"][0].get(u)
        if got is None:
            bad = 1
            print("unit %d: not completed by the llgo binary; last lines: %s" % (u, (p["llgo"][2] or (0, []))[1][-6:]))
        elif got != ref:
            bad = 1
            fd = core.first_diff("\n".join(ref), "\n".join(got))
            print("unit %d differs at line %d:\n  go:   %s\n  llgo: %s" % (u, fd[0] + 1, fd[1], fd[2]))
            for l in got:
                if l.startswith("MONITOR:"):
                    print("  " + l)
                    break
    if p["go126"][2] is not None:
        a, bb = c04.uncaught(p["go126"][2]), c04.uncaught(p["llgo"][2]) if p["llgo"][2] else None
        if a != bb or (b.res["go126"].kind, b.res["go126"].rc) != (b.res["llgo"].kind, b.res["llgo"].rc):
            bad = 1
            print("escaping panic differs: go %s %s, llgo %s %s" % (c04.term(b.res["go126"]), a, c04.term(b.res["llgo"]), bb))
    elif (b.res["llgo"].kind, b.res["llgo"].rc) != ("exit", 0):
        bad = 1
        print("termination differs: go %s, llgo %s" % (c04.term(b.res["go126"]), c04.term(b.res["llgo"])))
w.close()
print("REPLAY: %s" % ("still differs" if bad else "no difference"))
sys.exit(bad)

"""C12 generator: one Go module with an acyclic graph of 2-8 packages whose variable initialisers and init
functions log an event trace (println -> stderr), plus the metadata the partial-order monitor needs.

Event line:  "@ <pkg-id> <label> <int>"      (pkg-id p0..pN; "M" for main.main and what it logs afterwards)

What is generated (all a pure function of the Random passed in: no hash(), no set iteration, no time):
  * import DAG shapes: random / chain / diamond / fan / layered, blank imports, aliased imports, dot imports, the same
    package imported from several files, transitive-only dependencies, optional orphan package that nobody imports
    (must stay silent), packages that only declare consts/types, hostile directory names (sync/atomic, unique, reflect,
    internal/..., p-2, p.3), main at the module root or in cmd/app
  * 1-4 files per package with names whose byte order differs from "natural" order; declarations scattered over files
  * package-level variables whose declaration order differs from their dependency order; dependencies are direct, via
    functions (possibly in another file), via methods (method calls, method values, method expressions, a method that is
    itself called init), via closures, generic functions, pointer and func-typed variables, multi-value `var a, b = f()`,
    blank `var _ =`, struct/slice/array/map literals with several logging elements, && / || initialisers (multi-block
    package initialiser), nested logging calls; *hidden* reads through an interface method (no dependency by the spec, so
    the value shows whether the target was initialised yet); cross-package reads of variables, functions, consts, methods
  * several init functions per file (also none), with defers, closures, assignments to variables without initialiser
    and increments of initialised ones (so importers observe whether all inits of an imported package have run)
  * probes of standard packages, most of them patched/overlaid by llgo (sync/atomic, reflect, unique, runtime, iter, sync ->
    internal/sync, crypto/subtle -> constanttime, errors/sort -> reflectlite, ...), evaluated inside initialisers, and
    identity probes (a sentinel allocated by the std package's init is saved during init and compared again later:
    a second initialisation of that std package would change it)

Under-determination that is avoided on purpose:
  * an expression never mixes a read of a variable with a call that writes it (only initialisers and init bodies write
    package variables, statements are one write each)
  * hidden (interface) reads only target int variables whose initialiser is a logging call: gc initialises
    side-effect-free initialisers statically, i.e. "too early" compared with the spec, which a hidden read would expose
  * no floats (println prints them differently), no map iteration, no goroutines, no addresses printed
"""
import random

FILE_NAMES = ["a.go", "b.go", "z.go", "a_1.go", "a1.go", "A.go", "Z.go", "b10.go", "b2.go", "0.go", "aa.go", "a-b.go",
              "a.b.go", "zz_last.go", "doc.go", "B_2.go", "m.go", "_x.go"[1:], "a__.go", "init.go", "main_.go", "9z.go"]

DIR_NAMES = ["alpha", "beta", "p-2", "p.3", "internal/q", "x/y/z", "unique", "sync/atomic", "reflect", "iter", "runtime",
             "initp", "x/y", "internal/abi", "zeta", "mid", "leaf", "util", "sync", "os", "unsafe2", "go", "b/a", "a/b"]

# ---------------------------------------------------------------------------------------------------------------
# standard-library probes: (key, imports, helper declarations (use %(u)s as a unique prefix), int expression, weight, heavy)
# every expression is deterministic, identical under go and llgo when the std package has been initialised
STD_PROBES = [
    ("atomic", ["sync/atomic"], "var %(u)scnt atomic.Int32\n", "int(%(u)scnt.Add(7))+int(%(u)scnt.Load())", 6, 0),
    ("atomicval", ["sync/atomic"], "var %(u)sav atomic.Value\n",
     "func() int { %(u)sav.Store(41); return %(u)sav.Load().(int) }()", 3, 0),
    ("unicode", ["unicode"], "", "%(bi)s(unicode.IsUpper('\\u00c9'))+2*%(bi)s(unicode.Is(unicode.Greek, '\\u03bb'))+4*%(bi)s(unicode.IsDigit('\\u0663'))", 4, 0),
    ("strings", ["strings"], "", "len(strings.ToUpper(\"stra\\u00dfe \\u00e9\"))+len(strings.NewReplacer(\"a\", \"bb\").Replace(\"banana\"))", 3, 0),
    ("io", ["io"], "", "%(bi)s(io.EOF != nil)+len(io.EOF.Error())+len(io.ErrUnexpectedEOF.Error())", 3, 0),
    ("errors", ["errors", "io"], "", "len(errors.ErrUnsupported.Error())+%(bi)s(errors.Is(io.ErrUnexpectedEOF, io.ErrUnexpectedEOF))", 3, 0),
    ("utf8", ["unicode/utf8"], "", "utf8.RuneCountInString(\"h\\u00e9llo\\u263a\")+%(bi)s(utf8.ValidString(\"a\\xffb\"))", 2, 0),
    ("iter", ["iter"], "func %(u)sseq() iter.Seq[int] {\n\treturn func(y func(int) bool) {\n\t\tfor i := 1; i <= 3; i++ {\n\t\t\tif !y(i * 10) {\n\t\t\t\treturn\n\t\t\t}\n\t\t}\n\t}\n}\n",
     "func() int { s := 0; for v := range %(u)sseq() { s += v }; return s }()", 4, 0),
    ("iterpull", ["iter"], "func %(u)sseq2() iter.Seq[int] {\n\treturn func(y func(int) bool) {\n\t\tfor i := 1; i <= 3; i++ {\n\t\t\tif !y(i * 7) {\n\t\t\t\treturn\n\t\t\t}\n\t\t}\n\t}\n}\n",
     "func() int { next, stop := iter.Pull(%(u)sseq2()); defer stop(); a, _ := next(); b, _ := next(); return a + b }()", 2, 0),
    ("once", ["sync"], "var %(u)sonce sync.Once\n", "func() int { n := 0; %(u)sonce.Do(func() { n++ }); %(u)sonce.Do(func() { n++ }); return n }()", 3, 1),
    ("syncmap", ["sync"], "var %(u)ssm sync.Map\n", "func() int { %(u)ssm.Store(\"k\", 5); v, _ := %(u)ssm.Load(\"k\"); return v.(int) }()", 3, 1),
    ("pool", ["sync"], "var %(u)spool = sync.Pool{New: func() any { return new(int) }}\n", "func() int { p := %(u)spool.Get().(*int); *p = 9; %(u)spool.Put(p); return *p }()", 2, 1),
    ("unique", ["unique"], "type %(u)skk struct {\n\ta int\n\tb string\n}\n",
     "%(bi)s(unique.Make(\"abc\") == unique.Make(\"ab\"+string(rune('c'))))+2*%(bi)s(unique.Make(%(u)skk{1, \"x\"}) == unique.Make(%(u)skk{1, \"y\"}))", 5, 1),
    ("strconv", ["strconv"], "", "len(strconv.Quote(\"\\u00e9\\x01\\u263a\"))+len(strconv.Itoa(-1234))+len(strconv.ErrRange.Error())", 2, 1),
    ("reflect", ["reflect"], "type %(u)srk struct {\n\ta int\n\tb string\n}\n",
     "len(reflect.TypeOf(%(u)srk{}).Kind().String())+reflect.TypeOf(%(u)srk{}).NumField()+len(reflect.ValueOf(&%(u)srk{b: \"xy\"}).Elem().Field(1).String())", 5, 1),
    ("runtime", ["runtime"], "", "%(bi)s(runtime.NumCPU() > 0)+len(runtime.GOOS)+len(runtime.GOARCH)+%(bi)s(runtime.GOMAXPROCS(0) > 0)", 4, 1),
    ("syscall", ["syscall"], "", "len(syscall.ENOENT.Error())+%(bi)s(syscall.Getpid() > 0)", 2, 1),
    ("subtle", ["crypto/subtle"], "", "subtle.ConstantTimeCompare([]byte(\"ab\"), []byte(\"ab\"))+subtle.ConstantTimeSelect(1, 5, 9)", 3, 1),
    ("sort", ["sort"], "", "func() int { s := []int{3, 1, 2}; sort.Slice(s, func(i, j int) bool { return s[i] < s[j] }); return s[0]*100 + s[1]*10 + s[2] }()", 2, 1),
    ("os", ["os"], "", "%(bi)s(len(os.Args) > 0)+2*%(bi)s(os.Stdout != nil)+4*%(bi)s(os.ErrNotExist != nil)+len(os.ErrNotExist.Error())+len(os.Getenv(\"VERIF_C12_ENV\"))", 2, 2),
    ("time", ["time"], "", "len(time.UTC.String())+len(time.Duration(1500*time.Millisecond).String())+int(time.Unix(86400*365, 0).UTC().Year())+len(time.March.String())", 1, 2),
    ("rand", ["math/rand"], "", "rand.New(rand.NewSource(42)).Intn(1000)", 1, 2),
    ("crc32", ["hash/crc32"], "", "int(crc32.ChecksumIEEE([]byte(\"hello\")))&0xffff+%(bi)s(crc32.IEEETable != nil)", 1, 2),
    ("base64", ["encoding/base64"], "", "len(base64.StdEncoding.EncodeToString([]byte(\"hello!\")))+len(base64.URLEncoding.EncodeToString([]byte{0xfb, 0xff}))", 1, 2),
    ("bufio", ["bufio", "strings"], "", "len(bufio.ErrTooLong.Error())+bufio.NewReader(strings.NewReader(\"ab\\ncd\")).Size()", 1, 2),
]
# identity probes: (key, imports, type of the saved value, expression) -- value is created by the std package's own init
ID_PROBES = [
    ("ideof", ["io"], "error", "io.EOF", 0),
    ("iderr", ["errors"], "error", "errors.ErrUnsupported", 0),
    ("iduniq", ["unique"], "unique.Handle[string]", "unique.Make(\"c12-ident\")", 1),
    ("idrange", ["strconv"], "error", "strconv.ErrRange", 1),
    ("idnotexist", ["os"], "error", "os.ErrNotExist", 2),
    ("idstdout", ["os"], "*os.File", "os.Stdout", 2),
    ("idb64", ["encoding/base64"], "*base64.Encoding", "base64.StdEncoding", 2),
    ("idcrc", ["hash/crc32"], "*crc32.Table", "crc32.IEEETable", 2),
]
STD_BASE_NAMES = ["atomic", "unicode", "strings", "io", "errors", "utf8", "iter", "sync", "unique", "strconv", "reflect",
                  "runtime", "syscall", "subtle", "sort", "os", "time", "rand", "crc32", "base64", "bufio"]
BLANK_STD = ["unique", "sync/atomic", "iter", "reflect", "runtime", "sync", "unicode", "errors"]


def pkg_name_of(d):
    base = d.split("/")[-1]
    s = "".join(c for c in base if c.isalnum() or c == "_")
    if not s or s[0].isdigit():
        s = "p" + s
    if s in ("main", "init", "go", "unsafe"):
        s += "x"
    return s


class Var:
    __slots__ = ("idx", "kind", "names", "exported", "reads", "plain", "labels", "has_event")


class Pkg:
    def __init__(self, idx):
        self.idx = idx
        self.id = "p%d" % idx
        self.deps = []          # [(pkg idx, kind)] kind in plain|alias|dot|blank
        self.dir = ""
        self.name = ""
        self.is_main = False
        self.orphan = False
        self.declonly = False
        self.files = []
        self.decls = []         # [(code, {user pkg idx}, [std imports], varflag)]
        self.labels = []        # unconditional labels
        self.cond_labels = []
        self.exports = []       # int expressions with %(Q)s qualifier placeholder, readable by importers
        self.ident_fns = []     # exported identity functions (name, ) callable by importers / main.main
        self.features = []
        self.std = []


class Gen:
    def __init__(self, rng, heavy_level=1, avoid=()):
        self.r = rng
        self.heavy = heavy_level
        self.avoid = set(avoid)
        self.features = []

    def feat(self, p, f):
        if f not in p.features:
            p.features.append(f)
        if f not in self.features:
            self.features.append(f)

    # ---------------------------------------------------------------- graph
    def graph(self):
        r = self.r
        n = r.choice([2, 3, 3, 4, 4, 5, 5, 6, 6, 7, 8, 8])
        shape = r.choice(["random", "random", "chain", "diamond", "fan", "layers", "dense"])
        deps = [[] for _ in range(n)]
        if shape == "chain":
            for i in range(1, n):
                deps[i].append(i - 1)
                if i >= 2 and r.random() < 0.25:
                    deps[i].append(r.randrange(0, i - 1))
        elif shape == "diamond" and n >= 4:
            # 0 bottom, 1..n-2 middles, n-1 top(main)
            for i in range(1, n - 1):
                deps[i].append(0)
                if i >= 2 and r.random() < 0.3:
                    deps[i].append(r.randrange(1, i))
            deps[n - 1] = [i for i in range(1, n - 1)]
            if r.random() < 0.4:
                deps[n - 1].append(0)
        elif shape == "fan":
            for i in range(0, n - 1):
                deps[n - 1].append(i)
            for i in range(1, n - 1):
                if r.random() < 0.3:
                    deps[i].append(r.randrange(0, i))
        elif shape == "layers" and n >= 4:
            cut = max(1, (n - 1) // 2)
            for i in range(cut, n - 1):
                deps[i] = [j for j in range(0, cut) if r.random() < 0.7] or [0]
            deps[n - 1] = [i for i in range(cut, n - 1)] or [0]
        else:
            pr = 0.75 if shape == "dense" else 0.4
            for i in range(1, n):
                deps[i] = [j for j in range(i) if r.random() < pr]
        orphan = -1
        if n >= 3 and r.random() < 0.15:
            orphan = r.randrange(0, n - 1)
        # every non-main package (except the orphan) needs an importer; nobody imports the orphan
        for i in range(n):
            deps[i] = [j for j in deps[i] if j != orphan]
        for j in range(n - 2, -1, -1):
            if j == orphan:
                continue
            if not any(j in deps[i] for i in range(j + 1, n)):
                cands = [i for i in range(j + 1, n) if i != orphan]
                deps[r.choice(cands)].append(j)
        for i in range(n):
            d = []
            for j in deps[i]:
                if j not in d:
                    d.append(j)
            r.shuffle(d)          # source import order is random: llgo initialises in import order
            deps[i] = d
        return n, shape, deps, orphan

    # ---------------------------------------------------------------- expressions
    def own_reads(self, p, avail):
        """int terms reading already generated items of this package (avail: list of expressions)"""
        r = self.r
        k = min(len(avail), r.choice([0, 1, 1, 2, 2, 3]))
        return r.sample(avail, k) if k else []          # terms: (text, user pkgs, std imports)

    def cross_reads(self, p, pkgs, need):
        """terms reading imported packages; `need` = dep indices that still lack a use"""
        r = self.r
        out = []
        usable = [(j, k) for (j, k) in p.deps if k != "blank" and pkgs[j].exports]
        if not usable:
            return out, set()
        used = set()
        pend = [j for (j, k) in usable if j in need]
        picks = []
        if pend and r.random() < 0.8:
            picks.append(pend[0])
        if r.random() < 0.5:
            picks.append(r.choice(usable)[0])
        for j in picks:
            e = r.choice(pkgs[j].exports)
            out.append(e % {"Q": "{{Q%d}}" % j})
            used.add(j)
        return out, used

    def std_probe(self, p, place):
        """returns (helper decl code or '', expr, imports) or None"""
        r = self.r
        cands = [s for s in STD_PROBES if s[5] <= self.heavy and s[0] not in p.std and ("std:" + s[0]) not in self.avoid]
        if not cands:
            return None
        tot = sum(s[4] for s in cands)
        x = r.random() * tot
        for s in cands:
            x -= s[4]
            if x <= 0:
                break
        p.std.append(s[0])
        u = "%sS%d" % (p.id, len(p.std))
        m = {"u": u, "bi": p.id + "bi"}
        self.feat(p, "std:" + s[0])
        helper = s[2] % m if s[2] else ""
        expr = "(" + s[3] % m + ")"
        # (helper code, its imports, expression, the expression's imports): an import belongs where the package name is written
        return helper, [x for x in s[1] if x.split("/")[-1] + "." in helper], expr, [x for x in s[1] if x.split("/")[-1] + "." in expr]

    # ---------------------------------------------------------------- one package
    def package(self, p, pkgs):
        r = self.r
        P, q = "P%d" % p.idx, p.id
        lg, lb, bi = q + "lg", q + "lb", q + "bi"
        nfiles = r.choice([1, 1, 2, 2, 3, 3, 4])
        names = []
        for cand in r.sample(FILE_NAMES, len(FILE_NAMES)):       # go rejects case-insensitive file name collisions
            if len(names) < nfiles and cand.lower() not in [x.lower() for x in names]:
                names.append(cand)
        p.files = sorted(names)           # go list / the go tool present files in byte order of their names
        if sorted(names) != sorted(names, key=lambda x: x.lower()):
            self.feat(p, "files:case-order")
        self.feat(p, "files:%d" % nfiles)
        decls = p.decls
        need = [j for (j, k) in p.deps if k != "blank"]
        needset = list(need)

        def ev(label, cond=False):
            full = label
            (p.cond_labels if cond else p.labels).append(full)
            return '"@ %s %s"' % (q, full)

        def add(code, users=(), std=(), kind="other"):
            decls.append([code, sorted(set(users)), list(std), kind])

        add("func %s(l string, v int) int {\n\tprintln(l, v)\n\treturn v\n}\n" % lg)
        add("func %s(l string, v bool) bool {\n\tn := 0\n\tif v {\n\t\tn = 1\n\t}\n\tprintln(l, n)\n\treturn v\n}\n" % lb)
        add("func %s(b bool) int {\n\tif b {\n\t\treturn 1\n\t}\n\treturn 0\n}\n" % bi)

        if p.declonly:
            # constants and types only: no events, importers use the constant / the method
            add("const %sK = %d\n" % (P, 3 + p.idx))
            add("type %sT struct{ N int }\n\nfunc (t %sT) Get() int { return t.N + %sK }\n" % (P, P, P))
            p.exports = ["%%(Q)s%sK" % P, "%%(Q)s%sT{N: 2}.Get()" % P]
            self.feat(p, "pkg:decl-only")
            p._initdecls = []
            p._mainreads = ([], [])
            return

        # plan variables first (names are needed by hidden readers before the target exists)
        nv = r.choice([0, 1, 2, 3, 4, 5, 6, 8]) if not p.is_main else r.choice([0, 1, 2, 3, 4])
        kinds = ["int", "int", "int", "int", "pair", "blank", "struct", "slice", "map", "closure", "bool", "array", "generic", "noinit"]
        plan = []
        for k in range(nv):
            v = Var()
            v.idx = k
            v.kind = r.choice(kinds)
            v.exported = r.random() < 0.6
            base = ("%sV%d" % (P, k)) if v.exported else ("%sv%d" % (q, k))
            v.names = [base, base + "b"] if v.kind == "pair" else [base]
            v.plain = v.kind in ("int", "closure", "generic")
            plan.append(v)
        plain_targets = [v for v in plan if v.plain]
        avail = []            # terms (text, user pkgs, std imports) over items generated so far (dependency-safe for later variables)
        late = []
        helpers = 0
        hidden = 0
        std_budget = r.choice([0, 0, 1, 1, 2, 3])
        if p.is_main:
            std_budget = r.choice([0, 1, 1, 2])

        def expr_terms(extra_hidden=True, cond=False):
            """returns (expr string, users, std)"""
            nonlocal helpers, hidden, std_budget
            terms = [str(r.randrange(1, 9))]
            users, std = set(), []
            for t, u, s in self.own_reads(p, avail):
                terms.append(t)
                users.update(u)
                std += list(s)
            ct, cu = self.cross_reads(p, pkgs, needset)
            for j in cu:
                if j in needset:
                    needset.remove(j)
            terms += ct
            users.update(cu)
            if std_budget > 0 and r.random() < 0.5:
                sp = self.std_probe(p, "var")
                if sp:
                    std_budget -= 1
                    if sp[0]:
                        add(sp[0], (), sp[1], "stdhelper")
                    terms.append(sp[2])
                    std += sp[3]
            if extra_hidden and plain_targets and r.random() < 0.3 and "hidden-read" not in self.avoid:
                # hidden read through an interface method: no initialisation dependency by the spec
                tgt = r.choice(plain_targets)
                hidden += 1
                hn = "%sh%d" % (q, hidden)
                add("type %sI interface{ hget() int }\n" % hn)
                add("type %sT struct{}\n\nfunc (%sT) hget() int { return %s }\n" % (hn, hn, tgt.names[0]))
                add("var %s %sI = %sT{}\n" % (hn, hn, hn), (), (), "var")
                terms.append("%s.hget()" % hn)
                self.feat(p, "dep:hidden-iface")
            if r.random() < 0.2:
                terms.append("%s(%s, %d)" % (lg, ev("n%d" % (len(p.labels) + len(p.cond_labels)), cond), r.randrange(1, 5)))
                self.feat(p, "expr:nested-log")
            r.shuffle(terms)
            return " + ".join(terms), users, std

        def new_helper():
            """a function/method/closure/pointer/generic that reads earlier variables: later variables depend through it"""
            nonlocal helpers
            if not avail:
                return
            helpers += 1
            h = "%sf%d" % (q, helpers)
            body_terms = self.own_reads(p, avail) or [avail[0]]
            users, std = set(), []
            for _, u, s in body_terms:
                users.update(u)
                std += list(s)
            body = " + ".join(t for t, _, _ in body_terms)
            kind = r.choice(["func", "func", "method", "methodval", "methodexpr", "funcvar", "generic", "initmethod", "ptr", "chain",
                             "promoted", "generictype"])
            if ("dep:" + kind) in self.avoid:
                kind = "func"         # probe + avoid: the construct is covered by a fixed probe of an open finding
            if kind == "func":
                add("func %s() int { return %s }\n" % (h, body), users, std)
                e = "%s()" % h
            elif kind == "method":
                add("type %sT struct{ n int }\n\nfunc (t %sT) get() int { return t.n + %s }\n" % (h, h, body), users, std)
                e = "%sT{n: 1}.get()" % h
            elif kind == "methodval":
                add("type %sT struct{ n int }\n\nfunc (t *%sT) get() int { return t.n + %s }\n" % (h, h, body), users, std)
                add("var %smv = (&%sT{n: 2}).get\n" % (h, h), (), (), "var")
                e = "%smv()" % h
            elif kind == "methodexpr":
                add("type %sT struct{ n int }\n\nfunc (t %sT) get() int { return t.n + %s }\n" % (h, h, body), users, std)
                e = "%sT.get(%sT{n: 3})" % (h, h)
            elif kind == "funcvar":
                add("var %sfv = func() int { return %s }\n" % (h, body), users, std, "var")
                e = "%sfv()" % h
            elif kind == "generic":
                add("func %sg[T int | int64](x T) T { return x + T(%s) }\n" % (h, body), users, std)
                e = "%sg[int](1)" % h
            elif kind == "initmethod":
                add("type %sT struct{ n int }\n\nfunc (t %sT) init() int { return t.n + %s }\n" % (h, h, body), users, std)
                e = "%sT{n: 4}.init()" % h
            elif kind == "promoted":
                # dependency through a method promoted from an embedded field (go/ssa synthesises the wrapper)
                add("type %sin struct{ n int }\n\nfunc (t %sin) get() int { return t.n + %s }\n\ntype %sT struct {\n\t%sin\n\tk int\n}\n" % (
                    h, h, body, h, h), users, std)
                e = "%sT{%sin{n: 5}, 1}.get()" % (h, h)
            elif kind == "generictype":
                add("type %sB[T int | uint] struct{ v T }\n\nfunc (b %sB[T]) get() int { return int(b.v) + %s }\n" % (h, h, body), users, std)
                e = "%sB[uint]{v: 6}.get()" % h
            elif kind == "ptr":
                tg = [v for v in plan if v.plain and any(a[0] == v.names[0] for a in avail)]
                if not tg:
                    add("func %s() int { return %s }\n" % (h, body), users, std)
                    e = "%s()" % h
                    kind = "func"
                else:
                    t = r.choice(tg)
                    add("var %sp = &%s\n" % (h, t.names[0]), (), (), "var")
                    e = "*%sp" % h
                    users, std = set(), []
            else:  # chain: function calling a function
                add("func %s() int { return %s }\n" % (h, body), users, std)
                add("func %sx() int { return %s() + 1 }\n" % (h, h))
                e = "%sx()" % h
            self.feat(p, "dep:" + kind)
            avail.append((e, (), ()))     # callers need no import: the body lives where the helper is declared

        # generate in dependency order; declaration position is decided later (shuffle over files)
        for v in plan:
            if r.random() < 0.5:
                new_helper()
            n0 = v.names[0]
            k = v.kind
            self.feat(p, "var:" + k)
            if k == "int":
                e, u, s = expr_terms()
                add("var %s = %s(%s, %s)\n" % (n0, lg, ev("v." + n0), e), u, s, "var")
                reads = [n0]
            elif k == "closure":
                e, u, s = expr_terms()
                add("var %s = func() int { return %s(%s, %s) }()\n" % (n0, lg, ev("v." + n0), e), u, s, "var")
                reads = [n0]
            elif k == "generic":
                e, u, s = expr_terms()
                add("func %sgen[T any](x T) T { return x }\n" % n0)
                add("var %s = %s(%s, %sgen[int](%s))\n" % (n0, lg, ev("v." + n0), n0, e), u, s, "var")
                reads = [n0]
            elif k == "pair":
                e1, u1, s1 = expr_terms()
                e2, u2, s2 = expr_terms(False)
                add("func %spair() (int, int) {\n\treturn %s(%s, %s), %s(%s, %s)\n}\n" % (
                    n0, lg, ev("v." + n0), e1, lg, ev("v." + v.names[1]), e2), u1 | u2, s1 + s2)
                lhs = "%s, %s" % (n0, v.names[1])
                if r.random() < 0.3:
                    lhs = "_, %s" % v.names[1]
                    reads = [v.names[1]]
                else:
                    reads = [n0, v.names[1]]
                add("var %s = %spair()\n" % (lhs, n0), (), (), "var")
            elif k == "blank":
                e, u, s = expr_terms()
                add("var _ = %s(%s, %s)\n" % (lg, ev("v._%d" % v.idx), e), u, s, "var")
                reads = []
            elif k == "struct":
                e1, u1, s1 = expr_terms()
                e2, u2, s2 = expr_terms(False)
                add("type %sS struct {\n\tA, B int\n\tC string\n}\n" % n0)
                add("var %s = %sS{A: %s(%s, %s), C: \"k\", B: %s(%s, %s)}\n" % (
                    n0, n0, lg, ev("v." + n0 + ".A"), e1, lg, ev("v." + n0 + ".B"), e2), u1 | u2, s1 + s2, "var")
                reads = ["%s.A" % n0, "%s.B" % n0, "len(%s.C)" % n0]
            elif k == "slice":
                e1, u1, s1 = expr_terms()
                e2, u2, s2 = expr_terms(False)
                add("var %s = []int{%s(%s, %s), 7, %s(%s, %s)}\n" % (
                    n0, lg, ev("v." + n0 + ".0"), e1, lg, ev("v." + n0 + ".2"), e2), u1 | u2, s1 + s2, "var")
                reads = ["%s[0]" % n0, "%s[2]" % n0, "len(%s)" % n0]
            elif k == "array":
                e1, u1, s1 = expr_terms()
                add("var %s = [3]int{1, %s(%s, %s), 3}\n" % (n0, lg, ev("v." + n0 + ".1"), e1), u1, s1, "var")
                reads = ["%s[1]" % n0, "%s[2]" % n0]
            elif k == "map":
                e1, u1, s1 = expr_terms()
                e2, u2, s2 = expr_terms(False)
                add("var %s = map[string]int{\"x\": %s(%s, %s), \"y\": %s(%s, %s)}\n" % (
                    n0, lg, ev("v." + n0 + ".x"), e1, lg, ev("v." + n0 + ".y"), e2), u1 | u2, s1 + s2, "var")
                reads = ['%s["x"]' % n0, '%s["y"]' % n0, 'len(%s)' % n0]
            elif k == "bool":
                e1, u1, s1 = expr_terms()
                e2, u2, s2 = expr_terms(False, cond=True)      # right operand: evaluated only if the left one does not decide
                op = r.choice(["&&", "||"])
                c1, c2 = r.randrange(0, 40), r.randrange(0, 40)
                add("var %s = %s(%s, %s > %d) %s %s(%s, %s > %d)\n" % (
                    n0, lb, ev("v." + n0 + ".l"), e1, c1, op, lb, ev("v." + n0 + ".r", cond=True), e2, c2), u1 | u2, s1 + s2, "var")
                reads = ["%s(%s)" % (bi, n0)]
                self.feat(p, "init:multi-block")
            else:  # noinit: assigned by an init function
                add("var %s int\n" % n0, (), (), "var")
                late.append(n0)
                reads = []
            v.reads = reads
            for e in reads:
                avail.append((e, (), ()))
            if v.exported:
                for e in reads:
                    p.exports.append(e.replace(n0, "%(Q)s" + n0) if not e.startswith(bi) else None)
                p.exports = [e for e in p.exports if e]
        if r.random() < 0.5:
            new_helper()

        # identity probe of a std package (saved during init, compared again by importers / main.main)
        idp = [s for s in ID_PROBES if s[4] <= self.heavy and ("std:" + s[0]) not in self.avoid]
        if idp and r.random() < 0.3:
            s = r.choice(idp)
            nm = "%sid%s" % (q, s[0])
            add("var %s %s = %s\n" % (nm, s[2], s[3]), (), s[1], "var")
            add("func %sIdent() int { return %s(%s == %s) }\n" % (P, bi, nm, s[3]), (), s[1])
            p.exports.append("%%(Q)s%sIdent()" % P)
            avail.append(("%sIdent()" % P, (), ()))
            self.feat(p, "std:" + s[0])

        # init functions: file by file (events are labelled with file name and ordinal inside the file)
        per_file = {}
        for fn in p.files:
            cnt = r.choice([0, 0, 1, 1, 2, 3]) if len(p.files) > 1 else r.choice([0, 1, 2, 3, 4])
            per_file[fn] = cnt
        if late and not any(per_file.values()):
            per_file[r.choice(p.files)] = 1
        if needset and not any(per_file.values()) and not plan:
            per_file[r.choice(p.files)] = 1
        ninit = 0
        initdecls = []
        incr_targets = [v.names[0] for v in plan if v.kind == "int"]
        for fn in p.files:
            for k in range(per_file[fn]):
                ninit += 1
                tag = "i.%s#%d" % (fn, k + 1)
                e, u, s = expr_terms(False)
                body = []
                users, std = set(u), list(s)
                style = r.choice(["plain", "plain", "defer", "closure", "late", "incr", "twice"])
                if late and (style == "late" or ninit == 1):
                    # every variable without initialiser is assigned by the first init function (and maybe again later)
                    for ln_ in (late if ninit == 1 else [r.choice(late)]):
                        body.append("%s = %s(%s, %s + %d)" % (ln_, lg, ev(tag + ".set." + ln_), ln_, r.randrange(1, 50)))
                    self.feat(p, "init:assign-late")
                if style == "incr" and incr_targets:
                    t = r.choice(incr_targets)
                    body.append("%s += %d" % (t, r.randrange(100, 900)))
                    self.feat(p, "init:increment")
                if style == "defer":
                    body.append("defer %s(%s, %d)" % (lg, ev(tag + ".defer"), r.randrange(1, 9)))
                    self.feat(p, "init:defer")
                if style == "closure":
                    body.append("func() { %s(%s, %s) }()" % (lg, ev(tag + ".closure"), r.choice(avail)[0] if avail else "0"))
                    self.feat(p, "init:closure")
                body.append("%s(%s, %s)" % (lg, ev(tag), e))
                if style == "twice":
                    body.append("%s(%s, %d)" % (lg, ev(tag + ".2"), r.randrange(1, 9)))
                initdecls.append((fn, "func init() {\n\t%s\n}\n" % "\n\t".join(body), users, std))
        self.feat(p, "inits:%d" % min(ninit, 6))
        if any(c >= 2 for c in per_file.values()):
            self.feat(p, "inits:several-per-file")

        # exported function for importers (reads everything, including variables set/incremented by init functions)
        if avail or late:
            pool = [a[0] for a in avail] + late
            ts = r.sample(pool, min(len(pool), 3))
            add("func %sF() int { return %s }\n" % (P, " + ".join(ts)))
            p.exports.append("%%(Q)s%sF()" % P)
        add("const %sK = %d\n" % (P, 11 + p.idx))
        p.exports.append("%%(Q)s%sK" % P)
        for ln_ in late:
            if ln_.startswith(P):
                p.exports.append("%(Q)s" + ln_)

        # imports that are still unused: a const-only use (`var _ = q.K`) or an init function
        for j in list(needset):
            ex = [e for e in pkgs[j].exports if e.endswith("K")] or pkgs[j].exports
            e = r.choice(ex) % {"Q": "{{Q%d}}" % j}
            if r.random() < 0.5:
                add("var _ = %s\n" % e, [j], (), "var")
                self.feat(p, "import:const-use-only")
            else:
                ninit += 1
                fn = r.choice(p.files)
                per_file[fn] += 1
                initdecls.append((fn, "func init() {\n\t%s(%s, %s)\n}\n" % (lg, ev("i.%s#%d" % (fn, per_file[fn])), e), {j}, []))
            needset.remove(j)
        p._initdecls = initdecls
        p._mainreads = (avail, late)

    # ---------------------------------------------------------------- assemble files
    def assemble(self, p, pkgs, modpath, files_out):
        r = self.r
        per_file = {fn: [] for fn in p.files}
        order = list(p.decls)
        r.shuffle(order)
        for d in order:
            per_file[r.choice(p.files)].append((d[0], d[1], d[2]))
        # init functions keep their relative order inside their file but are interleaved with other declarations
        for fn in p.files:
            mine = [(c, u, s) for (f, c, u, s) in p._initdecls if f == fn]
            lst = per_file[fn]
            pos = sorted(r.randrange(0, len(lst) + 1) for _ in mine)
            for off, (pp, item) in enumerate(zip(pos, mine)):
                lst.insert(pp + off, item)
        blanks = [(j, k) for (j, k) in p.deps if k == "blank"]
        blank_file = {}
        for j, _ in blanks:
            blank_file.setdefault(r.choice(p.files), []).append(j)
        kind_of = dict(p.deps)
        for fn in p.files:
            users, std = [], []
            for c, u, s in per_file[fn]:
                for j in u:
                    if j not in users:
                        users.append(j)
                for x in s:
                    if x not in std:
                        std.append(x)
            body = "\n".join(c for c, _, _ in per_file[fn])
            imps = []
            for j in users:
                q = pkgs[j]
                k = kind_of[j]
                path = modpath + "/" + q.dir
                if k == "dot":
                    imps.append('. "%s"' % path)
                    body = body.replace("{{Q%d}}" % j, "")
                elif k == "alias" or q.name in STD_BASE_NAMES or sum(1 for x in pkgs if x.name == q.name) > 1:
                    al = "u%d%s" % (j, r.choice(["", "x", "_"]))
                    imps.append('%s "%s"' % (al, path))
                    body = body.replace("{{Q%d}}" % j, al + ".")
                else:
                    imps.append('"%s"' % path)
                    body = body.replace("{{Q%d}}" % j, q.name + ".")
            for j in blank_file.get(fn, []):
                imps.append('_ "%s"' % (modpath + "/" + pkgs[j].dir))
            for x in std:
                imps.append('"%s"' % x)
            if p.blank_std and fn == p.files[-1]:
                for x in p.blank_std:
                    if x not in std:
                        imps.append('_ "%s"' % x)
            r.shuffle(imps)
            txt = "package %s\n\n" % ("main" if p.is_main else p.name)
            if imps:
                if len(imps) == 1 and r.random() < 0.5:
                    txt += "import %s\n\n" % imps[0]
                else:
                    txt += "import (\n" + "".join("\t%s\n" % i for i in imps) + ")\n\n"
            txt += body
            files_out[(p.dir + "/" if p.dir else "") + fn] = txt


def generate(seed, idx, heavy=1, avoid=()):
    """-> (files {relpath: text}, meta)"""
    rng = random.Random(seed * 1000003 + idx * 7919 + 12)
    g = Gen(rng, heavy, avoid)
    n, shape, deps, orphan = g.graph()
    modpath = rng.choice(["c12m", "c12m", "example.com/c12-mod", "c12.test/m/v2"])
    pkgs = [Pkg(i) for i in range(n)]
    dirs = rng.sample(DIR_NAMES, n - 1)
    main_dir = rng.choice(["", "", "", "cmd/app"])
    for i, p in enumerate(pkgs):
        p.is_main = (i == n - 1)
        p.orphan = (i == orphan)
        p.dir = main_dir if p.is_main else dirs[i]
        p.name = "main" if p.is_main else pkg_name_of(p.dir)
        p.declonly = (not p.is_main) and rng.random() < 0.08
        p.blank_std = []
        if rng.random() < 0.25:
            p.blank_std = rng.sample(BLANK_STD, rng.choice([1, 1, 2]))
            if heavy == 0:
                p.blank_std = [x for x in p.blank_std if x in ("sync/atomic", "iter", "unicode", "errors")]
            p.blank_std = [x for x in p.blank_std if ("std:" + x) not in g.avoid]
            for x in p.blank_std:
                g.feat(p, "blankstd:" + x)
        for j in deps[i]:
            k = rng.choice(["plain", "plain", "plain", "alias", "blank", "dot"])
            if k == "dot" and pkgs[j].declonly:
                k = "plain"
            if p.declonly:
                k = "blank"        # a package of constants and types only: its imports can only be blank
            p.deps.append((j, k))
            g.feat(p, "import:" + k)
    for p in pkgs:
        g.package(p, pkgs)
        # a blank/dot/alias decision may leave a "plain" import of a package without exports impossible: handled by exports always containing K
    # main.main: logs last, re-checks identity probes and reads state of its direct imports
    mp = pkgs[-1]
    avail, late = mp._mainreads
    terms, users, std = [], set(), []
    for j, k in mp.deps:
        if k != "blank" and pkgs[j].exports:
            e = rng.choice(pkgs[j].exports)
            terms.append(e % {"Q": "{{Q%d}}" % j})
            users.add(j)
    for t in [a[0] for a in avail[:3]] + late:
        terms.append(t)
    body = ['println("@ M main.main", %s)' % (" + ".join(terms) if terms else "0")]
    mlabels = ["main.main"]
    k = 0
    for j, kind in mp.deps:
        if kind != "blank":
            for e in pkgs[j].exports:
                if e.endswith("Ident()"):
                    k += 1
                    body.append('println("@ M ident%d", %s)' % (k, e % {"Q": "{{Q%d}}" % j}))
                    mlabels.append("ident%d" % k)
                    users.add(j)
    mp.decls.append(["func main() {\n\t%s\n}\n" % "\n\t".join(body), sorted(users), std, "other"])
    files = {}
    for p in pkgs:
        g.assemble(p, pkgs, modpath, files)
    files["go.mod"] = "module %s\n\ngo 1.24\n" % modpath
    # transitive closure of the import relation
    reach = [set() for _ in range(n)]
    for i in range(n):
        for j, _ in pkgs[i].deps:
            reach[i].add(j)
            reach[i] |= reach[j]
    live = sorted(reach[n - 1] | {n - 1})
    diamonds = 0
    for i in range(n):
        ds = [j for j, _ in pkgs[i].deps]
        for a in range(len(ds)):
            for b in range(a + 1, len(ds)):
                if (reach[ds[a]] | {ds[a]}) & (reach[ds[b]] | {ds[b]}):
                    diamonds += 1
    if orphan >= 0:
        g.features.append("orphan-package")
    feats = sorted(g.features)
    meta = {
        "seed": seed, "index": idx, "module": modpath, "main_pkg": "./" + main_dir if main_dir else ".",
        "shape": shape, "npkgs": n, "orphan": orphan, "diamond_pairs": diamonds,
        "pkgs": [{"id": p.id, "dir": p.dir, "name": p.name, "files": p.files, "imports": [[j, k] for j, k in p.deps],
                  "closure": sorted(reach[p.idx]), "live": p.idx in live, "labels": p.labels, "cond_labels": p.cond_labels,
                  "features": p.features, "blank_std": p.blank_std} for p in pkgs],
        "main_labels": mlabels, "features": feats,
    }
    edges = sum(len(p.deps) for p in pkgs)
    meta["sig"] = "n%d/e%d/%s/d%d/%s" % (n, edges, shape, min(diamonds, 3), ",".join(f for f in feats if not f.startswith(("files:", "inits:", "var:int"))))
    return files, meta

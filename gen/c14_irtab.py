"""C14 symbol-table monitor over the textual IR of all modules of one `llgo build -gen-llfiles`.

IR is treated as TEXT (LLVM 14 prints pointer cmpxchg/atomicrmw in a form it cannot re-parse; nothing here calls LLVM).

  parse_module(path)  -> Module: definitions (functions with body, globals with initialiser) and declarations
  Table(modules)      -> name -> [(module, kind, linkage, canonical hash)], plus the checks of the property:
       strong-dup        more than one strong (external) definition of one name
       merge-differs     linkonce/weak(_odr)/common definitions of one name (or a strong one next to them) whose canonical bodies differ
       unresolved        a referenced declaration that no module defines and that is no libc/runtime C symbol
       kind-mismatch     declared as function, defined as variable (or vice versa)
       sig-mismatch      declaration and definition disagree on the (attribute-free) signature / variable type

Canonical body = text of the definition with module-local noise removed:
  * attribute-group numbers (#N), metadata attachments (!dbg !N), comments
  * references to symbols with private/internal linkage (@0, @1 ... string constants are numbered per module) are replaced
    by the canonical hash of THEIR definition (recursively)
  * references to per-module synthetic strong symbols that a mergeable body may legitimately reach under a per-module name
    (goroutine start routines `<pkg>._llgo_routine$N`, method-value / thunk wrappers `<pkg>.<recv>.<m>$bound|$thunk`, which are
    named after the package that is being compiled) are replaced by the canonical hash of their definition as well
Local value names need no renumbering: llgo emits unnamed values/blocks, which LLVM numbers positionally per function.
"""
import hashlib
import os
import re
import subprocess

NAME = r'"(?:[^"\\]|\\.)*"|[-a-zA-Z$._][-a-zA-Z$._0-9]*|[0-9]+'
RE_REF = re.compile(r'c"(?:[^"\\]|\\.)*"|@(' + NAME + r')')
RE_DEFINE = re.compile(r'^define\s+(.*?)@(' + NAME + r')\((.*)$')
RE_DECLARE = re.compile(r'^declare\s+(.*?)@(' + NAME + r')\((.*)$')
RE_GLOBAL = re.compile(r'^@(' + NAME + r')\s*=\s*(.*)$')
LINKAGES = ("private", "internal", "available_externally", "linkonce", "weak", "common", "appending", "extern_weak",
            "linkonce_odr", "weak_odr", "external")
MERGEABLE = ("linkonce", "weak", "linkonce_odr", "weak_odr", "common", "available_externally")
LOCAL = ("private", "internal")
RE_SYNTH = re.compile(r'(\._llgo_routine\$\d+|\$bound|\$thunk)$')
RE_PNAME = re.compile(r'^(.*\S)\s+%(?:' + NAME + r')$')
PARAM_ATTRS = re.compile(r'\b(noundef|nocapture|readonly|writeonly|readnone|signext|zeroext|immarg|nonnull|noalias|returned|'
                         r'nofree|nosync|inreg|swiftself|align \d+|dereferenceable\(\d+\)|dereferenceable_or_null\(\d+\))\b')


def unq(n):
    return n[1:-1] if n.startswith('"') else n


def h(s):
    return hashlib.sha1(s.encode("utf-8", "replace")).hexdigest()[:16]


class Def:
    __slots__ = ("name", "kind", "linkage", "text", "sig", "module", "refs", "_canon")

    def __init__(self, name, kind, linkage, text, sig, module):
        self.name, self.kind, self.linkage, self.text, self.sig, self.module = name, kind, linkage, text, sig, module
        self.refs = None
        self._canon = None


class Module:
    def __init__(self, path):
        self.path = path
        self.src = ""
        self.defs = {}
        self.decls = {}     # name -> (kind, sig)
        self.is_c = False


def split_params(s):
    """parameter list text up to the matching ')' of the already opened '('; returns (params, rest)"""
    depth = 1
    for i, ch in enumerate(s):
        if ch == "(":
            depth += 1
        elif ch == ")":
            depth -= 1
            if depth == 0:
                return s[:i], s[i + 1:]
    return s, ""


def norm_sig(pre, params):
    """attribute-free signature: return type + parameter types"""
    toks = [t for t in pre.split() if t not in LINKAGES and t not in ("dso_local", "dso_preemptable", "hidden", "protected", "default",
                                                                       "unnamed_addr", "local_unnamed_addr", "fastcc", "ccc", "coldcc")]
    ret = PARAM_ATTRS.sub("", " ".join(toks))
    ps = []
    depth = 0
    cur = ""
    for ch in params:
        if ch in "({[<":
            depth += 1
        elif ch in ")}]>":
            depth -= 1
        if ch == "," and depth == 0:
            ps.append(cur)
            cur = ""
        else:
            cur += ch
    if cur.strip():
        ps.append(cur)
    out = []
    for p in ps:
        p = PARAM_ATTRS.sub("", p)
        p = p.strip()
        mt = RE_PNAME.match(p)
        if mt:
            p = mt.group(1)
        out.append(" ".join(p.split()))
    return " ".join(ret.split()) + " (" + ", ".join(out) + ")"


def parse_module(path):
    m = Module(path)
    with open(path, encoding="utf-8", errors="replace") as f:
        lines = f.read().split("\n")
    i = 0
    n = len(lines)
    while i < n:
        ln = lines[i]
        i += 1
        if not ln or ln[0] in ";!%":
            if ln.startswith("; ModuleID"):
                pass
            continue
        if ln.startswith("source_filename"):
            m.src = ln.split('"')[1] if '"' in ln else ln
            m.is_c = m.src.endswith((".c", ".cpp", ".cc", ".S", ".s"))
            continue
        if ln.startswith("define"):
            mt = RE_DEFINE.match(ln)
            if not mt:
                raise ValueError("cannot parse define line in %s: %s" % (path, ln[:200]))
            pre, name, rest = mt.group(1), unq(mt.group(2)), mt.group(3)
            params, tail = split_params(rest)
            first = pre.split()[0] if pre.split() else ""
            linkage = first if first in LINKAGES else "external"
            body = []
            while i < n and lines[i] != "}":
                body.append(lines[i])
                i += 1
            i += 1
            sig = norm_sig(pre, params)
            m.defs[name] = Def(name, "func", linkage, sig + "\n" + "\n".join(body), sig, m)
            continue
        if ln.startswith("declare"):
            mt = RE_DECLARE.match(ln)
            if not mt:
                raise ValueError("cannot parse declare line in %s: %s" % (path, ln[:200]))
            pre, name, rest = mt.group(1), unq(mt.group(2)), mt.group(3)
            params, tail = split_params(rest)
            m.decls[name] = ("func", norm_sig(pre, params))
            continue
        if ln[0] == "@":
            mt = RE_GLOBAL.match(ln)
            if not mt:
                raise ValueError("cannot parse global line in %s: %s" % (path, ln[:200]))
            name, rest = unq(mt.group(1)), mt.group(2)
            toks = rest.split()
            linkage = toks[0] if toks and toks[0] in LINKAGES else "external"
            k = 0
            while k < len(toks) and toks[k] not in ("global", "constant", "alias", "ifunc"):
                k += 1
            if k >= len(toks):
                continue
            body = " ".join(toks[k:])
            body = re.sub(r',\s*align \d+\s*$', "", body)
            if toks[0] in ("external", "extern_weak") and toks[k] in ("global", "constant"):
                m.decls[name] = ("var", var_type(" ".join(toks[k + 1:])))
            else:
                vt = var_type(" ".join(toks[k + 1:]))
                m.defs[name] = Def(name, "var", linkage, body, vt, m)
            continue
    return m


def var_type(s):
    """leading type of `<type> <initialiser>` (first balanced token sequence)"""
    s = s.strip()
    if not s:
        return ""
    if s[0] in "{[<":
        depth = 0
        for i, ch in enumerate(s):
            if ch in "{[<(":
                depth += 1
            elif ch in "}]>)":
                depth -= 1
                if depth == 0:
                    return s[:i + 1]
        return s
    if s[0] == "%":
        mt = re.match(r'%(' + NAME + r')', s)
        return mt.group(0) if mt else s.split()[0].rstrip(",")
    return s.split()[0].rstrip(",")


def system_symbols():
    """dynamic symbols of the C libraries an llgo program is linked against"""
    libs = []
    for d in ("/lib/x86_64-linux-gnu", "/usr/lib/x86_64-linux-gnu"):
        for nm in ("libc.so.6", "libm.so.6", "libpthread.so.0", "libdl.so.2", "libgc.so.1", "libunwind.so.8", "libgcc_s.so.1",
                   "libatomic.so.1", "librt.so.1"):
            p = os.path.join(d, nm)
            if os.path.exists(p) and p not in libs:
                libs.append(p)
    tcl = os.path.join(os.path.dirname(os.path.dirname(os.path.abspath(__file__))), "toolchain", "lib")
    if os.path.isdir(tcl):
        for fn in sorted(os.listdir(tcl)):
            if ".so" in fn:
                libs.append(os.path.join(tcl, fn))
    syms = set()
    for p in libs:
        try:
            out = subprocess.run(["nm", "-D", "--defined-only", p], stdout=subprocess.PIPE, stderr=subprocess.DEVNULL).stdout.decode("utf-8", "replace")
        except OSError:
            continue
        for ln in out.split("\n"):
            t = ln.split()
            if len(t) >= 3:
                syms.add(t[2].split("@")[0])
    return syms


class Table:
    def __init__(self, modules):
        self.modules = modules
        self.by_name = {}
        for m in modules:
            for d in m.defs.values():
                self.by_name.setdefault(d.name, []).append(d)

    # ---- canonical hash
    def canon(self, d, stack=()):
        if d._canon is not None:
            return d._canon
        key = (d.module.path, d.name)
        if key in stack:
            return "CYCLE"
        txt = self.canon_text(d, stack)
        c = h(txt)
        if "CYCLE" not in txt:
            d._canon = c
        return c

    def canon_text(self, d, stack=()):
        key = (d.module.path, d.name)
        m = d.module
        txt = d.text
        txt = re.sub(r'\s#\d+', "", txt)
        txt = re.sub(r',?\s*![A-Za-z_.]+ !\d+', "", txt)
        txt = re.sub(r';[^\n"]*$', "", txt, flags=re.M)

        def rep(mt):
            if mt.group(1) is None:
                return mt.group(0)
            r = unq(mt.group(1))
            if r == d.name:
                return "@<self>"
            t = m.defs.get(r)
            if t is not None and (t.linkage in LOCAL or (t.linkage == "external" and t.kind == "func" and RE_SYNTH.search(r))):
                return "@<%s:%s>" % ("P" if t.linkage in LOCAL else "S", self.canon(t, stack + (key,)))
            return "@" + mt.group(1)
        return RE_REF.sub(rep, txt)

    RE_STR = re.compile(r'runtime\.String" \{ ptr @<P:[0-9a-f]+>, i64 \d+ \}')
    RE_PTT = re.compile(r'(runtime\.String" \{ ptr @<P:[0-9a-f]+>, i64 \d+ \}, )(ptr null|ptr getelementptr inbounds \(%"github.com/goplus/llgo/runtime/abi.PtrType", ptr @"\*[^"]*", i32 0, i32 0\))( \})')

    def classify_merge(self, defs):
        """narrow code-level classes of known descriptor differences (findings/C14.json); None = anything else"""
        texts = [self.canon_text(d) for d in defs]
        head = texts[0][:400]
        if all(d.kind == "var" for d in defs):
            if 'abi.InterfaceType"' in head.split("{ i64")[0]:
                # InterfaceType.PkgPath_ (the 2nd String of the descriptor) is the path of the package that emitted the copy
                def mask(t):
                    ms = list(self.RE_STR.finditer(t))
                    if len(ms) < 2:
                        return t
                    return t[:ms[1].start()] + "<PKGPATH>" + t[ms[1].end():]
                if len({mask(t) for t in texts}) == 1:
                    return "iface-pkgpath"
            if 'abi.PtrType"' in head.split("{ i64")[0]:
                # Type.PtrToThis_ of a pointer descriptor: nil, or **T when the pointer type was reached through an alias
                def mask2(t):
                    return self.RE_PTT.sub(lambda m: m.group(1) + "<PTRTOTHIS>" + m.group(3), t, count=1)
                if len({mask2(t) for t in texts}) == 1:
                    return "alias-ptrtothis"
        return None

    def refs_of(self, d):
        if d.refs is None:
            out = []
            seen = {}
            for mt in RE_REF.finditer(d.text):
                if mt.group(1) is not None:
                    r = unq(mt.group(1))
                    if r not in seen:
                        seen[r] = 1
                        out.append(r)
            d.refs = out
        return d.refs

    # ---- the checks
    def check(self, syslib):
        probs = []
        stats = {"modules": len(self.modules), "defined_names": 0, "multi_module_names": 0, "mergeable_groups": 0,
                 "mergeable_copies": 0, "private_repeats": 0, "declarations": 0, "decl_resolved_in_ir": 0, "decl_resolved_syslib": 0,
                 "decl_unreferenced": 0, "strong_names": 0}
        for name in sorted(self.by_name):
            ds = self.by_name[name]
            if name.startswith("llvm."):
                continue      # @llvm.used / @llvm.compiler.used: appending linkage, merged by concatenation
            vis = [d for d in ds if d.linkage not in LOCAL]
            if len(ds) > len(vis) and len(ds) > 1:
                stats["private_repeats"] += 1
            if not vis:
                continue
            stats["defined_names"] += 1
            strong = [d for d in vis if d.linkage not in MERGEABLE]
            merge = [d for d in vis if d.linkage in MERGEABLE]
            if strong:
                stats["strong_names"] += 1
            if len(vis) > 1:
                stats["multi_module_names"] += 1
            if len(strong) > 1:
                probs.append(("strong-dup", name, "%d strong definitions of @%s: modules %s" % (
                    len(strong), name, ", ".join(d.module.src for d in strong))))
            kinds = sorted({d.kind for d in vis})
            if len(kinds) > 1:
                probs.append(("kind-mismatch", name, "@%s is defined as a function and as a variable: %s" % (
                    name, ", ".join("%s:%s" % (d.module.src, d.kind) for d in vis))))
            if len(vis) > 1 and merge:
                stats["mergeable_groups"] += 1
                stats["mergeable_copies"] += len(vis)
                hs = {}
                for d in vis:
                    hs.setdefault(self.canon(d), []).append(d)
                if len(hs) > 1:
                    groups = sorted(hs.values(), key=lambda g: (-len(g), g[0].module.src))
                    a, b = groups[0][0], groups[1][0]
                    sub = self.classify_merge([g[0] for g in groups])
                    probs.append(("merge-differs" + (":" + sub if sub else ""), name, "mergeable symbol @%s (%s) has %d different bodies in %d modules; e.g. %s vs %s" % (
                        name, "/".join(sorted({d.linkage for d in vis})), len(hs), len(vis), a.module.src, b.module.src), (a, b)))
        # declarations
        referenced = {}
        for m in self.modules:
            for d in m.defs.values():
                for r in self.refs_of(d):
                    referenced.setdefault(m.path, {})[r] = 1
        for m in self.modules:
            for name, (kind, sig) in sorted(m.decls.items()):
                if name.startswith("llvm."):
                    continue
                stats["declarations"] += 1
                tgt = [d for d in self.by_name.get(name, []) if d.linkage not in LOCAL]
                if tgt:
                    stats["decl_resolved_in_ir"] += 1
                    t = tgt[0]
                    if t.kind != kind:
                        probs.append(("kind-mismatch", name, "@%s is declared as %s in %s but defined as %s in %s" % (
                            name, kind, m.src, t.kind, t.module.src)))
                    elif not m.is_c and not t.module.is_c and sig != t.sig:
                        probs.append(("sig-mismatch", name, "@%s: declaration in %s `%s` vs definition in %s `%s`" % (
                            name, m.src, sig, t.module.src, t.sig)))
                    continue
                if name not in referenced.get(m.path, {}):
                    stats["decl_unreferenced"] += 1
                    continue
                if name in syslib:
                    stats["decl_resolved_syslib"] += 1
                    continue
                probs.append(("unresolved", name, "@%s is referenced by module %s but no module defines it and it is no symbol of the C libraries" % (name, m.src)))
        return probs, stats


def load_dir(files):
    return [parse_module(p) for p in files]

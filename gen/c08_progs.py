"""C08 leg (c): self-measuring Go programs.

For each generated type the program prints, side by side,
  * the folded constants unsafe.Sizeof / Alignof / Offsetof,
  * measured pointer differences of live values (array stride, slice stride, field addresses,
    offset of the type inside struct{byte; T}),
  * what the run-time descriptors say (reflect Size/Align/FieldAlign/Field(i).Offset, field type sizes,
    stride of reflect's Index),
  * canaries around a value that is round-tripped through a channel, a map, an interface and reflect.Set
    (a descriptor size larger than the real slot smashes the trailing canary).
The oracle (checks/c08.py) only demands INTERNAL equality of these numbers, so the same program must
also be silent under the reference `go` toolchain (dual run = validation of the monitor).
Pure function of the seed.
"""
import random

SCALARS = ["bool", "int8", "uint8", "int16", "uint16", "int32", "uint32", "int64", "uint64", "int", "uint",
           "uintptr", "float32", "float64", "complex64", "complex128", "string", "unsafe.Pointer"]
KEYSCALARS = [s for s in SCALARS]

# type representation: ("b", name) | ("arr", n, t) | ("struct", [t...]) | ("ptr", t) | ("slice", t) |
# ("map", k, t) | ("chan", t) | ("func", nin, nout) | ("iface", nmeth) | ("self", kind)  (reference to the unit's own named type)


class Gen:
    def __init__(self, seed):
        self.rng = random.Random(seed)

    def scalar(self):
        return ("b", self.rng.choice(SCALARS))

    def zero(self, d):
        r = self.rng.randrange(5)
        if r == 0:
            return ("struct", [])
        if r == 1:
            return ("arr", 0, self.scalar())
        if r == 2:
            return ("arr", self.rng.randrange(1, 4), ("struct", []))
        if r == 3:
            return ("struct", [("arr", 0, self.scalar())])
        return ("arr", 0, self.typ(d - 1) if d > 0 else ("b", "int64"))

    def key(self, d):
        r = self.rng.randrange(10)
        if r < 6 or d <= 0:
            return ("b", self.rng.choice(KEYSCALARS))
        if r < 7:
            return ("ptr", self.scalar())
        if r < 8:
            return ("arr", self.rng.choice([0, 1, 2, 3]), self.key(d - 1))
        return ("struct", [self.key(d - 1) for _ in range(self.rng.randrange(0, 4))])

    def struct(self, d):
        n = self.rng.randrange(0, 7)
        fs = []
        for _ in range(n):
            r = self.rng.randrange(20)
            if r < 2:
                fs.append(self.zero(d))
            elif r < 9:
                fs.append(self.scalar())
            else:
                fs.append(self.typ(d - 1))
        if n > 0 and self.rng.randrange(6) == 0:
            fs.append(self.zero(d))
        return ("struct", fs)

    def typ(self, d):
        r = self.rng.randrange(100)
        if d <= 0:
            r %= 48
        if r < 28:
            return self.scalar()
        if r < 32:
            return ("ptr", self.typ(d - 1))
        if r < 36:
            return ("slice", self.typ(d - 1))
        if r < 41:
            return ("func", self.rng.randrange(0, 3), self.rng.randrange(0, 3))
        if r < 45:
            return ("iface", self.rng.randrange(0, 3))
        if r < 48:
            return ("chan", self.typ(d - 1))
        if r < 53:
            return ("map", self.key(d - 1), self.typ(d - 1))
        if r < 68:
            return ("arr", self.rng.choice([0, 1, 1, 2, 3, 4, 5, 8]), self.typ(d - 1))
        return self.struct(d)

    def top(self):
        """type of one unit: mostly structs (offsets are the interesting part)"""
        r = self.rng.randrange(100)
        d = self.rng.randrange(1, 4)
        if r < 70:
            t = self.struct(d)
            if r < 6 and t[1]:
                # self-referential named struct with a func field
                extra = self.rng.choice([("ptr", ("self",)), ("slice", ("self",)), ("map", ("b", "int32"), ("self",))])
                t = ("struct", t[1] + [("func", 1, 1), extra])
            return t
        return self.typ(d)


# ---------------------------------------------------------------- structural predicates / rendering

def render(t, self_name):
    k = t[0]
    if k == "b":
        return t[1]
    if k == "self":
        return self_name
    if k == "arr":
        return "[%d]%s" % (t[1], render(t[2], self_name))
    if k == "struct":
        return "struct{" + "; ".join("f%d %s" % (i, render(f, self_name)) for i, f in enumerate(t[1])) + "}"
    if k == "ptr":
        return "*" + render(t[1], self_name)
    if k == "slice":
        return "[]" + render(t[1], self_name)
    if k == "chan":
        return "chan " + render(t[1], self_name)
    if k == "map":
        return "map[%s]%s" % (render(t[1], self_name), render(t[2], self_name))
    if k == "func":
        return "func(%s) (%s)" % (", ".join(["int32", "*uint8"][:t[1]]), ", ".join(["uint16", "[]int64"][:t[2]]))
    if k == "iface":
        return "interface{" + "; ".join("M%d(int) string" % i for i in range(t[1])) + "}"
    raise ValueError(k)


def zero_sized(t):
    if t[0] == "arr":
        return t[1] == 0 or zero_sized(t[2])
    if t[0] == "struct":
        return all(zero_sized(f) for f in t[1])
    return False


def trailing_zs(t):
    if t[0] == "arr":
        return t[1] > 0 and trailing_zs(t[2])
    if t[0] == "struct":
        fs = t[1]
        if any(trailing_zs(f) for f in fs):
            return True
        return len(fs) > 1 and zero_sized(fs[-1]) and not zero_sized(t)
    return False


def layout_has_func(t):
    if t[0] == "func":
        return True
    if t[0] == "arr":
        return layout_has_func(t[2])
    if t[0] == "struct":
        return any(layout_has_func(f) for f in t[1])
    return False


def mentions_self(t):
    if t[0] == "self":
        return True
    if t[0] in ("arr",):
        return mentions_self(t[2])
    if t[0] in ("ptr", "slice", "chan"):
        return mentions_self(t[1])
    if t[0] == "map":
        return mentions_self(t[1]) or mentions_self(t[2])
    if t[0] == "struct":
        return any(mentions_self(f) for f in t[1])
    return False


def skeleton(t):
    k = t[0]
    if k == "b":
        return t[1]
    if k == "self":
        return "S"
    if k == "arr":
        return "[%d]%s" % (min(t[1], 2), skeleton(t[2]))
    if k == "struct":
        return "{" + ",".join(skeleton(f) for f in t[1]) + "}"
    if k in ("ptr", "slice", "chan"):
        return k + "(" + skeleton(t[1]) + ")"
    if k == "map":
        return "map(%s,%s)" % (skeleton(t[1]), skeleton(t[2]))
    return k


# ---------------------------------------------------------------- program text

HEADER = """package main

import (
	"reflect"
	"unsafe"
)

const k1, k2 = 0x1122334455667788, 0x99aabbccddeeff00

func d(a, b unsafe.Pointer) uintptr { return uintptr(a) - uintptr(b) }

"""


def unit_code(i, t):
    name = "T%d" % i
    txt = render(t, name)
    alias = (i % 2 == 1) and not mentions_self(t)
    lines = ["type %s %s%s" % (name, "= " if alias else "", txt), ""]
    L = lines.append
    L("func u%d() {" % i)
    L("\tvar v %s" % name)
    L("\tvar a [2]%s" % name)
    L("\ts := make([]%s, 2)" % name)
    L("\tvar al struct {\n\t\tb byte\n\t\tx %s\n\t}" % name)
    L("\tvar w struct {\n\t\tpre uint64\n\t\tv   %s\n\t\tpost uint64\n\t}" % name)
    L("\trt := reflect.TypeOf(&v).Elem()")
    L("\tprintln(\"U\", %d, unsafe.Sizeof(v), unsafe.Alignof(v), rt.Size(), rt.Align(), rt.FieldAlign()," % i)
    L("\t\td(unsafe.Pointer(&a[1]), unsafe.Pointer(&a[0])), unsafe.Sizeof(a), reflect.TypeOf(&a).Elem().Size(),")
    L("\t\td(unsafe.Pointer(&s[1]), unsafe.Pointer(&s[0])),")
    L("\t\tunsafe.Offsetof(al.x), d(unsafe.Pointer(&al.x), unsafe.Pointer(&al)), reflect.TypeOf(&al).Elem().Field(1).Offset,")
    L("\t\treflect.ValueOf(s).Index(1).Addr().Pointer()-uintptr(unsafe.Pointer(&s[0])),")
    L("\t\treflect.ValueOf(&a).Elem().Index(1).Addr().Pointer()-uintptr(unsafe.Pointer(&a[0])))")

    # fields, recursively through nested structs (path relative to the enclosing struct)
    def fields(st, expr, rtexpr, path, depth):
        for j, f in enumerate(st[1]):
            fe = "%s.f%d" % (expr, j)
            L("\tprintln(\"F\", %d, \"%s\", unsafe.Offsetof(%s), d(unsafe.Pointer(&%s), unsafe.Pointer(&%s)), %s.Field(%d).Offset, unsafe.Sizeof(%s), %s.Field(%d).Type.Size())"
              % (i, path + str(j), fe, fe, expr, rtexpr, j, fe, rtexpr, j))
            if f[0] == "struct" and depth < 2 and f[1]:
                fields(f, fe, "%s.Field(%d).Type" % (rtexpr, j), path + str(j) + ".", depth + 1)

    if t[0] == "struct":
        fields(t, "v", "rt", "", 0)
    # canaries
    L("\tw.pre, w.post = k1, k2")
    L("\tch := make(chan %s, 1)" % name)
    L("\tch <- w.v")
    L("\tw.v = <-ch")
    L("\tc1 := w.pre == k1 && w.post == k2")
    L("\tw.pre, w.post = k1, k2")
    L("\tm := map[int32]%s{}" % name)
    L("\tm[1] = w.v")
    L("\tw.v = m[1]")
    L("\tc2 := w.pre == k1 && w.post == k2")
    L("\tw.pre, w.post = k1, k2")
    if t[0] == "iface":
        L("\tc3 := true")
    else:
        L("\tvar e any = w.v")
        L("\tw.v = e.(%s)" % name)
        L("\tc3 := w.pre == k1 && w.post == k2")
    L("\tw.pre, w.post = k1, k2")
    L("\treflect.ValueOf(&w.v).Elem().Set(reflect.Zero(rt))")
    L("\tc4 := w.pre == k1 && w.post == k2")
    L("\tprintln(\"C\", %d, c1, c2, c3, c4)" % i)
    L("}")
    L("")
    return "\n".join(lines)


def program(seed, nunits, first_id=0):
    g = Gen(seed)
    units = []
    body = [HEADER]
    for j in range(nunits):
        i = first_id + j
        t = g.top()
        units.append({"id": i, "type": render(t, "T%d" % i), "trailing_zs": trailing_zs(t), "has_func": layout_has_func(t) or t[0] == "func" or _elem_func(t),
                      "recursive_func": mentions_self(t) and layout_has_func(t), "skeleton": skeleton(t), "t": t,
                      "alias_func": (i % 2 == 1) and not mentions_self(t) and (layout_has_func(t) or t[0] == "func")})
        body.append(unit_code(i, t))
    body.append("func main() {")
    for u in units:
        body.append("\tu%d()" % u["id"])
    body.append("\tprintln(\"DONE\", %d)" % len(units))
    body.append("}")
    return "\n".join(body) + "\n", units


def _elem_func(t):
    """a func type whose own descriptor is consulted (element of the unit's slice/array wrappers is T itself;
    here: T is array/struct whose direct component is a func)"""
    if t[0] == "arr":
        return t[2][0] == "func" or _elem_func(t[2])
    if t[0] == "struct":
        return any(f[0] == "func" or _elem_func(f) for f in t[1])
    return False


def single_unit_program(t_unit):
    """replay helper: program with exactly one unit"""
    i = t_unit["id"]
    return HEADER + unit_code(i, t_unit["t"]) + "func main() {\n\tu%d()\n\tprintln(\"DONE\", 1)\n}\n" % i

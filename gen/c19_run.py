"""C19: build / run / compare one generated Go<->Python program.  Used by checks/c19.py and as the replay entry point:

    python3 gen/c19_run.py <replay-dir>      # rebuilds with llgo from $VERIF_REPO (default /repo), reruns, re-checks

A program directory holds the Go module, pylib/ (sitecustomize.py + generated modules), driver.py and meta.json
(expected payload per unit, batch plan, module names)."""
import json
import os
import re
import sys

sys.path.insert(0, os.path.join(os.path.dirname(os.path.abspath(__file__)), "..", "rig"))
import core

LABEL = re.compile(r"^'((?:main|pa|pb):(?:init|run\d+))'$")


def write_program(d, files, meta):
    for rel, txt in files.items():
        p = os.path.join(d, rel)
        os.makedirs(os.path.dirname(p), exist_ok=True)
        with open(p, "w") as f:
            f.write(txt)
    with open(os.path.join(d, "meta.json"), "w") as f:
        json.dump(meta, f, indent=0, sort_keys=True)


def py_env(d, log, extra=None):
    e = {"PYTHONPATH": os.path.join(d, "pylib"), "C19_LOG": log, "PYTHONDONTWRITEBYTECODE": "1", "PYTHONHASHSEED": "0",
         "LC_ALL": "C", "PATH": "/usr/local/bin:/usr/bin:/bin", "HOME": os.environ.get("HOME", "/root")}
    for k in ("LD_LIBRARY_PATH", "PYENV_ROOT", "PYTHONHOME"):
        if k in os.environ:
            e[k] = os.environ[k]
    if extra:
        e.update(extra)
    return e


def run_llgo(d, exe, tag="llgo", extra=None, timeout=120):
    log = os.path.join(d, "log.%s.txt" % tag)
    if os.path.exists(log):
        os.unlink(log)
    r = core.run_prog([exe], env=py_env(d, log, extra), timeout=timeout, cwd=d, interposer=True)
    return r, (open(log).read() if os.path.exists(log) else "")


def run_driver(d, timeout=120):
    log = os.path.join(d, "log.driver.txt")
    if os.path.exists(log):
        os.unlink(log)
    r = core.run_prog([sys.executable, os.path.join(d, "driver.py")], env=py_env(d, log), timeout=timeout, cwd=d, quiesce=False)
    return r, (open(log).read() if os.path.exists(log) else "")


def parse_R(text):
    out = []
    for ln in text.split("\n"):
        if ln.startswith("R "):
            p = ln.split(" ", 2)
            out.append((p[1], p[2] if len(p) > 2 else ""))
    return out


def undump(p):
    """human-readable rendering of a payload token (for summaries)"""
    def one(t):
        if t[:1] == "s":
            try:
                return "str:" + ascii(bytes.fromhex(t[1:]).decode("utf-8", "replace"))
            except ValueError:
                return t
        return t
    return " ".join(one(t) for t in p.split(" "))[:600]


def segments(log):
    """-> (labels in order, {label: [C records]}, records [(kind, text)])"""
    recs = []
    for ln in log.split("\n"):
        if ln[:2] in ("I ", "X ", "C "):
            recs.append((ln[0], ln[2:]))
    order, seg, cur = [], {}, None
    for k, t in recs:
        if k != "C":
            continue
        name, _, rest = t.partition(" ")
        if name.endswith(".mark"):
            m = LABEL.match(rest)
            if m:
                cur = m.group(1)
                order.append(cur)
                seg.setdefault(cur, [])
                continue
        if cur is None:
            seg.setdefault("<before-first-mark>", []).append(t)
        else:
            seg[cur].append(t)
    return order, seg, recs


def check_import_trace(recs, mods, mark_mod):
    """the trace checker: every generated module is imported (requested through __import__) exactly once by the compiled
    program itself, its body runs exactly once, and both precede the first call into it.  Explicit py.ImportModule units
    announce themselves with a mark('explicit:<mod>') record immediately before the request."""
    probs = []
    stats = {"import_records": 0, "explicit_imports": 0, "modules_used": 0}
    for m in mods:
        imp, ex, first_c, explicit = [], [], None, 0
        for i, (k, t) in enumerate(recs):
            if k == "I" and t == m:
                prev = recs[i - 1] if i > 0 else None
                if prev and prev[0] == "C" and prev[1] == "%s.mark 'explicit:%s'" % (mark_mod, m):
                    explicit += 1
                else:
                    imp.append(i)
            elif k == "X" and t == m:
                ex.append(i)
            elif k == "C" and t.startswith(m + ".") and first_c is None:
                first_c = i
        stats["import_records"] += len(imp) + explicit
        stats["explicit_imports"] += explicit
        if first_c is not None:
            stats["modules_used"] += 1
            if len(imp) != 1:
                probs.append(("import-count", "module %s: %d import requests by the program (expected exactly 1) at log records %s" % (m, len(imp), imp[:6])))
            if len(ex) != 1:
                probs.append(("import-exec", "module %s: module body executed %d times" % (m, len(ex))))
            if imp and imp[0] > first_c:
                probs.append(("import-late", "module %s: first call (record %d) precedes its import request (record %d)" % (m, first_c, imp[0])))
            if ex and ex[0] > first_c:
                probs.append(("import-late", "module %s: first call (record %d) precedes the execution of the module body (record %d)" % (m, first_c, ex[0])))
        else:
            if len(imp) > 1 or len(ex) > 1:
                probs.append(("import-count", "unused module %s: %d import requests, body executed %d times" % (m, len(imp), len(ex))))
    return probs, stats


def check_program(meta, res, log, dres, dlog):
    """-> (problems [(kind, uid|None, text)], stats).  A driver/expected disagreement is kind 'generator' (broken check)."""
    probs = []
    exp = meta["expected"]
    stats = {"units_compared": 0, "call_records_compared": 0}
    # --- reference side: python3 driver must reproduce the generator's table exactly
    if dres.kind != "exit" or dres.rc != 0:
        return [("generator", None, "driver.py failed under python3: %s rc=%s\n%s" % (dres.kind, dres.rc, dres.err[-1500:]))], stats
    dR = parse_R(dres.err)
    dd = dict(dR)
    for u, p in exp.items():
        if dd.get(u) != p:
            return [("generator", u, "python3 driver disagrees with the generator's table on %s [%s]: driver %s, table %s" % (
                u, meta["sigs"].get(u), undump(dd.get(u, "<missing>")), undump(p)))], stats
    # --- compiled program
    if "VERIF-MEMCPY-OVERLAP" in res.err:
        probs.append(("memcpy-overlap", None, "overlapping memcpy reported by the interposer:\n" + res.err[res.err.index("VERIF-MEMCPY-OVERLAP"):][:1500]))
    R = parse_R(res.err)
    seen = {}
    for u, p in R:
        seen.setdefault(u, []).append(p)
    for u, p in exp.items():
        got = seen.get(u)
        if got is None:
            continue          # reported below as part of the termination problem (or as missing)
        stats["units_compared"] += 1
        if len(got) != 1:
            probs.append(("unit-repeated", u, "%s [%s] printed %d times" % (u, meta["sigs"].get(u), len(got))))
        elif got[0] != p:
            probs.append(("value", u, "%s [%s]: Go/Python exchange differs\n  llgo:     %s\n  expected: %s  (= python3)" % (
                u, meta["sigs"].get(u), undump(got[0]), undump(p))))
    extra = [u for u in seen if u not in exp and u != "end"]
    if extra:
        probs.append(("unit-unknown", None, "output lines for unknown units %s" % extra[:5]))
    ended = ("end", "s") in R
    if res.kind == "timeout":
        probs.append(("timeout", None, "watchdog"))
    elif res.kind != "exit" or res.rc != 0 or not ended:
        order = [u for u, _ in dR]
        nxt = next((u for u in order if u not in seen), None)
        tail = "\n".join(l for l in res.err.split("\n") if not l.startswith("R "))[-1500:]
        probs.append(("died", nxt if nxt != "end" else None, "program ended with %s rc=%s after %d of %d units; first unit without output: %s [%s]\n%s" % (
            res.kind, res.rc, len(seen), len(exp), nxt, meta["sigs"].get(nxt), tail)))
    else:
        missing = [u for u in exp if u not in seen]
        if missing:
            probs.append(("unit-missing", missing[0], "no output for units %s although the program ended normally" % missing[:6]))
        # order of units: inside every batch as written; run batches in main's order
        pos = dict((u, i) for i, (u, _) in enumerate(R))
        for pk, label, uids in meta["batches"]:
            ps = [pos[u] for u in uids if u in pos]
            if ps != sorted(ps):
                probs.append(("order", None, "units of batch %s:%s ran out of order" % (pk, label)))
        # --- call trace vs driver
        o1, s1, recs = segments(log)
        o2, s2, _ = segments(dlog)
        run_labels = ["%s:%s" % (pk, lb) for pk, lb in meta["run_order"]]
        if [l for l in o1 if not l.endswith(":init")] != run_labels:
            probs.append(("order", None, "run batches executed as %s, expected %s" % ([l for l in o1 if not l.endswith(":init")], run_labels)))
        inits = [l for l in o1 if l.endswith(":init")]
        if sorted(inits) != sorted(l for l in o2 if l.endswith(":init")):
            probs.append(("init", None, "init batches executed: %s, expected each of %s once" % (inits, sorted(l for l in o2 if l.endswith(":init")))))
        elif inits and inits[-1] != "main:init":
            probs.append(("init", None, "package main initialised before its dependencies: %s" % inits))
        elif meta.get("pb_needs_pa") and inits.index("pa:init") > inits.index("pb:init"):
            probs.append(("init", None, "pb initialised before pa, which it imports: %s" % inits))
        for lb in o2:
            a, b = s1.get(lb), s2[lb]
            stats["call_records_compared"] += len(b)
            if a != b:
                i = next((i for i in range(max(len(a or []), len(b))) if i >= len(a or []) or i >= len(b) or a[i] != b[i]), 0)
                probs.append(("calls", None, "Python-side call records of batch %s differ at #%d: compiled program %r, python3 driver %r" % (
                    lb, i, (a or ["<none>"])[i] if i < len(a or []) else "<end>", b[i] if i < len(b) else "<end>")))
        if s1.get("<before-first-mark>"):
            probs.append(("calls", None, "calls before the first batch mark: %s" % s1["<before-first-mark>"][:3]))
        tp, tstats = check_import_trace(recs, meta["mods"], meta["mods"][0])
        stats.update(tstats)
        probs += [(k, None, t) for k, t in tp]
    if res.out.strip():
        probs.append(("stdout", None, "unexpected stdout: " + res.out[:300]))
    return probs, stats


def main():
    d = os.path.abspath(sys.argv[1])
    meta = json.load(open(os.path.join(d, "meta.json")))
    w = core.Work("replayC19")
    llgo = core.build_llgo(w)
    src = w.sub("src")
    os.system("cp -r %s/. %s/" % (d, src))
    exe = os.path.join(w.dir, "p_llgo.bin")
    rc, so, se = core.llgo_build(w, llgo, src, exe)
    if rc != 0:
        print("llgo build failed:\n" + (so + se)[-3000:])
        print("REPLAY: still fails (build)")
        w.close()
        sys.exit(1)
    if meta.get("probe"):
        bad = 0
        for u in meta["probe_units"]:
            r, _ = run_llgo(src, exe, extra={"C19_PROBE": u})
            got = dict(parse_R(r.err)).get(u)
            ok = got == meta["expected"][u] and r.kind == "exit" and r.rc == 0
            print("%s: %s  (got %s, expected %s)" % (u, "ok" if ok else "FAILS", undump(got or "<no output, %s rc=%s>" % (r.kind, r.rc)), undump(meta["expected"][u])))
            bad |= not ok
        w.close()
        print("REPLAY: %s" % ("still fails" if bad else "no difference"))
        sys.exit(1 if bad else 0)
    res, log = run_llgo(src, exe)
    dres, dlog = run_driver(src)
    probs, stats = check_program(meta, res, log, dres, dlog)
    w.close()
    for k, u, t in probs:
        print("[%s] %s" % (k, t))
    print("REPLAY: %s (%d units compared)" % ("still fails" if probs else "no difference", stats.get("units_compared", 0)))
    sys.exit(1 if probs else 0)


if __name__ == "__main__":
    main()

"""C03 trace parsing / normalisation shared by checks/c03.py and the replay helper.

Program output (stderr, println):  U <uid> | B <rep> | D <rep> | T <k> | A <int> | P <message or -> | END
A unit's trace is the list of its lines with P lines reduced to the panic CLASS (message text is not compared)."""
import os
import sys

sys.path.insert(0, os.path.join(os.path.dirname(os.path.abspath(__file__)), "..", "rig"))
import core

# llgo words two of the mandated panics differently; the class is what is compared
EXTRA_CLASSES = [
    ("string slice index out of bounds", "slicebounds"),
    ("type assertion", "typeassert"),
]


EVENT_PREFIXES = ("B ", "D ", "T ", "A ", "P ")


def pclass(msg):
    msg = msg.strip()
    if msg == "-":
        return "-"
    for k, c in core.PANIC_CLASSES + EXTRA_CLASSES:
        if k in msg:
            return c
    return "other:" + msg[:60]


def parse(text):
    """-> ({uid: [normalised lines]}, order [uid], ended bool, junk [lines that belong to no unit])"""
    units = {}
    order = []
    cur = None
    ended = False
    junk = []
    for ln in text.split("\n"):
        ln = ln.rstrip("\r")
        if not ln:
            continue
        if ln.startswith("U "):
            try:
                cur = int(ln[2:])
            except ValueError:
                junk.append(ln)
                continue
            if cur not in units:
                units[cur] = []
                order.append(cur)
            continue
        if ln == "END":
            ended = True
            cur = None
            continue
        if cur is None or ln[:2] not in EVENT_PREFIXES:
            # not a line of the unit protocol (e.g. the collector's "GC Warning: Repeated allocation of very large
            # block" on stderr): kept aside, never compared
            junk.append(ln)
            continue
        if ln.startswith("P "):
            units[cur].append("P " + pclass(ln[2:]))
        else:
            units[cur].append(ln)
    return units, order, ended, junk


def outcomes(lines):
    """per-rep outcome classes of a unit trace: list of classes in order of the P lines"""
    return [l[2:] for l in lines if l.startswith("P ")]

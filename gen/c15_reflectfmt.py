"""C15 generator: programs that walk their own types with reflect and print values with fmt.

generate(seed, index, tier, only=None, avoid=()) -> (files, meta)
  files : {relpath: text} of a complete module (go.mod, main.go, w/w.go, g/g.go, p0/p0.go, ...)
  meta  : {"units": {id: {"sig":..., "pkg":..., "root":...}}, "order": [ids], "mode": "dyn"|"const", "module": name}
All type declarations are always emitted; `only` (list of unit ids) restricts the unit bodies that main runs,
which gives the single-unit replay program.  `avoid` is the set of open finding ids whose constructs the
random part must not produce (probe + avoid).  Pure function of its arguments: random.Random only, no sets
in iteration, no hash().
"""
import os
import random

HERE = os.path.dirname(os.path.abspath(__file__))
WALKER_DIR = os.path.join(HERE, "..", "progs", "c15_walker")

FMT_METHODS = ("String", "Error", "GoString", "Format")

# ---------------------------------------------------------------- type model


class Ty:
    kind = "?"

    def src(self, pkg):
        raise NotImplementedError

    def sig(self, d=0):
        return self.kind


BASIC_INT = ["int", "int8", "int16", "int32", "int64"]
BASIC_UINT = ["uint", "uint8", "uint16", "uint32", "uint64", "uintptr"]
BASIC_FLOAT = ["float32", "float64"]
BASIC_CPLX = ["complex64", "complex128"]
BASICS = BASIC_INT + BASIC_UINT + BASIC_FLOAT + BASIC_CPLX + ["bool", "string"]


class Basic(Ty):
    def __init__(self, name):
        self.name = name
        self.kind = name

    def src(self, pkg):
        return self.name


class UnsafePtr(Ty):
    kind = "unsafe.Pointer"

    def src(self, pkg):
        return "unsafe.Pointer"


class Ptr(Ty):
    kind = "ptr"

    def __init__(self, elem):
        self.elem = elem

    def src(self, pkg):
        return "*" + self.elem.src(pkg)

    def sig(self, d=0):
        return "*" + self.elem.sig(d + 1)


class Slice(Ty):
    kind = "slice"

    def __init__(self, elem):
        self.elem = elem

    def src(self, pkg):
        return "[]" + self.elem.src(pkg)

    def sig(self, d=0):
        return "[]" + self.elem.sig(d + 1)


class Array(Ty):
    kind = "array"

    def __init__(self, n, elem):
        self.n = n
        self.elem = elem

    def src(self, pkg):
        return "[%d]%s" % (self.n, self.elem.src(pkg))

    def sig(self, d=0):
        return "[%s]%s" % ("0" if self.n == 0 else "n", self.elem.sig(d + 1))


class Map(Ty):
    kind = "map"

    def __init__(self, key, elem):
        self.key = key
        self.elem = elem

    def src(self, pkg):
        return "map[%s]%s" % (self.key.src(pkg), self.elem.src(pkg))

    def sig(self, d=0):
        return "map[%s]%s" % (self.key.sig(d + 1), self.elem.sig(d + 1))


class Chan(Ty):
    kind = "chan"

    def __init__(self, direction, elem):
        self.dir = direction  # "", "send", "recv"
        self.elem = elem

    def src(self, pkg):
        e = self.elem.src(pkg)
        if self.dir == "send":
            return "chan<- " + e
        if self.dir == "recv":
            return "<-chan " + e
        if isinstance(self.elem, Chan) and self.elem.dir == "recv":
            return "chan (" + e + ")"
        return "chan " + e

    def sig(self, d=0):
        return {"": "chan ", "send": "chan<- ", "recv": "<-chan "}[self.dir] + self.elem.sig(d + 1)


class Func(Ty):
    kind = "func"

    def __init__(self, params, results, variadic=False):
        self.params = params
        self.results = results
        self.variadic = variadic

    def src(self, pkg):
        ps = []
        for i, p in enumerate(self.params):
            if self.variadic and i == len(self.params) - 1:
                ps.append("..." + p.elem.src(pkg))
            else:
                ps.append(p.src(pkg))
        s = "func(" + ", ".join(ps) + ")"
        if len(self.results) == 1:
            s += " " + self.results[0].src(pkg)
        elif self.results:
            s += " (" + ", ".join(r.src(pkg) for r in self.results) + ")"
        return s

    def sig(self, d=0):
        if d > 3:
            return "func"
        return "func(%s%s)(%s)" % (",".join(p.sig(d + 1) for p in self.params), "..." if self.variadic else "",
                                   ",".join(r.sig(d + 1) for r in self.results))


class Field:
    def __init__(self, name, ty, tag="", embedded=False):
        self.name = name
        self.ty = ty
        self.tag = tag
        self.embedded = embedded

    @property
    def exported(self):
        return self.name[:1].isupper()


class Struct(Ty):
    kind = "struct"

    def __init__(self, fields, home=None):
        self.fields = fields
        self.home = home  # package in which unexported names live

    def src(self, pkg):
        if not self.fields:
            return "struct{}"
        parts = []
        for f in self.fields:
            s = f.ty.src(pkg) if f.embedded else f.name + " " + f.ty.src(pkg)
            if f.tag:
                s += " `" + f.tag + "`"
            parts.append(s)
        return "struct { " + "; ".join(parts) + " }"

    def sig(self, d=0):
        if d > 3:
            return "struct"
        parts = []
        for f in self.fields:
            s = ("E:" if f.embedded else "") + ("" if f.exported else "u:") + f.ty.sig(d + 1) + ("`" if f.tag else "")
            parts.append(s)
        return "struct{" + ";".join(parts) + "}"


class Method:
    """name, ptr receiver?, params [(name, Ty)], results [Ty], variadic, body (lines using receiver `r`)"""

    def __init__(self, name, ptr, params, results, variadic, body):
        self.name = name
        self.ptr = ptr
        self.params = params
        self.results = results
        self.variadic = variadic
        self.body = body

    @property
    def exported(self):
        return self.name[:1].isupper()


class IMethod:
    def __init__(self, name, params, results, variadic=False):
        self.name = name
        self.params = params
        self.results = results
        self.variadic = variadic

    def src(self, pkg):
        f = Func(self.params, self.results, self.variadic)
        return self.name + f.src(pkg)[4:]


class Iface(Ty):
    kind = "interface"

    def __init__(self, methods, embeds=(), home=None):
        self.methods = methods  # [IMethod]
        self.embeds = list(embeds)  # Named interfaces / StdIface
        self.home = home

    def all_methods(self):
        out = {}
        for e in self.embeds:
            u = underlying(e)
            for m in u.all_methods().values():
                out[m.name] = m
        for m in self.methods:
            out[m.name] = m
        return out

    def src(self, pkg):
        if not self.methods and not self.embeds:
            return "interface{}"
        parts = [e.src(pkg) for e in self.embeds] + [m.src(pkg) for m in self.methods]
        return "interface { " + "; ".join(parts) + " }"

    def sig(self, d=0):
        return "interface{%d%s}" % (len(self.all_methods()), "u" if any(not n[:1].isupper() for n in self.all_methods()) else "")


class StdIface(Ty):
    """error / fmt.Stringer"""
    kind = "interface"

    def __init__(self, name, method):
        self.name = name
        self.under = Iface([method])

    def src(self, pkg):
        return self.name

    def sig(self, d=0):
        return self.name


T_INT = Basic("int")
T_STRING = Basic("string")
ERROR = StdIface("error", IMethod("Error", [], [T_STRING]))
STRINGER = StdIface("fmt.Stringer", IMethod("String", [], [T_STRING]))
ANY = Iface([])


class Named(Ty):
    kind = "named"

    def __init__(self, name, pkg, under=None):
        self.name = name
        self.pkg = pkg
        self.under = under
        self.methods = []  # [Method]
        self.impl_value = None  # named interfaces: the Named implementer (value receiver methods)
        self.building = False   # its Mk function is being generated (self references become zero values)
        self.ready = False      # Mk exists
        self.nleaves = 0        # mutable leaves of the printable / deep base values
        self.nleaves_d = 0
        self.iface_ok = False   # printable values may be stored in an interface that is printed
        self.fmt_p = False
        self.fmt_zero = False

    def src(self, pkg):
        return self.name if pkg == self.pkg else self.pkg + "." + self.name

    def sig(self, d=0):
        if d > 2:
            return "N"
        m = "".join(sorted((("p" if m.ptr else "v") + ("" if m.exported else "u")) for m in self.methods))
        return "N%s(%s)" % ("/" + m if m else "", self.under.sig(d + 1) if self.under is not None else "?")


class Alias(Ty):
    kind = "alias"

    def __init__(self, name, pkg, target):
        self.name = name
        self.pkg = pkg
        self.target = target

    def src(self, pkg):
        return self.name if pkg == self.pkg else self.pkg + "." + self.name

    def sig(self, d=0):
        return "A=" + self.target.sig(d)


class Generic:
    def __init__(self, name, nparams, fields, methods, under_kind, constraint=None):
        self.name = name
        self.nparams = nparams
        self.fields = fields          # callable(args) -> [Field]  (struct kinds)
        self.methods = methods        # [(name, ptr?)]
        self.under_kind = under_kind  # struct|slice|map|func
        self.constraint = constraint  # callable(arg)->bool


class Inst(Ty):
    kind = "inst"

    def __init__(self, gen, args):
        self.gen = gen
        self.args = args

    def src(self, pkg):
        return "g.%s[%s]" % (self.gen.name, ", ".join(a.src(pkg) for a in self.args))

    def sig(self, d=0):
        if d > 3:
            return "G"
        return "g.%s[%s]" % (self.gen.name, ",".join(a.sig(d + 1) for a in self.args))

    def under(self):
        k = self.gen.under_kind
        if k == "struct":
            return Struct(self.gen.fields(self.args), home="g")
        if k == "slice":
            return Slice(self.args[0])
        if k == "map":
            return Map(self.args[0], self.args[1])
        if k == "func":
            return Func([self.args[0]], [self.args[0]])
        raise AssertionError(k)


def _box_fields(a):
    return [Field("V", a[0]), Field("n", T_INT)]


def _pair_fields(a):
    return [Field("Key", a[0], 'k:"key" json:"key,omitempty"'), Field("Val", a[1], 'k:"val"')]


G_BOX = Generic("Box", 1, _box_fields, [("Get", False), ("Put", True), ("Count", False)], "struct")
G_PAIR = Generic("Pair", 2, _pair_fields, [("Swap", False), ("Name", True)], "struct")
G_LIST = Generic("List", 1, None, [("Len", False), ("Push", True)], "slice")
G_M = Generic("M", 2, None, [("Size", False)], "map")
G_FN = Generic("Fn", 1, None, [], "func")
G_NUM = Generic("Num", 1, lambda a: [Field("X", a[0])], [("Label", False)], "struct")
G_TREE = Generic("Tree", 1, None, [("Depth", True)], "struct")
G_WRAP = Generic("Wrap", 1, None, [], "struct")
G_TREE.fields = lambda a: [Field("L", Ptr(Inst(G_TREE, a))), Field("R", Ptr(Inst(G_TREE, a))), Field("X", a[0])]
G_WRAP.fields = lambda a: [Field("Box", Inst(G_BOX, a), embedded=True), Field("Tag", T_STRING, 'w:"t"')]


def unalias(t):
    while isinstance(t, Alias):
        t = t.target
    return t


def underlying(t):
    t = unalias(t)
    while True:
        if isinstance(t, Named):
            t = unalias(t.under)
        elif isinstance(t, Inst):
            return t.under()
        elif isinstance(t, StdIface):
            return t.under
        else:
            return t


def is_iface(t):
    return isinstance(underlying(t), Iface)


def comparable(t, seen=()):
    u = underlying(t)
    if isinstance(u, (Slice, Map, Func)):
        return False
    if isinstance(u, Array):
        return comparable(u.elem)
    if isinstance(u, Struct):
        return all(comparable(f.ty) for f in u.fields)
    return True


def has_func_direct(t):
    u = underlying(t)
    if isinstance(u, Func):
        return True
    if isinstance(u, Array):
        return has_func_direct(u.elem)
    if isinstance(u, Struct):
        return any(has_func_direct(f.ty) for f in u.fields)
    return False


def contains_func(t, _seen=None):
    """the type mentions a func type anywhere (llgo rewrites such types: closure structs)"""
    if _seen is None:
        _seen = []
    t = unalias(t)
    if any(t is x for x in _seen):
        return False
    if isinstance(t, Func):
        return True
    if isinstance(t, Named):
        if t.under is None:
            return False
        return contains_func(t.under, _seen + [t])
    if isinstance(t, Inst):
        return any(contains_func(a, _seen) for a in t.args) or t.gen.under_kind == "func"
    if isinstance(t, StdIface):
        return False
    if isinstance(t, (Ptr, Slice, Array, Chan)):
        return contains_func(t.elem, _seen)
    if isinstance(t, Map):
        return contains_func(t.key, _seen) or contains_func(t.elem, _seen)
    if isinstance(t, Struct):
        return any(contains_func(f.ty, _seen) for f in t.fields)
    if isinstance(t, Iface):
        for m in t.all_methods().values():
            if any(contains_func(x, _seen) for x in m.params + m.results):
                return True
        return False
    return False


def zero_size(t, d=0):
    if d > 8:
        return False
    u = underlying(t)
    if isinstance(u, Struct):
        return all(zero_size(f.ty, d + 1) for f in u.fields)
    if isinstance(u, Array):
        return u.n == 0 or zero_size(u.elem, d + 1)
    return False


_BASIC_SIZE = {"bool": 1, "int8": 1, "uint8": 1, "int16": 2, "uint16": 2, "int32": 4, "uint32": 4, "float32": 4, "int": 8, "uint": 8,
               "int64": 8, "uint64": 8, "uintptr": 8, "float64": 8, "complex64": 8, "complex128": 16, "string": 16, "rune": 4}
_BASIC_ALIGN = {"complex64": 4, "complex128": 8, "string": 8}


def size_align(t, d=0):
    """(size, align) on amd64 with llgo's layout (func values: two words) - used only for conservative avoidance"""
    if d > 10:
        return 8, 8
    u = underlying(t)
    if isinstance(u, Basic):
        sz = _BASIC_SIZE[u.name]
        return sz, _BASIC_ALIGN.get(u.name, sz)
    if isinstance(u, (Ptr, Map, Chan, UnsafePtr)):
        return 8, 8
    if isinstance(u, Func):
        return 16, 8
    if isinstance(u, Slice):
        return 24, 8
    if isinstance(u, (Iface, StdIface)):
        return 16, 8
    if isinstance(u, Array):
        sz, al = size_align(u.elem, d + 1)
        return sz * u.n, al
    if isinstance(u, Struct):
        off, mal = 0, 1
        for f in u.fields:
            sz, al = size_align(f.ty, d + 1)
            off = (off + al - 1) // al * al + sz
            mal = max(mal, al)
        return (off + mal - 1) // mal * mal, mal
    return 8, 8


def direct_shaped(t, d=0):
    """stored directly in an interface word: pointer-shaped types and one-field wrappers of them"""
    if d > 6:
        return False
    u = underlying(t)
    if isinstance(u, (Ptr, Map, Chan, Func, UnsafePtr)):
        return True
    if isinstance(u, Struct):
        return len(u.fields) == 1 and direct_shaped(u.fields[0].ty, d + 1)
    if isinstance(u, Array):
        return u.n == 1 and direct_shaped(u.elem, d + 1)
    return False


def has_unnamed_struct(t, d=0):
    """an unnamed struct type or an alias occurs in the type expression (not looking through named types)"""
    if d > 8:
        return False
    if isinstance(t, Alias):
        return True
    t = unalias(t)
    if isinstance(t, Struct):
        return True
    if isinstance(t, (Ptr, Slice, Array, Chan)):
        return has_unnamed_struct(t.elem, d + 1)
    if isinstance(t, Map):
        return has_unnamed_struct(t.key, d + 1) or has_unnamed_struct(t.elem, d + 1)
    if isinstance(t, Func):
        return any(has_unnamed_struct(x, d + 1) for x in t.params + t.results)
    if isinstance(t, Inst):
        return any(has_unnamed_struct(a, d + 1) for a in t.args)
    if isinstance(t, Iface):
        return any(has_unnamed_struct(x, d + 1) for m in t.all_methods().values() for x in m.params + m.results)
    return False


def embeds_inst(t, d=0):
    """a generic instance (or something promoting its methods) is embedded, directly or through embedded structs"""
    if d > 6:
        return False
    t = unalias(t)
    if isinstance(t, Ptr):
        t = unalias(t.elem)
    if isinstance(t, Inst):
        return True
    u = underlying(t)
    if isinstance(u, Struct):
        return any(f.embedded and embeds_inst(f.ty, d + 1) for f in u.fields)
    return False


def expressible(t, pkg, d=0):
    """can the type expression be written in package pkg (unexported names only in their home package)"""
    if isinstance(t, (Basic, UnsafePtr, StdIface)):
        return True
    if isinstance(t, (Named, Alias)):
        return True
    if isinstance(t, Inst):
        return all(expressible(a, pkg, d + 1) for a in t.args)
    if isinstance(t, (Ptr, Slice, Chan)):
        return expressible(t.elem, pkg, d + 1)
    if isinstance(t, Array):
        return expressible(t.elem, pkg, d + 1)
    if isinstance(t, Map):
        return expressible(t.key, pkg, d + 1) and expressible(t.elem, pkg, d + 1)
    if isinstance(t, Func):
        return all(expressible(x, pkg, d + 1) for x in t.params + t.results)
    if isinstance(t, Struct):
        if t.home is not None and t.home != pkg and any(not f.exported for f in t.fields):
            return False
        return all(expressible(f.ty, pkg, d + 1) for f in t.fields)
    if isinstance(t, Iface):
        if t.home is not None and t.home != pkg and any(not m.name[:1].isupper() for m in t.methods):
            return False
        return True
    return False


# ---------------------------------------------------------------- method sets (promotion, shadowing, nil risk)

class MInfo:
    """ptr: needs a pointer receiver (not in the value method set); prisk: calling it panics when the embedded
    pointers on its path are nil; irisk: panics when the embedded interface it comes from is nil."""
    __slots__ = ("name", "ptr", "depth", "prisk", "irisk", "iface")

    def __init__(self, name, ptr, depth, prisk=False, irisk=False, iface=False):
        self.name, self.ptr, self.depth, self.prisk, self.irisk, self.iface = name, ptr, depth, prisk, irisk, iface


def direct_methods(t):
    t = unalias(t)
    if isinstance(t, Named):
        if is_iface(t):
            return []
        return [MInfo(m.name, m.ptr, 0) for m in t.methods]
    if isinstance(t, Inst):
        return [MInfo(n, p, 0) for n, p in t.gen.methods]
    return []


def full_mset(t, _depth=0):
    """method set of *t (superset of that of t), resolved by depth with ambiguity: {name: MInfo}"""
    cands = {}

    def add(mi):
        cands.setdefault(mi.name, []).append(mi)

    for mi in direct_methods(t):
        add(mi)
    u = underlying(t)
    if isinstance(u, Struct) and _depth < 6:
        for f in u.fields:
            if not f.embedded:
                continue
            ft = unalias(f.ty)
            byptr = isinstance(ft, Ptr)
            et = ft.elem if byptr else ft
            if is_iface(et):
                for n in underlying(et).all_methods():
                    add(MInfo(n, False, 1, False, True, True))
                continue
            for mi in full_mset(et, _depth + 1).values():
                prisk, ptr = mi.prisk, mi.ptr
                if byptr:
                    if not (mi.depth == 0 and mi.ptr):
                        prisk = True
                    ptr = False  # S and *S both get the methods of T and *T
                add(MInfo(mi.name, ptr, mi.depth + 1, prisk, mi.irisk, mi.iface))
    out = {}
    for name in cands:
        lst = cands[name]
        dmin = min(m.depth for m in lst)
        at = [m for m in lst if m.depth == dmin]
        if len(at) == 1:
            out[name] = at[0]
    return out


def risky_nil_ptr(elem):
    """calling a fmt method on a nil *elem panics (Go recovers inside fmt; llgo: recovered SIGSEGV, C03 territory)"""
    if is_iface(elem):
        return False
    ms = full_mset(elem)
    for n in FMT_METHODS:
        mi = ms.get(n)
        if mi is not None and not (mi.depth == 0 and mi.ptr):
            return True
    return False


def embedded_nil_risk(t, zero=False):
    """a fmt method of t / *t runs through a nil embedded pointer (for zero values also: a nil embedded interface)"""
    ms = full_mset(t)
    for n in FMT_METHODS:
        mi = ms.get(n)
        if mi is not None and (mi.prisk or (zero and mi.irisk)):
            return True
    return False


def fmt_ok(t, zero=False, top=True, _seen=None):
    """values of t generated in 'printable' flavour (zero=True: the zero value) can be handed to every fmt verb"""
    if _seen is None:
        _seen = []
    t0 = unalias(t)
    if any(t0 is s for s in _seen):
        return True
    if isinstance(t0, (Named, Inst)):
        _seen = _seen + [t0]
    u = underlying(t0)
    if isinstance(u, Iface) and isinstance(t0, Named) and not zero:
        impl = t0
        while isinstance(impl, Named) and impl.impl_value is None and isinstance(unalias(impl.under), Named):
            impl = unalias(impl.under)
        return impl.impl_value is not None and impl.impl_value.fmt_p
    if isinstance(u, Ptr):
        if risky_nil_ptr(u.elem):
            return False
        if top and not zero:
            return fmt_ok(u.elem, zero, False, _seen)
        return True
    if isinstance(u, Struct):
        if embedded_nil_risk(t0, zero):
            return False
        for f in u.fields:
            if not fmt_ok(f.ty, zero, False, _seen):
                return False
        return True
    if isinstance(u, (Slice, Array)):
        return fmt_ok(u.elem, zero, False, _seen)
    if isinstance(u, Map):
        return fmt_ok(u.key, zero, False, _seen) and fmt_ok(u.elem, zero, False, _seen)
    return True


# ---------------------------------------------------------------- method catalogue

def recv_int(named, ptr):
    """Go expression (type int) computed from receiver r, or None"""
    u = underlying(named)
    r = "(*r)" if ptr else "r"
    if isinstance(u, Basic):
        if u.name in BASIC_INT + BASIC_UINT + BASIC_FLOAT:
            return "int(%s)" % r
        if u.name == "string":
            return "len(%s)" % r
        return None
    if isinstance(u, (Slice, Map, Array, Chan)):
        return "len(%s)" % r
    if isinstance(u, Struct) and isinstance(unalias(named.under), Struct):
        for f in u.fields:
            if not f.embedded and f.name != "_" and isinstance(f.ty, Basic) and f.ty.name in BASIC_INT + BASIC_UINT:
                return "int(r.%s)" % f.name
    return None


def recv_set(named):
    """statement storing int x into the receiver (pointer receiver), or None"""
    u = underlying(named)
    if isinstance(u, Basic) and u.name in BASIC_INT + BASIC_UINT + BASIC_FLOAT:
        return "*r = %s(x)" % named.name
    if isinstance(u, Struct) and isinstance(unalias(named.under), Struct):
        for f in u.fields:
            if not f.embedded and f.name != "_" and isinstance(f.ty, Basic) and f.ty.name in BASIC_INT + BASIC_UINT:
                return "r.%s = %s(x)" % (f.name, f.ty.name)
    return None


T_BOOL = Basic("bool")
T_F64 = Basic("float64")
T_I8 = Basic("int8")
T_U16 = Basic("uint16")
T_C128 = Basic("complex128")
T_C64 = Basic("complex64")
T_RUNE = Basic("int32")

# name -> (params [(pname, Ty)], results, variadic)
CATALOGUE = {
    "String": ([], [T_STRING], False),
    "Error": ([], [T_STRING], False),
    "GoString": ([], [T_STRING], False),
    "Get": ([], [T_INT], False),
    "Set": ([("x", T_INT)], [], False),
    "Add": ([("a", T_INT), ("b", T_INT)], [T_INT], False),
    "Name": ([], [T_STRING], False),
    "Two": ([], [T_INT, T_STRING], False),
    "Sum": ([("xs", Slice(T_INT))], [T_INT], True),
    "With": ([("s", T_STRING), ("n", Slice(T_I8))], [T_STRING], True),
    "unexp": ([], [], False),
    "hid": ([("x", T_INT)], [T_INT], False),
    "Each": ([("f", Func([T_INT], [T_BOOL]))], [T_INT], False),
    "Apply": ([("m", Map(T_STRING, T_INT)), ("c", Chan("", T_INT))], [Slice(T_STRING)], False),
    "Wide": ([("a", T_I8), ("b", T_F64), ("c", T_STRING), ("d", T_U16), ("e", T_BOOL)], [T_F64, T_BOOL], False),
    "Cplx": ([("c", T_C128)], [T_C64], False),
}
IFACE_ABLE = ["String", "Error", "Get", "Set", "Add", "Name", "Two", "Sum", "With", "unexp", "hid", "Each", "Apply", "Wide"]


def make_method(named, name, ptr, salt):
    ri = recv_int(named, ptr) or "0"
    tn = named.name
    guard = lambda ret: ["if r == nil {", "\treturn " + ret if ret else "\treturn", "}"] if ptr else []
    k = 100 + salt
    if name == "Format":
        body = guard("") if not ptr else ["if r == nil {", "\tfmt.Fprint(f, \"nil%s\")" % tn, "\treturn", "}"]
        body += ["w_, wok := f.Width()", "p_, pok := f.Precision()",
                 "fmt.Fprintf(f, \"%s{%%c w=%%d/%%t p=%%d/%%t +%%t -%%t #%%t sp%%t 0%%t n=%%d}\", c, w_, wok, p_, pok, f.Flag('+'), f.Flag('-'), f.Flag('#'), f.Flag(' '), f.Flag('0'), %s)" % (tn, ri)]
        return Method(name, ptr, [("f", StdIface("fmt.State", IMethod("x", [], []))), ("c", Basic("rune"))], [], False, body)
    if name == "Self":
        rt = Ptr(named) if ptr else named
        return Method(name, ptr, [], [rt], False, ["return r"])
    params, results, variadic = CATALOGUE[name]
    if name in ("String", "Error", "Name"):
        body = guard('"nil%s"' % tn) + ['return "%s.%s#" + strconv.Itoa(%s)' % (tn, name, ri)]
    elif name == "GoString":
        body = guard('"(*%s.%s)(nil)"' % (named.pkg, tn)) + ['return "%s.Mk%s(" + strconv.Itoa(%s) + ")"' % (named.pkg, tn, ri)]
    elif name == "Get":
        body = guard("-1") + ["return %d + %s" % (k, ri)]
    elif name == "Set":
        st = recv_set(named) if ptr else None
        body = guard("") + ([st] if st else ["_ = x"])
    elif name == "Add":
        body = guard("-1") + ["return a*2 + b + %s" % ri]
    elif name == "Two":
        body = guard('-1, "nil"') + ['return %d + %s, "%s"' % (k, ri, tn)]
    elif name == "Sum":
        body = guard("-1") + ["s := len(xs) * 1000", "for _, x := range xs {", "\ts += x", "}", "return s + %s" % ri]
    elif name == "With":
        body = guard('"nil"') + ["t := 0", "for _, x := range n {", "\tt += int(x)", "}", 'return s + ":" + strconv.Itoa(t+len(n)*100+%s)' % ri]
    elif name == "unexp":
        body = []
    elif name == "hid":
        body = guard("-1") + ["return x + %d" % k]
    elif name == "Each":
        body = guard("-2") + ["if f == nil {", "\treturn -1", "}", "n := 0", "for i := 0; i < 4; i++ {", "\tif f(i) {", "\t\tn++", "\t}", "}", "return n*10 + %s" % ri]
    elif name == "Apply":
        body = guard("nil") + ['return []string{strconv.Itoa(len(m)), strconv.Itoa(cap(c)), "%s"}' % tn]
    elif name == "Wide":
        body = guard("0, false") + ["return float64(a) + b*2 + float64(len(c)) + float64(d) + float64(%s), !e" % ri]
    elif name == "Cplx":
        body = guard("0") + ["return complex64(c) + complex(float32(%s), 1)" % ri]
    else:
        raise AssertionError(name)
    return Method(name, ptr, params, results, variadic, body)


def method_src(named, m):
    ps = []
    for i, (pn, pt) in enumerate(m.params):
        if m.variadic and i == len(m.params) - 1:
            ps.append("%s ...%s" % (pn, pt.elem.src(named.pkg)))
        else:
            ps.append("%s %s" % (pn, pt.src(named.pkg)))
    res = ""
    if len(m.results) == 1:
        res = " " + m.results[0].src(named.pkg)
    elif m.results:
        res = " (" + ", ".join(r.src(named.pkg) for r in m.results) + ")"
    recv = "(r *%s)" % named.name if m.ptr else "(r %s)" % named.name
    lines = ["func %s %s(%s)%s {" % (recv, m.name, ", ".join(ps), res)]
    lines += ["\t" + l for l in m.body]
    lines.append("}")
    return "\n".join(lines)


# ---------------------------------------------------------------- random types

TAG_POOL = ['json:"a"', 'json:"b,omitempty" k:"v1"', 'k:"x y"', 'xml:"n" json:"-"', 'k:"\\u00e9\\"q"', "raw tag no colon", 'k:""']


class TypeGen:
    def __init__(self, rng, pkgs, avoid):
        self.rng = rng
        self.pkgs = pkgs
        self.avoid = avoid
        self.named = {p: [] for p in pkgs}      # Named (incl. named interfaces) in declaration order
        self.aliases = {p: [] for p in pkgs}
        self.count = 0
        self.siblings = {}                       # Named.name -> [Named] with identical / tag-variant underlying
        self.tagless = {}                        # tag-free struct text -> tags (finding C15-tag-collision)

    def av(self, fid):
        return fid in self.avoid

    # ---- helpers
    def visible_pkgs(self, pkg):
        return self.pkgs[: self.pkgs.index(pkg) + 1]

    def visible_named(self, pkg, pred=None):
        out = []
        for p in self.visible_pkgs(pkg):
            for n in self.named[p]:
                if n.under is not None and (pred is None or pred(n)):
                    out.append(n)
        return out

    def fresh(self, prefix="T"):
        self.count += 1
        return "%s%d" % (prefix, self.count)

    def basic(self):
        r = self.rng
        return Basic(r.choice(BASICS if r.random() < 0.7 else ["int", "string", "uint8", "float64", "bool", "int32"]))

    def key_type(self, pkg, d):
        """comparable types whose values sort deterministically in fmt and in the walker"""
        r = self.rng
        x = r.random()
        if x < 0.55:
            return Basic(r.choice(BASIC_INT + BASIC_UINT + ["string", "string", "bool", "float64", "float32"]))
        if x < 0.75:
            c = self.visible_named(pkg, lambda n: isinstance(underlying(n), Basic) and underlying(n).name not in BASIC_CPLX)
            if c:
                return r.choice(c)
            return T_STRING
        if x < 0.85 and d < 3:
            return Array(r.randint(1, 2), self.key_type(pkg, d + 1))
        if x < 0.95 and d < 3:
            return Struct([Field("K%d" % i, self.key_type(pkg, d + 2)) for i in range(r.randint(1, 2))])
        return Basic(r.choice(["complex128", "int"]))

    def type_arg(self, pkg, d, tagged=False):
        for _ in range(20):
            t = self.type_arg0(pkg, d)
            if self.av("C15-typearg-struct-string") and has_unnamed_struct(t):
                continue
            if tagged and self.av("C15-func-struct-tags") and contains_func(t):
                continue
            return t
        return self.basic()

    def type_arg0(self, pkg, d):
        r = self.rng
        x = r.random()
        if x < 0.45:
            c = self.visible_named(pkg)
            if c:
                return r.choice(c)
        if x < 0.6:
            return self.basic()
        return self.rand_type(pkg, d + 1)

    def inst(self, pkg, d):
        r = self.rng
        g = r.choice([G_BOX, G_BOX, G_PAIR, G_LIST, G_M, G_FN, G_NUM, G_TREE, G_WRAP])
        if g is G_FN and self.av("C15-named-func-type"):
            g = G_BOX
        if g is G_NUM:
            c = self.visible_named(pkg, lambda n: isinstance(unalias(n.under), Basic) and n.under.name in ("int", "int8", "uint16", "float64"))
            a = r.choice(c) if c and r.random() < 0.6 else Basic(r.choice(["int", "int8", "uint16", "float64"]))
            return Inst(g, [a])
        if g in (G_PAIR, G_M):
            k_ = self.key_type(pkg, d + 1)
            if self.av("C15-typearg-struct-string") and has_unnamed_struct(k_):
                k_ = T_STRING
            i_ = Inst(g, [k_, self.type_arg(pkg, d + 1, tagged=g is G_PAIR)])
            if g is G_PAIR and self.av("C15-trailing-zero-size") and zero_size(i_.args[1]):
                i_ = Inst(g, [k_, T_INT])
            if g is G_M and not self.acceptable(Map(i_.args[0], i_.args[1])):
                i_ = Inst(g, [i_.args[0], T_INT])
            return i_
        a_ = self.type_arg(pkg, d + 1, tagged=g is G_WRAP)
        if g is G_TREE and self.av("C15-trailing-zero-size") and zero_size(a_):
            a_ = T_STRING
        return Inst(g, [a_])

    def rand_type(self, pkg, d=0, allow_named=True):
        """a type expression valid in pkg (constructs of open findings filtered out)"""
        for _ in range(20):
            t = self.rand_type0(pkg, d, allow_named)
            if self.acceptable(t):
                return t
        return self.basic()

    def acceptable(self, t):
        u = unalias(t)
        if isinstance(u, Chan) and u.dir == "" and isinstance(unalias(u.elem), Chan) and unalias(u.elem).dir == "recv" and self.av("C15-chan-paren"):
            return False
        if isinstance(u, (Slice, Array, Chan, Map)) and isinstance(unalias(u.elem), Func) and self.av("C15-func-elem-size"):
            return False
        if isinstance(u, Ptr) and isinstance(unalias(u.elem), Func) and self.av("C15-ptr-func-addr"):
            return False
        if isinstance(u, Map) and self.av("C15-map-indirect-slot-size"):
            for x_ in (u.key, u.elem):
                if isinstance(unalias(x_), Named) and unalias(x_).under is None:
                    continue
                if size_align(x_)[0] > 96:
                    return False
        return True

    def rand_type0(self, pkg, d=0, allow_named=True):
        r = self.rng
        x = r.random()
        if d >= 3:
            if x < 0.5 or not allow_named:
                return self.basic()
            c = self.visible_named(pkg)
            return r.choice(c) if c else self.basic()
        if x < 0.20:
            return self.basic()
        if x < 0.42 and allow_named:
            c = self.visible_named(pkg)
            if c:
                return r.choice(c)
        if x < 0.50:
            return Ptr(self.rand_type(pkg, d + 1))
        if x < 0.59:
            return Slice(self.rand_type(pkg, d + 1))
        if x < 0.65:
            return Array(r.choice([0, 1, 2, 2, 3]), self.rand_type(pkg, d + 1))
        if x < 0.73:
            return Map(self.key_type(pkg, d + 1), self.rand_type(pkg, d + 1))
        if x < 0.77:
            return Chan(r.choice(["", "", "send", "recv"]), self.rand_type(pkg, d + 1))
        if x < 0.83:
            return self.func_type(pkg, d + 1)
        if x < 0.91:
            return self.struct_type(pkg, d + 1, named=False)
        if x < 0.95:
            return self.inst(pkg, d)
        if x < 0.97:
            c = self.aliases[pkg]
            if c:
                return r.choice(c)
        if x < 0.985:
            return r.choice([ANY, ERROR, STRINGER, ANY])
        c = self.visible_named(pkg, is_iface)
        return r.choice(c) if c else ANY

    def func_type(self, pkg, d):
        r = self.rng
        np = r.choice([0, 1, 1, 2, 3])
        nr = r.choice([0, 1, 1, 2])
        ps = [self.rand_type(pkg, d + 1) for _ in range(np)]
        rs = [self.rand_type(pkg, d + 1) for _ in range(nr)]
        var = False
        if ps and r.random() < 0.3:
            ps[-1] = Slice(ps[-1])
            var = True
        return Func(ps, rs, var)

    def embeddable(self, pkg, used, named=True):
        """(Ty, name) candidates for an embedded field"""
        e = self.embeddable0(pkg, used)
        if e is not None and not named and self.av("C15-embedded-generic-compile") and embeds_inst(e[0]):
            return None
        return e

    def embeddable0(self, pkg, used):
        r = self.rng
        x = r.random()
        if x < 0.62:
            c = self.visible_named(pkg, lambda n: not isinstance(underlying(n), Ptr) and n.name not in used)
            if not c:
                return None
            n = r.choice(c)
            if not is_iface(n) and r.random() < 0.4:
                return Ptr(n), n.name
            return n, n.name
        if x < 0.80:
            i = self.inst(pkg, 2)
            if i.gen.name in used:
                return None
            if r.random() < 0.45:
                return Ptr(i), i.gen.name
            return i, i.gen.name
        if x < 0.88:
            b = r.choice(["int", "string", "bool", "float64", "uint8"])
            return (Basic(b), b) if b not in used else None
        if x < 0.93:
            return (ERROR, "error") if "error" not in used else None
        c = [a for a in self.aliases[pkg] if a.name not in used and not isinstance(underlying(a.target), Ptr) and not isinstance(unalias(a.target), Ptr)]
        if c:
            a = r.choice(c)
            return a, a.name
        return None

    def struct_type(self, pkg, d, named, self_ref=None):
        r = self.rng
        nf = r.choice([0, 1, 2, 2, 3, 3, 4, 5]) if d < 3 else r.choice([1, 2])
        fields = []
        used = []
        unexp = False
        for i in range(nf):
            x = r.random()
            if x < (0.28 if named else 0.18) and d < 3:
                e = self.embeddable(pkg, used, named)
                if e is not None:
                    ty, name = e
                    fields.append(Field(name, ty, embedded=True))
                    used.append(name)
                    if not name[:1].isupper():
                        unexp = True
                    continue
            if self_ref is not None and x > 0.9:
                ty = r.choice([Ptr(self_ref), Slice(self_ref), Map(T_STRING, self_ref), Ptr(self_ref)])
            else:
                ty = self.rand_type(pkg, d + 1)
            if r.random() < 0.25:
                name = "f%d" % i
                unexp = True
            elif r.random() < 0.04:
                name = "_"
                unexp = True
            else:
                name = "F%d" % i
            fields.append(Field(name, ty))
            used.append(name)
        # a struct that mentions unexported names of another package cannot be written here
        if self_ref is not None and self.av("C15-recursive-func-struct-offsets"):
            def _selfish(t_):
                t_ = unalias(t_)
                return t_ is self_ref or (isinstance(t_, (Ptr, Slice)) and t_.elem is self_ref) or (isinstance(t_, Map) and t_.elem is self_ref)
            if any(_selfish(f.ty) for f in fields) and any(contains_func(f.ty) for f in fields if not _selfish(f.ty)):
                fields = [f for f in fields if not _selfish(f.ty)]
        if self.av("C15-trailing-zero-size"):
            while fields and zero_size(fields[-1].ty) and not all(zero_size(f.ty) for f in fields):
                fields.pop()
        st = Struct(fields, home=pkg if unexp else None)
        notags = (not named and self.av("C15-structstr-tags")) or (self.av("C15-func-struct-tags") and any(contains_func(f.ty) for f in fields))
        for f in fields:
            if r.random() < 0.3 and not notags:
                f.tag = r.choice(TAG_POOL)
        if self.av("C15-tag-collision") and fields:
            key = Struct([Field(f.name, f.ty, "", f.embedded) for f in fields], st.home).src(pkg) + "@" + str(st.home)
            tags = [f.tag for f in fields]
            if key in self.tagless:
                for f, tg_ in zip(fields, self.tagless[key]):
                    f.tag = tg_
            else:
                self.tagless[key] = tags
        # embedded nil pointers must not make fmt methods panic; retry by turning pointer embeddings into value embeddings
        for f in fields:
            if f.embedded and isinstance(unalias(f.ty), Ptr):
                if embedded_nil_risk(st) or risky_nil_ptr(unalias(f.ty).elem):
                    f.ty = unalias(f.ty).elem
        return st

    # ---- named types
    def add_named(self, pkg):
        r = self.rng
        name = self.fresh()
        n = Named(name, pkg)
        x = r.random()
        vis = self.visible_named(pkg)
        if x < 0.16:
            n.under = self.basic()
        elif x < 0.50:
            n.under = self.struct_type(pkg, 0, named=True, self_ref=n)
        elif x < 0.56:
            n.under = Slice(r.choice([self.rand_type(pkg, 1), n]))
        elif x < 0.61:
            n.under = Map(self.key_type(pkg, 1), r.choice([self.rand_type(pkg, 1), n]))

        elif x < 0.65:
            n.under = Array(r.choice([0, 1, 2, 3]), self.rand_type(pkg, 1))
        elif x < 0.69:
            n.under = self.func_type(pkg, 1) if not self.av("C15-named-func-type") else self.basic()
        elif x < 0.72:
            n.under = Chan(r.choice(["", "send", "recv"]), self.rand_type(pkg, 1))
        elif x < 0.75:
            n.under = Ptr(self.rand_type(pkg, 1)) if not self.av("C15-named-ptr-string") else Slice(self.rand_type(pkg, 1))
        elif x < 0.80:
            n.under = self.inst(pkg, 1)
        elif x < 0.88 and vis:
            # sibling: same underlying type as an existing named type (convertible, no methods inherited)
            o = r.choice(vis)
            n.under = o
            self.siblings.setdefault(o.name, []).append(n)
            self.siblings.setdefault(n.name, []).append(o)
        elif x < 0.93 and not self.av("C15-tag-collision") and [v for v in vis if isinstance(unalias(v.under), Struct) and v.pkg == pkg and v.under.fields]:
            # tag variant: identical fields, different tags (ConvertibleTo ignores tags, identity does not)
            o = r.choice([v for v in vis if isinstance(unalias(v.under), Struct) and v.pkg == pkg and v.under.fields])
            fs = [Field(f.name, f.ty, "", f.embedded) for f in o.under.fields]
            for f in fs:
                if r.random() < 0.5 and not (self.av("C15-func-struct-tags") and any(contains_func(g_.ty) for g_ in fs)):
                    f.tag = r.choice(TAG_POOL)
            n.under = Struct(fs, home=o.under.home)
            self.siblings.setdefault(o.name, []).append(n)
            self.siblings.setdefault(n.name, []).append(o)
        else:
            ifn = self.named_iface(pkg, n)
            if not ifn:
                n.under = self.basic()
        if not isinstance(unalias(n.under), Named) and not self.acceptable(n.under):
            n.under = self.basic()
        self.named[pkg].append(n)
        if not is_iface(n) and not isinstance(underlying(n), Ptr):
            self.add_methods(n)
        return n

    def named_iface(self, pkg, n):
        """interface derived from the value-receiver methods of an existing type of this package (guaranteed implementer)"""
        r = self.rng
        c = [v for v in self.named[pkg] if not is_iface(v) and [m for m in v.methods if not m.ptr and m.name in IFACE_ABLE]]
        if not c:
            return False
        t = r.choice(c)
        ms = [m for m in t.methods if not m.ptr and m.name in IFACE_ABLE]
        k = r.randint(1, len(ms))
        ms = sorted(r.sample(ms, k), key=lambda m: m.name)
        embeds = []
        names = [m.name for m in ms]
        if "String" in names and r.random() < 0.5:
            embeds.append(STRINGER)
            ms = [m for m in ms if m.name != "String"]
        if "Error" in names and r.random() < 0.5:
            embeds.append(ERROR)
            ms = [m for m in ms if m.name != "Error"]
        others = [v for v in self.visible_named(pkg, is_iface) if all(mn in names for mn in underlying(v).all_methods())
                  and expressible(underlying(v), pkg)]
        if others and r.random() < 0.4:
            e = r.choice(others)
            embeds.append(e)
        ims = [IMethod(m.name, [p[1] for p in m.params], m.results, m.variadic) for m in ms]
        unexp = any(not m.name[:1].isupper() for m in ims)
        n.under = Iface(ims, embeds, home=pkg if unexp else None)
        n.impl_value = t
        return True

    def add_methods(self, n):
        r = self.rng
        if r.random() < 0.25:
            return
        names = []
        pool = ["String", "Error", "GoString", "Format", "Get", "Set", "Add", "Name", "Two", "Sum", "With", "unexp", "hid", "Each", "Apply", "Wide", "Cplx", "Self"]
        k = r.choice([1, 2, 3, 4, 6])
        for nm in r.sample(pool, k):
            names.append(nm)
        if r.random() < 0.3 and "String" not in names:
            names.append("String")
        if self.av("C15-call-pointer-args"):
            names = [x_ for x_ in names if x_ not in ("Apply", "Each")]
        names.sort()
        allptr = r.random() < 0.3
        for i, nm in enumerate(names):
            if nm == "Set":
                ptr = allptr or r.random() < 0.8
            else:
                ptr = allptr or r.random() < 0.3
            n.methods.append(make_method(n, nm, ptr, self.count % 50 + i))

    ALIAS_FINDINGS = ("C15-alias-struct-methods-link", "C15-alias-generic-link", "C15-alias-typelist")

    def add_alias(self, pkg):
        r = self.rng
        if any(self.av(f) for f in self.ALIAS_FINDINGS):
            return None
        t = self.rand_type(pkg, 1)
        for _ in range(10):
            if self.av("C15-alias-struct-methods-link") and isinstance(t, Struct) and any(f.embedded for f in t.fields):
                t = self.rand_type(pkg, 1)
        if self.av("C15-alias-struct-methods-link") and isinstance(t, Struct) and any(f.embedded for f in t.fields):
            t = Slice(T_INT)
        if self.av("C15-alias-generic-link") and isinstance(unalias(t), Inst):
            t = Map(T_STRING, Slice(self.basic()))
        a = Alias(self.fresh("A"), pkg, t)
        self.aliases[pkg].append(a)
        return a


# ---------------------------------------------------------------- values

class Mut:
    """leaf counter; the leaf whose number equals target is altered (same rng stream => same structure otherwise)"""

    def __init__(self, target=-1):
        self.n = 0
        self.target = target
        self.off = 0   # >0 while inside map keys (never mutated, never counted)

    def leaf(self):
        if self.off:
            return False
        hit = self.n == self.target
        self.n += 1
        return hit


class ValGen:
    def __init__(self, tg):
        self.tg = tg

    def zero_expr(self, t, pkg):
        return "*new(%s)" % t.src(pkg)

    def basic_val(self, name, r, mut, uniq=None):
        hit = mut.leaf()
        if name == "bool":
            v = r.random() < 0.5 if uniq is None else bool(uniq % 2)
            if hit:
                v = not v
            return "true" if v else "false"
        if name == "string":
            pool = ["", "a", "hi", "héllo", "x y", "q\"uote", "日本", "tab\there", "Z", "\x7f"]
            s = r.choice(pool) if uniq is None else "k%d" % uniq
            if hit:
                s += "~"
            return go_quote(s)
        if name in BASIC_INT:
            v = r.choice([0, 1, -1, 7, 42, -100, 65, 99, 100, 120]) if uniq is None else uniq
            if name != "int8":
                v = r.choice([v, v, 1000, -30000, 0x41]) if uniq is None else uniq
            if name in ("int32", "int64", "int") and uniq is None and r.random() < 0.2:
                v = r.choice([1 << 20, -(1 << 30), 0x1F600, 2147483646])
            if name == "int64" and uniq is None and r.random() < 0.2:
                v = r.choice([1 << 40, -(1 << 62)])
            if hit:
                v += 1
            return str(v)
        if name in BASIC_UINT:
            v = r.choice([0, 1, 7, 42, 65, 200, 254]) if uniq is None else uniq
            if name != "uint8" and uniq is None:
                v = r.choice([v, 1000, 65534])
            if name in ("uint64", "uint", "uintptr") and uniq is None and r.random() < 0.2:
                v = r.choice([1 << 33, (1 << 63) + 5])
            if hit:
                v += 1
            return str(v)
        if name in BASIC_FLOAT:
            v = r.choice([0.0, 1.0, -1.5, 0.25, 3.75, 100.5, 1e6, 2.5e-3, 123456.75]) if uniq is None else float(uniq) + 0.5
            if hit:
                v += 0.5
            return repr(v)
        if name in BASIC_CPLX:
            re = r.choice([0.0, 1.0, -2.5, 0.5]) if uniq is None else float(uniq)
            im = r.choice([0.0, 1.0, -0.5, 3.25])
            if hit:
                im += 1
            return "complex(%s, %s)" % (repr(re), repr(im))
        raise AssertionError(name)

    def mk(self, n, pkg, k):
        return "%sMk%s(%d)" % ("" if pkg == n.pkg else n.pkg + ".", n.name, k)

    def named_val(self, n, pkg, fl, mut, r):
        """value of a named type through its Mk function; k: 0/1/2 printable, 3/4 deep"""
        alt = r.random() < 0.3
        leaves = n.nleaves if fl == "p" else n.nleaves_d
        hit = mut.leaf() if leaves > 0 else False
        if fl == "p":
            k = 2 if alt else 0
            if hit:
                k = 0 if alt else 1
        else:
            k = 4 if hit else 3
        return self.mk(n, pkg, k)

    def val(self, t, pkg, fl, r, mut, d=0, top=False, force=False, uniq=None, asT=None):
        """typed Go expression of type t, valid in pkg. fl: 'p' printable / 'd' deep. force: must be non-nil (embedded).
        uniq: integer making the value distinct (map keys). asT: type text to use instead of t.src(pkg)."""
        T = asT or t.src(pkg)
        t0 = unalias(t)
        if isinstance(t0, Named):
            if t0.building:
                return "*new(%s)" % T   # self reference while building Mk: zero value
            if uniq is not None:
                u = underlying(t0)
                return "%s(%s)" % (T, self.val(u, pkg, fl, r, mut, d, uniq=uniq)) if isinstance(u, Basic) else self.mk(t0, pkg, 0)
            return self.named_val(t0, pkg, fl, mut, r)
        if isinstance(t0, Inst):
            return self.inst_val(t0, pkg, fl, r, mut, d, top, force)
        if isinstance(t0, StdIface):
            if not force and (d >= 4 or r.random() < 0.3):
                return "%s(nil)" % T
            if t0 is ERROR:
                return "%s(w.Err{%s})" % (T, self.basic_val("string", r, mut))
            return "%s(w.Str{%s})" % (T, self.basic_val("int", r, mut))
        u = t0
        if isinstance(u, Basic):
            v = self.basic_val(u.name, r, mut, uniq)
            return "%s(%s)" % (T, v)
        if isinstance(u, UnsafePtr):
            return "unsafe.Pointer(nil)"
        if isinstance(u, Ptr):
            ue = underlying(u.elem)
            nonnil = force or (fl == "d" and d < 4) or (fl == "p" and top and isinstance(ue, (Struct, Array, Slice, Map)))
            if not nonnil or (not force and r.random() < 0.15):
                return "(%s)(nil)" % T
            return "w.Ptr(%s)" % self.val(u.elem, pkg, fl, r, mut, d + 1)
        if isinstance(u, Slice):
            if d >= 4 or r.random() < 0.15:
                return "%s(nil)" % T
            n = r.choice([0, 1, 2, 2, 3])
            return "%s{%s}" % (T, ", ".join(self.val(u.elem, pkg, fl, r, mut, d + 1) for _ in range(n)))
        if isinstance(u, Array):
            return "%s{%s}" % (T, ", ".join(self.val(u.elem, pkg, fl, r, mut, d + 1, uniq=uniq) for _ in range(u.n)))
        if isinstance(u, Map):
            if d >= 4 or r.random() < 0.15:
                return "%s(nil)" % T
            n = r.choice([0, 1, 2, 3])
            if isinstance(underlying(u.key), Basic) and underlying(u.key).name == "bool":
                n = min(n, 2)
            ents = []
            for i in range(n):
                mut.off += 1
                k = self.val(u.key, pkg, fl, r, mut, d + 1, uniq=i + 1 if underlying(u.key).kind != "bool" else i)
                mut.off -= 1
                ents.append("%s: %s" % (k, self.val(u.elem, pkg, fl, r, mut, d + 1)))
            return "%s{%s}" % (T, ", ".join(ents))
        if isinstance(u, Chan):
            if fl == "p" or d >= 4 or r.random() < 0.2:
                return "(%s)(nil)" % T
            return "(%s)(make(%s, %d))" % (T, Chan("", u.elem).src(pkg), r.choice([0, 1, 3]))
        if isinstance(u, Func):
            if fl == "p" or d >= 3 or r.random() < 0.2:
                return "(%s)(nil)" % T
            return "(%s)(%s)" % (T, self.func_lit(u, pkg, r, d))
        if isinstance(u, Struct):
            return self.struct_val(u, T, pkg, fl, r, mut, d, uniq)
        if isinstance(u, Iface):
            return self.iface_val(t0, u, T, pkg, fl, r, mut, d, force)
        raise AssertionError(t0)

    def struct_val(self, u, T, pkg, fl, r, mut, d, uniq=None):
        parts = []
        for f in u.fields:
            if f.name == "_":
                continue
            if not f.exported and u.home is not None and u.home != pkg:
                continue
            force = False
            if f.embedded:
                ft = unalias(f.ty)
                if is_iface(ft):
                    force = True
                elif isinstance(ft, Ptr):
                    force = fl == "d"
                    if fl == "p":
                        parts.append("%s: (%s)(nil)" % (f.name, f.ty.src(pkg)))
                        continue
            parts.append("%s: %s" % (f.name, self.val(f.ty, pkg, fl, r, mut, d + 1, force=force, uniq=uniq)))
        return "%s{%s}" % (T, ", ".join(parts))

    def iface_val(self, t0, u, T, pkg, fl, r, mut, d, force):
        ms = u.all_methods()
        if not force and (d >= 4 or r.random() < 0.3):
            return "%s(nil)" % T
        if not ms:
            # any: a printable non-pointer value
            x = r.random()
            if x < 0.5:
                b = r.choice(["int", "string", "float64", "bool", "uint8", "int64"])
                return "%s(%s(%s))" % (T, b, self.basic_val(b, r, mut))
            c = self.tg.visible_named(pkg, lambda n: not n.building and n.ready and n.iface_ok)
            if c:
                n = r.choice(c)
                return "%s(%s)" % (T, self.named_val(n, pkg, fl, mut, r))
            return "%s(w.Str{%s})" % (T, self.basic_val("int", r, mut))
        impl = self.implementer(t0, u, pkg)
        if impl is None:
            if force:
                raise AssertionError("no implementer for embedded interface")
            return "%s(nil)" % T
        return "%s(%s)" % (T, self.named_val(impl, pkg, fl, mut, r))

    def implementer(self, t0, u, pkg):
        names = list(u.all_methods())
        if names == ["Error"]:
            return _STOCK_ERR
        if names == ["String"]:
            return _STOCK_STR
        for n in self.tg.visible_named(pkg, lambda n: not is_iface(n) and n.ready and not n.building):
            have = {m.name: m for m in n.methods}
            if all(nm in have and not have[nm].ptr for nm in names) and n.iface_ok:
                if any(not nm[:1].isupper() for nm in names) and n.pkg != (u.home or n.pkg):
                    continue
                return n
        return None

    def inst_val(self, t, pkg, fl, r, mut, d, top, force):
        g = t.gen
        T = t.src(pkg)
        a = t.args
        if g is G_BOX:
            return "g.MkBox[%s](%s, %s)" % (a[0].src(pkg), self.val(a[0], pkg, fl, r, mut, d + 1), self.basic_val("int", r, mut))
        if g is G_WRAP:
            return "g.MkWrap[%s](%s, %s, %s)" % (a[0].src(pkg), self.val(a[0], pkg, fl, r, mut, d + 1), self.basic_val("int", r, mut), self.basic_val("string", r, mut))
        if g is G_PAIR:
            return "g.MkPair[%s, %s](%s, %s)" % (a[0].src(pkg), a[1].src(pkg), self.val(a[0], pkg, fl, r, mut, d + 1), self.val(a[1], pkg, fl, r, mut, d + 1))
        if g is G_NUM:
            return "%s{X: %s}" % (T, self.val(a[0], pkg, fl, r, mut, d + 1))
        if g is G_TREE:
            x = self.val(a[0], pkg, fl, r, mut, d + 1)
            if fl == "d" and d < 2:
                return "%s{X: %s, L: &%s{X: %s}}" % (T, x, T, self.val(a[0], pkg, fl, r, mut, d + 2))
            return "%s{X: %s}" % (T, x)
        return self.val(t.under(), pkg, fl, r, mut, d, top, force).replace(t.under().src(pkg), T, 1)

    def func_lit(self, f, pkg, r, d):
        ps = []
        intp = None
        for i, p in enumerate(f.params):
            if f.variadic and i == len(f.params) - 1:
                ps.append("a%d ...%s" % (i, p.elem.src(pkg)))
            else:
                ps.append("a%d %s" % (i, p.src(pkg)))
                if intp is None and isinstance(p, Basic) and p.name in BASIC_INT + BASIC_UINT:
                    intp = "a%d" % i
        res = []
        m = Mut()
        for i, t in enumerate(f.results):
            v = self.val(t, pkg, "p", r, m, d + 2)
            if intp and isinstance(t, Basic) and t.name in BASIC_INT + BASIC_UINT:
                v = "%s + %s(%s)" % (v, t.name, intp)
            res.append(v)
        rs = ""
        if len(f.results) == 1:
            rs = " " + f.results[0].src(pkg)
        elif f.results:
            rs = " (" + ", ".join(x.src(pkg) for x in f.results) + ")"
        body = "return " + ", ".join(res) if res else ""
        return "func(%s)%s { %s }" % (", ".join(ps), rs, body)


def go_quote(s):
    out = ['"']
    for ch in s:
        if ch == '"':
            out.append('\\"')
        elif ch == "\\":
            out.append("\\\\")
        elif ch == "\t":
            out.append("\\t")
        elif ch == "\n":
            out.append("\\n")
        elif ord(ch) < 0x20 or ord(ch) == 0x7f:
            out.append("\\x%02x" % ord(ch))
        else:
            out.append(ch)
    out.append('"')
    return "".join(out)


_STOCK_ERR = Named("Err", "w", Struct([Field("Msg", T_STRING)]))
_STOCK_STR = Named("Str", "w", Struct([Field("N", T_INT)]))
for _n in (_STOCK_ERR, _STOCK_STR):
    _n.ready = _n.iface_ok = _n.fmt_p = _n.fmt_zero = True
    _n.nleaves = _n.nleaves_d = 1
_STOCK_ERR.methods = [Method("Error", False, [], [T_STRING], False, [])]
_STOCK_STR.methods = [Method("String", False, [], [T_STRING], False, [])]


# ---------------------------------------------------------------- program assembly

MODULES = ["vmod", "example.com/v15", "9mod", "Zmod/sub", "vmod"]
SIZES = {"quick": (3, 24, 42), "thorough": (3, 24, 42)}   # packages, named types per package, unnamed roots in total


class Unit:
    def __init__(self, uid, pkg, root):
        self.id = uid
        self.pkg = pkg
        self.root = root


def seed_for(seed, index, salt):
    return (seed * 1000003 + index) * 7919 + salt


def build_named(tg, vg, n, rngseed):
    """Mk function source of n; sets leaves / fmt flags"""
    pkg = n.pkg
    T = n.name
    n.fmt_p = fmt_ok(n, zero=False, top=False)
    n.fmt_zero = fmt_ok(n, zero=True, top=False)
    n.iface_ok = n.fmt_p and not isinstance(underlying(n), (Ptr, Chan, Func, UnsafePtr)) and not is_iface(n)
    under = unalias(n.under)
    n.building = True
    exprs = []
    if isinstance(under, Named):
        # sibling type: convert the other type's values
        for k in range(5):
            exprs.append("%s(%s)" % (T, vg.mk(under, pkg, k)))
        n.nleaves, n.nleaves_d = under.nleaves, under.nleaves_d
    else:
        force = is_iface(n)

        def gen(fl, sd, target):
            m = Mut(target)
            r = random.Random(sd)
            if isinstance(under, Iface):
                impl = n.impl_value
                e = "%s(%s)" % (T, vg.named_val(impl, pkg, fl, m, r))
            elif isinstance(under, Inst):
                e = "%s(%s)" % (T, vg.val(under, pkg, fl, r, m, 0))
            else:
                e = vg.val(under, pkg, fl, r, m, 0, asT=T, force=force)
            return e, m.n
        r0 = random.Random(rngseed)
        p0, L = gen("p", rngseed, -1)
        tgt = -1 if L == 0 else (L - 1 if r0.random() < 0.4 else r0.randrange(L))
        p1, _ = gen("p", rngseed, tgt)
        p2, _ = gen("p", rngseed + 1, -1)
        d0, Ld = gen("d", rngseed + 2, -1)
        tgt = -1 if Ld == 0 else (Ld - 1 if r0.random() < 0.4 else r0.randrange(Ld))
        d1, _ = gen("d", rngseed + 2, tgt)
        exprs = [p0, p1, p2, d0, d1]
        n.nleaves, n.nleaves_d = L, Ld
    n.building = False
    n.ready = True
    lines = ["func Mk%s(k int) %s {" % (T, T), "\tswitch k {"]
    for k in (1, 2, 3, 4):
        lines += ["\tcase %d:" % k, "\t\treturn " + exprs[k]]
    lines += ["\t}", "\treturn " + exprs[0], "}"]
    return "\n".join(lines)


def decl_src(n):
    u = n.under
    return "type %s %s" % (n.name, u.src(n.pkg))


def unit_src(tg, vg, u, rngseed, mode, partners):
    pkg, R = u.pkg, u.root
    T = R.src(pkg)
    r = random.Random(rngseed)
    L = []
    add = L.append
    add("func U%s() {" % u.id)
    add("\tw.Header(%s, %s)" % (go_quote(u.id), go_quote(R.sig().replace(" ", ""))))
    add("\trt := reflect.TypeOf((*%s)(nil)).Elem()" % T)
    add("\tw.Try(\"type\", func() { w.Type(rt) })")
    plist = ", ".join("reflect.TypeOf((*%s)(nil)).Elem()" % p.src(pkg) for p in partners)
    add("\tpartners := []reflect.Type{%s}" % plist)
    add("\tw.Try(\"matrix\", func() { w.Matrix(rt, partners) })")
    # identity of source-level derived types with reflect-constructed ones
    add("\tw.Try(\"same\", func() {")
    is_ptr = isinstance(underlying(R), Ptr)
    is_func = isinstance(underlying(R), Func)
    if not (is_ptr and "C15-ptrto-extra-star" in tg.avoid) and not (is_func and "C15-funcof-func-identity" in tg.avoid):
        add("\t\tw.Same(\"ptr\", reflect.TypeOf((**%s)(nil)).Elem(), reflect.PointerTo(rt))" % T)
    add("\t\tw.Same(\"slice\", reflect.TypeOf((*[]%s)(nil)).Elem(), reflect.SliceOf(rt))" % T)
    add("\t\tw.Same(\"array\", reflect.TypeOf((*[3]%s)(nil)).Elem(), reflect.ArrayOf(3, rt))" % T)
    add("\t\tw.Same(\"chan\", reflect.TypeOf((*<-chan %s)(nil)).Elem(), reflect.ChanOf(reflect.RecvDir, rt))" % T)
    add("\t\tw.Same(\"map\", reflect.TypeOf((*map[string]%s)(nil)).Elem(), reflect.MapOf(reflect.TypeOf(\"\"), rt))" % T)
    if not (is_ptr and "C15-ptrto-extra-star" in tg.avoid) and not (is_func and "C15-funcof-func-identity" in tg.avoid):
        add("\t\tw.Same(\"func\", reflect.TypeOf((*func(%s, ...%s) *%s)(nil)).Elem(), reflect.FuncOf([]reflect.Type{rt, reflect.SliceOf(rt)}, []reflect.Type{reflect.PointerTo(rt)}, true))" % (T, T, T))
    add("\t})")

    def gen(fl, sd, target, top=True):
        m = Mut(target)
        rr = random.Random(sd)
        e = vg.val(R, pkg, fl, rr, m, 0, top=top)
        return e, m.n
    x, Lx = gen("p", rngseed + 10, -1)
    tgt = -1 if Lx == 0 else (Lx - 1 if r.random() < 0.4 else r.randrange(Lx))
    y, _ = gen("p", rngseed + 10, tgt)
    z, _ = gen("p", rngseed + 11, -1)
    d, Ld = gen("d", rngseed + 12, -1)
    tgt = -1 if Ld == 0 else (Ld - 1 if r.random() < 0.4 else r.randrange(Ld))
    e, _ = gen("d", rngseed + 12, tgt)
    for nm, ex in (("x", x), ("y", y), ("z", z), ("d", d), ("e", e)):
        add("\tvar %s %s = %s" % (nm, T, ex))
    add("\tw.Value(\"x\", &x)")
    add("\tw.Value(\"d\", &d)")
    add("\tw.Deep(\"xy\", &x, &y)")
    add("\tw.Deep(\"xz\", &x, &z)")
    add("\tw.Deep(\"de\", &d, &e)")
    add("\tw.Try(\"conv\", func() { w.Conv(\"x\", &x, partners) })")
    p_ok = fmt_ok(R, zero=False, top=True)
    z_ok = fmt_ok(R, zero=True, top=True)
    if p_ok:
        add("\tw.Fmt(\"x\", &x)")
        add("\tw.Fmt(\"z\", &z)")
    else:
        add("\tw.P(\"F skipped: nil pointers or interfaces on the path of a promoted fmt method\")")
    if z_ok:
        add("\tw.ZeroFmt(\"t\", rt)")
    # method calls on the deep value (all embedded pointers / interfaces non-nil)
    add("\tw.TypeCalls(\"d\", &d)")
    if mode == "dyn":
        add("\tw.Calls(\"d\", &d)")
    else:
        names = sorted(full_mset(R).keys()) if not is_iface(R) else sorted(underlying(R).all_methods().keys())
        names = [n_ for n_ in names if n_[:1].isupper()]
        skip_v = "C15-method-direct-addressable" in tg.avoid and direct_shaped(R) and not isinstance(underlying(R), Ptr)
        guard = "if !reflect.ValueOf(&d).Elem().IsNil() { " if is_iface(R) else ""
        unguard = " }" if is_iface(R) else ""
        for nm in names[:6] + ["Nope"]:
            if not skip_v:
                add("\t%sw.Res(%s, reflect.ValueOf(&d).Elem().MethodByName(%s))%s" % (guard, go_quote("v." + nm), go_quote(nm), unguard))
            add("\tw.Res(%s, reflect.ValueOf(&d).MethodByName(%s))" % (go_quote("p." + nm), go_quote(nm)))
        add("\tif reflect.ValueOf(&d).NumMethod() > 0 {")
        add("\t\tw.Res(\"p.#0\", reflect.ValueOf(&d).Method(0))")
        add("\t}")
        add("\tw.P(\"C after \" + w.Dump(reflect.ValueOf(&d).Elem()))")
    add("\t_, _, _ = y, z, e")
    add("}")
    return "\n".join(L), {"fmt": p_ok, "zerofmt": z_ok}


def generate(seed, index, tier="quick", only=None, avoid=()):
    rng = random.Random(seed_for(seed, index, 1))
    npk, nnamed, nroots = SIZES.get(tier, SIZES["quick"])
    pkgs = ["p%d" % i for i in range(npk)]
    mods = [m for m in MODULES if not (m[:1].isdigit() and "C15-method-order-pkgpath" in avoid)]
    module = mods[(seed + index) % len(mods)]
    mode = "dyn" if (seed + index) % 2 == 0 else "const"
    tg = TypeGen(rng, pkgs, tuple(avoid))
    vg = ValGen(tg)
    decls = {p: [] for p in pkgs}
    mks = {p: [] for p in pkgs}
    for p in pkgs:
        for i in range(nnamed):
            if i % 8 == 5:
                a = tg.add_alias(p)
                if a is not None:
                    decls[p].append("type %s = %s" % (a.name, a.target.src(p)))
            n = tg.add_named(p)
            decls[p].append(decl_src(n) + "".join("\n\n" + method_src(n, m) for m in n.methods))
            mks[p].append(build_named(tg, vg, n, seed_for(seed, index, 100 + tg.count)))
    # roots: every named type, plus unnamed composite types
    units = []
    uid = 0
    for p in pkgs:
        for n in tg.named[p]:
            units.append(Unit("%d" % uid, p, n))
            uid += 1
    for i in range(nroots):
        p = pkgs[rng.randrange(npk)]
        t = tg.rand_type(p, 0, allow_named=True)
        tries = 0
        while isinstance(t, (Basic, Named)) and tries < 5:
            t = tg.rand_type(p, 0)
            tries += 1
        units.append(Unit("%d" % uid, p, t))
        uid += 1
    order = [u.id for u in units]
    meta_units = {}
    bodies = {p: [] for p in pkgs}
    roots_by_pkg = {p: [] for p in pkgs}
    for u in units:
        # partners: siblings / tag variants first, then earlier roots expressible here
        partners = []
        if isinstance(u.root, Named):
            for s_ in tg.siblings.get(u.root.name, []):
                if s_.pkg in tg.visible_pkgs(u.pkg):
                    partners.append(s_)
        prr = random.Random(seed_for(seed, index, 5000 + int(u.id)))
        cands = []
        for p in tg.visible_pkgs(u.pkg):
            for t in roots_by_pkg[p]:
                if expressible(t, u.pkg):
                    cands.append(t)
        for _ in range(3):
            if cands:
                partners.append(cands[prr.randrange(len(cands))])
        partners = partners[:5]
        roots_by_pkg[u.pkg].append(u.root)
        src, info = unit_src(tg, vg, u, seed_for(seed, index, 9000 + int(u.id)), mode, partners)
        bodies[u.pkg].append(src)
        meta_units[u.id] = {"sig": u.root.sig().replace(" ", ""), "pkg": u.pkg, "root": u.root.src(u.pkg), "fmt": info["fmt"], "zerofmt": info["zerofmt"]}
    files = {"go.mod": "module %s\n\ngo 1.24\n" % module}
    with open(os.path.join(WALKER_DIR, "w.go")) as f:
        wsrc = f.read()
    if mode == "const":
        a = wsrc.index("//DYN-BEGIN")
        b = wsrc.index("//DYN-END")
        wsrc = wsrc[:a] + wsrc[b + len("//DYN-END"):]
    files["w/w.go"] = wsrc
    with open(os.path.join(WALKER_DIR, "g.go")) as f:
        files["g/g.go"] = f.read()
    for i, p in enumerate(pkgs):
        imps = ['"fmt"', '"reflect"', '"strconv"', '"unsafe"', '"%s/g"' % module, '"%s/w"' % module] + ['"%s/%s"' % (module, q) for q in pkgs[:i]]
        keep = ["var _ = fmt.Sprint", "var _ = reflect.TypeOf", "var _ = strconv.Itoa", "var _ unsafe.Pointer", "var _ g.Box[int]", "var _ = w.P"]
        keep += ["var _ %s.T0_" % q for q in pkgs[:i]]
        txt = "package %s\n\nimport (\n%s\n)\n\n%s\n\ntype T0_ struct{}\n\n" % (p, "\n".join("\t" + x for x in imps), "\n".join(keep))
        txt += "\n\n".join(decls[p]) + "\n\n" + "\n\n".join(mks[p]) + "\n\n" + "\n\n".join(bodies[p]) + "\n"
        files["%s/%s.go" % (p, p)] = txt
    run = [u for u in units if only is None or u.id in only]
    main = ["package main", "", "import (", '\t"os"', '\t"strconv"', ""]
    main += ['\t"%s/%s"' % (module, p) for p in pkgs] + ['\t"%s/w"' % module, ")", ""]
    main += ["var _ = %s.U%s" % (p, next(u.id for u in units if u.pkg == p)) for p in pkgs]
    main += ["", "func main() {", "\tfrom := 0", "\tif len(os.Args) > 1 {", "\t\tfrom, _ = strconv.Atoi(os.Args[1])", "\t}"]
    for a in sorted(avoid):
        main.append("\tw.Avoid[%s] = true" % go_quote(a))
    main.append("\tunits := []func(){%s}" % ", ".join("%s.U%s" % (u.pkg, u.id) for u in run))
    main += ["\tfor i, u := range units {", "\t\tif i >= from {", "\t\t\tw.Try(\"unit\", u)", "\t\t}", "\t}", "\tw.P(\"END \" + strconv.Itoa(len(units)))", "}", ""]
    files["main.go"] = "\n".join(main)
    meta = {"units": meta_units, "order": [u.id for u in run], "mode": mode, "module": module}
    return files, meta


EXTRA_AVOID = ("C15-method-direct-addressable", "C15-map-indirect-slot-size", "C15-empty-string-to-slice", "C15-convert-float32",
               "C15-method-order-pkgpath", "C15-alias-struct-methods-link", "C15-alias-generic-link", "C15-typearg-struct-string", "C15-alias-typelist", "C15-recursive-func-struct-offsets", "C15-call-return-overflow")
ALL_AVOID = ("C15-main-pkg-path", "C15-named-iface-pkgpath", "C15-structstr-tags", "C15-func-struct-tags", "C15-tag-collision",
             "C15-ptrto-extra-star", "C15-named-ptr-string", "C15-named-func-type", "C15-convert-int-narrow", "C15-chan-paren",
             "C15-funcof-func-identity", "C15-func-elem-size", "C15-ptr-func-addr", "C15-trailing-zero-size", "C15-call-pointer-args",
             "C15-call-zero-size", "C15-embedded-generic-compile")


if __name__ == "__main__":
    import sys
    fs, meta = generate(int(sys.argv[1]), int(sys.argv[2]), "quick", only=sys.argv[4].split(",") if len(sys.argv) > 4 else None,
                        avoid=ALL_AVOID + EXTRA_AVOID if os.environ.get("C15_AVOID") == "all" else tuple(x for x in os.environ.get("C15_AVOID", "").split(",") if x))
    out = sys.argv[3]
    for rel, txt in fs.items():
        p = os.path.join(out, rel)
        os.makedirs(os.path.dirname(p), exist_ok=True)
        with open(p, "w") as f:
            f.write(txt)
    print(len(meta["order"]), "units", meta["mode"], meta["module"])

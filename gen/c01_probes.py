"""C01 fixed probes: one deterministic case per finding, executed first on every run (DESIGN 3.5).
A probe is a Go function printing through println; all probes are packed into one program (sections `P <id>`);
if that program does not build, every probe is built on its own."""
import os
import core

# (finding id, top-level declarations, body of the probe function)
PROBES = [
    ("C01-println-float", "", '''
	x := 1.5
	println(x)
	println(float32(0.1), 1e100, -2.5e-7)
'''),
    ("C01-retload-moved-past-call", '''
type prT struct{ a, b int }

func (t *prT) mutate() int { t.a += 10; return t.a }

func prRet() (prT, int) {
	var o prT
	p := &o
	v := o
	r := p.mutate()
	return v, r
}
''', '''
	v, r := prRet()
	println(v.a, r)
'''),
    ("C01-large-value-boxed-after-store", '''
type prBig struct {
	A   int
	Pad [140000]int64
}

var prG prBig

// no by-value use of a prBig apart from conversions to `any` (LLVM 14 is fragile on MiB-sized first-class aggregates)
func prBox() (any, any) {
	p := &prG
	before := any(*p)
	v := *p
	p.A = 7
	var i any = v
	return i, before
}
''', '''
	prG.A = 1
	i, before := prBox()
	println(i == before, i == any(prG))
'''),
    ("C01-range-array-value-not-copied", "", '''
	arr := [3]int{1, 2, 3}
	for i, v := range arr {
		arr[(i+1)%3] += 10
		println(i, v)
	}
	pa := &arr
	for i, v := range *pa {
		pa[(i+1)%3] += 100
		println(i, v)
	}
'''),
    ("C01-small-struct-return-reloaded", '''
type prSwP struct{ x, y int32 }
type prSwB struct{ a, b, c byte }

//go:noinline
func prSwap(p *prSwP, n prSwP) prSwP {
	old := *p
	*p = n
	return old
}

//go:noinline
func prSwapB(p *prSwB, n prSwB) prSwB {
	old := *p
	*p = n
	return old
}

//go:noinline
func prSwapA(p *[2]int16, n [2]int16) [2]int16 {
	old := *p
	*p = n
	return old
}
''', '''
	cur := prSwP{1, 2}
	old := prSwap(&cur, prSwP{3, 4})
	println(old.x, old.y, cur.x, cur.y)
	b := prSwB{1, 2, 3}
	ob := prSwapB(&b, prSwB{4, 5, 6})
	println(ob.a, ob.b, ob.c, b.a)
	a := [2]int16{1, 2}
	oa := prSwapA(&a, [2]int16{3, 4})
	println(oa[0], oa[1], a[0])
'''),
    ("C01-struct-eq-no-short-circuit", '''
type prEqS struct {
	a int
	x any
}

type prEqN struct {
	k string
	s prEqS
	t [2]any
}

//go:noinline
func prEq(p, q prEqS) bool { return p == q }

//go:noinline
func prNeq(p, q prEqS) bool { return p != q }

//go:noinline
func prEqN_(p, q prEqN) bool { return p == q }

//go:noinline
func prEqA(p, q [3]any) bool { return p == q }

func prTry(tag string, f func() bool) {
	defer func() {
		if r := recover(); r != nil {
			println(tag, "panic")
		}
	}()
	println(tag, f())
}
''', '''
	sl := []int{1}
	prTry("diff-first", func() bool { return prEq(prEqS{1, sl}, prEqS{2, sl}) })
	prTry("neq-diff-first", func() bool { return prNeq(prEqS{1, sl}, prEqS{2, sl}) })
	prTry("same-first", func() bool { return prEq(prEqS{1, sl}, prEqS{1, sl}) })
	prTry("ok", func() bool { return prEq(prEqS{1, 5}, prEqS{1, 5}) })
	prTry("nested-diff-k", func() bool { return prEqN_(prEqN{"a", prEqS{1, sl}, [2]any{sl, sl}}, prEqN{"b", prEqS{1, sl}, [2]any{sl, sl}}) })
	prTry("nested-diff-a", func() bool { return prEqN_(prEqN{"a", prEqS{1, sl}, [2]any{sl, sl}}, prEqN{"a", prEqS{2, sl}, [2]any{sl, sl}}) })
	prTry("nested-same", func() bool { return prEqN_(prEqN{"a", prEqS{1, 2}, [2]any{sl, sl}}, prEqN{"a", prEqS{1, 2}, [2]any{sl, sl}}) })
	prTry("nested-t-diff0", func() bool { return prEqN_(prEqN{"a", prEqS{1, 2}, [2]any{1, sl}}, prEqN{"a", prEqS{1, 2}, [2]any{2, sl}}) })
	prTry("arr-diff0", func() bool { return prEqA([3]any{1, sl, sl}, [3]any{2, sl, sl}) })
	prTry("arr-same0", func() bool { return prEqA([3]any{1, sl, 3}, [3]any{1, sl, 3}) })
	prTry("arr-ok", func() bool { return prEqA([3]any{1, "x", 3.5}, [3]any{1, "x", 3.5}) })
	var ia, ib any = prEqS{1, sl}, prEqS{2, sl}
	prTry("iface-diff-first", func() bool { return ia == ib })
'''),
]


def source(sel):
    decls = []
    main = ["func main() {"]
    for i, (fid, d, body) in enumerate(PROBES):
        if sel is not None and fid not in sel:
            continue
        decls.append(d)
        decls.append("func probe%d() {%s}\n" % (i, body))
        main.append("\tprintln(\"P\", \"%s\")" % fid)
        main.append("\tprobe%d()" % i)
    main.append("\tprintln(\"P\", \"end\")")
    main.append("}")
    return "package main\n\n" + "\n".join(decls) + "\n" + "\n".join(main) + "\n"


def sections(err):
    out = {}
    cur = None
    for ln in err.split("\n"):
        if ln.startswith("P "):
            cur = ln[2:].strip()
            out[cur] = []
        elif cur is not None:
            out[cur].append(ln)
    return out


def _pair(w, llgo, tag, src):
    d = w.sub("probe-" + tag)
    core.write_module(d, {"main.go": src}, modname="c01probe")
    o1, o2 = os.path.join(d, "ref.bin"), os.path.join(d, "llgo.bin")
    rc, so, se = core.go_build(w, d, o1)
    if rc != 0:
        core.broken("reference toolchain rejects the C01 probe program:\n" + (so + se)[-1500:])
    rc, so, se = core.llgo_build(w, llgo, d, o2)
    if rc == -999:
        return None, None, "WATCHDOG"
    if rc != 0:
        return None, None, so + se
    a = core.run_prog([o1], timeout=60)
    b = core.run_prog([o2], timeout=60, interposer=True)
    return a, b, ""


def run(chk, w, llgo, Obs, compare):
    report = {}
    a, b, log = _pair(w, llgo, "all", source(None))
    todo = []
    if b is None or (b.kind, b.rc) != (a.kind, a.rc):
        todo = [[fid] for fid, _, _ in PROBES]      # isolate
    else:
        sa, sb = sections(a.err), sections(b.err)
        for fid, _, _ in PROBES:
            if sa.get(fid) != sb.get(fid):
                report[fid] = "differs"
                _verdict(chk, fid, "\n".join(sa.get(fid, [])), "\n".join(sb.get(fid, [])), source([fid]))
            else:
                report[fid] = "agrees"
    for sel in todo:
        fid = sel[0]
        a, b, log = _pair(w, llgo, fid, source(sel))
        if b is None and log == "WATCHDOG":
            report[fid] = "inconclusive"
            chk.inconclusive += 1
            continue
        if b is None:
            report[fid] = "llgo-build-failure"
            _verdict(chk, fid, "(builds)", "llgo build failure:\n" + log[-1200:], source(sel))
            continue
        sa, sb = sections(a.err).get(fid), sections(b.err).get(fid)
        if sa != sb or (a.kind, a.rc) != (b.kind, b.rc):
            report[fid] = "differs"
            _verdict(chk, fid, "\n".join(sa or []) + "\n[%s rc=%s]" % (a.kind, a.rc), "\n".join(sb or []) + "\n[%s rc=%s]" % (b.kind, b.rc), source(sel))
        else:
            report[fid] = "agrees"
    return report


def _verdict(chk, fid, go_txt, llgo_txt, src):
    if chk.is_open(fid):
        chk.known(fid, "")
        return
    files = {"main.go": src, "go.mod": "module c01probe\n\ngo 1.24\n",
             "replay.sh": "#!/bin/sh\ncd \"$(dirname \"$0\")\" && exec python3 %s/rig/replay_diff.py .\n" % core.V}
    chk.violation("probe-" + fid, files, "fixed probe of finding %s (not open) differs:\n go:   %s\n llgo: %s" % (fid, go_txt[:400], llgo_txt[:400]))

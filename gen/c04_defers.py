"""C04 generator: Go programs made of functions that mix the three llgo defer kinds (entry/exit-block "always",
bit-flagged conditional, linked-list loop defers incl. range-over-func bodies) with panics, run-time faults, recover,
re-panic, early return, named results, Goexit, call chains, method values, closures, variadics and builtins.

Every program carries two monitors:
  * an in-program shadow stack: each defer statement is preceded by mpush(site, argument snapshot); each deferred body
    starts with mpop(site, arguments it received).  Any deviation from LIFO / exactly-once / arguments-at-defer-time
    prints a line starting with "MONITOR:" (must never happen under the reference toolchains = dual run);
  * the whole println trace (stderr), cut into units `U <n>` .. `E <n>`, compared with the reference toolchains.

generate(seed, idx, avoid, ...) is a pure function of its arguments (random.Random seeded from them, no set/dict order,
no hash()).  `avoid` is the list of construct names whose fixed probe currently fails on the tree under test
(probe + avoid, DESIGN 3.5); with an empty list nothing is avoided.

probe_program() returns the fixed probe battery (one program, one unit per probe case).
"""
import random

AVOIDABLE = [
    "recover-indirect",      # recover() anywhere but directly in the deferred function (helper, nested closure, yield body, callee's defer)
    "rangefunc-named",       # defers only inside range-over-func bodies of a function with named results
    "always-unregistered",   # entry/exit-block defer statement that can be skipped by an earlier panic in an existing frame
    "nested-recovered",      # panic raised and recovered inside a deferred call (swallows the outer panic)
    "goexit-in-deferred",    # runtime.Goexit called from a deferred call (aborts a panic in Go)
    "panic-nil",             # panic(nil)
    "loop-branch-then-defer",  # defer on a branch inside a loop + a non-loop defer statement after that loop
    "first-defer-panics",    # the first-registered deferred call of a frame panics (frame stays linked)
    "boxed-panic-value",     # panic values that live in collector-managed memory (struct / computed string)
]

PRELUDE = r'''package main

import "runtime"

var _ = runtime.Goexit

type mrec struct{ site, a, b int }

var mstk []mrec
var mbad int

func mpush(site, a, b int) { mstk = append(mstk, mrec{site, a, b}) }
func mpop(site, a, b int) {
	n := len(mstk)
	if n > 0 && mstk[n-1] == (mrec{site, a, b}) {
		mstk = mstk[:n-1]
		return
	}
	mbad++
	for i := n - 1; i >= 0; i-- {
		if mstk[i] == (mrec{site, a, b}) {
			println("MONITOR: deferred call", site, a, b, "ran while", n-1-i, "later-registered deferred calls had not run")
			mstk = mstk[:i]
			return
		}
	}
	println("MONITOR: deferred call", site, a, b, "ran but is not pending (duplicate, never deferred, or arguments differ from those at the defer statement)")
}
func mend() {
	if len(mstk) != 0 {
		println("MONITOR:", len(mstk), "registered deferred calls never ran; last site", mstk[len(mstk)-1].site)
		mstk = mstk[:0]
	}
	if len(istk) != 0 {
		println("MONITOR:", len(istk), "deferred calls of iterators never ran; last site", istk[len(istk)-1].site)
		istk = istk[:0]
	}
}

// Iterator frames of range-over-func loops sit below the yield calls whose bodies defer into the ENCLOSING function's
// frame, so one global LIFO is wrong for their own deferred calls: they get a shadow stack of their own.
var istk []mrec

func ipush(site, a, b int) { istk = append(istk, mrec{site, a, b}) }
func idc(site, a, b int) {
	n := len(istk)
	if n > 0 && istk[n-1] == (mrec{site, a, b}) {
		istk = istk[:n-1]
	} else {
		mbad++
		println("MONITOR: iterator's deferred call", site, a, b, "out of order / not pending")
	}
	println("id", site, a, b)
}

// keep makes a panic value reachable from a global for as long as it can be pending (used while finding
// C04-panic-value-not-gc-visible is open: llgo keeps pending panic values where the collector cannot see them)
var kept [8]any
var nkept int

func keep(v any) any {
	kept[nkept%8] = v
	nkept++
	return v
}

func tr(s string, a, b int) { println(s, a, b) }
func dc(site, a, b int) {
	mpop(site, a, b)
	println("d", site, a, b)
}
func dc2(site, a, b int) {
	mpop(site, a, b)
	println("d2", site, a, b)
}
func dq(site, a, b int) {
	mpop(site, a, b)
	if a%100 == 0 {
		println("dq", site, a, b)
	}
}
func vdc(site int, vs ...int) {
	s := 0
	for _, v := range vs {
		s = s*3 + v
	}
	mpop(site, len(vs), s)
	println("vd", site, len(vs), s)
}
func vds(site int, vs ...int) {
	mpop(site, len(vs), 0)
	s := 0
	for _, v := range vs {
		s = s*3 + v
	}
	println("vs", site, len(vs), s)
}
func hrec(site int) {
	e := recover()
	println("hrec", site, pv(e))
}
func recov(site int) {
	mpop(site, 0, 0)
	e := recover()
	println("recov", site, pv(e))
}

type T struct{ f int }

func (t T) vm(site, a int) {
	mpop(site, t.f, a)
	println("vm", site, t.f, a)
}
func (t *T) pm(site, a int) {
	mpop(site, a, 0)
	println("pm", site, t.f, a)
}

type I interface{ vm(site, a int) }

type myErr struct{ n int }

func (e myErr) Error() string { return "myErr" }

func has(s, sub string) bool {
	for i := 0; i+len(sub) <= len(s); i++ {
		if s[i:i+len(sub)] == sub {
			return true
		}
	}
	return false
}
func rtclass(m string) string {
	switch {
	case has(m, "index out of range"):
		return "rt:index"
	case has(m, "divide by zero"):
		return "rt:divide"
	case has(m, "nil pointer") || has(m, "invalid memory address"):
		return "rt:nilderef"
	case has(m, "nil map"):
		return "rt:nilmap"
	case has(m, "interface conversion") || has(m, "type assertion"):
		return "rt:typeassert"
	}
	return "rt:other"
}

// pv prints a recovered value; run-time faults are reduced to a class (message text is not compared).
func pv(e any) string {
	switch v := e.(type) {
	case nil:
		return "nil"
	case int:
		return "int:" + itoa(v)
	case string:
		if has(v, "runtime error: ") || has(v, "interface conversion") || has(v, "type assertion") {
			return rtclass(v)
		}
		return "str:" + v
	case myErr:
		return "myErr:" + itoa(v.n)
	case error:
		return rtclass(v.Error())
	}
	return "other"
}
func itoa(n int) string {
	if n == 0 {
		return "0"
	}
	neg := n < 0
	if neg {
		n = -n
	}
	var b [24]byte
	i := len(b)
	for n > 0 {
		i--
		b[i] = byte('0' + n%10)
		n /= 10
	}
	if neg {
		i--
		b[i] = '-'
	}
	return string(b[i:])
}

func seq(n int) func(func(int) bool) {
	return func(yield func(int) bool) {
		for i := 0; i < n; i++ {
			if !yield(i) {
				return
			}
		}
	}
}

// seqd: an iterator with deferred calls of its own (they belong to the iterator's frame)
func seqd(n, site int) func(func(int) bool) {
	return func(yield func(int) bool) {
		ipush(site, n, 1)
		defer idc(site, n, 1)
		for i := 0; i < n; i++ {
			ipush(site, i, 2)
			defer idc(site, i, 2)
			if !yield(i) {
				return
			}
		}
	}
}
func seq2(n int) func(func(int, int) bool) {
	return func(yield func(int, int) bool) {
		for i := 0; i < n; i++ {
			if !yield(i, i*i) {
				return
			}
		}
	}
}

var zero = 0
var arr = []int{1, 2, 3}
var nilp *int
var nilm map[int]int
var gm = map[int]int{}
var fuel int
var ingo int
var nilUsed bool

func call(u int, f func(int) int, x int) {
	println("U", u)
	fuel = 6
	ingo = 0
	func() {
		defer func() {
			if e := recover(); e != nil {
				println("top.rec", pv(e))
			}
		}()
		r := f(x)
		println("top.res", r)
	}()
	mend()
	println("E", u)
}

// callgo runs the unit in a fresh goroutine: Goexit and (once) a nil dereference are enabled there.
func callgo(u int, f func(int) int, x int) {
	println("U", u)
	fuel = 6
	ingo = 1
	nilUsed = false
	done := make(chan int)
	go func() {
		defer close(done)
		defer func() {
			if e := recover(); e != nil {
				println("top.rec", pv(e))
			}
		}()
		r := f(x)
		println("top.res", r)
	}()
	<-done
	ingo = 0
	mend()
	println("E", u)
}

// callraw: no recover at the top; a panic that escapes ends the program (last unit of a program only)
func callraw(u int, f func(int) int, x int) {
	println("U", u)
	fuel = 6
	ingo = 0
	r := f(x)
	println("top.res", r)
	mend()
	println("E", u)
}
'''


class Ctx:
    __slots__ = ("fid", "decl_named", "value_return", "in_deferred", "loops", "allow_recover", "allow_goexit",
                 "callees", "depth", "lit", "in_yield", "toplevel", "norec_callees", "allow_rh", "cyc")

    def clone(self, **kw):
        c = Ctx()
        for k in Ctx.__slots__:
            setattr(c, k, getattr(self, k))
        for k, v in kw.items():
            setattr(c, k, v)
        return c


class FuncGen:
    """generates one top-level function fN(x int) (res int) or fN(x int) int"""

    def __init__(self, prog, fid, r):
        self.p = prog
        self.fid = fid
        self.r = r
        self.ndefer = {}          # literal id -> number of defer statements (compiler limit: 64 conditional per function)
        self.nlit = 0
        self.nstmt = 0
        self.sk = []              # skeleton tokens
        self.tainted = {}         # literal id -> a loop with a defer on a branch has been generated

    # ------------------------------------------------------------ helpers
    def site(self):
        self.p.nsite += 1
        return self.p.nsite

    def av(self, name):
        return name in self.p.avoid

    def can_defer(self, ctx):
        return self.ndefer.get(ctx.lit, 0) < 40

    def count_defer(self, ctx):
        self.ndefer[ctx.lit] = self.ndefer.get(ctx.lit, 0) + 1

    def newlit(self):
        self.nlit += 1
        return self.nlit

    # ------------------------------------------------------------ statement kinds
    # each returns (lines, panic_point: bool).  `ind` = indentation depth.
    def block(self, ctx, ind, nmin, nmax, top=False):
        """a statement list; handles the 'always-unregistered' avoidance for the statements directly in a function body"""
        out = []
        seen_pp = False
        n = self.r.randint(nmin, nmax)
        for _ in range(n):
            if self.nstmt > 36:
                break
            self.nstmt += 1
            lines, pp, is_defer = self.stmt(ctx, ind)
            if is_defer and self.tainted.get(ctx.lit) and ctx.cyc == 0 and not ctx.in_yield and self.av("loop-branch-then-defer"):
                # llgo compiles (and replays) blocks that follow a loop before those blocks of the loop that are not on
                # the first cycle it finds (finding C04-block-order-replay): after such a loop every further defer
                # statement of the function is put into a one-iteration loop -> linked-list kind, dynamic order
                p = "\t" * ind
                o = self.site()
                lines = [p + "for once%d := 0; once%d < 1; once%d++ {" % (o, o, o)] + ["\t" + l for l in lines] + [p + "}"]
                self.sk.append("O")
            elif top and is_defer and seen_pp and self.av("always-unregistered"):
                # a defer statement directly in the function body after a point that may panic could be classified
                # "always" (entry or single exit block) by llgo: force it into a branch -> conditional kind
                p = "\t" * ind
                lines = [p + "if x > -7777 {"] + ["\t" + l for l in lines] + [p + "}"]
                self.sk.append("W")
            out += lines
            seen_pp = seen_pp or pp
        return out, seen_pp

    def stmt(self, ctx, ind):
        r = self.r
        p = "\t" * ind
        kinds = [
            ("dcall", 10), ("dcloarg", 6), ("dclo", 9 if ctx.depth > 0 else 0), ("drec", 6 if ctx.allow_recover else 0),
            ("drecov", 2 if ctx.allow_recover else 0), ("dmeth", 5), ("dvar", 3), ("dbuiltin", 3), ("dfuncval", 2),
            ("if", 9 if ctx.depth > 0 else 0), ("switch", 3 if ctx.depth > 0 else 0), ("for", 7 if ctx.depth > 0 else 0),
            ("rangefunc", 8 if ctx.depth > 0 else 0), ("gotoloop", 2 if ctx.depth > 0 else 0), ("bigloop", 1),
            ("panic", 7), ("fault", 5), ("return", 6), ("call", 7 if ctx.callees else 0), ("goexit", 5 if ctx.allow_goexit else 0),
            ("assign", 4), ("immediate", 3 if ctx.depth > 0 else 0), ("gostmt", 2 if ctx.depth > 1 and not ctx.in_deferred else 0),
            ("recover_here", 6 if (ctx.in_deferred and ctx.toplevel and ctx.allow_rh and not ctx.in_yield) else 0),
            ("breakcont", 3 if ctx.loops > 0 else 0),
            # recover() that is NOT called directly by a deferred function: always nil in Go
            ("recover_indirect", 0 if self.av("recover-indirect") else 4),
        ]
        tot = sum(w for _, w in kinds)
        k = r.randrange(tot)
        for name, w in kinds:
            if k < w:
                break
            k -= w
        if name.startswith("d") and not self.can_defer(ctx):
            name = "assign"
        return getattr(self, "s_" + name)(ctx, ind, p)

    def safe_first(self, lit, ind):
        """while finding first-defer-panics is open: the first defer statement of a function literal is one that
        cannot panic (a panic raised by the first-registered deferred call leaves the frame linked)"""
        if self.av("first-defer-panics") and self.ndefer.get(lit, 0) > 0:
            s = self.site()
            self.sk.append("Ds")
            p = "\t" * ind
            return [p + "mpush(%d, 0, 9)" % s, p + "defer dc(%d, 0, 9)" % s]
        return []

    def mutate(self, p):
        return [p + "x += %d" % self.r.randint(1, 5)]

    def s_assign(self, ctx, ind, p):
        self.sk.append("A")
        if self.r.random() < 0.5:
            return [p + "x++"], False, False
        return [p + "res += x"], False, False

    def s_dcall(self, ctx, ind, p):
        s = self.site()
        self.count_defer(ctx)
        self.sk.append("Dc")
        k = self.r.randint(0, 9)
        return [p + "mpush(%d, x, %d)" % (s, k), p + "defer dc(%d, x, %d)" % (s, k)] + self.mutate(p), False, True

    def s_dcloarg(self, ctx, ind, p):
        s = self.site()
        self.count_defer(ctx)
        self.sk.append("Da")
        return [p + "mpush(%d, x*2, 0)" % s,
                p + "defer func(v int) { mpop(%d, v, 0); tr(\"ca%d\", v, x); res += v }(x * 2)" % (s, s)] + self.mutate(p), False, True

    def s_dclo(self, ctx, ind, p):
        s = self.site()
        self.count_defer(ctx)
        self.sk.append("Dl[")
        lit = self.newlit()
        # In Go a recover() in a deferred function registered INSIDE a deferred closure D only sees panics raised
        # within D; llgo's recover sees the panic that made D run (finding recover-not-direct) and a panic raised and
        # recovered within D swallows the outer one (finding nested-recovered): while either probe fails, D's body
        # registers no recovering defers, and recover() directly in D's body is generated for first-level D only.
        avoid_nested = self.av("recover-indirect") or self.av("nested-recovered")
        c = ctx.clone(in_deferred=ctx.in_deferred + 1, loops=0, depth=ctx.depth - 1, lit=lit, value_return=False,
                      in_yield=False, toplevel=True, cyc=0, allow_recover=ctx.allow_recover and not avoid_nested,
                      allow_rh=ctx.allow_recover and (ctx.in_deferred == 0 or not avoid_nested),
                      allow_goexit=ctx.allow_goexit and not self.av("goexit-in-deferred"),
                      callees=(ctx.norec_callees if (avoid_nested or self.av("goexit-in-deferred")) else ctx.callees))
        body, _ = self.block(c, ind + 1, 1, 4, top=True)
        self.sk.append("]")
        out = [p + "mpush(%d, 0, 0)" % s, p + "defer func() {", p + "\tmpop(%d, 0, 0)" % s, p + "\ttr(\"cl%d\", x, res)" % s]
        out += self.safe_first(lit, ind + 1)
        out += body
        out.append(p + "}()")
        return out, False, True

    def s_drec(self, ctx, ind, p):
        s = self.site()
        self.count_defer(ctx)
        self.sk.append("Dr")
        v = self.r.randrange(3)
        out = [p + "mpush(%d, 0, 0)" % s, p + "defer func() {", p + "\tmpop(%d, 0, 0)" % s]
        if v == 0:
            out += [p + "\tif e := recover(); e != nil {", p + "\t\tprintln(\"rec\", %d, pv(e), x)" % s, p + "\t\tres += 1000", p + "\t}"]
        elif v == 1:
            out += [p + "\te := recover()", p + "\tprintln(\"rec\", %d, pv(e), x)" % s]
        else:
            out += [p + "\te := recover()", p + "\te2 := recover()", p + "\tprintln(\"rec2\", %d, pv(e), pv(e2))" % s, p + "\tres = res*2 + 1"]
        out.append(p + "}()")
        return out, False, True

    def s_drecov(self, ctx, ind, p):
        s = self.site()
        self.count_defer(ctx)
        self.sk.append("Dn")
        return [p + "mpush(%d, 0, 0)" % s, p + "defer recov(%d)" % s], False, True

    def s_recover_here(self, ctx, ind, p):
        # directly in the body of a deferred function literal (possibly inside an if/for of it)
        s = self.site()
        self.sk.append("R")
        return [p + "if e := recover(); e != nil {", p + "\tprintln(\"rh\", %d, pv(e), x)" % s, p + "\tres += 500", p + "}"], False, False

    def s_recover_indirect(self, ctx, ind, p):
        s = self.site()
        self.sk.append("Ri")
        if ctx.in_deferred and self.r.random() < 0.5:
            return [p + "func() {", p + "\te := recover()", p + "\tprintln(\"ri\", %d, pv(e))" % s, p + "}()"], False, False
        return [p + "hrec(%d)" % s], False, False

    def s_dmeth(self, ctx, ind, p):
        s = self.site()
        self.count_defer(ctx)
        v = self.r.randrange(4)
        self.sk.append("Dm%d" % v)
        if v == 0:      # value receiver: copied at the defer statement
            out = [p + "mpush(%d, t.f, x)" % s, p + "defer t.vm(%d, x)" % s, p + "t.f += 3"]
        elif v == 1:    # pointer receiver: sees later changes of t.f (compared through the trace)
            out = [p + "mpush(%d, x, 0)" % s, p + "defer (&t).pm(%d, x)" % s, p + "t.f += 5"]
        elif v == 2:    # interface method
            out = [p + "mpush(%d, t.f, x)" % s, p + "defer I(t).vm(%d, x)" % s, p + "t.f += 7"]
        else:           # bound method value created earlier
            out = [p + "{", p + "\tbm := t.vm", p + "\tt.f += 2", p + "\tmpush(%d, t.f-2, x)" % s, p + "\tdefer bm(%d, x)" % s, p + "}"]
        return out + self.mutate(p), False, True

    def s_dvar(self, ctx, ind, p):
        s = self.site()
        self.count_defer(ctx)
        v = self.r.randrange(3)
        self.sk.append("Dv%d" % v)
        if v == 0:
            return [p + "mpush(%d, 3, (x*3+res)*3+7)" % s, p + "defer vdc(%d, x, res, 7)" % s] + self.mutate(p) + [p + "res++"], False, True
        if v == 1:
            return [p + "mpush(%d, 0, 0)" % s, p + "defer vdc(%d)" % s], False, True
        return [p + "{", p + "\tsl := []int{x, 2, res}", p + "\tmpush(%d, 3, 0)" % s, p + "\tdefer vds(%d, sl...)" % s, p + "\tsl[1] = x + 1", p + "}"] + self.mutate(p), False, True

    def s_dbuiltin(self, ctx, ind, p):
        s = self.site()
        self.count_defer(ctx)
        v = self.r.randrange(3)
        self.sk.append("Db%d" % v)
        if v == 0:
            return [p + "defer println(\"bp\", %d, x, res)" % s] + self.mutate(p), False, True
        if v == 1:
            # observer registered first (runs last): sees the channel closed by the deferred close
            s2 = self.site()
            self.count_defer(ctx)
            return [p + "{", p + "\tch := make(chan int)", p + "\tmpush(%d, 0, 0)" % s2,
                    p + "\tdefer func() {", p + "\t\tmpop(%d, 0, 0)" % s2, p + "\t\tselect {", p + "\t\tcase <-ch:", p + "\t\t\ttr(\"closed\", %d, 1)" % s,
                    p + "\t\tdefault:", p + "\t\t\ttr(\"closed\", %d, 0)" % s, p + "\t\t}", p + "\t}()", p + "\tdefer close(ch)", p + "}"], False, True
        s2 = self.site()
        self.count_defer(ctx)
        return [p + "{", p + "\tk := x %% 5 + %d" % (s * 10), p + "\tgm[k] = x", p + "\tgm[k+1] = x", p + "\tmpush(%d, k, 0)" % s2,
                p + "\tdefer func(k int) {", p + "\t\tmpop(%d, k, 0)" % s2, p + "\t\t_, ok1 := gm[k]", p + "\t\t_, ok2 := gm[k+1]",
                p + "\t\tprintln(\"del\", %d, ok1, ok2)" % s, p + "\t\tdelete(gm, k+1)", p + "\t}(k)", p + "\tdefer delete(gm, k)", p + "\tk++", p + "}"], False, True

    def s_dfuncval(self, ctx, ind, p):
        s = self.site()
        self.count_defer(ctx)
        self.sk.append("Df")
        return [p + "{", p + "\tfv := dc", p + "\tmpush(%d, x, 1)" % s, p + "\tdefer fv(%d, x, 1)" % s, p + "\tfv = dc2", p + "\t_ = fv", p + "}"] + self.mutate(p), False, True

    def cond(self):
        m = self.r.choice([2, 2, 3, 3, 4, 5, 7])
        return "x%%%d == %d" % (m, self.r.randrange(m))

    def s_if(self, ctx, ind, p):
        self.sk.append("If[")
        c = ctx.clone(depth=ctx.depth - 1)
        body, pp = self.block(c, ind + 1, 1, 4)
        out = [p + "if %s {" % self.cond()] + body
        if self.r.random() < 0.4:
            self.sk.append("|")
            b2, pp2 = self.block(c, ind + 1, 1, 3)
            out += [p + "} else {"] + b2
            pp = pp or pp2
        out.append(p + "}")
        self.sk.append("]")
        return out, pp, False

    def s_switch(self, ctx, ind, p):
        self.sk.append("Sw[")
        c = ctx.clone(depth=ctx.depth - 1)
        out = [p + "switch x % 3 {"]
        pp = False
        for label in ("case 0:", "case 1:", "default:"):
            if label == "case 1:" and self.r.random() < 0.5:
                continue
            body, pq = self.block(c, ind + 1, 1, 2)
            # a bare 'break' generated inside would leave the switch, not the loop: still fine for Go and compared
            out += [p + label] + body
            pp = pp or pq
            self.sk.append("|")
        out.append(p + "}")
        self.sk.append("]")
        return out, pp, False

    def s_for(self, ctx, ind, p):
        self.sk.append("For[")
        d = self.site()
        c = ctx.clone(depth=ctx.depth - 1, loops=ctx.loops + 1, cyc=ctx.cyc + 1)
        mark = len(self.sk)
        n = self.r.choice(["0", "1", "2", "3", "4", "x%3", "x%4"])
        body, pp = self.block(c, ind + 1, 1, 3)
        if self.r.random() < 0.3:
            head = p + "for i%d := range %s {" % (d, n if "x" not in n else "(" + n + ")")
        else:
            head = p + "for i%d := 0; i%d < %s; i%d++ {" % (d, d, n, d)
        out = [head, p + "\tx += i%d" % d]
        # a loop-variable snapshot: per-iteration variable captured by a closure (go1.22 semantics)
        if self.can_defer(ctx) and self.r.random() < 0.5:
            s = self.site()
            self.count_defer(ctx)
            self.sk.append("Di")
            out += [p + "\tmpush(%d, i%d, 0)" % (s, d), p + "\tdefer func() { mpop(%d, i%d, 0); tr(\"li%d\", i%d, x) }()" % (s, d, s, d)]
        out += body + [p + "}"]
        self.taint(ctx, mark)
        self.sk.append("]")
        return out, pp, False

    # statement kinds that keep a loop body a single straight-line block ("Big" is itself a loop: nested -> not flat)
    FLAT = ("A", "Dc", "Da", "Dn", "Dm0", "Dm1", "Dm2", "Dv0", "Dv1", "Db0", "Di")

    def taint(self, ctx, mark):
        toks = self.sk[mark:]
        if any(t.startswith("D") or t.startswith("Rf") or t == "Big" for t in toks) and any(t not in self.FLAT for t in toks):
            self.tainted[ctx.lit] = True

    def s_gotoloop(self, ctx, ind, p):
        self.sk.append("Gt[")
        d = self.site()
        c = ctx.clone(depth=ctx.depth - 1, loops=0, cyc=ctx.cyc + 1)
        mark = len(self.sk)
        body, pp = self.block(c, ind + 2, 1, 3)
        self.taint(ctx, mark)
        out = [p + "{", p + "\tj%d := 0" % d, p + "L%d:" % d, p + "\tif j%d < %d {" % (d, self.r.randint(1, 3))] + body + \
              [p + "\t\tj%d++" % d, p + "\t\tgoto L%d" % d, p + "\t}", p + "}"]
        self.sk.append("]")
        return out, pp, False

    def s_bigloop(self, ctx, ind, p):
        if not self.can_defer(ctx):
            return self.s_assign(ctx, ind, p)
        s = self.site()
        self.count_defer(ctx)
        self.sk.append("Big")
        n = self.r.choice([70, 130, 300])
        return [p + "for b%d := 0; b%d < %d; b%d++ {" % (s, s, n, s), p + "\tmpush(%d, b%d, x)" % (s, s), p + "\tdefer dq(%d, b%d, x)" % (s, s), p + "}"], False, False

    def s_rangefunc(self, ctx, ind, p):
        self.sk.append("Rf[")
        d = self.site()
        v = self.r.randrange(4)
        c = ctx.clone(depth=ctx.depth - 1, toplevel=False, loops=ctx.loops + 1, in_yield=True,
                      allow_recover=ctx.allow_recover)
        n = self.r.choice(["1", "2", "3", "x%3", "x%3+1"])
        if v == 0 or v == 3:
            head = p + "for v%d := range seq(%s) {" % (d, n)
        elif v == 1:
            head = p + "for v%d := range seqd(%s, %d) {" % (d, n, self.site())
        else:
            head = p + "for v%d, w%d := range seq2(%s) {" % (d, d, n)
        out = [head, p + "\tx += v%d" % d]
        if v == 2:
            out.append(p + "\tres += w%d" % d)
        body, pp = self.block(c, ind + 1, 1, 3)
        out += body
        if self.r.random() < 0.3:
            out.append(p + "\tif v%d == 1 {" % d)
            out.append(p + "\t\t" + self.r.choice(["break", "continue"]))
            out.append(p + "\t}")
            self.sk.append("Bk")
        out.append(p + "}")
        self.sk.append("]")
        # the iterator call itself is a call: a panic in the body propagates through it
        return out, pp, False

    def s_breakcont(self, ctx, ind, p):
        self.sk.append("Bc")
        return [p + "if %s {" % self.cond(), p + "\t" + self.r.choice(["break", "continue"]), p + "}"], False, False

    PANICVALS = ["x", "x + 1", "\"boom\"", "myErr{x}", "x * 2"]

    def s_panic(self, ctx, ind, p):
        self.sk.append("P")
        v = self.r.choice(self.PANICVALS if self.av("panic-nil") else self.PANICVALS + ["nil"])
        if self.av("boxed-panic-value") and v != "nil":
            v = "keep(%s)" % v
        return [p + "if %s {" % self.cond(), p + "\ttr(\"panic\", x, res)", p + "\tpanic(%s)" % v, p + "}"], True, False

    def s_fault(self, ctx, ind, p):
        v = self.r.randrange(5)
        self.sk.append("Ft%d" % v)
        cond = self.cond()
        if v == 0:
            body = ["x += arr[x%5+3]"]
        elif v == 1:
            body = ["x /= zero"]
        elif v == 2:
            body = ["nilm[x] = 1"]
        elif v == 3:
            body = ["var a any = x", "x += len(a.(string))"]
        else:
            # nil dereference: at most once per goroutine unit and never on the main thread (a second recovered
            # SIGSEGV in one thread kills llgo programs: property C03's finding, not this one's)
            return [p + "if ingo == 1 && !nilUsed && %s {" % cond, p + "\tnilUsed = true", p + "\ttr(\"fault\", x, 4)", p + "\tx += *nilp", p + "}"], True, False
        return [p + "if %s {" % cond, p + "\ttr(\"fault\", x, %d)" % v] + [p + "\t" + b for b in body] + [p + "}"], True, False

    def s_return(self, ctx, ind, p):
        self.sk.append("Ret")
        s = self.site()
        if ctx.value_return:
            return [p + "if %s {" % self.cond(), p + "\ttr(\"ret%d\", x, res)" % s, p + "\treturn x", p + "}"], False, False
        return [p + "if %s {" % self.cond(), p + "\ttr(\"ret%d\", x, res)" % s, p + "\treturn", p + "}"], False, False

    def s_call(self, ctx, ind, p):
        self.sk.append("C")
        callee = self.r.choice(ctx.callees)
        guard = "fuel > 0" if self.r.random() < 0.3 else "fuel > 0 && " + self.cond()
        return [p + "if %s {" % guard, p + "\tfuel--", p + "\tx += f%d(x %% 9)" % callee, p + "}"], True, False

    def s_goexit(self, ctx, ind, p):
        self.sk.append("Gx")
        return [p + "if ingo > 0 && %s {" % self.cond(), p + "\ttr(\"goexit\", x, res)", p + "\truntime.Goexit()", p + "}"], True, False

    def s_immediate(self, ctx, ind, p):
        self.sk.append("Im[")
        lit = self.newlit()
        c = ctx.clone(depth=ctx.depth - 1, lit=lit, loops=0, value_return=False, in_yield=False, toplevel=True, cyc=0,
                      allow_recover=ctx.allow_recover and not (self.av("nested-recovered") and ctx.in_deferred >= 1),
                      in_deferred=ctx.in_deferred)
        # toplevel=True but not a deferred literal itself: recover_here must not be generated directly in it
        c.toplevel = False
        body, pp = self.block(c, ind + 1, 1, 4, top=True)
        self.sk.append("]")
        # always a possible panic point for the enclosing function: the closure's own deferred calls run when it returns,
        # i.e. in the middle of the enclosing body, and may panic
        return [p + "func() {"] + self.safe_first(lit, ind + 1) + body + [p + "}()"], True, False

    def s_gostmt(self, ctx, ind, p):
        self.sk.append("Go[")
        lit = self.newlit()
        d = self.site()
        c = ctx.clone(depth=ctx.depth - 1, lit=lit, loops=0, value_return=False, in_yield=False, toplevel=False, cyc=0,
                      allow_goexit=True)
        body, _ = self.block(c, ind + 1, 1, 4, top=True)
        self.sk.append("]")
        out = [p + "{", p + "\tdone%d := make(chan int)" % d, p + "\tsave%d := ingo" % d, p + "\tingo = 2", p + "\tgo func() {",
               p + "\t\tdefer close(done%d)" % d,
               p + "\t\tdefer func() {", p + "\t\t\tif e := recover(); e != nil {", p + "\t\t\t\tprintln(\"go.rec\", %d, pv(e))" % d, p + "\t\t\t}", p + "\t\t}()"]
        out += ["\t" + l for l in self.safe_first(lit, ind + 1) + body]
        out += [p + "\t}()", p + "\t<-done%d" % d, p + "\tingo = save%d" % d, p + "}"]
        return out, False, False

    # ------------------------------------------------------------ whole function
    def function(self, named, callees, norec_callees, norecover):
        r = self.r
        ctx = Ctx()
        ctx.fid = self.fid
        ctx.decl_named = named
        ctx.value_return = True
        ctx.in_deferred = 0
        ctx.loops = 0
        # "norecover" functions (every third) never call recover and, while Goexit from deferred calls is avoided, never
        # call Goexit: they are what deferred closures may call while indirect recovers / nested recovered panics are avoided
        ctx.allow_recover = not norecover
        ctx.allow_goexit = not (norecover and self.av("goexit-in-deferred"))
        ctx.callees = callees
        ctx.norec_callees = norec_callees
        ctx.depth = 3
        ctx.lit = 0
        ctx.in_yield = False
        ctx.toplevel = False
        ctx.allow_rh = False
        ctx.cyc = 0
        body, _ = self.block(ctx, 1, 3, 7, top=True)
        text = "\n".join(body)
        head = []
        if named:
            head.append("func f%d(x int) (res int) {" % self.fid)
        else:
            head.append("func f%d(x int) int {" % self.fid)
            head.append("\tres := 0")
        head.append("\tt := T{x}")
        head.append("\t_ = t")
        head.append("\ttr(\"enter%d\", x, 0)" % self.fid)
        if (named and self.av("rangefunc-named") and "range seq" in text) or (self.av("first-defer-panics") and self.ndefer.get(0, 0) > 0):
            # keep a defer statement in the function itself so that go/ssa keeps its RunDefers (finding
            # C04-rangefunc-named-results); first defer statement cannot panic (finding C04-frame-stays-linked)
            s = self.site()
            head += ["\tmpush(%d, x, 0)" % s, "\tdefer dc(%d, x, 0)" % s]
            self.sk.append("Dk")
        tail = ["\ttr(\"exit%d\", x, res)" % self.fid, "\treturn res + x", "}", ""]
        return head + body + tail


class Prog:
    pass


def generate(seed, idx, avoid=(), nfuncs=20, only_units=None, skip_units=()):
    """returns (source, units, meta).  units = [(u, mode, fid, x)], meta = {fid: skeleton string}"""
    r = random.Random(seed * 1000003 + idx * 7919 + 17)
    P = Prog()
    P.avoid = list(avoid)
    P.nsite = 0
    P.calls = {}
    out = [PRELUDE]
    meta = {}
    norec = []
    allf = []
    for fid in range(nfuncs):
        fr = random.Random(r.getrandbits(48))
        g = FuncGen(P, fid, fr)
        norecover = (fid % 3 == 0)
        named = fr.random() < 0.75
        callees = list(norec) if norecover else list(allf)
        lines = g.function(named, callees, list(norec), norecover)
        out += lines
        meta[fid] = ("N" if named else "U") + ("n" if norecover else "") + "".join(g.sk)
        allf.append(fid)
        if norecover:
            norec.append(fid)
    units = []
    u = 0
    for fid in range(nfuncs):
        xs = []
        while len(xs) < 6:
            v = r.randrange(0, 40)
            if v not in xs:
                xs.append(v)
        for i, x in enumerate(xs):
            mode = "callgo" if i >= 4 else "call"
            units.append((u, mode, fid, x))
            u += 1
    # last unit: no recover at the top (an escaping panic ends the program; termination is compared)
    fid = r.randrange(nfuncs)
    units.append((u, "callraw", fid, r.randrange(0, 40)))
    main = ["func main() {"]
    for (u, mode, fid, x) in units:
        if only_units is not None and u not in only_units:
            continue
        if u in skip_units:
            continue
        main.append("\t%s(%d, f%d, %d)" % (mode, u, fid, x))
    main.append("\tprintln(\"DONE\")")
    main.append("}")
    out += main
    return "\n".join(out) + "\n", units, meta


# ---------------------------------------------------------------------------------------------- probe battery

PROBES = r'''
// ---- fixed probes.  Unit numbers are referenced by checks/c04.py (PROBE_FINDINGS) and findings/C04.json.
func helper() { e := recover(); println("helper.rec", pv(e)) }

// 1: recover through a helper called by the deferred function
func p1(x int) (res int) {
	defer func() { helper() }()
	panic(x)
}

// 2: recover in a nested closure called by the deferred function
func p2(x int) (res int) {
	defer func() {
		func() { e := recover(); println("nested.rec", pv(e)) }()
	}()
	panic(x)
}

// 3: defer recover() (recover is not called by a deferred function)
func p3(x int) (res int) {
	defer recover()
	panic(x)
}

// 4: recover called directly by a deferred function of a callee frame that is not the panicking one
func g4() { defer func() { e := recover(); println("g4.rec", pv(e)) }() }
func p4(x int) (res int) {
	defer func() { g4() }()
	panic(x)
}

// 5: named result updated only by defers registered in a range-over-func body
func p5(x int) (res int) {
	for range seq(1) {
		defer func() { res += 10 }()
	}
	return res + x
}

func boom(x int) int { panic(x) }

// 6: entry-block defer statement never reached because an earlier call in the same block panicked (with arguments)
func p6(x int) (res int) {
	mpush(61, x, 0)
	defer dc(61, x, 0)
	x += boom(x)
	mpush(62, x, 0)
	defer vdc(62, x, 1, 2, 3)
	return x
}

// 7: same, closures without arguments
func p7(x int) (res int) {
	defer func() { println("p7.a") }()
	x += boom(x)
	defer func() { println("p7.b") }()
	return x
}

// 8: exit-block defer statement never reached because of a panic after the frame was created by a conditional defer
func p8(x int) (res int) {
	if x > 0 {
		defer func() { println("p8.a") }()
	}
	if x > 1 {
		x += boom(x)
	}
	defer func() { println("p8.b") }()
	return x
}

// 9: a panic raised and recovered inside a deferred call must not stop the panic that is unwinding
func p9(x int) (res int) {
	defer func() {
		defer func() { e := recover(); println("p9.inner.rec", pv(e)) }()
		panic(x + 1)
	}()
	panic(x)
}

// 10: re-panic replaces the current panic; remaining deferred calls still run
func p10(x int) (res int) {
	defer func() { println("p10.last"); e := recover(); println("p10.rec", pv(e)) }()
	defer func() { println("p10.mid") }()
	defer func() { panic(x + 100) }()
	panic(x)
}

// 11: recover twice; function returns normally with the named result set by the deferred function
func p11(x int) (res int) {
	defer func() {
		e := recover()
		e2 := recover()
		println("p11", pv(e), pv(e2))
		res = 77
	}()
	panic("s")
}

// 12: Goexit runs deferred calls; recover returns nil during Goexit
func p12(x int) (res int) {
	defer func() { e := recover(); println("p12.rec", pv(e)) }()
	mpush(121, x, 0)
	defer dc(121, x, 0)
	runtime.Goexit()
	return 1
}

// 13: Goexit from a callee; defers of all three kinds in both frames
func g13(x int) {
	defer println("g13.d")
	if x > 0 {
		defer println("g13.c")
	}
	runtime.Goexit()
}
func p13(x int) (res int) {
	defer println("p13.d")
	for i := 0; i < 2; i++ {
		defer println("p13.loop", i)
	}
	for v := range seq(2) {
		defer println("p13.rf", v)
	}
	g13(x)
	return 1
}

// 14: panic raised by a deferred call during Goexit and recovered: the goroutine still exits
func p14(x int) (res int) {
	defer func() { println("p14.outer") }()
	defer func() { e := recover(); println("p14.rec", pv(e)) }()
	defer func() { panic(x) }()
	runtime.Goexit()
	return 1
}

// 15: Goexit called by a deferred call while panicking: the panic is aborted, remaining deferred calls run
func p15(x int) (res int) {
	defer func() { println("p15.outer") }()
	defer func() { runtime.Goexit() }()
	panic(x)
}

// 16: nil func value deferred: panics when the deferred call is executed
func p16(x int) (res int) {
	var fn func()
	defer func() { e := recover(); println("p16.rec", pv(e)) }()
	defer fn()
	println("p16.body")
	return 3
}

// 17: run-time faults and error values as panic values
func p17(x int) (res int) {
	defer func() { e := recover(); println("p17.rec", pv(e)); res = -1 }()
	switch x {
	case 0:
		return arr[x+5]
	case 1:
		return x / zero
	case 2:
		nilm[1] = 2
	case 3:
		var a any = x
		return len(a.(string))
	case 4:
		panic(myErr{x})
	}
	return 0
}

// 18: panic in a range-over-func body recovered by a function-level defer (go1.24.0 gets this one wrong)
func p18(x int) (res int) {
	defer func() { e := recover(); println("p18.rec", pv(e)); res += 1000 }()
	for v := range seq(3) {
		defer func() { println("p18.body.d", v); res += 10 }()
		if v == x {
			panic(v)
		}
	}
	return res + 1
}

// 19: return from inside a range-over-func body with defers
func p19(x int) (res int) {
	defer func() { res += 100 }()
	for v := range seq(3) {
		defer func() { println("p19.body.d", v); res += 10 }()
		if v == x {
			return v
		}
	}
	return res + 1
}

// 20: all three kinds in one function, arguments evaluated at the defer statement
func p20(x int) (res int) {
	mpush(201, x, 0)
	defer dc(201, x, 0)
	x++
	for i := 0; i < x; i++ {
		mpush(202, i, x)
		defer dc(202, i, x)
		x += 0
	}
	if x%2 == 0 {
		mpush(203, x, 1)
		defer dc(203, x, 1)
	}
	x += 10
	for v := range seq(2) {
		mpush(204, v, x)
		defer dc(204, v, x)
		x++
	}
	mpush(205, x, 2)
	defer dc(205, x, 2)
	x = 0
	return 5
}

// 21: method values: receiver copied (value receiver, interface, bound method value) vs shared (pointer receiver)
func p21(x int) (res int) {
	t := T{x}
	mpush(211, t.f, x)
	defer t.vm(211, x)
	mpush(212, x, 0)
	defer (&t).pm(212, x)
	mpush(213, t.f, x)
	defer I(t).vm(213, x)
	bm := t.vm
	t.f += 5
	x += 7
	mpush(214, t.f-5, x)
	defer bm(214, x)
	t.f++
	return t.f
}

// 22: panic(nil) is a *runtime.PanicNilError since go1.21
func p22(x int) (res int) {
	defer func() { e := recover(); println("p22.rec", e != nil) }()
	panic(nil)
}

// 23: recovered value re-panicked
func p23(x int) (res int) {
	defer func() {
		e := recover()
		println("p23.rec", pv(e))
		panic(e)
	}()
	panic(x)
}

// 24: recover in a range-over-func body inside the deferred function is not a direct call
func p24(x int) (res int) {
	defer func() {
		for range seq(1) {
			e := recover()
			println("p24.rec", pv(e))
		}
	}()
	panic(x)
}

// 25: deferred closure sees later assignments, deferred arguments do not; early return sets the named result first
func p25(x int) (res int) {
	defer func(v int) { println("p25.a", v, x, res); res += v }(x)
	defer func() { println("p25.b", x, res); res *= 2 }()
	x += 5
	if x > 6 {
		return x
	}
	x += 100
	return 1
}

// 26: defer on an else-branch inside a loop, then a defer statement after the loop (first defer frame of the function)
func p26(x int) (res int) {
	for i := 0; i < 2; i++ {
		if i == 5 {
			x++
		} else {
			mpush(262, i, 0)
			defer dc(262, i, 0)
		}
	}
	mpush(263, x, 0)
	defer dc(263, x, 0)
	return x
}

// 27: same with an entry-block defer first (frame exists): order of the replay
func p27(x int) (res int) {
	mpush(271, x, 0)
	defer dc(271, x, 0)
	for i := 0; i < 2; i++ {
		if i == 5 {
			x++
		} else {
			mpush(272, i, 0)
			defer dc(272, i, 0)
		}
	}
	mpush(273, x, 0)
	defer dc(273, x, 0)
	return x
}

// 28: the shape found by the random generator: switch inside nested loops, conditional defer after the loops, panic
func p28(x int) (res int) {
	mpush(281, x, 6)
	defer dc(281, x, 6)
	x += 5
	for i := 0; i < 1; i++ {
		for j := range 4 {
			x += j
			switch x % 3 {
			case 0:
				if x%2 == 1 {
					x++
				}
			case 1:
				mpush(282, x, 6)
				defer dc(282, x, 6)
				x += 2
			default:
				if x%3 == 0 {
					x--
				}
			}
		}
	}
	if x%2 == 1 {
		return x
	}
	if x > -7777 {
		mpush(283, 0, 0)
		defer vdc(283)
	}
	if x%2 == 0 {
		panic(x)
	}
	return res + x
}

// 29: the first-registered deferred call of a callee panics: the callee's frame must be unlinked before the panic
// unwinds into the caller (a later frame would otherwise link to the dead one)
func g29() {
	defer func() { panic(29) }()
}
func p29(x int) (res int) {
	defer func() { e := recover(); println("p29.outer", pv(e)) }()
	defer func() {
		e := recover()
		println("p29.rec", pv(e))
		func() {
			defer println("p29.inner.d")
			panic(x + 1)
		}()
	}()
	g29()
	return 1
}

// 30: the panic value must stay reachable for the collector while deferred calls run (boxed value, collection and
// same-size allocations during unwinding, recover in the caller)
var p30sink [64]any

func p30churn(n int) {
	for i := 0; i < n; i++ {
		p30sink[i%64] = myErr{-1 - i}
	}
}
func p30clobber(n int) int {
	var a [32]int
	for i := range a {
		a[i] = n * i
	}
	if n > 0 {
		return p30clobber(n-1) + a[n%32]
	}
	return a[3]
}
func p30thrower(i int) { panic(myErr{i}) }
func p30catcher(i int) (bad int) {
	defer func() {
		e := recover()
		if v, ok := e.(myErr); !ok || v.n != i {
			bad = 1
		}
	}()
	defer func() {
		p30clobber(60)
		runtime.GC()
		p30churn(3000)
		p30clobber(60)
		runtime.GC()
		p30churn(3000)
	}()
	p30thrower(i)
	return 0
}
func p30(x int) (res int) {
	bad := 0
	for i := 1; i <= 60; i++ {
		bad += p30catcher(x*100 + i)
	}
	println("p30.corrupted", bad > 0)
	return 0
}
'''

PROBE_UNITS = [
    # (unit, mode, func, x)
    (1, "call", "p1", 1), (2, "call", "p2", 1), (3, "call", "p3", 1), (4, "call", "p4", 1), (5, "call", "p5", 1),
    (7, "call", "p7", 1), (8, "call", "p8", 2), (9, "call", "p9", 1), (10, "call", "p10", 1),
    (11, "call", "p11", 1), (12, "callgo", "p12", 1), (13, "callgo", "p13", 1), (14, "callgo", "p14", 1), (15, "callgo", "p15", 1),
    (170, "call", "p17", 0), (171, "call", "p17", 1), (172, "call", "p17", 2), (173, "call", "p17", 3), (174, "call", "p17", 4), (175, "call", "p17", 5),
    (180, "call", "p18", 0), (181, "call", "p18", 1), (182, "call", "p18", 2), (183, "call", "p18", 3),
    (190, "call", "p19", 0), (191, "call", "p19", 1), (192, "call", "p19", 2), (193, "call", "p19", 3),
    (200, "call", "p20", 0), (201, "call", "p20", 1), (202, "callgo", "p20", 2),
    (21, "call", "p21", 1), (22, "call", "p22", 1), (23, "call", "p23", 1), (24, "call", "p24", 1),
    (250, "call", "p25", 1), (251, "call", "p25", 2),
    (80, "call", "p8", 0), (81, "call", "p8", 1),
    (27, "call", "p27", 1), (28, "call", "p28", 7), (30, "call", "p30", 1),
    # the next ones may end in a nil dereference under llgo (one recovered SIGSEGV per thread at most, C03's finding):
    (26, "callgo", "p26", 1), (16, "call", "p16", 1),
    (29, "call", "p29", 1),   # may crash the llgo binary (unwinds through a dead frame)
    (6, "call", "p6", 1),     # last: may crash the llgo binary (pops a foreign argument record)
]


def probe_program(skip_units=(), only_units=None):
    main = ["func main() {"]
    for (u, mode, f, x) in PROBE_UNITS:
        if u in skip_units or (only_units is not None and u not in only_units):
            continue
        main.append("\t%s(%d, %s, %d)" % (mode, u, f, x))
    main += ["\tprintln(\"DONE\")", "}"]
    return PRELUDE + PROBES + "\n".join(main) + "\n"


if __name__ == "__main__":
    import sys
    if sys.argv[1] == "probe":
        sys.stdout.write(probe_program())
    else:
        av = sys.argv[3].split(",") if len(sys.argv) > 3 and sys.argv[3] else []
        src, units, meta = generate(int(sys.argv[1]), int(sys.argv[2]), av)
        sys.stdout.write(src)

"""C13 history runner: edit / rebuild-with-persistent-cache / run steps over a generated module, with the monitors

  output(cached build) == output(clean build of the same tree) == expected(model)
  config switch to a configuration never built before: every cacheable package of the module gets a new archive, or else the
      executable must at least be byte-identical to the clean build's (artefact monitor for settings with no visible output)
  informational: no-op rebuild / revert = cache hits; executable(cached) == executable(clean)

plus the IR reproducibility leg (-gen-llfiles, per-package .ll byte comparison) and the race-log parser.
Used by checks/c13.py and gen/c13_replay.py.  Needs rig/core.py on sys.path.
"""
import glob
import json
import os
import re
import shutil

import core
import c13_module as gen

TOOLCHAIN_CRASH = re.compile(r"signal arrived during cgo execution|LLVM ERROR|Stack dump:|PLEASE submit a bug report")


def sync_tree(src, files, preserve=(), rename=None):
    """Make the tree under src equal to files ({rel: bytes}) touching ONLY what differs (mtimes of unchanged files stay).
    preserve: relpaths whose (atime, mtime) are put back after rewriting.  Returns list of changed relpaths."""
    changed = []
    os.makedirs(src, exist_ok=True)
    if rename:
        a, b = os.path.join(src, rename[0]), os.path.join(src, rename[1])
        if os.path.exists(a):
            os.makedirs(os.path.dirname(b), exist_ok=True)
            os.rename(a, b)          # keeps content and mtime
            changed.append("%s -> %s" % rename)
    have = []
    for root, dirs, fs in os.walk(src):
        for f in fs:
            have.append(os.path.relpath(os.path.join(root, f), src))
    for rel in sorted(have):
        if rel not in files:
            os.remove(os.path.join(src, rel))
            changed.append("-" + rel)
    for rel in sorted(files):
        p = os.path.join(src, rel)
        data = files[rel]
        old = None
        if os.path.exists(p):
            with open(p, "rb") as f:
                old = f.read()
        if old == data:
            continue
        st = os.stat(p) if old is not None else None
        os.makedirs(os.path.dirname(p), exist_ok=True)
        with open(p, "wb") as f:
            f.write(data)
        if rel in preserve and st is not None:
            os.utime(p, ns=(st.st_atime_ns, st.st_mtime_ns))
        changed.append(("~" if old is not None else "+") + rel)
    # drop empty directories (e.g. a removed glob dir cannot happen, but keep the tree tidy)
    for root, dirs, fs in os.walk(src, topdown=False):
        if root != src and not os.listdir(root):
            os.rmdir(root)
    return changed


def tree_mtimes(src):
    out = {}
    for root, dirs, fs in os.walk(src):
        for f in fs:
            p = os.path.join(root, f)
            out[os.path.relpath(p, src)] = os.stat(p).st_mtime_ns
    return out


def mod_archives(xdg):
    """{(pkg, fingerprint)} of cached archives of the generated module"""
    out = set()
    for a in glob.glob(os.path.join(xdg, "llgo", "build", "*", gen.MOD, "**", "*.a"), recursive=True):
        pkg = os.path.basename(os.path.dirname(a))
        out.add((pkg, os.path.basename(a)[:-2]))
    return out


def clear_module(xdg):
    for d in glob.glob(os.path.join(xdg, "llgo", "build", "*", gen.MOD)):
        shutil.rmtree(d, ignore_errors=True)


def read_manifest(xdg, pkg, fp):
    for m in glob.glob(os.path.join(xdg, "llgo", "build", "*", gen.MOD, pkg, fp + ".manifest")):
        with open(m) as f:
            return f.read()
    return ""


def build_cmdline(cfg, extra_flags=None):
    flags = []
    if cfg["abi"] != 2:
        flags += ["-abi", str(cfg["abi"])]
    if extra_flags:
        flags += extra_flags
    return flags, (gen.TAG if cfg["tags"] else None)


class Lane:
    """One history over one copy of the module with one persistent private llgo cache."""

    def __init__(self, work, llgo, name, state, cfg=None, seed_xdg=None, log=None):
        self.work, self.llgo, self.name = work, llgo, name
        self.dir = work.sub("lane-" + name)
        self.src = os.path.join(self.dir, "src")
        self.xdg = os.path.join(self.dir, "xdg")
        self.bin = os.path.join(self.dir, "bin")
        os.makedirs(self.bin, exist_ok=True)
        if seed_xdg and os.path.isdir(seed_xdg):
            shutil.copytree(seed_xdg, self.xdg)
        else:
            os.makedirs(self.xdg, exist_ok=True)
        self.state = state
        self.cfg = cfg or dict(gen.DEFAULT_CONFIG, env={})
        self.steps = []            # log of executed steps (json-able)
        self.snapshots = []        # (state, mtimes) after each successfully built step
        self.seen_cfg = set()
        self.n = 0
        self.log = log or (lambda s: None)
        self.gocache = None
        sync_tree(self.src, gen.render(self.state))

    # ---- primitive operations
    def build(self, xdg, out, cfg=None, extra_flags=None, llgo=None, extra_env=None, timeout=3000):
        cfg = cfg or self.cfg
        flags, tags = build_cmdline(cfg, extra_flags)
        env = {"XDG_CACHE_HOME": xdg}
        env.update(cfg["env"])
        if self.gocache:
            env["GOCACHE"] = self.gocache
        if extra_env:
            env.update(extra_env)
        if os.path.exists(out):
            os.remove(out)
        rc, so, se = core.llgo_build(self.work, llgo or self.llgo, self.src, out, tags=tags, flags=flags, extra_env=env, timeout=timeout)
        return rc, so + se

    def run(self, exe):
        return core.run_prog([exe], timeout=120, cwd=self.dir)

    def clean_build(self, out, cfg=None):
        """build of the same tree in a cache that holds no archive of any package of the module
        (runtime/std archives of the same configuration are kept: their sources never change here)"""
        cx = os.path.join(self.dir, "xdg-clean")
        shutil.rmtree(cx, ignore_errors=True)
        shutil.copytree(self.xdg, cx)
        clear_module(cx)
        try:
            return self.build(cx, out, cfg)
        finally:
            shutil.rmtree(cx, ignore_errors=True)

    # ---- one step
    def step(self, kind, rng, revert_to=None, forced=None):
        """One (edit, rebuild with the persistent cache, clean rebuild, run both, judge) step.
        forced: a recorded step (replay) whose state/config/info are applied instead of drawing an edit.
        Returns a result dict; never raises for build/run failures."""
        self.n += 1
        old_state, old_cfg = self.state, self.cfg
        if forced:
            kind = forced["kind"]
            revert_to = forced.get("revert_to")
        res = {"n": self.n, "kind": kind, "lane": self.name}
        if kind == "revert_mtime":
            j = revert_to if revert_to is not None else 0
            res["revert_to"] = j
            st, mt = self.snapshots[j]
            self.state = st
            ch = sync_tree(self.src, gen.render(st))
            for rel, ns in mt.items():
                p = os.path.join(self.src, rel)
                if os.path.exists(p) and os.stat(p).st_mtime_ns != ns:
                    os.utime(p, ns=(ns, ns))
            info = {"pkg": None, "desc": "tree put back to its state after step %d, contents and mtimes (as cp -p / rsync -t would)" % j, "changed": ch}
        elif kind == "clear_module":
            clear_module(self.xdg)
            self.seen_cfg = set()
            info = {"pkg": None, "desc": "remove the cache entries of the module's packages"}
        elif kind == "clear_all":
            shutil.rmtree(os.path.join(self.xdg, "llgo", "build"), ignore_errors=True)
            self.seen_cfg = set()
            info = {"pkg": None, "desc": "remove the whole build cache"}
        elif kind in ("noop", "init"):
            info = {"pkg": None, "desc": "no change"}
        else:
            if forced:
                self.state, self.cfg, info = forced["state"], forced["cfg"], dict(forced["info"])
                if info.get("rename"):
                    info["rename"] = tuple(info["rename"])
            else:
                self.state, self.cfg, info = gen.apply_edit(kind, self.state, self.cfg, rng)
            info["changed"] = sync_tree(self.src, gen.render(self.state), preserve=info.get("preserve_mtime", ()), rename=info.get("rename"))
        res["info"] = {k: v for k, v in info.items() if k != "changed"}
        res["cfg"] = self.cfg
        res["desc"] = info["desc"]
        res["pkg"] = info.get("pkg")
        res["changed"] = info.get("changed", [])
        res["config"] = gen.cfg_key(self.cfg)
        res["state"] = self.state
        exp_err, markers = gen.expected(self.state, self.cfg)
        old_exp, _ = gen.expected(old_state, old_cfg)
        res["expected"] = exp_err
        before = mod_archives(self.xdg)
        exe_a = os.path.join(self.bin, "s%03d-cached.bin" % self.n)
        exe_b = os.path.join(self.bin, "s%03d-clean.bin" % self.n)
        rc_a, log_a = self.build(self.xdg, exe_a)
        after = mod_archives(self.xdg)
        res["rebuilt"] = sorted(set(p for p, _ in after - before))
        res["build_cached_rc"] = rc_a
        rc_b, log_b = self.clean_build(exe_b)
        res["build_clean_rc"] = rc_b
        verdict, cls, why = "held", "", ""
        if rc_a != 0 or rc_b != 0:
            res["build_cached_log"] = log_a[-4000:]
            res["build_clean_log"] = log_b[-4000:]
            if rc_a != 0 and rc_b != 0:
                if TOOLCHAIN_CRASH.search(log_a) and TOOLCHAIN_CRASH.search(log_b):
                    verdict, cls, why = "inconclusive", "toolchain-crash", "both builds crash inside the substitute toolchain"
                else:
                    verdict, cls, why = "violation", "build-fails:" + kind, "both the cached and the clean build fail:\n" + log_b[-1500:]
            elif rc_a != 0:
                verdict, cls, why = "violation", "cached-build-fails:" + kind, "the build with the persistent cache fails, the clean build succeeds:\n" + log_a[-1500:]
            else:
                verdict, cls, why = "violation", "clean-build-fails:" + kind, "the clean build fails, the build with the persistent cache succeeds:\n" + log_b[-1500:]
            # configuration that cannot be built is left again so that the history can go on
            if verdict != "held" and info.get("config"):
                self.cfg = old_cfg
        else:
            ra, rb = self.run(exe_a), self.run(exe_b)
            res["cached"] = {"stderr": ra.err, "stdout": ra.out[-3000:], "rc": ra.rc, "kind": ra.kind}
            res["clean"] = {"stderr": rb.err, "stdout": rb.out[-3000:], "rc": rb.rc, "kind": rb.kind}
            with open(exe_a, "rb") as f:
                xa = f.read()
            with open(exe_b, "rb") as f:
                xb = f.read()
            res["exe_same"] = xa == xb
            a_ok = ra.err == exp_err and ra.kind == "exit" and ra.rc == 0
            b_ok = rb.err == exp_err and rb.kind == "exit" and rb.rc == 0
            if "timeout" in (ra.kind, rb.kind):
                verdict, cls, why = "inconclusive", "run-timeout", ""
            elif not b_ok:
                fd = core.first_diff(exp_err, rb.err)
                verdict, cls = "violation", "clean-differs-from-expected:" + kind
                why = "the CLEAN build's program does not print what the model predicts (llgo miscompile or generator error): line %s expected `%s` got `%s` (%s rc=%s)" % (
                    fd and fd[0] + 1, fd and fd[1], fd and fd[2], rb.kind, rb.rc)
            elif not a_ok:
                fd = core.first_diff(exp_err, ra.err)
                stale = ra.err == old_exp
                verdict, cls = "violation", "stale:" + kind
                why = "after `%s` the build that reuses the cache prints `%s` where the clean build of the same tree (and the model) print `%s`%s" % (
                    info["desc"], fd and fd[2], fd and fd[1], " -- exactly the output of the tree BEFORE the edit (stale archive served)" if stale else "")
            else:
                # stdout: trace markers
                miss_a = [m for m in markers if m not in ra.out.split("\n")]
                miss_b = [m for m in markers if m not in rb.out.split("\n")]
                if miss_b:
                    verdict, cls, why = "violation", "clean-differs-from-expected:" + kind, "clean build under LLGO_TRACE lacks trace lines %s" % miss_b[:4]
                elif miss_a or ra.out != rb.out:
                    verdict, cls = "violation", "stale:" + kind
                    fd = core.first_diff(rb.out, ra.out)
                    why = "stdout of the cached build differs from the clean build under %s: missing trace lines %s; first difference line %s clean `%s` cached `%s`" % (
                        res["config"], miss_a[:4], fd and fd[0] + 1, fd and fd[1], fd and fd[2])
            # configuration monitor
            if verdict == "held" and info.get("config"):
                key = gen.cfg_key(self.cfg)
                eff = "code"
                if kind.startswith("env:"):
                    eff = [v[2] for v in gen.ENV_VARS if v[0] == kind[4:]][0]
                pk = set(gen.packages(self.state))
                res["config_first_time"] = key not in self.seen_cfg
                if key not in self.seen_cfg and not pk <= set(res["rebuilt"]):
                    res["config_not_rebuilt"] = sorted(pk - set(res["rebuilt"]))
                    if eff in ("code", "exe", "stdout-trace") and kind != "tags" and not res["exe_same"]:
                        verdict, cls = "violation", "config-stale:" + kind
                        why = ("after switching to `%s` (never built before with this cache) packages %s were served from archives built under the previous configuration, "
                               "and the resulting executable differs from the clean build's executable (%d vs %d bytes)" % (info["desc"], res["config_not_rebuilt"], len(xa), len(xb)))
        res["verdict"], res["class"], res["why"] = verdict, cls, why
        if verdict == "held" or verdict == "inconclusive":
            if rc_a == 0:
                self.seen_cfg.add(gen.cfg_key(self.cfg))
                self.snapshots.append((self.state, tree_mtimes(self.src)))
        for p in (exe_a, exe_b):
            if os.path.exists(p):
                os.remove(p)
        self.steps.append(res)
        self.log("  [%s #%d] %-22s %-12s rebuilt=%s exe_same=%s %s" % (self.name, self.n, kind, verdict, ",".join(res["rebuilt"]) or "-", res.get("exe_same"), info["desc"][:70]))
        return res

    def repair(self):
        """after a (known) stale step: drop the module's archives so that later steps start from a sound cache"""
        clear_module(self.xdg)
        self.seen_cfg = set()
        # re-prime: the next step must meet archives of the CURRENT tree, otherwise it would pass trivially (everything a miss)
        exe = os.path.join(self.bin, "reprime.bin")
        rc, _ = self.build(self.xdg, exe)
        if rc == 0:
            self.seen_cfg.add(gen.cfg_key(self.cfg))
            self.snapshots.append((self.state, tree_mtimes(self.src)))
        if os.path.exists(exe):
            os.remove(exe)

    def replay_files(self, upto=None):
        """files for a replay directory: the history as data + the tree as it is now"""
        files = {"history.json": json.dumps({"lane": self.name, "steps": self.steps[:upto]}, indent=1, default=lambda b: list(b))}
        for root, dirs, fs in os.walk(self.src):
            for f in fs:
                p = os.path.join(root, f)
                with open(p, "rb") as fh:
                    files["tree/" + os.path.relpath(p, self.src)] = fh.read()
        return files


# ---------------------------------------------------------------- IR reproducibility

def collect_ll(gocache, remove=True):
    """{ModuleID: bytes} of all .ll files llgo left next to go's export files"""
    out = {}
    for p in glob.glob(os.path.join(gocache, "**", "*.ll"), recursive=True):
        with open(p, "rb") as f:
            data = f.read()
        m = re.match(rb"; ModuleID = '([^']*)'", data)
        key = m.group(1).decode() if m else os.path.basename(p)
        if key in out and out[key] != data:
            key = key + "#" + os.path.basename(p)
        out[key] = data
        if remove:
            os.remove(p)
    return out


def ir_pair(lane, tag):
    """two clean builds (empty llgo caches) of the lane's tree with -gen-llfiles; returns dict"""
    res = {"tag": tag, "ok": True, "diff": [], "packages": 0}
    lls, exes = [], []
    for i in (1, 2):
        xdg = os.path.join(lane.dir, "xdg-ir%d" % i)
        shutil.rmtree(xdg, ignore_errors=True)
        os.makedirs(xdg)
        exe = os.path.join(lane.bin, "ir-%s-%d.bin" % (tag, i))
        collect_ll(lane.gocache)          # drop leftovers
        rc, log = lane.build(xdg, exe, extra_flags=["-gen-llfiles"])
        shutil.rmtree(xdg, ignore_errors=True)
        if rc != 0:
            res.update(ok=False, error="build %d failed:\n%s" % (i, log[-3000:]), toolchain=bool(TOOLCHAIN_CRASH.search(log)))
            return res
        lls.append(collect_ll(lane.gocache))
        with open(exe, "rb") as f:
            exes.append(f.read())
        if i == 1:
            r = lane.run(exe)
            res["run_ok"] = (r.err == gen.expected(lane.state, lane.cfg)[0])
            res["run_err"] = r.err
        os.remove(exe)
    a, b = lls
    res["packages"] = len(a)
    res["bytes"] = sum(len(v) for v in a.values())
    for k in sorted(set(a) | set(b)):
        if a.get(k) != b.get(k):
            res["diff"].append(k)
    res["exe_same"] = exes[0] == exes[1]
    res["ll"] = (a, b)
    return res


# ---------------------------------------------------------------- race reports

def parse_race_logs(paths):
    """list of reports: {"key": (fnA, fnB), "inside": bool, "text": str}; deduplicated by key"""
    reps = {}
    for p in paths:
        try:
            with open(p, errors="replace") as f:
                txt = f.read()
        except OSError:
            continue
        for blk in txt.split("=================="):
            if "WARNING: DATA RACE" not in blk:
                continue
            stacks = []
            cur = None
            for ln in blk.split("\n"):
                if re.match(r"^(Read|Write|Previous read|Previous write|Atomic|Previous atomic)", ln.strip()) and " at 0x" in ln:
                    cur = []
                    stacks.append(cur)
                elif ln.startswith("Goroutine ") or ln.strip() == "":
                    cur = None if ln.startswith("Goroutine ") else cur
                    if ln.strip() == "":
                        cur = None
                elif cur is not None and ln.startswith("  ") and not ln.startswith("      "):
                    cur.append(ln.strip().split("(")[0])
            tops = tuple(sorted((s[0] if s else "?") for s in stacks[:2]))
            frames = [f for s in stacks[:2] for f in s]
            inside = any(("github.com/goplus/llgo/internal/build" in f) or ("github.com/goplus/llgo/cl." in f) or ("github.com/goplus/llgo/ssa" in f)
                         or ("github.com/goplus/llgo/cl/" in f) for f in frames)
            if tops not in reps:
                reps[tops] = {"key": list(tops), "inside": inside, "text": blk.strip()[:6000], "count": 1}
            else:
                reps[tops]["count"] += 1
    return [reps[k] for k in sorted(reps)]

"""C05 script generator + spec model for the slice/string VM (progs/c05_slicevm).

The Model tracks exactly what the Go spec determines about every pool slot: length, nil-ness, which allocation a
slice points into and at which offset, its capacity when the spec fixes it (make / literal / 3-index slice / array)
and otherwise only a lower bound (after growth the new capacity is implementation-defined).  A step is emitted only if
its observable outcome is determined by the spec in the current state:
  * slicing beyond the known capacity bound is never generated unless the capacity is exact (then it is a certain panic);
  * an append that may or may not reallocate (capacity unknown) is allowed only in place on a slice that is the sole
    owner of its allocation, so the two possible outcomes are indistinguishable;
  * `cap` is printed (pc flag) only where exact.
Model.apply is also what the minimiser uses to re-validate reduced scripts (it rewrites the pc flag).

Pure function of (seed, tier, batch, avoid): no hash(), no set iteration, no time.
CLI:  c05_slices.py <seed> <first_script_id> <count> [avoid,avoid] | <seed> ids <id,id,..> [avoid,..]  -> script text on stdout."""
import random
import sys

TY = ["Z", "B", "H", "T", "Q", "W", "R"]
ESZ = [0, 1, 2, 3, 8, 24, 4]
NSLOT = 8
ARRN = 16
MAXSTR = 6000

OPN = {1: "mk", 2: "lit", 3: "appv", 4: "appn", 5: "apps", 6: "copy", 7: "rs2", 8: "rs3", 9: "clr", 10: "st", 11: "ld",
       12: "dump", 13: "alias", 14: "s2a", 15: "rng", 16: "nil", 17: "mov", 18: "arr", 19: "uns",
       30: "sset", 31: "scat", 32: "scatn", 33: "scmp", 34: "sidx", 35: "ssl", 36: "srange", 37: "s2b", 38: "b2s",
       39: "s2r", 40: "r2s", 41: "i2s", 42: "mput", 43: "mget", 44: "mdel", 45: "mlen", 46: "appstr", 47: "copystr",
       48: "sdump", 49: "s2rp", 50: "sslr", 51: "sidxr", 52: "r2sv", 53: "scmpb", 55: "sbld", 57: "sconst", 58: "brange"}

CONSTS = [b"", b"plain ascii", "héllo, 世界 \U0001F600".encode("utf-8"), b"a\x00b\x00",
          b"\xff\xfe\xed\xa0\x80\xf4\x90\x80\x80\xc0\xaf\xe2\x82", b"0123456789abcdef" * 4]


# ---------------------------------------------------------------- Go's UTF-8 rules (for lengths only; values come from the reference run)

def decode_rune(b, i):
    n = len(b)
    c = b[i]
    if c < 0x80:
        return c, 1
    if 0xC2 <= c <= 0xDF:
        if i + 1 < n and 0x80 <= b[i + 1] <= 0xBF:
            return ((c & 0x1F) << 6) | (b[i + 1] & 0x3F), 2
        return 0xFFFD, 1
    if 0xE0 <= c <= 0xEF:
        lo, hi = 0x80, 0xBF
        if c == 0xE0:
            lo = 0xA0
        if c == 0xED:
            hi = 0x9F
        if i + 2 < n and lo <= b[i + 1] <= hi and 0x80 <= b[i + 2] <= 0xBF:
            return ((c & 0x0F) << 12) | ((b[i + 1] & 0x3F) << 6) | (b[i + 2] & 0x3F), 3
        return 0xFFFD, 1
    if 0xF0 <= c <= 0xF4:
        lo, hi = 0x80, 0xBF
        if c == 0xF0:
            lo = 0x90
        if c == 0xF4:
            hi = 0x8F
        if i + 3 < n and lo <= b[i + 1] <= hi and 0x80 <= b[i + 2] <= 0xBF and 0x80 <= b[i + 3] <= 0xBF:
            return ((c & 7) << 18) | ((b[i + 1] & 0x3F) << 12) | ((b[i + 2] & 0x3F) << 6) | (b[i + 3] & 0x3F), 4
        return 0xFFFD, 1
    return 0xFFFD, 1


def rune_count(b):
    i = 0
    c = 0
    while i < len(b):
        _, w = decode_rune(b, i)
        i += w
        c += 1
    return c


def encode_rune(r):
    if r < 0 or r > 0x10FFFF or 0xD800 <= r <= 0xDFFF:
        r = 0xFFFD
    if r < 0x80:
        return bytes([r])
    if r < 0x800:
        return bytes([0xC0 | r >> 6, 0x80 | r & 0x3F])
    if r < 0x10000:
        return bytes([0xE0 | r >> 12, 0x80 | (r >> 6) & 0x3F, 0x80 | r & 0x3F])
    return bytes([0xF0 | r >> 18, 0x80 | (r >> 12) & 0x3F, 0x80 | (r >> 6) & 0x3F, 0x80 | r & 0x3F])


def wrap(v, bits, signed):
    v &= (1 << bits) - 1
    if signed and v >= 1 << (bits - 1):
        v -= 1 << bits
    return v


I2S_KINDS = [(32, True), (64, True), (64, False), (8, False), (8, True), (32, False), (64, True), (16, True), (16, False)]


# ---------------------------------------------------------------- model

class Sl:
    __slots__ = ("alloc", "off", "len", "capx", "caplo")

    def __init__(self, alloc, off, ln, capx, caplo):
        self.alloc, self.off, self.len, self.capx, self.caplo = alloc, off, ln, capx, caplo

    def copy(self):
        return Sl(self.alloc, self.off, self.len, self.capx, self.caplo)


class Str:
    __slots__ = ("len", "data", "hi")

    def __init__(self, ln, data, hi=None):
        self.len, self.data = ln, data
        self.hi = ln if hi is None else hi


def slen(s):
    return s.len if s is not None else 0


def scaplo(s):
    return s.caplo if s is not None else 0


def scapx(s):
    return s.capx if s is not None else 0


AVOIDABLE = ("zs-append", "overlap-append", "empty-conv")


class Model:
    """avoid: constructs of open findings whose probe still fails (probe + avoid); the model then rejects
         zs-append      append of >=1 element to a slice of zero-size elements
         overlap-append in-place append whose source overlaps the destination window
         empty-conv     []byte(s) / []rune(s) where s may be empty"""

    def __init__(self, avoid=()):
        self.avoid = tuple(avoid)
        self.reset()

    def reset(self):
        self.sl = [[None] * NSLOT for _ in TY]
        self.st = [Str(0, b"") for _ in range(NSLOT)]
        self.nalloc = 0
        self.cls = ""

    def fresh(self, ln, capx=None, caplo=None):
        self.nalloc += 1
        return Sl(self.nalloc, 0, ln, capx, ln if caplo is None else caplo)

    def owners(self, ty, alloc, skip):
        return sum(1 for k, s in enumerate(self.sl[ty]) if k != skip and s is not None and s.alloc == alloc)

    # s[i:j:k] with None = omitted -> ("ok", slice) | ("panic", None) | None (not determined)
    def reslice(self, s, i, j, k):
        ln, capx, caplo = slen(s), scapx(s), scaplo(s)
        three = k is not None
        ii = 0 if i is None else i
        jj = ln if j is None else j
        if ii < 0 or jj < 0 or (three and k < 0):
            return None
        top = k if three else jj
        if (three and jj > k) or ii > jj:
            # certain panic only if the earlier (cap) check cannot pass/fail differently: any order panics
            if capx is None and top > caplo:
                return None
            return ("panic", None)
        if top > caplo:
            if capx is None:
                return None
            return ("panic", None)
        if s is None:
            return ("ok", None)
        if three:
            return ("ok", Sl(s.alloc, s.off + ii, jj - ii, k - ii, k - ii))
        return ("ok", Sl(s.alloc, s.off + ii, jj - ii, None if s.capx is None else s.capx - ii, s.caplo - ii))

    # append n elements to x, result stored in slot d of pool ty; inplace = x derives from slot d itself
    def append(self, ty, d, x, n, inplace):
        if n == 0:
            self.cls = "n0"
            return ("ok", x)
        xl, capx, caplo = slen(x), scapx(x), scaplo(x)
        nl = xl + n
        if nl <= caplo:
            self.cls = "fits"
            return ("ok", Sl(x.alloc, x.off, nl, x.capx, x.caplo))
        if capx is not None:
            self.cls = "grow" if x is not None else "grownil"
            return ("ok", self.fresh(nl))
        if inplace and self.owners(ty, x.alloc, d) == 0 and x.alloc > 0:
            self.cls = "grow?"
            return ("ok", self.fresh(nl))
        return None

    def apply(self, op, a, hx=None):
        """Applies one step; returns 'ok' | 'panic' | None (invalid / not spec-determined; state unchanged).
        May rewrite the pc flag inside a. Sets self.cls (structural class of the step)."""
        self.cls = ""
        try:
            r = self._apply(op, a, hx)
        except (IndexError, KeyError, TypeError, ValueError):
            return None
        return r

    def _slot(self, v):
        if not (0 <= v < NSLOT):
            raise ValueError
        return v

    def _apply(self, op, a, hx):
        if op < 30:
            ty = a[0]
            if not (0 <= ty < len(TY)):
                return None
            P = self.sl[ty]
            b = a[1:]
            res = self._slice_op(op, ty, P, b)
            a[1:] = b
            return res
        return self._str_op(op, a, hx)

    def _slice_op(self, op, ty, P, a):
        S = self._slot
        if op == 1:
            d, ln, cp = S(a[0]), a[1], a[2]
            if ln < 0 or ln > 5000 or len(a) != 4:
                return None
            if cp < 0:
                cp = ln
            if cp < ln or cp > 10000:
                return None
            P[d] = self.fresh(ln, cp, cp)
            a[3] = 1
            self.cls = "len0" if ln == 0 else ("cap=len" if cp == ln else "cap>len")
            return "ok"
        if op == 2:
            d, n = S(a[0]), a[1]
            if n not in (0, 1, 2, 3, 5, 9, 10) or len(a) != 4:
                return None
            P[d] = self.fresh(n, n, n)
            a[3] = 1
            self.cls = str(n)
            return "ok"
        if op in (3, 4, 5) and ESZ[ty] == 0 and "zs-append" in self.avoid:
            return None
        if op == 3:
            d, s, k = S(a[0]), S(a[1]), a[2]
            if not (0 <= k <= 4) or len(a) != 5:
                return None
            r = self.append(ty, d, P[s], k, d == s)
            if r is None:
                return None
            P[d] = r[1].copy() if r[1] is not None else None
            a[4] = 1 if (P[d] is None or P[d].capx is not None) else 0
            self.cls += ":k%d" % k
            return "ok"
        if op == 4:
            s, n = S(a[0]), a[1]
            if n < 0 or n > 3000 or len(a) != 4:
                return None
            x = P[s]
            fit = scaplo(x) - slen(x)
            if n <= fit:
                if n:
                    P[s] = Sl(x.alloc, x.off, x.len + n, x.capx, x.caplo)
                self.cls = "fits"
            else:
                if scapx(x) is None and not (self.owners(ty, x.alloc, s) == 0 and x.alloc > 0):
                    return None
                P[s] = self.fresh(slen(x) + n)
                self.cls = "grow" + ("+" if n - fit > 64 else "")
            a[3] = 1 if (P[s] is None or P[s].capx is not None) else 0
            return "ok"
        if op == 5:
            d, sa, i, sb, j, k = S(a[0]), S(a[1]), a[2], S(a[3]), a[4], a[5]
            if len(a) != 7:
                return None
            x = ("ok", P[sa]) if i < 0 else self.reslice(P[sa], None, i, None)
            if x is None:
                return None
            if x[0] == "panic":
                return "panic"
            y = ("ok", P[sb]) if j < 0 else self.reslice(P[sb], j, k, None)
            if y is None:
                return None
            if y[0] == "panic":
                return "panic"
            x, y = x[1], y[1]
            n = slen(y)
            r = self.append(ty, d, x, n, d == sa and (sb == sa or y is None or x is None or y.alloc != x.alloc))
            if r is None:
                return None
            ov = ""
            if n and x is not None and y is not None and x.alloc == y.alloc and ESZ[ty]:
                dlo = x.off + x.len
                if self.cls in ("fits", "grow?") and dlo < y.off + n and y.off < dlo + n and dlo != y.off:
                    # "grow?": whether it happens in place is up to the implementation, so it may overlap
                    ov = (":overlap-fwd" if dlo < y.off else ":overlap-bwd") + ("?" if self.cls == "grow?" else "")
                elif sa == sb:
                    ov = ":self"
            if "overlap" in ov and "overlap-append" in self.avoid:
                return None
            P[d] = r[1].copy() if r[1] is not None else None
            a[6] = 1 if (P[d] is None or P[d].capx is not None) else 0
            self.cls += ov
            return "ok"
        if op == 6:
            sa, i, j, sb, k, l = S(a[0]), a[1], a[2], S(a[3]), a[4], a[5]
            if len(a) != 6:
                return None
            x = ("ok", P[sa]) if i < 0 else self.reslice(P[sa], i, j, None)
            if x is None:
                return None
            if x[0] == "panic":
                return "panic"
            y = ("ok", P[sb]) if k < 0 else self.reslice(P[sb], k, l, None)
            if y is None:
                return None
            if y[0] == "panic":
                return "panic"
            x, y = x[1], y[1]
            n = min(slen(x), slen(y))
            self.cls = "n0" if n == 0 else "disjoint"
            if n and x.alloc == y.alloc and ESZ[ty]:
                if x.off == y.off:
                    self.cls = "same"
                elif x.off < y.off + n and y.off < x.off + n:
                    self.cls = "overlap-fwd" if x.off < y.off else "overlap-bwd"
            return "ok"
        if op == 7 or op == 8:
            d, s = S(a[0]), S(a[1])
            if op == 7:
                if len(a) != 5:
                    return None
                i, j, k = (None if a[2] < 0 else a[2]), (None if a[3] < 0 else a[3]), None
            else:
                if len(a) != 6 or a[3] < 0 or a[4] < 0:
                    return None
                i, j, k = (None if a[2] < 0 else a[2]), a[3], a[4]
            r = self.reslice(P[s], i, j, k)
            if r is None:
                return None
            if r[0] == "panic":
                self.cls = "panic"
                return "panic"
            srclen = slen(P[s])
            P[d] = r[1]
            a[-1] = 1 if (P[d] is None or P[d].capx is not None) else 0
            self.cls = ("nil" if r[1] is None else ("empty" if r[1].len == 0 else ("beyond-len" if (j or 0) > srclen else "in")))
            self.cls += ":%s%s" % ("i" if i is not None else "", "j" if j is not None else "")
            return "ok"
        if op == 9:
            S(a[0])
            self.cls = "nil" if P[a[0]] is None else "n"
            return "ok" if len(a) == 1 else None
        if op == 10 or op == 11:
            s, i = S(a[0]), a[1]
            if len(a) != (3 if op == 10 else 2) or i < 0:
                return None
            if i >= slen(P[s]):
                self.cls = "panic"
                return "panic"
            return "ok"
        if op == 12:
            s = S(a[0])
            if len(a) != 2:
                return None
            a[1] = 1 if (P[s] is None or P[s].capx is not None) else 0
            return "ok"
        if op == 13:
            sa, i, sb, j = S(a[0]), a[1], S(a[2]), a[3]
            if len(a) != 5 or not (0 <= i < slen(P[sa])) or not (0 <= j < slen(P[sb])):
                return None
            x, y = P[sa], P[sb]
            self.cls = "shared-cell" if (x.alloc == y.alloc and x.off + i == y.off + j) else ("same-alloc" if x.alloc == y.alloc else "distinct")
            return "ok"
        if op == 14:
            s, n, mode = S(a[0]), a[1], a[2]
            if len(a) != 4 or n not in (0, 1, 4) or mode not in (0, 1):
                return None
            self.cls = "n%d:m%d" % (n, mode)
            if slen(P[s]) < n:
                self.cls += ":panic"
                return "panic"
            if P[s] is None:
                self.cls += ":nil"
            return "ok"
        if op == 15:
            S(a[0])
            if len(a) != 2 or a[1] not in (0, 1, 2):
                return None
            return "ok"
        if op == 16:
            P[S(a[0])] = None
            return "ok" if len(a) == 1 else None
        if op == 17:
            d, s = S(a[0]), S(a[1])
            if len(a) != 3:
                return None
            P[d] = P[s].copy() if P[s] is not None else None
            a[2] = 1 if (P[d] is None or P[d].capx is not None) else 0
            return "ok"
        if op == 18:
            d = S(a[0])
            if len(a) != 5:
                return None
            i, j, k = [None if v < 0 else v for v in a[1:4]]
            if k is not None and j is None:
                return None
            base = Sl(-(ty + 1), 0, ARRN, ARRN, ARRN)
            r = self.reslice(base, i, j, k)
            if r is None:
                return None
            if r[0] == "panic":
                self.cls = "panic"
                return "panic"
            P[d] = r[1]
            a[4] = 1
            self.cls = "%s%s%s" % ("i" if i is not None else "", "j" if j is not None else "", "k" if k is not None else "")
            return "ok"
        if op == 19:
            d, i, n = S(a[0]), a[1], a[2]
            if len(a) != 3 or not (0 <= i < ARRN) or not (0 <= n <= ARRN - i):
                return None
            P[d] = Sl(-(ty + 1), i, n, n, n)
            return "ok"
        return None

    def _str_op(self, op, a, hx):
        S = self._slot
        st = self.st
        B = self.sl[1]
        R = self.sl[6]

        def put(d, s):
            if s.hi > MAXSTR:
                return None
            st[d] = s
            return "ok"

        def cat(x, y):
            if x.data is not None and y.data is not None:
                return Str(x.len + y.len, x.data + y.data)
            if x.len is not None and y.len is not None:
                return Str(x.len + y.len, None)
            return Str(None, None, x.hi + y.hi)

        def sslice(s, i, j):
            """-> ('ok', Str) | ('panic',) ; s.len must be known"""
            ii = 0 if i is None else i
            jj = s.len if j is None else j
            if ii < 0 or jj < 0:
                return None
            if jj > s.len or ii > jj:
                return ("panic", None)
            return ("ok", Str(jj - ii, None if s.data is None else s.data[ii:jj]))

        if op == 30:
            d = S(a[0])
            if hx is None or len(a) != 1:
                return None
            self.cls = "len%d" % min(len(hx), 3)
            return put(d, Str(len(hx), bytes(hx)))
        if op == 31:
            d, x, y = S(a[0]), S(a[1]), S(a[2])
            if len(a) != 3:
                return None
            self.cls = "%s%s" % ("e" if st[x].len == 0 else "n", "e" if st[y].len == 0 else "n")
            return put(d, cat(st[x], st[y]))
        if op == 32:
            d, n = S(a[0]), a[1]
            if not (2 <= n <= 8) or len(a) != 2 + n:
                return None
            r = Str(0, b"")
            for v in a[2:]:
                r = cat(r, st[S(v)])
            self.cls = "n%d" % n
            return put(d, r)
        if op == 33:
            x, y = st[S(a[0])], st[S(a[1])]
            if len(a) != 2:
                return None
            if x.data is not None and y.data is not None:
                self.cls = "same-slot" if a[0] == a[1] else ("eq" if x.data == y.data else ("prefix" if (x.data.startswith(y.data) or y.data.startswith(x.data)) else ("lt" if x.data < y.data else "gt")))
            return "ok"
        if op == 34:
            s, i = st[S(a[0])], a[1]
            if len(a) != 2 or s.len is None or i < 0:
                return None
            if i >= s.len:
                self.cls = "panic"
                return "panic"
            return "ok"
        if op == 35:
            d, s = S(a[0]), st[S(a[1])]
            if len(a) != 4 or s.len is None:
                return None
            i, j = (None if a[2] < 0 else a[2]), (None if a[3] < 0 else a[3])
            r = sslice(s, i, j)
            if r is None:
                return None
            if r[0] == "panic":
                self.cls = "panic"
                return "panic"
            self.cls = ("empty-at-end" if r[1].len == 0 and (i or 0) == s.len else ("empty" if r[1].len == 0 else "in")) + ":%s%s" % ("i" if i is not None else "", "j" if j is not None else "")
            return put(d, r[1])
        if op == 36:
            s = st[S(a[0])]
            if len(a) != 2 or a[1] not in (0, 1, 2, 3):
                return None
            self.cls = "m%d:%s" % (a[1], enc_class(s.data))
            return "ok"
        if op in (37, 39, 49) and "empty-conv" in self.avoid and not st[S(a[1 if op != 49 else 0])].len:
            return None
        if op == 37:
            d, s = S(a[0]), st[S(a[1])]
            if len(a) != 2 or s.len is None:
                return None
            B[d] = self.fresh(s.len)
            self.cls = "empty" if s.len == 0 else "n"
            return "ok"
        if op == 38:
            d, s = S(a[0]), B[S(a[1])]
            if len(a) != 2:
                return None
            n = slen(s)
            self.cls = "nil" if s is None else ("empty" if n == 0 else "n")
            return put(d, Str(n, b"" if n == 0 else None))
        if op == 39:
            d, s = S(a[0]), st[S(a[1])]
            if len(a) != 2 or s.data is None:
                return None
            R[d] = self.fresh(rune_count(s.data))
            self.cls = enc_class(s.data)
            return "ok"
        if op == 40:
            d, s = S(a[0]), R[S(a[1])]
            if len(a) != 2:
                return None
            n = slen(s)
            self.cls = "nil" if s is None else ("empty" if n == 0 else "n")
            return put(d, Str(0, b"") if n == 0 else Str(None, None, 4 * n))
        if op == 41:
            d, kind, v = S(a[0]), a[1], a[2]
            if len(a) != 3 or not (0 <= kind < len(I2S_KINDS)):
                return None
            bits, sg = I2S_KINDS[kind]
            r = wrap(v, bits, sg)
            self.cls = "k%d:%s" % (kind, "neg" if r < 0 else ("big" if r > 0x10FFFF else ("sur" if 0xD800 <= r <= 0xDFFF else "w%d" % len(encode_rune(r)))))
            return put(d, Str(len(encode_rune(r)), encode_rune(r)))
        if op in (42, 43, 44):
            S(a[0])
            if len(a) != (2 if op == 42 else 1):
                return None
            self.cls = enc_class(st[a[0]].data)
            return "ok"
        if op == 45:
            return "ok" if len(a) == 0 else None
        if op == 46:
            d, s, x = S(a[0]), S(a[1]), st[S(a[2])]
            if len(a) != 4 or x.len is None:
                return None
            r = self.append(1, d, B[s], x.len, d == s)
            if r is None:
                return None
            B[d] = r[1].copy() if r[1] is not None else None
            a[3] = 1 if (B[d] is None or B[d].capx is not None) else 0
            return "ok"
        if op == 47:
            sa, i, j, s, k, l = S(a[0]), a[1], a[2], st[S(a[3])], a[4], a[5]
            if len(a) != 6 or s.len is None:
                return None
            x = ("ok", B[sa]) if i < 0 else self.reslice(B[sa], i, j, None)
            if x is None:
                return None
            if x[0] == "panic":
                return "panic"
            y = ("ok", s) if k < 0 else sslice(s, k, l)
            if y is None:
                return None
            if y[0] == "panic":
                return "panic"
            n = min(slen(x[1]), y[1].len)
            self.cls = "n0" if n == 0 else ("dst-short" if slen(x[1]) < y[1].len else "src-short")
            return "ok"
        if op in (48, 49):
            S(a[0])
            if len(a) != 1:
                return None
            self.cls = enc_class(st[a[0]].data)
            return "ok"
        if op == 50:
            d, s, p, q = S(a[0]), st[S(a[1])], a[2], a[3]
            if len(a) != 4 or p < 0 or q < 0:
                return None
            if s.len is not None:
                i = p % (s.len + 1)
                j = i + q % (s.len + 1 - i)
                return put(d, Str(j - i, None if s.data is None else s.data[i:j]))
            return put(d, Str(None, None, s.hi))
        if op == 51:
            S(a[0])
            return "ok" if len(a) == 2 and a[1] >= 0 else None
        if op == 52:
            d, s, n = S(a[0]), S(a[1]), a[2]
            if n < 0 or n > 64 or len(a) != 3 + n:
                return None
            data = b"".join(encode_rune(wrap(v, 32, True)) for v in a[3:])
            R[s] = self.fresh(n, n, n)
            self.cls = "n%d" % min(n, 2)
            return put(d, Str(len(data), data))
        if op == 53:
            S(a[0]), S(a[1])
            return "ok" if len(a) == 2 else None
        if op == 55:
            d, n, s = S(a[0]), a[1], S(a[2])
            if len(a) != 3 or not (0 <= n <= 400):
                return None
            x, y = st[d], st[s]
            if x.len is None or y.len is None:
                return None
            if x.data is not None and y.data is not None:
                r = Str(x.len + n * y.len, x.data + y.data * n) if x.len + n * y.len <= MAXSTR else Str(x.len + n * y.len, None)
            else:
                r = Str(x.len + n * y.len, None)
            self.cls = "self" if d == s else "n"
            return put(d, r)
        if op == 57:
            d, k = S(a[0]), a[1]
            if len(a) != 2 or not (0 <= k < len(CONSTS)):
                return None
            self.cls = str(k)
            return put(d, Str(len(CONSTS[k]), CONSTS[k]))
        if op == 58:
            S(a[0])
            return "ok" if len(a) == 1 else None
        return None


def enc_class(b):
    """coarse class of a byte string for signatures"""
    if b is None:
        return "opaque"
    if len(b) == 0:
        return "empty"
    i = 0
    ascii_only, bad, multi = True, False, False
    while i < len(b):
        r, w = decode_rune(b, i)
        if b[i] >= 0x80:
            ascii_only = False
            if r == 0xFFFD and w == 1:
                bad = True
            else:
                multi = True
        i += w
    return "ascii" if ascii_only else ("invalid+multi" if bad and multi else ("invalid" if bad else "multi"))


# ---------------------------------------------------------------- script text

def fmt_step(op, a, hx, cls):
    s = " ".join([str(op)] + [str(v) for v in a])
    if hx is not None:
        s += " x" + bytes(hx).hex()
    name = OPN.get(op, "?")
    if op < 30:
        name += " " + TY[a[0]]
    return "%s # %s %s" % (s, name, cls)


def parse_step(line):
    """-> (op, args, hx|None, comment)"""
    body, _, com = line.partition("#")
    hx = None
    a = []
    for t in body.split():
        if t.startswith("x"):
            hx = bytes.fromhex(t[1:])
        else:
            a.append(int(t))
    return a[0], a[1:], hx, com.strip()


def revalidate(lines, avoid=()):
    """Re-runs the model over a list of step lines; returns the normalised lines (pc flags rewritten) or None if some
    step is invalid or not spec-determined in the new context."""
    m = Model(avoid)
    out = []
    for ln in lines:
        op, a, hx, _ = parse_step(ln)
        r = m.apply(op, a, hx)
        if r is None:
            return None
        out.append(fmt_step(op, a, hx, (m.cls + " " + r) if r == "panic" else m.cls))
    return out


# ---------------------------------------------------------------- generator

SMALL = [0, 0, 1, 1, 2, 2, 3, 4, 5, 7, 8, 9, 12]
MEDIUM = [15, 16, 17, 31, 32, 33, 63, 64, 65, 100]
THRESH = [127, 128, 129, 255, 256, 257, 300, 511, 512, 513, 767, 768, 1023, 1024, 1025, 1279, 1280, 1281, 2047, 2048, 2049]

INVALID_UTF8 = [
    b"\xff", b"\xfe", b"\x80", b"\xbf", b"\xc0\x80", b"\xc0\xaf", b"\xc1\xbf", b"\xc2", b"\xdf", b"\xe0\x80\x80", b"\xe0\x9f\xbf",
    b"\xe0\xa0", b"\xe2\x82", b"\xe2", b"\xed\xa0\x80", b"\xed\xbf\xbf", b"\xed\x9f\xbf", b"\xee\x80\x80", b"\xef\xbf\xbd", b"\xef\xbf",
    b"\xf0\x80\x80\x80", b"\xf0\x8f\xbf\xbf", b"\xf0\x90\x80\x80", b"\xf0\x90\x80", b"\xf0\x9f\x98", b"\xf4\x8f\xbf\xbf", b"\xf4\x90\x80\x80",
    b"\xf4\x90", b"\xf5\x80\x80\x80", b"\xf7\xbf\xbf\xbf", b"\xf8\x88\x80\x80\x80", b"\xfc\x84\x80\x80\x80\x80", b"\xc2\x41", b"\xe2\x82\x41",
    b"\xf0\x9f\x98\x41", b"\xe2\x28\xa1", b"\xf0\x28\x8c\xbc", b"\xf0\x90\x28\xbc", b"\xf0\x28\x8c\x28",
]
VALID_UTF8 = [b"a", b"Z", b"\x00", b"\x7f", b"\xc2\x80", b"\xdf\xbf", b"\xe0\xa0\x80", b"\xef\xbf\xbf", b"\xed\x9f\xbf", b"\xee\x80\x80",
              b"\xf0\x90\x80\x80", b"\xf4\x8f\xbf\xbf", b"\xf0\x9f\x98\x80", b"\xe4\xb8\x96", b"\xc3\xa9", b" ", b"0"]
RUNES = [0, 1, 0x41, 0x7f, 0x80, 0x7ff, 0x800, 0xd7ff, 0xd800, 0xdbff, 0xdc00, 0xdfff, 0xe000, 0xfffd, 0xfffe, 0xffff, 0x10000, 0x1f600,
         0x10ffff, 0x110000, 0x7fffffff, -1, -0x80000000, 0x200000, 0x1fffff]


class Gen:
    def __init__(self, rng, avoid=()):
        self.r = rng
        self.m = Model(avoid)
        self.lines = []

    # ---- helpers
    def val(self):
        r = self.r
        k = r.randrange(6)
        if k == 0:
            return r.randrange(256)
        if k == 1:
            return r.randrange(1 << 16)
        if k == 2:
            return r.randrange(1 << 24)
        if k == 3:
            return r.randrange(1 << 62)
        if k == 4:
            return -r.randrange(1 << 31)
        return r.randrange(1, 10)

    def length(self):
        r = self.r
        if self.regime == 0:
            return r.choice(SMALL)
        if self.regime == 1:
            return r.choice(MEDIUM if r.random() < 0.6 else SMALL)
        x = r.random()
        if x < 0.45:
            return r.choice(THRESH) + r.choice([0, 0, 0, -1, 1, -2, 2])
        return r.choice(SMALL if x < 0.8 else MEDIUM)

    def slots(self, ty, pred):
        return [k for k, s in enumerate(self.m.sl[ty]) if pred(s)]

    def any_slot(self):
        return self.r.randrange(self.nslot)

    def live_slot(self, ty, minlen=0):
        c = self.slots(ty, lambda s: s is not None and s.len >= minlen)
        c = [k for k in c if k < self.nslot]
        if c and self.r.random() < 0.95:
            return self.r.choice(c)
        return self.any_slot()

    def emit(self, op, a, hx=None):
        """Try a step; True if the model accepted it (and it was appended)."""
        a = list(a)
        res = self.m.apply(op, a, hx)
        if res is None:
            return False
        self.lines.append(fmt_step(op, a, hx, (self.m.cls + " " + res) if res == "panic" else self.m.cls))
        return True

    def idx3(self, s, allow_beyond=True):
        """random 0<=i<=j<=k<=bound for slice s (bound = known capacity bound)"""
        r = self.r
        ln, lo = slen(s), scaplo(s)
        hi = lo if (allow_beyond and r.random() < 0.35) else ln
        pts = sorted(r.choice([0, 0, ln, hi, r.randint(0, hi), r.randint(0, hi), max(0, hi - 1), min(1, hi)]) for _ in range(3))
        return pts

    # ---- one slice step on type ty
    def slice_step(self, ty):
        r = self.r
        m = self.m
        P = m.sl[ty]
        for _ in range(30):
            x = r.random()
            pan = r.random() < 0.012
            if x < 0.10:
                ln = self.length()
                cp = r.choice([-1, ln, ln, ln + 1, ln + 2, ln + 3, 2 * ln, ln + 8, ln + r.randint(0, 20)])
                ok = self.emit(1, [ty, self.any_slot(), ln, cp, 0])
            elif x < 0.14:
                ok = self.emit(2, [ty, self.any_slot(), r.choice([0, 1, 2, 3, 5, 9, 10]), self.val(), 0])
            elif x < 0.24:
                s = self.live_slot(ty) if r.random() < 0.9 else self.any_slot()
                d = s if r.random() < 0.7 else self.any_slot()
                ok = self.emit(3, [ty, d, s, r.choice([0, 1, 1, 1, 2, 3, 4]), self.val(), 0])
            elif x < 0.31:
                s = self.live_slot(ty) if r.random() < 0.85 else self.any_slot()
                if self.regime == 2 and r.random() < 0.6:
                    cur = slen(P[s])
                    tgt = r.choice(THRESH) + r.choice([0, 1, 2, -1])
                    n = tgt - cur if tgt > cur else r.choice([1, 2, 3, 9, 17])
                else:
                    n = r.choice([0, 1, 2, 3, 4, 5, 7, 8, 9, 16, 17, 33]) if self.regime < 2 else r.choice([1, 5, 64, 130, 260])
                ok = self.emit(4, [ty, s, n, self.val(), 0])
            elif x < 0.47:
                ok = self.gen_apps(ty)
            elif x < 0.60:
                ok = self.gen_copy(ty, pan)
            elif x < 0.70:
                s = self.live_slot(ty)
                d = s if r.random() < 0.4 else self.any_slot()
                i, j, _ = self.idx3(P[s])
                form = r.randrange(4)
                if pan and P[s] is not None and P[s].capx is not None:
                    j = P[s].capx + r.choice([1, 2, 100])
                    form = 3
                ok = self.emit(7, [ty, d, s, -1 if form in (0, 1) else i, -1 if form in (0, 2) else j, 0])
            elif x < 0.77:
                s = self.live_slot(ty)
                d = s if r.random() < 0.4 else self.any_slot()
                i, j, k = self.idx3(P[s])
                if pan and P[s] is not None and P[s].capx is not None:
                    k = P[s].capx + 1
                if pan and r.random() < 0.5 and j < k:
                    j, k = k, j
                ok = self.emit(8, [ty, d, s, -1 if r.random() < 0.3 else i, j, k, 0])
            elif x < 0.79:
                ok = self.emit(9, [ty, self.live_slot(ty)])
            elif x < 0.85:
                s = self.live_slot(ty, 1)
                ln = slen(P[s])
                if ln == 0 and not pan:
                    continue
                i = ln + r.choice([0, 1]) if pan else r.choice([0, ln - 1, r.randrange(ln)])
                ok = self.emit(10, [ty, s, i, self.val()]) if r.random() < 0.7 else self.emit(11, [ty, s, i])
            elif x < 0.88:
                ok = self.emit(12, [ty, self.live_slot(ty), 0])
            elif x < 0.93:
                ok = self.gen_alias(ty)
            elif x < 0.955:
                s = self.live_slot(ty)
                n = r.choice([0, 1, 4])
                ok = self.emit(14, [ty, s, n, r.randrange(2), self.val()])
            elif x < 0.965:
                ok = self.emit(15, [ty, self.live_slot(ty), r.randrange(3)])
            elif x < 0.97:
                ok = self.emit(16, [ty, self.any_slot()])
            elif x < 0.98:
                ok = self.emit(17, [ty, self.any_slot(), self.live_slot(ty), 0])
            elif x < 0.995:
                i, j, k = sorted(r.randint(0, ARRN) for _ in range(3))
                form = r.randrange(6)
                if pan:
                    k = ARRN + 1
                    form = 5
                a = [(-1, -1, -1), (i, -1, -1), (-1, j, -1), (i, j, -1), (-1, j, k), (i, j, k)][form]
                ok = self.emit(18, [ty, self.any_slot(), a[0], a[1], a[2], 0])
            else:
                i = r.randrange(ARRN)
                ok = self.emit(19, [ty, self.any_slot(), i, r.randint(0, ARRN - i)])
            if ok:
                return True
        return False

    def gen_apps(self, ty):
        """d = append(a[:i], b[j:k]...) with a bias towards self-overlap in place"""
        r = self.r
        P = self.m.sl[ty]
        sa = self.live_slot(ty, 1)
        x = P[sa]
        ln, lo = slen(x), scaplo(x)
        mode = r.random()
        if mode < 0.45 and ln > 0:
            # delete / duplicate idiom on one slice: append(s[:i], s[j:]...)
            sb = sa
            i = r.randint(0, ln)
            j = r.randint(0, ln)
            k = ln if r.random() < 0.8 else r.randint(j, ln)
            d = sa if r.random() < 0.75 else self.any_slot()
            args = [ty, d, sa, i, sb, j, k, 0]
        elif mode < 0.55:
            # append(s, s...)
            d = sa if r.random() < 0.7 else self.any_slot()
            args = [ty, d, sa, -1, sa, -1, 0, 0]
        elif mode < 0.8:
            # another slot that may share the allocation
            same = [k for k, s in enumerate(P) if s is not None and x is not None and s.alloc == x.alloc and k != sa]
            sb = r.choice(same) if same and r.random() < 0.7 else self.live_slot(ty)
            y = P[sb]
            j, k, _ = self.idx3(y, allow_beyond=False)
            i = r.choice([-1, ln, r.randint(0, ln), r.randint(0, lo)])
            d = sa if r.random() < 0.6 else self.any_slot()
            args = [ty, d, sa, i, sb, j, k, 0]
        else:
            sb = self.live_slot(ty)
            d = sa if r.random() < 0.6 else self.any_slot()
            args = [ty, d, sa, -1, sb, -1, 0, 0]
        return self.emit(5, args)

    def gen_copy(self, ty, pan):
        r = self.r
        P = self.m.sl[ty]
        sa = self.live_slot(ty, 1)
        x = P[sa]
        same = [k for k, s in enumerate(P) if s is not None and x is not None and s.alloc == x.alloc]
        sb = r.choice(same) if same and r.random() < 0.65 else self.live_slot(ty)
        i, j, _ = self.idx3(x)
        k, l, _ = self.idx3(P[sb])
        if r.random() < 0.3:
            i, j = -1, 0
        if r.random() < 0.3:
            k, l = -1, 0
        if pan and x is not None and x.capx is not None:
            i, j = 0, x.capx + 1
        return self.emit(6, [ty, sa, i, j, sb, k, l])

    def gen_alias(self, ty):
        r = self.r
        P = self.m.sl[ty]
        sa = self.live_slot(ty, 1)
        x = P[sa]
        if slen(x) == 0:
            return False
        same = [k for k, s in enumerate(P) if s is not None and s.alloc == x.alloc and s.len > 0]
        sb = r.choice(same) if same and r.random() < 0.75 else self.live_slot(ty, 1)
        y = P[sb]
        if slen(y) == 0:
            return False
        i = r.randrange(x.len)
        j = r.randrange(y.len)
        if y.alloc == x.alloc and r.random() < 0.7:
            # aim at the same cell when the windows overlap
            lo = max(x.off, y.off)
            hi = min(x.off + x.len, y.off + y.len)
            if lo < hi:
                c = r.randrange(lo, hi)
                i, j = c - x.off, c - y.off
        return self.emit(13, [ty, sa, i, sb, j, self.val()])

    # ---- strings
    def rand_bytes(self):
        r = self.r
        k = r.random()
        if k < 0.08:
            return b""
        parts = []
        n = r.choice([1, 1, 2, 3, 4, 6, 10]) if self.regime < 2 else r.choice([1, 3, 20, 60, 130])
        for _ in range(n):
            q = r.random()
            if q < 0.35:
                parts.append(r.choice(VALID_UTF8))
            elif q < 0.7:
                parts.append(r.choice(INVALID_UTF8))
            elif q < 0.8:
                parts.append(bytes(r.randrange(256) for _ in range(r.randint(1, 4))))
            elif q < 0.9:
                parts.append(encode_rune(r.choice(RUNES)))
            else:
                parts.append(bytes(r.choice(b"abcxyz019 ") for _ in range(r.randint(1, 5))))
        return b"".join(parts)

    def sslot(self):
        return self.r.randrange(self.nslot)

    def str_step(self):
        r = self.r
        m = self.m
        for _ in range(30):
            x = r.random()
            pan = r.random() < 0.012
            a = self.sslot()
            b = self.sslot()
            d = self.sslot()
            sa = m.st[a]
            if x < 0.14:
                ok = self.emit(30, [d], hx=self.rand_bytes())
            elif x < 0.16:
                ok = self.emit(57, [d, r.randrange(len(CONSTS))])
            elif x < 0.24:
                ok = self.emit(31, [d, a, b])
            elif x < 0.28:
                n = r.choice([3, 4, 5, 6, 8])
                ok = self.emit(32, [d, n] + [self.sslot() for _ in range(n)])
            elif x < 0.40:
                if r.random() < 0.35 and sa.data is not None and sa.len:
                    # a near-miss neighbour of a: differs in the last byte / is a prefix / has one extra byte
                    t = bytearray(sa.data)
                    q = r.randrange(4)
                    if q == 0:
                        t[-1] = (t[-1] + r.choice([1, 255, 128])) & 255
                    elif q == 1:
                        t = t[:-1]
                    elif q == 2:
                        t.append(r.choice([0, 0x80, 0xff, 0x41]))
                    else:
                        t[r.randrange(len(t))] ^= r.choice([1, 0x80])
                    if not self.emit(30, [b], hx=bytes(t)):
                        continue
                ok = self.emit(33, [a, b if r.random() < 0.9 else a])
            elif x < 0.45:
                if sa.len is None:
                    ok = self.emit(51, [a, r.randrange(1000)])
                else:
                    if sa.len == 0 and not pan:
                        continue
                    i = sa.len + r.choice([0, 1]) if pan else r.choice([0, sa.len - 1, r.randrange(sa.len)])
                    ok = self.emit(34, [a, i])
            elif x < 0.55:
                if sa.len is None:
                    ok = self.emit(50, [d, a, r.randrange(1000), r.randrange(1000)])
                else:
                    i, j = sorted(r.choice([0, sa.len, r.randint(0, sa.len), r.randint(0, sa.len)]) for _ in range(2))
                    form = r.randrange(4)
                    if pan:
                        j = sa.len + 1
                        form = 3
                    ok = self.emit(35, [d, a, -1 if form in (0, 1) else i, -1 if form in (0, 2) else j])
            elif x < 0.67:
                ok = self.emit(36, [a, r.choice([0, 0, 0, 1, 2, 3])])
            elif x < 0.71:
                ok = self.emit(37, [self.any_slot(), a])
            elif x < 0.75:
                ok = self.emit(38, [d, self.live_slot(1)])
            elif x < 0.79:
                ok = self.emit(39, [self.any_slot(), a])
            elif x < 0.81:
                ok = self.emit(40, [d, self.live_slot(6)])
            elif x < 0.86:
                kind = r.randrange(len(I2S_KINDS))
                v = r.choice(RUNES) if r.random() < 0.7 else r.choice([r.randrange(0x110000), r.randrange(1 << 40), -r.randrange(1 << 40), (1 << 63) - 1, -(1 << 63), 0x100000041])
                ok = self.emit(41, [d, kind, v])
            elif x < 0.90:
                q = r.random()
                if q < 0.5:
                    ok = self.emit(42, [a, r.randrange(1000)])
                elif q < 0.85:
                    ok = self.emit(43, [a])
                elif q < 0.95:
                    ok = self.emit(44, [a])
                else:
                    ok = self.emit(45, [])
            elif x < 0.925:
                s = self.live_slot(1)
                dd = s if r.random() < 0.7 else self.any_slot()
                ok = self.emit(46, [dd, s, a, 0])
            elif x < 0.95:
                s = self.live_slot(1, 1)
                i, j, _ = self.idx3(m.sl[1][s])
                if sa.len is None:
                    continue
                k, l = sorted(r.randint(0, sa.len) for _ in range(2))
                if r.random() < 0.4:
                    i, j = -1, 0
                if r.random() < 0.4:
                    k, l = -1, 0
                ok = self.emit(47, [s, i, j, a, k, l])
            elif x < 0.965:
                ok = self.emit(49, [a])
            elif x < 0.975:
                n = r.choice([0, 1, 2, 3, 5, 8])
                ok = self.emit(52, [d, self.any_slot(), n] + [r.choice(RUNES) if r.random() < 0.8 else r.randrange(-5, 0x120000) for _ in range(n)])
            elif x < 0.985:
                ok = self.emit(53, [self.live_slot(1), a])
            elif x < 0.993:
                n = r.choice([0, 1, 2, 3, 10, 33]) if self.regime < 2 else r.choice([64, 130, 257, 300])
                ok = self.emit(55, [d, n, a if r.random() < 0.8 else d])
            else:
                ok = self.emit(58, [self.live_slot(1)])
            if ok:
                return True
        return False

    def script(self, sid):
        r = self.r
        self.m.reset()
        self.lines = []
        kind = r.random()
        self.regime = r.choice([0, 0, 0, 0, 1, 2, 2])
        self.nslot = r.choice([2, 3, 3, 4, 8])
        nsteps = r.choice([25, 35, 40, 45, 55]) if self.regime < 2 else r.choice([18, 25, 32])
        if kind < 0.58:
            tys = [r.randrange(6)] if r.random() < 0.7 else [r.randrange(7), r.randrange(7)]
            pstr = 0.0
        elif kind < 0.82:
            tys = [1, 6]
            pstr = 0.8
        else:
            tys = [1, 6, r.randrange(7)]
            pstr = 0.45
        for ty in tys:
            # start from something to work on: a made slice, a literal or an array window
            for _ in range(r.choice([1, 1, 2])):
                q = r.random()
                ln = self.length()
                if q < 0.6:
                    self.emit(1, [ty, self.any_slot(), ln, r.choice([-1, ln, ln + 1, ln + 3, 2 * ln, ln + 8]), 0])
                elif q < 0.8:
                    self.emit(2, [ty, self.any_slot(), r.choice([1, 2, 3, 5, 9, 10]), self.val(), 0])
                else:
                    i = r.randrange(ARRN)
                    self.emit(18, [ty, self.any_slot(), i, r.randint(i, ARRN), -1, 0])
        if pstr:
            for _ in range(2):
                self.emit(30, [self.sslot()], hx=self.rand_bytes())
        for _ in range(nsteps):
            if r.random() < pstr:
                self.str_step()
            else:
                self.slice_step(r.choice(tys))
        # closing dumps make late corruption visible
        for ty in sorted(dict.fromkeys(tys)):
            for k in range(self.nslot):
                if self.m.sl[ty][k] is not None:
                    self.emit(12, [ty, k, 0])
        if pstr:
            for k in range(self.nslot):
                if self.m.st[k].len != 0:
                    self.emit(48, [k])
        return ["0 %d" % sid] + self.lines


def gen_scripts(seed, first, count, avoid=(), ids=None):
    """list of scripts (each a list of lines, first line '0 <id>'); script i depends only on (seed, id, avoid)"""
    out = []
    for sid in (ids if ids is not None else range(first, first + count)):
        rng = random.Random(seed * 1000003 + sid * 7919 + 17)
        out.append(Gen(rng, avoid).script(sid))
    return out


if __name__ == "__main__":
    # c05_slices.py <seed> <first> <count> [avoid,...]   or   c05_slices.py <seed> ids <id,id,...> [avoid,...]
    seed = int(sys.argv[1])
    avoid = tuple(x for x in (sys.argv[4].split(",") if len(sys.argv) > 4 else []) if x)
    if sys.argv[2] == "ids":
        scs = gen_scripts(seed, 0, 0, avoid, ids=[int(x) for x in sys.argv[3].split(",") if x])
    else:
        scs = gen_scripts(seed, int(sys.argv[2]), int(sys.argv[3]), avoid)
    w = sys.stdout.write
    for sc in scs:
        w("\n".join(sc))
        w("\n")

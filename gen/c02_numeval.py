"""C02 generator: one Go program that evaluates every numeric operator / conversion over
operand tables it enumerates itself, printing one checksum per (unit, block of 4096 evaluations).
With dump=True every record is printed instead (used to extract the exact witness).

Pure function of (seed, tier): no hash(), no set iteration, no time."""
import random
import re

INTS = ["int8", "int16", "int32", "int64", "int", "uint8", "uint16", "uint32", "uint64", "uint", "uintptr"]
FLOATS = ["float32", "float64"]
CPLX = ["complex64", "complex128"]
BITS = {"int8": 8, "int16": 16, "int32": 32, "int64": 64, "int": 64, "uint8": 8, "uint16": 16,
        "uint32": 32, "uint64": 64, "uint": 64, "uintptr": 64}


def signed(t):
    return t.startswith("int")


def tmin(t):
    return -(1 << (BITS[t] - 1)) if signed(t) else 0


def tmax(t):
    return (1 << (BITS[t] - 1)) - 1 if signed(t) else (1 << BITS[t]) - 1


def wrap(t, v):
    w = BITS[t]
    v &= (1 << w) - 1
    if signed(t) and v >= 1 << (w - 1):
        v -= 1 << w
    return v


def boundary(t):
    """boundary set for type t (python ints, in range, deduplicated, ordered)"""
    w = BITS[t]
    c = [0, 1, 2, 3, 7, -1, -2, tmin(t), tmin(t) + 1, tmax(t), tmax(t) - 1]
    for k in range(1, w):
        c += [(1 << k) - 1, 1 << k, (1 << k) + 1]
        if signed(t):
            c += [-(1 << k), -(1 << k) - 1, -(1 << k) + 1]
    c += [0x5555555555555555 & ((1 << w) - 1), 0xAAAAAAAAAAAAAAAA & ((1 << w) - 1)]
    out = []
    for v in c:
        v = wrap(t, v)
        if v not in out:
            out.append(v)
    return out


def lit(t, v):
    """Go expression of type t with value v (no constant overflow)"""
    if v == tmin(t) and signed(t):
        return "%s(-%d)" % (t, -v)
    return "%s(%d)" % (t, v)


class Gen:
    def __init__(self, seed, tier, only=None, dump=False):
        self.rng = random.Random(seed * 7919 + 2)
        self.seed = seed
        self.tier = tier
        self.only = only
        self.dump = dump
        self.funcs = []   # source text of operator functions
        self.units = []   # (name, body lines, meta)
        self.nrand = 300 if tier == "quick" else 20000
        self.meta = {}

    # ---- operand tables
    def tables(self):
        o = []
        for t in INTS:
            b = boundary(t)
            full = list(b)
            if BITS[t] > 16:
                # short list for the inner dimension of wide cross products
                pass
            o.append("var bnd_%s = []%s{%s}" % (t, t, ", ".join(lit(t, v) for v in full)))
            small = [v for v in (0, 1, -1, 2, tmin(t), tmax(t), 0x55 if BITS[t] == 8 else 0x5555 & tmax(t), tmax(t) - 1, tmin(t) + 1, 3, 1 << (BITS[t] // 2)) if tmin(t) <= v <= tmax(t)]
            s2 = []
            for v in small:
                if v not in s2:
                    s2.append(v)
            o.append("var sm_%s = []%s{%s}" % (t, t, ", ".join(lit(t, v) for v in s2)))
        o.append("var fb64 = []float64{0, math.Copysign(0, -1), 1, -1, 0.5, -0.5, 1.5, 2.5, -2.5, 3.5, 1e-310, -1e-310, 4.9e-324, "
                 "2.2250738585072014e-308, math.MaxFloat64, -math.MaxFloat64, math.MaxFloat32, 1e39, -1e39, math.Inf(1), math.Inf(-1), math.NaN(), "
                 "9007199254740992, 9007199254740993, 9007199254740994, 16777216, 16777217, 16777218, 0.1, 0.2, 0.3, 1e15, 123456789.125, "
                 "3.4028235677973366e38, 3.4028234663852886e38, 1.401298464324817e-45, 7.006492321624085e-46, 1.1754943508222875e-38, "
                 "9223372036854775807, 9223372036854775808, 18446744073709551615, 4294967295, 4294967296, 2147483647.5, -2147483648.5, "
                 "0.49999999999999994, 1.0000000000000002, 0.9999999999999999, 65504, 33554431, 33554433, 1e308, 1e-308}")
        o.append("var fsm64 = []float64{0, math.Copysign(0, -1), 1, -1.5, 2.5, 1e-310, math.MaxFloat64, math.Inf(1), math.Inf(-1), math.NaN(), 3.4028235677973366e38, 0.1}")
        o.append("var fint = []float64{0, 0.5, -0.5, 0.999, -0.999, 1, -1, 1.5, -1.5, 2.5, -2.5, 100.9, -100.9, 126.5, 127, 127.9, -127.9, -128, -128.9, 128, 255, 255.9, 256, "
                 "32767, 32767.9, -32768, -32768.9, 32768, 65535, 65535.9, 65536, 2147483647, 2147483647.9, -2147483648, -2147483648.9, 2147483648, 4294967295, 4294967295.9, 4294967296, "
                 "9007199254740991, 9007199254740992, 9223372036854774784, -9223372036854775808, 9223372036854775808, 18446744073709549568, 18446744073709551616, "
                 "1e10, -1e10, 1e18, -1e18, 1e19, 16777215, 16777216, 16777217, 1e-300, -1e-300, 4.9e-324, 0.49999999999999994}")
        return o

    def add_unit(self, name, kind, desc, loop):
        """loop: Go statements that call e(<uint64 expr>) / rec for every operand tuple"""
        self.meta[name] = {"kind": kind, "desc": desc}
        if self.only is not None and name not in self.only:
            return
        self.units.append((name, loop))

    def fn(self, txt):
        self.funcs.append(txt)

    # PRNG draws inside the program: splitmix64 seeded per unit
    def rloop(self, t1, t2, body, n=None):
        """loop over n pseudo-random operand pairs of int types t1,t2: x,y bound"""
        n = n or self.nrand
        s = self.rng.getrandbits(63)
        y = "" if t2 is None else "y := %s(rnd(&s)); _ = y; " % t2
        return "{ s := uint64(%d); for i := 0; i < %d; i++ { x := %s(rnd(&s)); _ = x; %s%s } }" % (s, n, t1, y, body)

    def build(self):
        E = "s.add"
        # -------- integer binary, compare, unary
        for t in INTS:
            w = BITS[t]
            for opn, op in (("add", "+"), ("sub", "-"), ("mul", "*"), ("quo", "/"), ("rem", "%"), ("and", "&"), ("or", "|"), ("xor", "^"), ("andnot", "&^")):
                f = "b_%s_%s" % (opn, t)
                self.fn("//go:noinline\nfunc %s(a, b %s) %s { return a %s b }" % (f, t, t, op))
                call = "rec(s, uint64(x), uint64(y), func() uint64 { return uint64(%s(x, y)) })" % f
                if w == 8:
                    loop = "for a := 0; a < 256; a++ { for b := 0; b < 256; b++ { x, y := %s(a), %s(b); %s } }" % (t, t, call)
                else:
                    loop = "for _, x := range bnd_%s { for _, y := range bnd_%s { %s } }\n\t%s" % (t, t, call, self.rloop(t, t, call))
                self.add_unit(f, "bin", "%s: a %s b" % (t, op), loop)
            for opn, op in (("eq", "=="), ("ne", "!="), ("lt", "<"), ("le", "<="), ("gt", ">"), ("ge", ">=")):
                f = "c_%s_%s" % (opn, t)
                self.fn("//go:noinline\nfunc %s(a, b %s) bool { return a %s b }" % (f, t, op))
                call = "s.rec2(uint64(x), uint64(y), b2u(%s(x, y)))" % f
                if w == 8:
                    loop = "for a := 0; a < 256; a++ { for b := 0; b < 256; b++ { x, y := %s(a), %s(b); %s } }" % (t, t, call)
                else:
                    loop = "for _, x := range bnd_%s { for _, y := range bnd_%s { %s } }\n\t%s" % (t, t, call, self.rloop(t, t, call))
                self.add_unit(f, "cmp", "%s: a %s b" % (t, op), loop)
            for opn, op in (("neg", "-"), ("not", "^"), ("pos", "+")):
                f = "u_%s_%s" % (opn, t)
                self.fn("//go:noinline\nfunc %s(a %s) %s { return %sa }" % (f, t, t, op))
                call = "s.rec2(uint64(x), 0, uint64(%s(x)))" % f
                if w <= 16:
                    loop = "for a := 0; a < %d; a++ { x := %s(a); %s }" % (1 << w, t, call)
                else:
                    loop = "for _, x := range bnd_%s { %s }\n\t%s" % (t, call, self.rloop(t, None, call))
                self.add_unit(f, "un", "%s: %sa" % (t, op), loop)
            # constant right operands for / %
            cs = [1, 2, 3, 7, 10, tmax(t), tmax(t) - 1]
            if signed(t):
                cs += [-1, -2, -7, tmin(t), tmin(t) + 1]
            for ci, c in enumerate(cs):
                for opn, op in (("quo", "/"), ("rem", "%")):
                    f = "kr_%s_%s_%d" % (opn, t, ci)
                    self.fn("//go:noinline\nfunc %s(a %s) %s { return a %s %s }" % (f, t, t, op, lit(t, c)))
                    call = "rec(s, uint64(x), 0, func() uint64 { return uint64(%s(x)) })" % f
                    if w <= 16:
                        loop = "for a := 0; a < %d; a++ { x := %s(a); %s }" % (1 << w, t, call)
                    else:
                        loop = "for _, x := range bnd_%s { %s }\n\t%s" % (t, call, self.rloop(t, None, call))
                    self.add_unit(f, "kright", "%s: a %s %d" % (t, op, c), loop)
            # constant left operands for / % (divisor variable: zero must panic)
            cl = [0, 1, 7, tmax(t)] + ([-1, tmin(t)] if signed(t) else [])
            for ci, c in enumerate(cl):
                for opn, op in (("quo", "/"), ("rem", "%")):
                    f = "kl_%s_%s_%d" % (opn, t, ci)
                    self.fn("//go:noinline\nfunc %s(b %s) %s { return %s %s b }" % (f, t, t, lit(t, c), op))
                    call = "rec(s, uint64(x), 0, func() uint64 { return uint64(%s(x)) })" % f
                    if w <= 16:
                        loop = "for a := 0; a < %d; a++ { x := %s(a); %s }" % (1 << w, t, call)
                    else:
                        loop = "for _, x := range bnd_%s { %s }\n\t%s" % (t, call, self.rloop(t, None, call))
                    self.add_unit(f, "kleft", "%s: %d %s b" % (t, c, op), loop)
            # shifts: every count type, variable count
            for ct in INTS:
                cw = BITS[ct]
                for opn, op in (("shl", "<<"), ("shr", ">>")):
                    f = "s_%s_%s_%s" % (opn, t, ct)
                    self.fn("//go:noinline\nfunc %s(a %s, n %s) %s { return a %s n }" % (f, t, ct, t, op))
                    call = "rec(s, uint64(x), uint64(y), func() uint64 { return uint64(%s(x, y)) })" % f
                    xs = "for a := 0; a < 256; a++ { x := %s(a);" % t if w == 8 else "for _, x := range sm_%s {" % t
                    maxn = min(2 * w + 3, tmax(ct) + 1)
                    loop = "%s for n := 0; n < %d; n++ { y := %s(n); %s }; for _, y := range bnd_%s { %s } }" % (xs, maxn, ct, call, ct, call)
                    loop += "\n\t" + self.rloop(t, ct, call, n=max(50, self.nrand // 4))
                    self.add_unit(f, "shift", "%s %s %s(count)" % (t, op, ct), loop)
            # shifts with constant count (typed and untyped) and constant left operand
            ks = [0, 1, w // 2, w - 1, w, w + 1, 63, 64, 65, 127, 255, 256, 1 << 32, (1 << 63)]
            ks2 = []
            for k in ks:
                if k not in ks2:
                    ks2.append(k)
            for ki, k in enumerate(ks2):
                for opn, op in (("shl", "<<"), ("shr", ">>")):
                    f = "sk_%s_%s_%d" % (opn, t, ki)
                    self.fn("//go:noinline\nfunc %s(a %s) %s { return a %s %d }" % (f, t, t, op, k))
                    call = "s.rec2(uint64(x), %d, uint64(%s(x)))" % (k & 0xffffffffffffffff, f)
                    if w <= 16:
                        loop = "for a := 0; a < %d; a++ { x := %s(a); %s }" % (1 << w, t, call)
                    else:
                        loop = "for _, x := range bnd_%s { %s }" % (t, call)
                    self.add_unit(f, "shiftk", "%s: a %s %d" % (t, op, k), loop)
            for ci, c in enumerate([1, tmax(t), wrap(t, -1), tmin(t)]):
                for ct in ("uint8", "int", "uint64", "int16"):
                    for opn, op in (("shl", "<<"), ("shr", ">>")):
                        f = "sl_%s_%s_%s_%d" % (opn, t, ct, ci)
                        self.fn("//go:noinline\nfunc %s(n %s) %s { return %s %s n }" % (f, ct, t, lit(t, c), op))
                        call = "rec(s, uint64(y), 0, func() uint64 { return uint64(%s(y)) })" % f
                        maxn = min(2 * w + 3, tmax(ct) + 1)
                        loop = "for n := 0; n < %d; n++ { y := %s(n); %s }; for _, y := range bnd_%s { %s }" % (maxn, ct, call, ct, call)
                        self.add_unit(f, "shiftl", "%s: %d %s n(%s)" % (t, c, op, ct), loop)
            # conversions int -> every numeric type
            for dt in INTS + FLOATS:
                f = "cv_%s_%s" % (t, dt)
                self.fn("//go:noinline\nfunc %s(a %s) %s { return %s(a) }" % (f, t, dt, dt))
                call = "s.rec2(uint64(x), 0, %s)" % tobits(dt, "%s(x)" % f)
                if w <= 16:
                    loop = "for a := 0; a < %d; a++ { x := %s(a); %s }" % (1 << w, t, call)
                else:
                    loop = "for _, x := range bnd_%s { %s }\n\t%s" % (t, call, self.rloop(t, None, call, n=self.nrand * 2))
                self.add_unit(f, "conv", "%s(%s)" % (dt, t), loop)
        # -------- bool
        self.fn("//go:noinline\nfunc u_lnot(a bool) bool { return !a }")
        self.fn("//go:noinline\nfunc c_beq(a, b bool) bool { return a == b }")
        self.fn("//go:noinline\nfunc c_bne(a, b bool) bool { return a != b }")
        self.add_unit("u_lnot", "un", "!a", "for _, x := range []bool{false, true} { s.rec2(b2u(x), 0, b2u(u_lnot(x))) }")
        self.add_unit("c_beq", "cmp", "bool ==", "for _, x := range []bool{false, true} { for _, y := range []bool{false, true} { s.rec2(b2u(x), b2u(y), b2u(c_beq(x, y))); s.rec2(b2u(x), b2u(y), b2u(c_bne(x, y))) } }")
        # -------- floats
        for t in FLOATS:
            src = "fb64"
            fr = "fr32(&s)" if t == "float32" else "fr64(&s)"
            for opn, op in (("add", "+"), ("sub", "-"), ("mul", "*"), ("quo", "/")):
                f = "fb_%s_%s" % (opn, t)
                self.fn("//go:noinline\nfunc %s(a, b %s) %s { return a %s b }" % (f, t, t, op))
                call = "s.rec2(%s, %s, %s)" % (tobits(t, "x"), tobits(t, "y"), tobits(t, "%s(x, y)" % f))
                loop = "for _, a := range %s { for _, b := range %s { x, y := %s(a), %s(b); %s } }" % (src, src, t, t, call)
                loop += "\n\t{ s := uint64(%d); for i := 0; i < %d; i++ { x, y := %s, %s; %s } }" % (self.rng.getrandbits(63), self.nrand * 4, fr, fr, call.replace("s.rec2", "sk.rec2"))
                self.add_unit(f, "fbin", "%s: a %s b" % (t, op), loop.replace("sk.rec2", "sk.rec2"))
            for opn, op in (("eq", "=="), ("ne", "!="), ("lt", "<"), ("le", "<="), ("gt", ">"), ("ge", ">=")):
                f = "fc_%s_%s" % (opn, t)
                self.fn("//go:noinline\nfunc %s(a, b %s) bool { return a %s b }" % (f, t, op))
                call = "s.rec2(%s, %s, b2u(%s(x, y)))" % (tobits(t, "x"), tobits(t, "y"), f)
                loop = "for _, a := range %s { for _, b := range %s { x, y := %s(a), %s(b); %s } }" % (src, src, t, t, call)
                loop += "\n\t{ s := uint64(%d); for i := 0; i < %d; i++ { x, y := %s, %s; %s } }" % (self.rng.getrandbits(63), self.nrand * 2, fr, fr, call.replace("s.rec2", "sk.rec2"))
                self.add_unit(f, "fcmp", "%s: a %s b" % (t, op), loop)
            f = "fu_neg_%s" % t
            self.fn("//go:noinline\nfunc %s(a %s) %s { return -a }" % (f, t, t))
            call = "s.rec2(%s, 0, %s)" % (tobits(t, "x"), tobits(t, "%s(x)" % f))
            loop = "for _, a := range %s { x := %s(a); %s }" % (src, t, call)
            loop += "\n\t{ s := uint64(%d); for i := 0; i < %d; i++ { x := %s; %s } }" % (self.rng.getrandbits(63), self.nrand * 2, fr, call.replace("s.rec2", "sk.rec2"))
            self.add_unit(f, "fun", "%s: -a" % t, loop)
            # float -> int, representable values only (spec: otherwise implementation-defined)
            for dt in INTS:
                f = "fcv_%s_%s" % (t, dt)
                self.fn("//go:noinline\nfunc %s(a %s) %s { return %s(a) }" % (f, t, dt, dt))
                lo, hi = frange(dt)
                call = "if float64(x) > %s && float64(x) < %s { s.rec2(%s, 0, uint64(%s(x))) }" % (lo, hi, tobits(t, "x"), f)
                loop = "for _, a := range fint { x := %s(a); %s }" % (t, call)
                loop += "\n\t{ s := uint64(%d); for i := 0; i < %d; i++ { x := %s(fri(&s, %d)); %s } }" % (
                    self.rng.getrandbits(63), self.nrand * 2, t, BITS[dt], call.replace("s.rec2", "sk.rec2"))
                self.add_unit(f, "f2i", "%s(%s) representable" % (dt, t), loop)
            for dt in FLOATS:
                f = "ff_%s_%s" % (t, dt)
                self.fn("//go:noinline\nfunc %s(a %s) %s { return %s(a) }" % (f, t, dt, dt))
                call = "s.rec2(%s, 0, %s)" % (tobits(t, "x"), tobits(dt, "%s(x)" % f))
                loop = "for _, a := range %s { x := %s(a); %s }" % (src, t, call)
                loop += "\n\t{ s := uint64(%d); for i := 0; i < %d; i++ { x := %s; %s } }" % (self.rng.getrandbits(63), self.nrand * 4, fr, call.replace("s.rec2", "sk.rec2"))
                self.add_unit(f, "f2f", "%s(%s)" % (dt, t), loop)
        # -------- complex
        for t in CPLX:
            ft = "float32" if t == "complex64" else "float64"
            for opn, op in (("add", "+"), ("sub", "-"), ("mul", "*"), ("quo", "/")):
                f = "zb_%s_%s" % (opn, t)
                self.fn("//go:noinline\nfunc %s(a, b %s) %s { return a %s b }" % (f, t, t, op))
                if opn == "quo":
                    # spec is silent for non-finite operands/results: compare finiteness class only there
                    rec = "r := %s(x, y); if zfin(complex128(x)) && zfin(complex128(y)) && zfin(complex128(r)) && y != 0 { s.rec2(%s, %s, %s); s.rec2(0, 0, %s) } else { s.rec2(%s, %s, zclass(complex128(r))) }" % (
                        f, tobits(ft, "real(x)"), tobits(ft, "imag(x)"), tobits(ft, "real(r)"), tobits(ft, "imag(r)"), tobits(ft, "real(y)"), tobits(ft, "imag(y)"))
                elif opn == "mul" and t == "complex64":
                    # the spec leaves the intermediate precision of complex64 products open: gc computes them in
                    # float64 and rounds once, step-wise float32 arithmetic is equally valid IEEE behaviour.
                    # Accept exactly these two candidates (marker), otherwise record the raw bits.
                    rec = "r := %s(x, y); s.rec2(%s, %s, zmul64ok(x, y, r, true)); s.rec2(%s, %s, zmul64ok(x, y, r, false))" % (
                        f, tobits(ft, "real(x)"), tobits(ft, "imag(x)"), tobits(ft, "real(y)"), tobits(ft, "imag(y)"))
                else:
                    rec = "r := %s(x, y); s.rec2(%s, %s, %s); s.rec2(%s, %s, %s)" % (
                        f, tobits(ft, "real(x)"), tobits(ft, "imag(x)"), tobits(ft, "real(r)"), tobits(ft, "real(y)"), tobits(ft, "imag(y)"), tobits(ft, "imag(r)"))
                loop = "for _, a := range fsm64 { for _, b := range fsm64 { for _, c := range fsm64 { for _, d := range fsm64 { x, y := complex(%s(a), %s(b)), complex(%s(c), %s(d)); %s } } } }" % (ft, ft, ft, ft, rec)
                fr = "fr32(&s)" if ft == "float32" else "fr64(&s)"
                loop += "\n\t{ s := uint64(%d); for i := 0; i < %d; i++ { x, y := complex(%s, %s), complex(%s, %s); %s } }" % (
                    self.rng.getrandbits(63), self.nrand * 2, fr, fr, fr, fr, rec.replace("s.rec2", "sk.rec2"))
                self.add_unit(f, "zbin", "%s: a %s b" % (t, op), loop)
            for opn, op in (("eq", "=="), ("ne", "!=")):
                f = "zc_%s_%s" % (opn, t)
                self.fn("//go:noinline\nfunc %s(a, b %s) bool { return a %s b }" % (f, t, op))
                loop = "for _, a := range fsm64 { for _, b := range fsm64 { for _, c := range fsm64 { for _, d := range fsm64 { x, y := complex(%s(a), %s(b)), complex(%s(c), %s(d)); s.rec2(%s, %s, b2u(%s(x, y))) } } } }" % (
                    ft, ft, ft, ft, tobits(ft, "real(x)"), tobits(ft, "imag(y)"), f)
                self.add_unit(f, "zcmp", "%s: a %s b" % (t, op), loop)
            f = "zu_%s" % t
            self.fn("//go:noinline\nfunc %s_re(a %s) %s { return real(a) }\n//go:noinline\nfunc %s_im(a %s) %s { return imag(a) }\n//go:noinline\nfunc %s_mk(a, b %s) %s { return complex(a, b) }\n//go:noinline\nfunc %s_neg(a %s) %s { return -a }" % (
                f, t, ft, f, t, ft, f, ft, t, f, t, t))
            loop = "for _, a := range fb64 { for _, b := range fsm64 { z := %s_mk(%s(a), %s(b)); s.rec2(%s, %s, %s); s.rec2(0, 1, %s); n := %s_neg(z); s.rec2(0, 2, %s); s.rec2(0, 3, %s) } }" % (
                f, ft, ft, tobits(ft, "%s(a)" % ft), tobits(ft, "%s(b)" % ft), tobits(ft, "%s_re(z)" % f), tobits(ft, "%s_im(z)" % f), f, tobits(ft, "real(n)"), tobits(ft, "imag(n)"))
            self.add_unit(f, "zun", "%s: real imag complex -z" % t, loop)
            for dt in CPLX:
                f = "zz_%s_%s" % (t, dt)
                dft = "float32" if dt == "complex64" else "float64"
                self.fn("//go:noinline\nfunc %s(a %s) %s { return %s(a) }" % (f, t, dt, dt))
                loop = "for _, a := range fb64 { for _, b := range fsm64 { z := %s(complex(%s(a), %s(b))); s.rec2(%s, 0, %s); s.rec2(%s, 1, %s) } }" % (
                    f, ft, ft, tobits(ft, "%s(a)" % ft), tobits(dft, "real(z)"), tobits(ft, "%s(b)" % ft), tobits(dft, "imag(z)"))
                self.add_unit(f, "z2z", "%s(%s)" % (dt, t), loop)

    def source(self):
        self.build()
        o = ["// generated by gen/c02_numeval.py seed=%d tier=%s dump=%s" % (self.seed, self.tier, self.dump),
             "package main", "", 'import "math"', "", "var _ = math.Pi", ""]
        o += self.tables()
        o.append(RUNTIME.replace("DUMPMODE", "true" if self.dump else "false"))
        o += self.funcs
        for name, loop in self.units:
            # the outer sink is `s`; PRNG loops shadow s with the seed and use sk for the sink
            body = loop
            o.append("func unit_%s() {\n\tsk := newSink(%s)\n\ts := sk\n\t_ = s\n\t%s\n\tsk.flush()\n}" % (name, quote(name), fixsink(body)))
        o.append("func main() {")
        for name, _ in self.units:
            o.append("\tunit_%s()" % name)
        o.append('\tprintln("END", %d)' % len(self.units))
        o.append("}")
        return "\n".join(o) + "\n"

    def only_prefixes(self):
        r = []
        for u in self.only:
            r.append(u)
            if u.startswith("zu_"):
                r += [u + "_re", u + "_im", u + "_mk", u + "_neg"]
            if u == "c_beq":
                r.append("c_bne")
        return r


def fixsink(body):
    # inside `{ s := uint64(seed); ... }` blocks the sink must be referred to as sk; rec(s, ...) too
    out = []
    for part in body.split("\n\t"):
        if part.startswith("{ s := uint64("):
            part = re.sub(r"\bs\.rec2\(", "sk.rec2(", part.replace("rec(s,", "rec(sk,"))
        out.append(part)
    return "\n\t".join(out)


def quote(s):
    return '"' + s + '"'


def tobits(t, e):
    if t == "float64":
        return "f64b(%s)" % e
    if t == "float32":
        return "f32b(%s)" % e
    return "uint64(%s)" % e


def frange(dt):
    """(lo, hi) exclusive float64 literal bounds within which trunc(f) is representable in dt"""
    w = BITS[dt]
    if signed(dt):
        if w == 64:
            return "-9223372036854777856.0", "9223372036854775808.0"
        return "%d.0" % (-(1 << (w - 1)) - 1), "%d.0" % (1 << (w - 1))
    if w == 64:
        return "-1.0", "18446744073709551616.0"
    return "-1.0", "%d.0" % (1 << w)


RUNTIME = r'''
const dumpMode = DUMPMODE

type sink struct {
	id  string
	h   uint64
	n   int
	blk int
}

func newSink(id string) *sink { return &sink{id: id, h: 14695981039346656037} }

func (s *sink) add(a, b, r uint64) {
	if dumpMode {
		println("R", s.id, a, b, r)
	}
	s.h = (s.h ^ r) * 1099511628211
	s.n++
	if s.n == 4096 {
		s.flush()
	}
}

func (s *sink) rec2(a, b, r uint64) { s.add(a, b, r) }

func (s *sink) flush() {
	if s.n > 0 {
		println("B", s.id, s.blk, s.n, s.h)
		s.blk++
		s.n = 0
		s.h = 14695981039346656037
	}
}

func classify(v any) uint64 {
	msg := ""
	switch e := v.(type) {
	case error:
		msg = e.Error()
	case string:
		msg = e
	}
	if has(msg, "divide by zero") {
		return 0xDEAD000000000001
	}
	if has(msg, "negative shift") {
		return 0xDEAD000000000002
	}
	return 0xDEAD0000000000FF
}

func has(s, sub string) bool {
	for i := 0; i+len(sub) <= len(s); i++ {
		if s[i:i+len(sub)] == sub {
			return true
		}
	}
	return false
}

func rec(s *sink, a, b uint64, f func() uint64) {
	var r uint64
	func() {
		defer func() {
			if v := recover(); v != nil {
				r = classify(v)
			}
		}()
		r = f()
	}()
	s.add(a, b, r)
}

func b2u(b bool) uint64 {
	if b {
		return 1
	}
	return 0
}

func f64b(f float64) uint64 {
	if f != f {
		return 0x7ff8000000000001
	}
	return math.Float64bits(f)
}

func f32b(f float32) uint64 {
	if f != f {
		return 0x7fc00001
	}
	return uint64(math.Float32bits(f))
}

func rnd(s *uint64) uint64 {
	*s += 0x9e3779b97f4a7c15
	z := *s
	z = (z ^ (z >> 30)) * 0xbf58476d1ce4e5b9
	z = (z ^ (z >> 27)) * 0x94d049bb133111eb
	z ^= z >> 31
	// bias towards small magnitudes / boundary bit patterns
	switch z & 7 {
	case 0:
		return z >> 56
	case 1:
		return ^(z >> 56)
	case 2:
		return z >> 32
	case 3:
		return uint64(1)<<((z>>8)&63) + (z>>16)&3 - 1
	}
	return z
}

// random float64 from a random bit pattern (all exponents, incl. NaN/Inf/denormals)
func fr64(s *uint64) float64 { return math.Float64frombits(rnd(s)) }
func fr32(s *uint64) float32 { return math.Float32frombits(uint32(rnd(s) >> 7)) }

// random float with magnitude around 2^bits (for float->int conversions)
func fri(s *uint64, bits int) float64 {
	z := rnd(s)
	m := float64(z>>11) / float64(uint64(1)<<53) // [0,1)
	e := int((z >> 3) % uint64(bits+2))
	f := math.Ldexp(1+m, e) - 1
	if z&1 == 1 {
		f = -f
	}
	return f
}

func zfin(z complex128) bool {
	r, i := real(z), imag(z)
	return r == r && i == i && r-r == 0 && i-i == 0
}

func zmul64ok(x, y, r complex64, re bool) uint64 {
	xr, xi, yr, yi := real(x), imag(x), real(y), imag(y)
	var c32, c64, got float32
	if re {
		c32 = float32(float32(xr*yr) - float32(xi*yi))
		c64 = float32(float64(xr)*float64(yr) - float64(xi)*float64(yi))
		got = real(r)
	} else {
		c32 = float32(float32(xr*yi) + float32(xi*yr))
		c64 = float32(float64(xr)*float64(yi) + float64(xi)*float64(yr))
		got = imag(r)
	}
	if f32b(got) == f32b(c32) || f32b(got) == f32b(c64) {
		return 0xC0FFEE
	}
	return f32b(got)
}

func zclass(z complex128) uint64 {
	if zfin(z) {
		return 0xC1A55000000000F1
	}
	return 0xC1A55000000000F0
}
'''


def generate(seed, tier, only=None, dump=False):
    g = Gen(seed, tier, only=only, dump=dump)
    src = g.source()
    return src, g.meta, [u[0] for u in g.units]


if __name__ == "__main__":
    import sys
    s, m, u = generate(int(sys.argv[1]) if len(sys.argv) > 1 else 1, sys.argv[2] if len(sys.argv) > 2 else "quick")
    sys.stdout.write(s)
